//! Observations of the second-generation (delta) front end.

use crate::unescape;
use penne::delta::lexer::{self, BaseToken, ValueTypeKeyword};

fn vt_name(v: ValueTypeKeyword) -> String
{
	v.to_string()
}

/// canonical dump of the second-generation lexer's tokens (same format as `lexa`)
pub fn dump_delta_tokens(source: &[u8], tokens: &lexer::tokens::Tokens) -> String
{
	let mut out = Vec::new();
	let errors: Vec<u16> = match tokens.errors()
	{
		Some(es) => es.codes(),
		None => vec![],
	};
	let mut next_error = 0;
	let base = tokens.base_tokens();
	let mut id = tokens.first_token_id();
	for (i, b) in base.iter().enumerate()
	{
		if i > 0
		{
			tokens.advance(&mut id);
		}
		if *b == BaseToken::EndOfSource
		{
			continue;
		}
		let loc = tokens.get_location(id);
		let span = loc.span.clone();
		let textb = source.get(span.clone()).unwrap_or(&[]);
		let textstr = String::from_utf8_lossy(textb).to_string();
		let vap = tokens.get_value_type_and_payload(id);
		let payload = tokens.get_integer_payload(vap.payload_id());
		let k = match b
		{
			BaseToken::Identifier => format!("I{}", textstr),
			BaseToken::Builtin => format!("B{}", textstr.trim_end_matches('!')),
			BaseToken::NakedDecimal => format!("D{}", payload.map(|p| p.to_string()).unwrap_or("?".into())),
			BaseToken::BitInteger => format!("X{}", payload.map(|p| p.to_string()).unwrap_or("?".into())),
			BaseToken::SuffixedInteger => format!(
				"F{}:{}",
				payload.map(|p| p.to_string()).unwrap_or("?".into()),
				vt_name(vap.value_type())
			),
			BaseToken::CharLiteral => format!("C{}", payload.map(|p| p.to_string()).unwrap_or("?".into())),
			BaseToken::BoolLiteral => format!("L{}", payload.map(|p| p.to_string()).unwrap_or("?".into())),
			BaseToken::StringLiteral => "Q".to_string(),
			BaseToken::ValueTypeKeyword => format!("T{}", vt_name(vap.value_type())),
			BaseToken::Error =>
			{
				let c = errors.get(next_error).copied().unwrap_or(0);
				next_error += 1;
				format!("E{}", c)
			}
			BaseToken::Placeholder => "K_".to_string(),
			BaseToken::BraceLeft => "S{".to_string(),
			BaseToken::BraceRight => "S}".to_string(),
			other =>
			{
				let name = other.to_string();
				if name.chars().all(|c| c.is_ascii_alphanumeric())
				{
					format!("K{}", name)
				}
				else
				{
					format!("S{}", name)
				}
			}
		};
		out.push(format!("{}@{}-{}/{}:{}", k, span.start, span.end, loc.line_number, loc.line_offset));
	}
	if let Some(es) = tokens.errors()
	{
		if base.is_empty()
		{
			// empty_with_one_error
			out.push(format!("E{}@only", es.codes().first().copied().unwrap_or(0)));
		}
	}
	out.join(" ")
}

/// lexd <bytes>
pub fn lexd(fields: &[&str]) -> String
{
	let src = unescape(fields.get(0).copied().unwrap_or(""));
	let tokens = lexer::lex(&src, "f.pn");
	dump_delta_tokens(&src, &tokens)
}
/// delta <mode> <bytes>: the second-generation front end: lex -> parse -> errors / build_header / as_xml.
/// mode: front (counts and codes) | xml (+ XML dumps as hex) | dump (+ Debug dump of the flat node arrays)
pub fn delta(fields: &[&str]) -> String
{
	let mode = fields.get(0).copied().unwrap_or("front");
	let src = unescape(fields.get(1).copied().unwrap_or(""));
	let tokens = lexer::lex(&src, "f.pn");
	let ntok = tokens.base_tokens().len();
	// the diagnostics are rendered as the second-generation command line renders them (byte offsets)
	let render = |errors: &penne::alpha::error::Errors| -> String {
		match std::str::from_utf8(&src)
		{
			Ok(text) =>
			{
				let units = vec![("f.pn".to_string(), text.to_string())];
				match crate::alpha_ops::render_all_indexed(&errors.errors, &units, ariadne::IndexType::Byte)
				{
					Ok((n, _)) => format!("ok:{}", n),
					Err(e) => format!("FAIL[{}]", e.replace(' ', "_")),
				}
			}
			Err(_) => "skipped-invalid-utf8".to_string(),
		}
	};
	if let Some(errors) = tokens.errors()
	{
		return format!("lexerr tokens={} codes={} render={}", ntok, crate::codes_str(&errors.codes()), render(&errors));
	}
	let tree = penne::delta::parser::parse(&tokens);
	let mut out = format!(
		"tokens={} nodes={} decls={}",
		ntok,
		tree.num_parse_nodes(),
		tree.num_declarations()
	);
	if let Some(errors) = tree.errors(&tokens)
	{
		return format!("parseerr {} codes={} render={}", out, crate::codes_str(&errors.codes()), render(&errors));
	}
	let header = tree.build_header();
	out.push_str(&format!(" hnodes={} hdecls={}", header.num_parse_nodes(), header.num_declarations()));
	if let Ok(text) = std::str::from_utf8(&src)
	{
		let xml: Vec<String> = tree.as_xml(&tokens, text).collect();
		let hxml: Vec<String> = header.as_xml(&tokens, text).collect();
		let malformed = xml.iter().chain(hxml.iter()).filter(|l| l.contains("MALFORMED")).count();
		out.push_str(&format!(" xmllines={} hxmllines={} malformed={}", xml.len(), hxml.len(), malformed));
		if mode == "xml" || mode == "dump"
		{
			out.push_str(&format!(
				" xml=h:{} hxml=h:{}",
				crate::hex(xml.join("\n").as_bytes()),
				crate::hex(hxml.join("\n").as_bytes())
			));
		}
	}
	else
	{
		out.push_str(" notutf8");
	}
	if mode == "dump"
	{
		out.push_str(&format!(
			" tree=h:{} header=h:{}",
			crate::hex(format!("{:?}", tree).as_bytes()),
			crate::hex(format!("{:?}", header).as_bytes())
		));
	}
	format!("ok {}", out)
}

/// variant names of the elements of the `nodes: [...]` list in a ParseTree Debug dump
fn node_tags(debug: &str) -> Vec<String>
{
	let start = match debug.find("nodes: [")
	{
		Some(i) => i + "nodes: [".len(),
		None => return vec![],
	};
	let mut depth = 0i32;
	let mut tags = Vec::new();
	let mut cur = String::new();
	let mut at_start = true;
	for ch in debug[start..].chars()
	{
		match ch
		{
			'(' | '[' | '{' => depth += 1,
			')' | ']' | '}' =>
			{
				if depth == 0
				{
					break;
				}
				depth -= 1;
			}
			_ => (),
		}
		if depth == 0 && ch == ','
		{
			if !cur.is_empty()
			{
				tags.push(std::mem::take(&mut cur));
			}
			at_start = true;
			continue;
		}
		if at_start
		{
			if ch.is_ascii_alphanumeric()
			{
				cur.push(ch);
			}
			else if !cur.is_empty()
			{
				at_start = false;
			}
		}
	}
	if !cur.is_empty()
	{
		tags.push(cur);
	}
	tags
}

/// dparse <bytes>: token kinds, node variant sequence (also after parse errors), declaration count and codes
pub fn dparse(fields: &[&str]) -> String
{
	let src = unescape(fields.get(0).copied().unwrap_or(""));
	let tokens = lexer::lex(&src, "f.pn");
	let kinds: Vec<String> = tokens.base_tokens().iter().map(|b| format!("{:?}", b)).collect();
	if let Some(errors) = tokens.errors()
	{
		return format!("lexerr tokens={} codes={}", kinds.len(), crate::codes_str(&errors.codes()));
	}
	let tree = penne::delta::parser::parse(&tokens);
	let codes = match tree.errors(&tokens)
	{
		Some(e) => crate::codes_str(&e.codes()),
		None => String::new(),
	};
	let tags = node_tags(&format!("{:?}", tree));
	format!(
		"ok tokens={} nodes={} decls={} codes={} kinds={} tags={}",
		kinds.len(),
		tree.num_parse_nodes(),
		tree.num_declarations(),
		codes,
		kinds.join(","),
		tags.join(",")
	)
}

/// dbig <functions> <statements> <statement>: a module of that many functions with that many copies of the statement
/// each (built here, so that sources of tens of megabytes need not cross the pipe), lexed and parsed: the counts only.
/// For the limits of the 24-bit token and node numbers.
pub fn dbig(fields: &[&str]) -> String
{
	let functions: usize = fields.get(0).and_then(|x| x.parse().ok()).unwrap_or(1);
	let statements: usize = fields.get(1).and_then(|x| x.parse().ok()).unwrap_or(1);
	let statement = unescape(fields.get(2).copied().unwrap_or(""));
	let mut src: Vec<u8> = Vec::with_capacity(functions * (statements * statement.len() + 16));
	for _ in 0..functions
	{
		src.extend_from_slice(b"fn f()\n{\n");
		for _ in 0..statements
		{
			src.extend_from_slice(&statement);
		}
		src.extend_from_slice(b"}\n");
	}
	let tokens = lexer::lex(&src, "f.pn");
	let num_tokens = tokens.base_tokens().len();
	if let Some(errors) = tokens.errors()
	{
		return format!("lexerr len={} tokens={} codes={}", src.len(), num_tokens, crate::codes_str(&errors.codes()));
	}
	let tree = penne::delta::parser::parse(&tokens);
	let codes = match tree.errors(&tokens)
	{
		Some(e) => crate::codes_str(&e.codes()),
		None => String::new(),
	};
	format!(
		"ok len={} tokens={} nodes={} decls={} codes={}",
		src.len(),
		num_tokens,
		tree.num_parse_nodes(),
		tree.num_declarations(),
		codes
	)
}

/// dtokens <bytes>: the second-generation token stream in the wire format of the Lean syntax model:
/// `Kind:hex(text):value:type` separated by spaces; text = identifier / builtin name, literal spelling,
/// body of a string literal
pub fn dtokens(fields: &[&str]) -> String
{
	let src = unescape(fields.get(0).copied().unwrap_or(""));
	let tokens = lexer::lex(&src, "f.pn");
	if let Some(errors) = tokens.errors()
	{
		return format!("lexerr codes={}", crate::codes_str(&errors.codes()));
	}
	let mut out = Vec::new();
	let mut id = tokens.first_token_id();
	for (i, b) in tokens.base_tokens().iter().enumerate()
	{
		if i > 0
		{
			tokens.advance(&mut id);
		}
		let loc = tokens.get_location(id);
		let textb = src.get(loc.span.clone()).unwrap_or(&[]);
		let mut text = String::from_utf8_lossy(textb).to_string();
		let vap = tokens.get_value_type_and_payload(id);
		let payload = tokens.get_integer_payload(vap.payload_id()).unwrap_or(0);
		let mut vt = String::new();
		match b
		{
			BaseToken::EndOfSource => text.clear(),
			BaseToken::Builtin => text = text.trim_end_matches('!').to_string(),
			BaseToken::StringLiteral =>
			{
				let inner = text.strip_prefix('"').unwrap_or(&text);
				let inner = inner.strip_suffix('"').unwrap_or(inner);
				text = inner.to_string();
			}
			BaseToken::ValueTypeKeyword | BaseToken::SuffixedInteger => vt = vt_name(vap.value_type()),
			_ => (),
		}
		out.push(format!("{:?}:{}:{}:{}", b, crate::hex(text.as_bytes()), payload, vt));
	}
	format!("ok {}", out.join(" "))
}
/// fuzz <kb>: exactly what `penne fuzz tokens --kb <kb>` does (src/main.rs: do_fuzzing), then both real lexers
pub fn fuzz(fields: &[&str]) -> String
{
	let kb: usize = fields.get(0).and_then(|x| x.parse().ok()).unwrap_or(1);
	let capacity = kb * 1096;
	let mut buffer = String::with_capacity(capacity);
	if let Err(e) = penne::delta::fuzzer::fill_to_capacity_with_tokens(95, &mut buffer, 0)
	{
		return format!("internal {}", e);
	}
	let alpha = penne::alpha::lexer::lex(&buffer, "fuzz.pn");
	let alpha_errs: Vec<String> = alpha
		.iter()
		.filter_map(|t| match &t.result
		{
			Err(e) => Some(format!(
				"{}@{}",
				crate::alpha_ops::lex_error_code(e),
				t.location.span.start
			)),
			Ok(_) => None,
		})
		.collect();
	let tokens = lexer::lex(buffer.as_bytes(), "fuzz.pn");
	let delta_errs: Vec<String> = match tokens.errors()
	{
		Some(es) => es.codes().iter().map(|c| c.to_string()).collect(),
		None => vec![],
	};
	format!(
		"len={} kb={} alpha_errs={} delta_errs={} text=h:{}",
		buffer.len(),
		kb,
		alpha_errs.join(","),
		delta_errs.join(","),
		crate::hex(buffer.as_bytes())
	)
}
