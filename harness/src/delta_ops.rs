//! Observations of the second-generation (delta) front end.

pub fn lexd(_fields: &[&str]) -> String
{
	"todo".into()
}
pub fn delta(_fields: &[&str]) -> String
{
	"todo".into()
}
pub fn fuzz(_fields: &[&str]) -> String
{
	"todo".into()
}
