//! Canonical S-expressions of the first-generation syntax tree, and the rebuild round trip.

use crate::{hex, unescape};
use penne::alpha::common::*;
use penne::alpha::rebuilder;
use penne::alpha::value_type::ValueType as VT;
use penne::alpha::{lexer, parser};

struct Ser
{
	out: String,
	poisoned: bool,
}

fn flags_str<I: IntoIterator<Item = DeclarationFlag>>(flags: I) -> String
{
	let v: Vec<String> = flags.into_iter().map(|f| format!("{:?}", f)).collect();
	if v.is_empty()
	{
		"_".to_string()
	}
	else
	{
		v.join("|")
	}
}

impl Ser
{
	fn poison(&mut self)
	{
		self.poisoned = true;
		self.out.push_str("(poison)");
	}

	fn ident(&mut self, id: &Identifier)
	{
		self.out.push_str(&id.name);
	}

	fn pident(&mut self, id: &Poisonable<Identifier>)
	{
		match id
		{
			Ok(id) => self.ident(id),
			Err(_) => self.poison(),
		}
	}

	fn ty(&mut self, t: &ValueType)
	{
		match t
		{
			VT::Void => self.out.push_str("(simple void)"),
			VT::Int8 => self.out.push_str("(simple i8)"),
			VT::Int16 => self.out.push_str("(simple i16)"),
			VT::Int32 => self.out.push_str("(simple i32)"),
			VT::Int64 => self.out.push_str("(simple i64)"),
			VT::Int128 => self.out.push_str("(simple i128)"),
			VT::Uint8 => self.out.push_str("(simple u8)"),
			VT::Uint16 => self.out.push_str("(simple u16)"),
			VT::Uint32 => self.out.push_str("(simple u32)"),
			VT::Uint64 => self.out.push_str("(simple u64)"),
			VT::Uint128 => self.out.push_str("(simple u128)"),
			VT::Usize => self.out.push_str("(simple usize)"),
			VT::Char8 => self.out.push_str("(simple char8)"),
			VT::Bool => self.out.push_str("(simple bool)"),
			VT::Array { element_type, length } =>
			{
				self.out.push_str(&format!("(array {} ", length));
				self.ty(element_type);
				self.out.push(')');
			}
			VT::ArrayWithNamedLength { element_type, named_length } =>
			{
				self.out.push_str("(arraynamed ");
				self.ident(named_length);
				self.out.push(' ');
				self.ty(element_type);
				self.out.push(')');
			}
			VT::Slice { element_type } => self.wrap("slice", element_type),
			VT::SlicePointer { element_type } => self.wrap("slicepointer", element_type),
			VT::EndlessArray { element_type } => self.wrap("endless", element_type),
			VT::Arraylike { element_type } => self.wrap("arraylike", element_type),
			VT::Struct { identifier } =>
			{
				self.out.push_str("(named ");
				self.ident(identifier);
				self.out.push(')');
			}
			VT::Word { identifier, .. } =>
			{
				self.out.push_str("(named ");
				self.ident(identifier);
				self.out.push(')');
			}
			VT::UnresolvedStructOrWord { identifier } =>
			{
				self.out.push_str("(named ");
				match identifier
				{
					Some(i) => self.ident(i),
					None => self.out.push('?'),
				}
				self.out.push(')');
			}
			VT::Pointer { deref_type } => self.wrap("ptr", deref_type),
			VT::View { deref_type } => self.wrap("view", deref_type),
		}
	}

	fn wrap(&mut self, tag: &str, inner: &ValueType)
	{
		self.out.push_str(&format!("({} ", tag));
		self.ty(inner);
		self.out.push(')');
	}

	fn pty(&mut self, t: &Poisonable<ValueType>)
	{
		match t
		{
			Ok(t) => self.ty(t),
			Err(_) => self.poison(),
		}
	}

	fn reference(&mut self, tag: &str, r: &Reference)
	{
		self.out.push_str(&format!("({} {} ", tag, r.address_depth));
		self.pident(&r.base);
		self.out.push_str(" (steps");
		for step in &r.steps
		{
			match step
			{
				ReferenceStep::Element { argument, .. } =>
				{
					self.out.push_str(" (elem ");
					self.expr(argument);
					self.out.push(')');
				}
				ReferenceStep::Member { member, .. } =>
				{
					self.out.push_str(" (member ");
					self.ident(member);
					self.out.push(')');
				}
				other => self.out.push_str(&format!(" (auto {:?})", other)),
			}
		}
		self.out.push_str("))");
	}

	fn exprs(&mut self, es: &[Expression])
	{
		for e in es
		{
			self.out.push(' ');
			self.expr(e);
		}
	}

	fn lit_ty(&mut self, t: &Option<Poisonable<ValueType>>)
	{
		match t
		{
			None => self.out.push('_'),
			Some(Ok(t)) => self.ty(t),
			Some(Err(_)) => self.poison(),
		}
	}

	fn expr(&mut self, e: &Expression)
	{
		match e
		{
			Expression::Binary { op, left, right, .. } =>
			{
				self.out.push_str(&format!("(bin {:?} ", op));
				self.expr(left);
				self.out.push(' ');
				self.expr(right);
				self.out.push(')');
			}
			Expression::Unary { op, expression, .. } =>
			{
				self.out.push_str(&format!("(un {:?} ", op));
				self.expr(expression);
				self.out.push(')');
			}
			Expression::BooleanLiteral { value, .. } => self.out.push_str(&format!("(bool {})", *value as u8)),
			Expression::SignedIntegerLiteral { value, value_type, .. } =>
			{
				self.out.push_str(&format!("(int {} ", value));
				self.lit_ty(value_type);
				self.out.push(')');
			}
			Expression::BitIntegerLiteral { value, value_type, .. } =>
			{
				self.out.push_str(&format!("(int {} ", value));
				self.lit_ty(value_type);
				self.out.push(')');
			}
			Expression::StringLiteral { bytes, .. } => self.out.push_str(&format!("(str h{})", hex(bytes))),
			Expression::ArrayLiteral { array, .. } =>
			{
				self.out.push_str("(array");
				self.exprs(&array.elements);
				self.out.push(')');
			}
			Expression::Structural { members, structural_type, .. } =>
			{
				self.out.push_str("(structural ");
				self.pty(structural_type);
				for m in members
				{
					self.out.push_str(" (f ");
					self.pident(&m.name);
					self.out.push(' ');
					self.expr(&m.expression);
					self.out.push(')');
				}
				self.out.push(')');
			}
			Expression::Parenthesized { inner, .. } =>
			{
				self.out.push_str("(paren ");
				self.expr(inner);
				self.out.push(')');
			}
			Expression::Deref { reference, .. } => self.reference("deref", reference),
			Expression::Autocoerce { expression, .. } =>
			{
				self.out.push_str("(autocoerce ");
				self.expr(expression);
				self.out.push(')');
			}
			Expression::BitCast { expression, .. } =>
			{
				self.out.push_str("(bitcast ");
				self.expr(expression);
				self.out.push(')');
			}
			Expression::TypeCast { expression, coerced_type, .. } =>
			{
				self.out.push_str("(typecast ");
				self.expr(expression);
				self.out.push(' ');
				self.ty(coerced_type);
				self.out.push(')');
			}
			Expression::LengthOfArray { reference, .. } => self.reference("lengthof", reference),
			Expression::SizeOf { queried_type, .. } =>
			{
				self.out.push_str("(sizeof ");
				self.ty(queried_type);
				self.out.push(')');
			}
			Expression::FunctionCall { name, builtin, arguments, .. } =>
			{
				self.out.push_str(&format!("(call {} {}", name.name, builtin.is_some() as u8));
				self.exprs(arguments);
				self.out.push(')');
			}
			Expression::Poison(_) => self.poison(),
		}
	}

	fn stmts(&mut self, ss: &[Statement])
	{
		for s in ss
		{
			self.out.push(' ');
			self.stmt(s);
		}
	}

	fn stmt(&mut self, s: &Statement)
	{
		match s
		{
			Statement::Declaration { name, value, value_type, .. } =>
			{
				self.out.push_str(&format!("(var {} ", name.name));
				match value_type
				{
					None => self.out.push('_'),
					Some(t) => self.pty(t),
				}
				self.out.push(' ');
				match value
				{
					None => self.out.push('_'),
					Some(e) => self.expr(e),
				}
				self.out.push(')');
			}
			Statement::Assignment { reference, value, .. } =>
			{
				self.out.push_str("(assign ");
				self.reference("ref", reference);
				self.out.push(' ');
				self.expr(value);
				self.out.push(')');
			}
			Statement::MethodCall { name, builtin, arguments } =>
			{
				self.out.push_str(&format!("(mcall {} {}", name.name, builtin.is_some() as u8));
				self.exprs(arguments);
				self.out.push(')');
			}
			Statement::Loop { .. } => self.out.push_str("(loop)"),
			Statement::Goto { label, .. } => self.out.push_str(&format!("(goto {})", label.name)),
			Statement::Label { label, .. } => self.out.push_str(&format!("(label {})", label.name)),
			Statement::If { condition, then_branch, else_branch, .. } =>
			{
				self.out.push_str(&format!("(if (cmp {:?} ", condition.op));
				self.expr(&condition.left);
				self.out.push(' ');
				self.expr(&condition.right);
				self.out.push_str(") ");
				self.stmt(then_branch);
				if let Some(e) = else_branch
				{
					self.out.push(' ');
					self.stmt(&e.branch);
				}
				self.out.push(')');
			}
			Statement::Block(block) =>
			{
				self.out.push_str("(block");
				self.stmts(&block.statements);
				self.out.push(')');
			}
			Statement::Poison(_) => self.poison(),
		}
	}

	fn params(&mut self, ps: &[Parameter])
	{
		self.out.push_str("(params");
		for p in ps
		{
			self.out.push_str(" (p ");
			self.pident(&p.name);
			self.out.push(' ');
			self.pty(&p.value_type);
			self.out.push(')');
		}
		self.out.push(')');
	}

	fn decl(&mut self, d: &Declaration)
	{
		match d
		{
			Declaration::Constant { name, value, value_type, flags, .. } =>
			{
				self.out.push_str(&format!("(const {} {} ", flags_str(*flags), name.name));
				self.pty(value_type);
				self.out.push(' ');
				self.expr(value);
				self.out.push(')');
			}
			Declaration::Function { name, parameters, body, return_type, flags, .. } =>
			{
				self.out.push_str(&format!("(fn {} {} ", flags_str(*flags), name.name));
				self.params(parameters);
				self.out.push(' ');
				self.pty(return_type);
				match body
				{
					Ok(body) =>
					{
						self.out.push_str(" (body (stmts");
						self.stmts(&body.statements);
						self.out.push_str(") ");
						match &body.return_value
						{
							Some(e) => self.expr(e),
							None => self.out.push('_'),
						}
						self.out.push(')');
					}
					Err(_) =>
					{
						self.out.push(' ');
						self.poison();
					}
				}
				self.out.push(')');
			}
			Declaration::FunctionHead { name, parameters, return_type, flags, .. } =>
			{
				self.out.push_str(&format!("(fn {} {} ", flags_str(*flags), name.name));
				self.params(parameters);
				self.out.push(' ');
				self.pty(return_type);
				self.out.push_str(" _)");
			}
			Declaration::Structure { name, members, structural_type, flags, .. } =>
			{
				let size = match structural_type
				{
					Ok(VT::Word { size_in_bytes, .. }) => *size_in_bytes as i64,
					Ok(_) => -1,
					Err(_) => -2,
				};
				self.out.push_str(&format!("(struct {} {} {} (members", flags_str(*flags), name.name, size));
				for m in members
				{
					self.out.push_str(" (m ");
					self.pident(&m.name);
					self.out.push(' ');
					self.pty(&m.value_type);
					self.out.push(')');
				}
				self.out.push_str("))");
			}
			Declaration::Import { filename, .. } =>
			{
				self.out.push_str(&format!("(import h{})", hex(filename.as_bytes())));
			}
			Declaration::Poison(_) => self.poison(),
		}
	}
}

pub fn module_sexp(decls: &[Declaration]) -> (String, bool)
{
	let mut s = Ser { out: String::from("(module"), poisoned: false };
	for d in decls
	{
		s.out.push(' ');
		s.decl(d);
	}
	s.out.push(')');
	(s.out, s.poisoned)
}

fn parse_alpha(src: &str) -> (Vec<Declaration>, bool)
{
	let tokens = lexer::lex(src, "f.pn");
	let lexerr = tokens.iter().any(|t| t.result.is_err());
	let decls = parser::parse(tokens);
	(decls, lexerr)
}

/// alphaast <src>: the first-generation parser's tree
pub fn alphaast(fields: &[&str]) -> String
{
	let src = String::from_utf8_lossy(&unescape(fields.get(0).copied().unwrap_or(""))).into_owned();
	let (decls, lexerr) = parse_alpha(&src);
	let (sexp, poisoned) = module_sexp(&decls);
	if lexerr || poisoned
	{
		return format!("err lexerr={} poisoned={}", lexerr, poisoned);
	}
	format!("ok tree=h:{}", hex(sexp.as_bytes()))
}

/// rebuild <src>: parse, rebuild, parse the rebuilt text, rebuild again
pub fn rebuild(fields: &[&str]) -> String
{
	let src = String::from_utf8_lossy(&unescape(fields.get(0).copied().unwrap_or(""))).into_owned();
	let (decls, lexerr) = parse_alpha(&src);
	let (t1, poisoned) = module_sexp(&decls);
	if lexerr || poisoned
	{
		return format!("err lexerr={} poisoned={}", lexerr, poisoned);
	}
	let indentation = rebuilder::Indentation { value: "\t", amount: 0 };
	let r1 = match rebuilder::rebuild(&decls, &indentation)
	{
		Ok(r) => r,
		Err(e) => return format!("internal rebuild {}", format!("{:#}", e).replace(['\n', '\t'], " ")),
	};
	let (decls2, lexerr2) = parse_alpha(&r1);
	let (t2, poisoned2) = module_sexp(&decls2);
	let r2 = match rebuilder::rebuild(&decls2, &indentation)
	{
		Ok(r) => r,
		Err(e) => return format!("internal rebuild2 {}", format!("{:#}", e).replace(['\n', '\t'], " ")),
	};
	format!(
		"ok reparse_lexerr={} reparse_poisoned={} t1=h:{} t2=h:{} r1=h:{} r2=h:{}",
		lexerr2,
		poisoned2,
		hex(t1.as_bytes()),
		hex(t2.as_bytes()),
		hex(r1.as_bytes()),
		hex(r2.as_bytes())
	)
}
