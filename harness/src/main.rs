//! Correspondence harness: links the real `penne` library built from /repo's
//! current working tree and answers one request per stdin line with one line
//! of canonical observation on stdout.
//!
//! Request: `OP<TAB>field<TAB>field...`; text fields use the escapes
//! `\\ \t \n \r`, binary fields are `h:<hex>`.

use std::io::{BufRead, Write};
use std::panic::{AssertUnwindSafe, catch_unwind};

mod alpha_ops;
mod delta_ops;
mod syn_ops;

pub fn unescape(field: &str) -> Vec<u8>
{
	if let Some(hex) = field.strip_prefix("h:")
	{
		let b = hex.as_bytes();
		let mut out = Vec::with_capacity(b.len() / 2);
		let mut i = 0;
		while i + 1 < b.len()
		{
			let hi = (b[i] as char).to_digit(16).unwrap_or(0) as u8;
			let lo = (b[i + 1] as char).to_digit(16).unwrap_or(0) as u8;
			out.push(hi * 16 + lo);
			i += 2;
		}
		return out;
	}
	let mut out = Vec::with_capacity(field.len());
	let mut it = field.bytes();
	while let Some(c) = it.next()
	{
		if c == b'\\'
		{
			match it.next()
			{
				Some(b'n') => out.push(b'\n'),
				Some(b't') => out.push(b'\t'),
				Some(b'r') => out.push(b'\r'),
				Some(b'\\') => out.push(b'\\'),
				Some(x) =>
				{
					out.push(b'\\');
					out.push(x)
				}
				None => out.push(b'\\'),
			}
		}
		else
		{
			out.push(c);
		}
	}
	out
}

pub fn text(field: &str) -> String
{
	String::from_utf8_lossy(&unescape(field)).into_owned()
}

pub fn hex(bytes: &[u8]) -> String
{
	let mut s = String::with_capacity(bytes.len() * 2);
	for b in bytes
	{
		s.push_str(&format!("{:02x}", b));
	}
	s
}

pub fn codes_str(codes: &[u16]) -> String
{
	codes
		.iter()
		.map(|c| c.to_string())
		.collect::<Vec<_>>()
		.join(",")
}

fn dispatch(op: &str, fields: &[&str]) -> String
{
	match op
	{
		"alpha" => alpha_ops::alpha(fields),
		"lexa" => alpha_ops::lexa(fields),
		"rebuild" => syn_ops::rebuild(fields),
		"alphaast" => syn_ops::alphaast(fields),
		"diag" => alpha_ops::diag(fields),
		"agree" => alpha_ops::agree(fields),
		"update" => alpha_ops::update(fields),
		"resolved" => alpha_ops::resolved(fields),
		"lexd" => delta_ops::lexd(fields),
		"delta" => delta_ops::delta(fields),
		"dparse" => delta_ops::dparse(fields),
		"dtokens" => delta_ops::dtokens(fields),
		"dbig" => delta_ops::dbig(fields),
		"fuzz" => delta_ops::fuzz(fields),
		"ping" => "pong".to_string(),
		_ => "bad-op".to_string(),
	}
}

static LAST_PANIC_LOCATION: std::sync::Mutex<String> = std::sync::Mutex::new(String::new());

fn main()
{
	// remember where a panic came from: the call site identifies the defect
	std::panic::set_hook(Box::new(|info| {
		if let Some(l) = info.location()
		{
			if let Ok(mut g) = LAST_PANIC_LOCATION.lock()
			{
				*g = format!("{}:{}", l.file().trim_start_matches("/repo/"), l.line());
			}
		}
	}));
	let stdin = std::io::stdin();
	let stdout = std::io::stdout();
	let mut out = std::io::BufWriter::new(stdout.lock());
	for line in stdin.lock().lines()
	{
		let line = match line
		{
			Ok(l) => l,
			Err(_) => break,
		};
		let mut parts = line.split('\t');
		let op = parts.next().unwrap_or("");
		let fields: Vec<&str> = parts.collect();
		let answer = match catch_unwind(AssertUnwindSafe(|| dispatch(op, &fields)))
		{
			Ok(a) => a,
			Err(e) =>
			{
				let msg = if let Some(s) = e.downcast_ref::<&str>()
				{
					s.to_string()
				}
				else if let Some(s) = e.downcast_ref::<String>()
				{
					s.clone()
				}
				else
				{
					"?".to_string()
				};
				let at = LAST_PANIC_LOCATION.lock().map(|g| g.clone()).unwrap_or_default();
				format!("panic at={} {}", at, msg.replace(['\n', '\t'], " "))
			}
		};
		let _ = writeln!(out, "{}", answer);
		// flush per answer: if a later request kills the process, the
		// orchestrator can tell which one from the number of answers.
		let _ = out.flush();
	}
}
