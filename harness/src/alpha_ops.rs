//! Observations of the first-generation (alpha) compiler.

use crate::{codes_str, hex, text};
use penne::alpha::Compiler;
use penne::alpha::{expander, lexer, parser, resolver, scoper};
use std::io::Write;

pub struct Outcome
{
	pub verdict: String, // ok | err | internal
	pub codes: Vec<u16>,
	pub lints: Vec<u16>,
	pub stage: &'static str,
	pub module_irs: Vec<String>,
	pub linked_ir: Option<String>,
	pub internal: String,
	pub errors: Option<penne::alpha::Errors>,
	pub lint_errors: Vec<penne::alpha::Error>,
	pub resolved: Vec<Vec<penne::alpha::resolved::Declaration>>,
}

/// The library path `penne run/emit` takes (src/main.rs: compile_to_ir_using_alpha).
/// depth: 0 = analyze_and_resolve only, 1 = + compile + generate_ir (+ link)
pub fn compile_units(units: &[(String, String)], depth: u8, wasm: bool) -> Outcome
{
	let mut out = Outcome {
		verdict: "ok".into(),
		codes: vec![],
		lints: vec![],
		stage: "",
		module_irs: vec![],
		linked_ir: None,
		internal: String::new(),
		errors: None,
		lint_errors: vec![],
		resolved: vec![],
	};
	let mut modules = Vec::new();
	for (filename, source) in units
	{
		let tokens = lexer::lex(source, filename);
		let declarations = parser::parse(tokens);
		let filepath: std::path::PathBuf = filename.into();
		modules.push((filepath, declarations));
	}
	expander::expand(&mut modules);
	for (_filepath, declarations) in &modules
	{
		if let Err(errors) = resolver::check_surface_level_errors(declarations)
		{
			out.verdict = "err".into();
			out.codes = errors.codes();
			out.stage = "surface";
			out.errors = Some(errors);
			return out;
		}
	}
	let mut compiler = Compiler::default();
	if wasm
	{
		if let Err(e) = compiler.for_wasm()
		{
			out.verdict = "internal".into();
			out.internal = format!("{:#}", e);
			return out;
		}
	}
	macro_rules! tri {
		($e:expr, $stage:expr) => {
			match $e
			{
				Ok(x) => x,
				Err(e) =>
				{
					out.verdict = "internal".into();
					out.stage = $stage;
					out.internal = format!("{:#}", e).replace(['\n', '\t'], " ");
					return out;
				}
			}
		};
	}
	for (filepath, declarations) in modules
	{
		let filename = filepath.to_string_lossy().to_string();
		let declarations = scoper::analyze(declarations);
		tri!(compiler.add_module(&filename), "add_module");
		let resolved = tri!(compiler.analyze_and_resolve(declarations), "analyze");
		let declarations = match resolved
		{
			Ok(d) => d,
			Err(errors) =>
			{
				out.verdict = "err".into();
				out.codes = errors.codes();
				out.stage = "resolve";
				out.errors = Some(errors);
				return out;
			}
		};
		let lints = compiler.take_lints();
		out.lints.extend(lints.iter().map(|l| l.code()));
		out.lint_errors.extend(lints);
		if depth >= 1
		{
			tri!(compiler.compile(&declarations), "compile");
			let ir = tri!(compiler.generate_ir(), "generate_ir");
			out.module_irs.push(ir);
		}
		out.resolved.push(declarations);
	}
	if depth >= 1
	{
		tri!(compiler.link_modules(), "link");
		out.linked_ir = Some(tri!(compiler.generate_ir(), "generate_ir"));
	}
	out
}

fn parse_units(fields: &[&str]) -> Vec<(String, String)>
{
	fields
		.chunks(2)
		.filter(|c| c.len() == 2)
		.map(|c| (text(c[0]), text(c[1])))
		.collect()
}

fn run_tool(cmd: &str, args: &[&str], input: &[u8], timeout_s: u32)
-> Result<std::process::Output, String>
{
	let mut c = std::process::Command::new("timeout");
	c.arg(timeout_s.to_string()).arg(cmd);
	for a in args
	{
		c.arg(a);
	}
	let mut child = c
		.stdin(std::process::Stdio::piped())
		.stdout(std::process::Stdio::piped())
		.stderr(std::process::Stdio::piped())
		.spawn()
		.map_err(|e| e.to_string())?;
	{
		let mut stdin = child.stdin.take().unwrap();
		let _ = stdin.write_all(input);
	}
	child.wait_with_output().map_err(|e| e.to_string())
}

fn first_line(b: &[u8]) -> String
{
	String::from_utf8_lossy(b)
		.lines()
		.next()
		.unwrap_or("")
		.replace('\t', " ")
}

/// Run one of LLVM's own checkers on IR text. A run that ends without a verdict (killed, timed out on a loaded machine:
/// no message on stderr) is repeated with more time; `NO-VERDICT` if that keeps happening.
fn run_checker(name: &str, cmd: &str, args: &[&str], ir: &str) -> Result<(), String>
{
	for attempt in 0..3u32
	{
		let o = run_tool(cmd, args, ir.as_bytes(), 30 * (attempt + 1))?;
		if o.status.success()
		{
			return Ok(());
		}
		let msg = first_line(&o.stderr);
		let no_verdict = o.status.code() == Some(124) || o.status.code().is_none() || msg.trim().is_empty();
		if !no_verdict
		{
			return Err(format!("{}: {}", name, msg));
		}
	}
	Err(format!("{}: NO-VERDICT", name))
}

fn verify_ir(ir: &str) -> Result<(), String>
{
	run_checker("llvm-as", "llvm-as", &["-o", "/dev/null", "-"], ir)?;
	run_checker("opt-verify", "opt", &["-passes=verify", "-disable-output", "-"], ir)
}

/// `define`d symbols with their linkage, from the IR text.
fn defined_symbols(ir: &str) -> Vec<String>
{
	let mut v = Vec::new();
	for line in ir.lines()
	{
		if let Some(rest) = line.strip_prefix("define ")
		{
			let linkage = if rest.starts_with("private ")
			{
				"private"
			}
			else if rest.starts_with("internal ")
			{
				"internal"
			}
			else
			{
				"external"
			};
			if let Some(at) = rest.find('@')
			{
				let name: String = rest[at + 1..]
					.chars()
					.take_while(|c| *c != '(')
					.collect();
				v.push(format!("{}:{}", name.trim_matches('"'), linkage));
			}
		}
	}
	v.sort();
	v
}

/// Calling conventions from the IR text: `name:cc` for every defined or declared function, and the direct calls
/// whose convention differs from their callee's (undefined behaviour that LLVM's verifier does not report).
fn calling_conventions(ir: &str) -> (Vec<String>, Vec<String>)
{
	let cc_of = |rest: &str| -> &'static str {
		let head = rest.split('@').next().unwrap_or("");
		if head.split_whitespace().any(|w| w == "fastcc") { "fast" } else { "c" }
	};
	let name_of = |rest: &str| -> Option<String> {
		let at = rest.find('@')?;
		Some(rest[at + 1..].chars().take_while(|c| *c != '(').collect::<String>().trim_matches('"').to_string())
	};
	let mut ccs: std::collections::BTreeMap<String, &'static str> = std::collections::BTreeMap::new();
	let mut defined: Vec<String> = Vec::new();
	for line in ir.lines()
	{
		for kw in ["define ", "declare "]
		{
			if let Some(rest) = line.strip_prefix(kw)
			{
				if let Some(name) = name_of(rest)
				{
					if kw == "define "
					{
						defined.push(format!("{}:{}", name, cc_of(rest)));
					}
					ccs.insert(name, cc_of(rest));
				}
			}
		}
	}
	let mut mismatches = Vec::new();
	for line in ir.lines()
	{
		let t = line.trim_start();
		let callpos = if t.starts_with("call ") || t.starts_with("tail call ") { Some(t) } else { t.find("= call ").map(|i| &t[i + 2..]) };
		if let Some(rest) = callpos
		{
			let rest = rest.trim_start_matches("tail ").trim_start_matches("call ");
			if let Some(name) = name_of(rest)
			{
				if let Some(cc) = ccs.get(&name)
				{
					if *cc != cc_of(rest)
					{
						mismatches.push(name);
					}
				}
			}
		}
	}
	defined.sort();
	mismatches.sort();
	mismatches.dedup();
	(defined, mismatches)
}

/// alpha <mode> <filename> <source> [<filename> <source>]...
/// mode: check | ir | verify | run | wasm ; suffix `+ir` appends the linked IR as hex, `+mods` every module's IR
pub fn alpha(fields: &[&str]) -> String
{
	if fields.is_empty()
	{
		return "bad-request".into();
	}
	let (mode, want_ir) = match fields[0].strip_suffix("+ir")
	{
		Some(m) => (m, true),
		None => (fields[0], false),
	};
	// `+mods`: append every module's own IR (the linker drops unreferenced private functions)
	let (mode, want_mods) = match mode.strip_suffix("+mods")
	{
		Some(m) => (m, true),
		None => (mode, false),
	};
	let units = parse_units(&fields[1..]);
	let depth = if mode == "check" { 0 } else { 1 };
	let o = compile_units(&units, depth, mode == "wasm");
	let mut s = String::new();
	match o.verdict.as_str()
	{
		"ok" =>
		{
			s.push_str(&format!("ok lints={}", codes_str(&o.lints)));
		}
		"err" =>
		{
			s.push_str(&format!("err stage={} codes={}", o.stage, codes_str(&o.codes)));
			return s;
		}
		_ =>
		{
			return format!("internal stage={} msg={}", o.stage, o.internal);
		}
	}
	if mode == "verify" || mode == "wasm" || mode == "run"
	{
		let mut res = Ok(());
		for (i, ir) in o.module_irs.iter().enumerate()
		{
			if let Err(e) = verify_ir(ir)
			{
				res = Err(format!("module{}: {}", i, e));
				break;
			}
		}
		if res.is_ok()
		{
			if let Some(ir) = &o.linked_ir
			{
				if let Err(e) = verify_ir(ir)
				{
					res = Err(format!("linked: {}", e));
				}
			}
		}
		match res
		{
			Ok(()) => s.push_str(" verify=ok"),
			Err(e) => s.push_str(&format!(" verify=FAIL[{}]", e.replace(' ', "_"))),
		}
		// symbols defined by each module's own IR (the linker may drop unreferenced private functions)
		let mut defs: Vec<String> = Vec::new();
		for ir in &o.module_irs
		{
			defs.extend(defined_symbols(ir));
		}
		defs.sort();
		s.push_str(&format!(" defs={}", defs.join(",")));
		if let Some(ir) = &o.linked_ir
		{
			s.push_str(&format!(" linkeddefs={}", defined_symbols(ir).join(",")));
		}
		let mut ccs: Vec<String> = Vec::new();
		let mut bad: Vec<String> = Vec::new();
		for ir in o.module_irs.iter().chain(o.linked_ir.iter())
		{
			let (d, m) = calling_conventions(ir);
			ccs.extend(d);
			bad.extend(m);
		}
		ccs.sort();
		ccs.dedup();
		bad.sort();
		bad.dedup();
		s.push_str(&format!(" ccs={} callcc={}", ccs.join(","), if bad.is_empty() { "ok".to_string() } else { format!("MISMATCH[{}]", bad.join(",")) }));
	}
	if mode == "run"
	{
		if let Some(ir) = &o.linked_ir
		{
			// (a run that hits the time limit on a loaded machine is repeated once with a longer one)
			let first = run_tool("lli", &[], ir.as_bytes(), 10);
			let result = match &first
			{
				Ok(output) if output.status.code() == Some(124) || output.status.code() == Some(137) =>
				{
					run_tool("lli", &[], ir.as_bytes(), 90)
				}
				_ => first,
			};
			match result
			{
				Ok(output) =>
				{
					let status = match output.status.code()
					{
						Some(c) => c.to_string(),
						None => "signal".to_string(),
					};
					s.push_str(&format!(
						" status={} stdout=h:{} stderr={}",
						status,
						hex(&output.stdout),
						if output.stderr.is_empty() { "empty".to_string() } else { format!("[{}]", first_line(&output.stderr).replace(' ', "_")) }
					));
				}
				Err(e) => s.push_str(&format!(" status=spawn-failed[{}]", e)),
			}
		}
	}
	if mode == "irs" || want_mods
	{
		let parts: Vec<String> = o.module_irs.iter().map(|ir| format!("h:{}", hex(ir.as_bytes()))).collect();
		s.push_str(&format!(" mods={}", parts.join(";")));
	}
	if want_ir
	{
		if let Some(ir) = &o.linked_ir
		{
			s.push_str(&format!(" ir=h:{}", hex(ir.as_bytes())));
		}
	}
	s
}

fn ty_name(t: &penne::alpha::common::ValueType) -> &'static str
{
	use penne::alpha::common::ValueType as V;
	match t
	{
		V::Void => "void",
		V::Int8 => "i8",
		V::Int16 => "i16",
		V::Int32 => "i32",
		V::Int64 => "i64",
		V::Int128 => "i128",
		V::Uint8 => "u8",
		V::Uint16 => "u16",
		V::Uint32 => "u32",
		V::Uint64 => "u64",
		V::Uint128 => "u128",
		V::Usize => "usize",
		V::Char8 => "char8",
		V::Bool => "bool",
		_ => "?",
	}
}

pub fn lex_error_code(e: &lexer::Error) -> u16
{
	use lexer::Error as E;
	match e
	{
		E::UnexpectedZeroByteFile => 101,
		E::TooManySourceBytes => 102,
		E::TooManyTokens => 103,
		E::UnexpectedCharacter => 110,
		E::InvalidIntegerLength => 140,
		E::InvalidIntegerTypeSuffix => 141,
		E::MissingClosingQuote => 160,
		E::UnexpectedTrailingBackslash => 161,
		E::InvalidEscapeSequence => 162,
		E::InvalidCharLiteral => 163,
	}
}

fn alpha_tok(t: &lexer::Token) -> String
{
	use lexer::Token as T;
	let s = |x: &str| format!("S{}", x);
	let k = |x: &str| format!("K{}", x);
	match t
	{
		T::ParenLeft => s("("),
		T::ParenRight => s(")"),
		T::BraceLeft => s("{"),
		T::BraceRight => s("}"),
		T::BracketLeft => s("["),
		T::BracketRight => s("]"),
		T::AngleLeft => s("<"),
		T::AngleRight => s(">"),
		T::Pipe => s("|"),
		T::Ampersand => s("&"),
		T::Caret => s("^"),
		T::Exclamation => s("!"),
		T::Placeholder => k("_"),
		T::Plus => s("+"),
		T::Minus => s("-"),
		T::Times => s("*"),
		T::Divide => s("/"),
		T::Modulo => s("%"),
		T::Colon => s(":"),
		T::Semicolon => s(";"),
		T::Dot => s("."),
		T::Comma => s(","),
		T::Assignment => s("="),
		T::Equals => s("=="),
		T::DoesNotEqual => s("!="),
		T::IsGE => s(">="),
		T::IsLE => s("<="),
		T::ShiftLeft => s("<<"),
		T::ShiftRight => s(">>"),
		T::Arrow => s("->"),
		T::PipeForType => s("|:"),
		T::Dots => s(".."),
		T::Fn => k("fn"),
		T::Var => k("var"),
		T::Const => k("const"),
		T::If => k("if"),
		T::Goto => k("goto"),
		T::Loop => k("loop"),
		T::Else => k("else"),
		T::Cast => k("cast"),
		T::As => k("as"),
		T::Import => k("import"),
		T::Pub => k("pub"),
		T::Extern => k("extern"),
		T::Struct => k("struct"),
		T::Word8 => k("word8"),
		T::Word16 => k("word16"),
		T::Word32 => k("word32"),
		T::Word64 => k("word64"),
		T::Word128 => k("word128"),
		T::Identifier(x) => format!("I{}", x),
		T::Builtin(x) => format!("B{}", x),
		T::NakedDecimal(n) => format!("D{}", n),
		T::BitInteger(n) => format!("X{}", n),
		T::SuffixedInteger { value, suffix_type } =>
		{
			format!("F{}:{}", value, ty_name(suffix_type))
		}
		T::CharLiteral(b) => format!("C{}", b),
		T::Bool(b) => format!("L{}", if *b { 1 } else { 0 }),
		T::StringLiteral { bytes } => format!("Q{}", hex(bytes)),
		T::Type(t) => format!("T{}", ty_name(t)),
	}
}

/// lexa <source>: the real first-generation lexer, canonical token dump
pub fn lexa(fields: &[&str]) -> String
{
	let src = text(fields.get(0).copied().unwrap_or(""));
	let toks = lexer::lex(&src, "f.pn");
	let mut out = Vec::new();
	for t in &toks
	{
		let k = match &t.result
		{
			Ok(tok) => alpha_tok(tok),
			Err(e) => format!("E{}", lex_error_code(e)),
		};
		out.push(format!(
			"{}@{}-{}/{}:{}",
			k, t.location.span.start, t.location.span.end, t.location.line_number, t.location.line_offset
		));
	}
	out.join(" ")
}
pub fn render_all(errors: &[penne::alpha::Error], units: &[(String, String)]) -> Result<(usize, u64), String>
{
	render_all_indexed(errors, units, ariadne::IndexType::Char)
}

/// `index_type`: Char for the first-generation compiler, Byte for the second-generation front end (stdout.rs: StdOut::new)
pub fn render_all_indexed(
	errors: &[penne::alpha::Error],
	units: &[(String, String)],
	index_type: ariadne::IndexType,
) -> Result<(usize, u64), String>
{
	let mut hash: u64 = 0;
	// every colour / charset configuration the CLI offers (stdout.rs: StdOut::new)
	let mut total = 0;
	for with_color in [false, true]
	{
		for charset in [ariadne::CharSet::Unicode, ariadne::CharSet::Ascii]
		{
			let ariadne_config = ariadne::Config::default()
				.with_index_type(index_type)
				.with_color(with_color)
				.with_char_set(charset);
			let config = penne::alpha::error::Config::from(ariadne_config).with_color(with_color);
			for error in errors
			{
				let sources: Vec<(String, String)> = units
					.iter()
					.map(|(n, s)| (n.clone(), if s.is_empty() { " ".to_string() } else { s.clone() }))
					.collect();
				let r = std::panic::catch_unwind(std::panic::AssertUnwindSafe(|| {
					let mut cache = ariadne::sources(sources);
					let report = error.build_report(config);
					let mut buffer: Vec<u8> = Vec::new();
					report.write(&mut cache, &mut buffer).map(|_| buffer)
				}));
				match r
				{
					Ok(Ok(buffer)) =>
					{
						total += buffer.len();
						// the whole rendered text (labels, notes, every configuration) enters the answer
						hash = hash.rotate_left(7) ^ fnv(&buffer);
						if !with_color && buffer.windows(2).any(|w| w == b"\x1b[")
						{
							return Err(format!("E{}: ANSI escape without colour", error.code()));
						}
					}
					Ok(Err(e)) => return Err(format!("E{}: write failed: {}", error.code(), e)),
					Err(_) => return Err(format!("E{}: rendering panicked", error.code())),
				}
			}
		}
	}
	Ok((total, hash))
}

fn fnv(data: &[u8]) -> u64
{
	let mut h: u64 = 0xcbf29ce484222325;
	for b in data
	{
		h ^= *b as u64;
		h = h.wrapping_mul(0x100000001b3);
	}
	h
}

/// diag <filename> <source> ...: every diagnostic with its primary location, rendering in all configurations
pub fn diag(fields: &[&str]) -> String
{
	let units = parse_units(fields);
	let o = compile_units(&units, 1, false);
	let mut items: Vec<String> = Vec::new();
	let mut all: Vec<penne::alpha::Error> = Vec::new();
	if let Some(errors) = o.errors
	{
		all.extend(errors.errors);
	}
	let n_errors = all.len();
	all.extend(o.lint_errors);
	for (i, e) in all.iter().enumerate()
	{
		let l = e.verif_location();
		items.push(format!(
			"{}{}@{}:{}-{}/{}:{}",
			if i < n_errors { "D" } else { "L" },
			e.code(),
			l.source_filename.replace(' ', "_"),
			l.span.start,
			l.span.end,
			l.line_number,
			l.line_offset
		));
	}
	let render = match render_all(&all, &units)
	{
		Ok((n, h)) => format!("ok:{}:{:016x}", n, h),
		Err(e) => format!("FAIL[{}]", e.replace(' ', "_")),
	};
	// where the rendered report says the diagnostic is: the `file:line:column` of its first header (plain ASCII rendering)
	let headers: Vec<String> = all.iter().map(|e| rendered_position(e, &units)).collect();
	let irhash = match &o.linked_ir
	{
		Some(ir) =>
		{
			// every module's own IR text (what `emit --out-dir` writes) and the linked text
			let mut parts: Vec<String> =
				o.module_irs.iter().map(|m| format!("{:016x}", fnv(m.as_bytes()))).collect();
			parts.push(format!("{:016x}", fnv(ir.as_bytes())));
			parts.join("+")
		}
		None => "-".to_string(),
	};
	format!(
		"verdict={} stage={} render={} irhash={} hdrs={} diags={}",
		if o.verdict == "internal" { format!("internal[{}]", o.internal.replace(' ', "_")) } else { o.verdict.clone() },
		o.stage,
		render,
		irhash,
		headers.join(","),
		items.join(",")
	)
}

/// `line:column` from the first `-[ file:line:column ]` of the diagnostic rendered without colour in ASCII; `-` if there is none
fn rendered_position(error: &penne::alpha::Error, units: &[(String, String)]) -> String
{
	let ariadne_config = ariadne::Config::default()
		.with_index_type(ariadne::IndexType::Char)
		.with_color(false)
		.with_char_set(ariadne::CharSet::Ascii);
	let config = penne::alpha::error::Config::from(ariadne_config).with_color(false);
	let sources: Vec<(String, String)> =
		units.iter().map(|(n, s)| (n.clone(), if s.is_empty() { " ".to_string() } else { s.clone() })).collect();
	let r = std::panic::catch_unwind(std::panic::AssertUnwindSafe(|| {
		let mut cache = ariadne::sources(sources);
		let report = error.build_report(config);
		let mut buffer: Vec<u8> = Vec::new();
		report.write(&mut cache, &mut buffer).map(|_| buffer)
	}));
	let text = match r
	{
		Ok(Ok(buffer)) => String::from_utf8_lossy(&buffer).to_string(),
		_ => return "-".to_string(),
	};
	for line in text.lines()
	{
		if let Some(at) = line.find("-[ ")
		{
			let rest = &line[at + 3..];
			let rest = rest.strip_suffix(" ]").unwrap_or(rest);
			let parts: Vec<&str> = rest.rsplitn(3, ':').collect();
			if parts.len() == 3 && parts[0].parse::<usize>().is_ok() && parts[1].parse::<usize>().is_ok()
			{
				return format!("{}:{}", parts[1], parts[0]);
			}
			return "-".to_string();
		}
	}
	"-".to_string()
}
pub fn resolved(_fields: &[&str]) -> String
{
	"todo".into()
}

// ---- C07: the type-agreement relations of value_type.rs on a pair of types given as S-expressions ----

use penne::alpha::value_type::ValueType as GVT;
type VT = GVT<String>;
type TVT = GVT<penne::alpha::common::Identifier>;

fn vt_tokens(s: &str) -> Vec<String>
{
	let mut out = Vec::new();
	let mut cur = String::new();
	for c in s.chars()
	{
		match c
		{
			'(' | ')' =>
			{
				if !cur.is_empty()
				{
					out.push(std::mem::take(&mut cur));
				}
				out.push(c.to_string());
			}
			' ' =>
			{
				if !cur.is_empty()
				{
					out.push(std::mem::take(&mut cur));
				}
			}
			_ => cur.push(c),
		}
	}
	if !cur.is_empty()
	{
		out.push(cur);
	}
	out
}

fn vt_parse<I: penne::alpha::value_type::Identifier>(
	toks: &[String],
	i: &mut usize,
	mk: &dyn Fn(&str, usize) -> I,
) -> Option<GVT<I>>
{
	let t = toks.get(*i)?.clone();
	*i += 1;
	if t != "("
	{
		return Some(match t.as_str()
		{
			"void" => GVT::Void,
			"i8" => GVT::Int8,
			"i16" => GVT::Int16,
			"i32" => GVT::Int32,
			"i64" => GVT::Int64,
			"i128" => GVT::Int128,
			"u8" => GVT::Uint8,
			"u16" => GVT::Uint16,
			"u32" => GVT::Uint32,
			"u64" => GVT::Uint64,
			"u128" => GVT::Uint128,
			"usize" => GVT::Usize,
			"char8" => GVT::Char8,
			"bool" => GVT::Bool,
			"unresolved" => GVT::UnresolvedStructOrWord { identifier: None },
			_ => return None,
		});
	}
	let head = toks.get(*i)?.clone();
	*i += 1;
	let num = |i: &mut usize| -> Option<usize> {
		let v = toks.get(*i)?.parse::<usize>().ok()?;
		*i += 1;
		Some(v)
	};
	let r = match head.as_str()
	{
		"array" =>
		{
			let n = num(i)?;
			let t = vt_parse(toks, i, mk)?;
			GVT::Array { element_type: Box::new(t), length: n }
		}
		"named" =>
		{
			let n = num(i)?;
			let t = vt_parse(toks, i, mk)?;
			GVT::ArrayWithNamedLength { element_type: Box::new(t), named_length: mk("N", n) }
		}
		"slice" => GVT::Slice { element_type: Box::new(vt_parse(toks, i, mk)?) },
		"sliceptr" => GVT::SlicePointer { element_type: Box::new(vt_parse(toks, i, mk)?) },
		"endless" => GVT::EndlessArray { element_type: Box::new(vt_parse(toks, i, mk)?) },
		"arraylike" => GVT::Arraylike { element_type: Box::new(vt_parse(toks, i, mk)?) },
		"pointer" => GVT::Pointer { deref_type: Box::new(vt_parse(toks, i, mk)?) },
		"view" => GVT::View { deref_type: Box::new(vt_parse(toks, i, mk)?) },
		"struct" => GVT::Struct { identifier: mk("S", num(i)?) },
		"word" =>
		{
			let id = num(i)?;
			let sz = num(i)?;
			GVT::Word { identifier: mk("S", id), size_in_bytes: sz }
		}
		"unresolved" => GVT::UnresolvedStructOrWord { identifier: Some(mk("S", num(i)?)) },
		_ => return None,
	};
	if toks.get(*i)? != ")"
	{
		return None;
	}
	*i += 1;
	Some(r)
}

fn vt_of<I: penne::alpha::value_type::Identifier>(s: &str, mk: &dyn Fn(&str, usize) -> I) -> Option<GVT<I>>
{
	let toks = vt_tokens(s);
	let mut i = 0;
	let t = vt_parse(&toks, &mut i, mk)?;
	if i == toks.len() { Some(t) } else { None }
}

/// `agree <type a> <type b>`
pub fn agree(fields: &[&str]) -> String
{
	if fields.len() != 2
	{
		return "bad-request".into();
	}
	let mk = |p: &str, n: usize| format!("{}{}", p, n);
	match (vt_of::<String>(fields[0], &mk), vt_of::<String>(fields[1], &mk))
	{
		(Some(a), Some(b)) =>
		{
			let a: VT = a;
			let bit = |v: bool| if v { "1" } else { "0" };
			format!(
				"declared={} conc={} coerce={} coerceaddr={} autoderef={}",
				bit(a.can_be_declared_as(&b)),
				bit(a.can_be_concretization_of(&b)),
				bit(a.can_coerce_into(&b)),
				bit(a.can_coerce_address_into(&b)),
				bit(a.can_autoderef_into(&b))
			)
		}
		_ => "bad-request".into(),
	}
}

/// `update <known type> <new type> <symbol authoritative 0|1> <new authoritative 0|1>`: typer::do_update_symbol
pub fn update(fields: &[&str]) -> String
{
	if fields.len() != 4
	{
		return "bad-request".into();
	}
	use penne::alpha::common::Identifier;
	let location = penne::alpha::lexer::Location {
		source_filename: "t.pn".to_string(),
		span: 0..1,
		line_number: 1,
		line_offset: 0,
	};
	let mk = |p: &str, n: usize| Identifier {
		name: format!("{}{}", p, n),
		location: location.clone(),
		// structures S<n> and named lengths N<n> are different things
		resolution_id: (if p == "S" { 100 } else { 200 }) + n as u32,
		is_authoritative: true,
	};
	match (vt_of::<Identifier>(fields[0], &mk), vt_of::<Identifier>(fields[1], &mk))
	{
		(Some(ot), Some(vt)) =>
		{
			let ot: TVT = ot;
			if !ot.is_wellformed() || !vt.is_wellformed()
			{
				return "illformed".into();
			}
			let mut sym = mk("x", 900);
			sym.is_authoritative = fields[2] == "1";
			let mut new = mk("x", 900);
			new.is_authoritative = fields[3] == "1";
			match penne::alpha::typer::verif_update_symbol(sym, ot.clone(), &new, vt.clone())
			{
				None => "none".into(),
				Some(r) =>
				{
					if r == ot
					{
						"old".into()
					}
					else if r == vt
					{
						"new".into()
					}
					else
					{
						"other".into()
					}
				}
			}
		}
		_ => "bad-request".into(),
	}
}
