"""Syntax-directed generator of Penne modules: every production of the grammar both parsers implement
(src/alpha/parser.rs, src/delta/parser.rs), rendered in random layouts.  The generated tree is kept in the
canonical S-expression form that the harness prints for the first-generation AST (harness/src/syn_ops.rs),
the Lean reference parser prints for a token stream, and checks/xmltree.py derives from the second-generation
XML dump, so that all four can be compared as strings.

Canonical tree (lists; atoms are str/int):
  (module d*)
  d ::= (import hHEX) | (const FLAGS name T E) | (fn FLAGS name (params (p name T)*) T B) | (struct FLAGS name SIZE (members (m name T)*))
  B ::= _ | (body (stmts S*) E|_)
  S ::= (var name T|_ E|_) | (assign (ref D name (steps ST*)) E) | (mcall name 0|1 E*) | (loop) | (goto name) | (label name)
      | (if (cmp OP E E) S [S]) | (block S*)
  E ::= (bin OP E E) | (un OP E) | (bool 0|1) | (int V T|_) | (str hHEX) | (array E*) | (structural (named name) (f name E)*)
      | (paren E) | (deref D name (steps ST*)) | (bitcast E) | (typecast E T) | (lengthof D name (steps ST*)) | (sizeof T) | (call name 0|1 E*)
  ST ::= (elem E) | (member name)
  T ::= (simple kw) | (named name) | (ptr T) | (view T) | (arraylike T) | (slice T) | (endless T) | (array N T) | (arraynamed name T)
Spelling choices that are not part of the tree (literal spelling and suffix, field shorthand, trailing commas,
adjacent string literals, layout) are made at render time.
"""

I128_MAX = (1 << 127) - 1
SIMPLE = ["i8", "i16", "i32", "i64", "i128", "u8", "u16", "u32", "u64", "u128", "usize", "char8", "bool"]
SIGNED = {"i8", "i16", "i32", "i64", "i128"}
INT_SUFFIXES = ["i8", "i16", "i32", "i64", "i128", "u8", "u16", "u32", "u64", "u128", "usize"]
BINOPS_ADD = ["Add", "Subtract"]
BINOPS_MUL = ["Multiply", "Divide", "Modulo"]
BINOPS_BIT = ["BitwiseAnd", "BitwiseOr", "BitwiseXor"]
BINOPS_SHIFT = ["ShiftLeft", "ShiftRight"]
OPSYM = {"Add": "+", "Subtract": "-", "Multiply": "*", "Divide": "/", "Modulo": "%", "BitwiseAnd": "&", "BitwiseOr": "|",
         "BitwiseXor": "^", "ShiftLeft": "<<", "ShiftRight": ">>", "AdvancePointer": "..",
         "Negative": "-", "BitwiseComplement": "!",
         "Equals": "==", "DoesNotEqual": "!=", "IsGreater": ">", "IsGE": ">=", "IsLess": "<", "IsLE": "<="}
CMPOPS = ["Equals", "DoesNotEqual", "IsGreater", "IsGE", "IsLess", "IsLE"]
BUILTINS = ["print", "format", "abort", "dbg", "panic", "eprint", "file", "line", "foo"]


def sx(t):
    if isinstance(t, (list, tuple)):
        if t and t[0] == "int":
            t = t[:3]       # a fourth element is a spelling hint, not part of the tree
        return "(" + " ".join(sx(x) for x in t) + ")"
    return str(t)


def hexs(b):
    return "h" + bytes(b).hex()


class Gen:
    def __init__(self, rng, builtins=True, max_depth=4):
        self.rng = rng
        self.builtins = builtins
        self.max_depth = max_depth
        self.counter = 0
        self.forms = {}

    def note(self, form):
        self.forms[form] = self.forms.get(form, 0) + 1

    def name(self, prefix="v"):
        self.counter += 1
        return self.rng.pick([prefix, prefix + "_x", prefix.upper() + "q", "_" + prefix]) + str(self.counter % 17)

    # ---- types
    def ty(self, ctx="top", d=0):
        """ctx: top | inner (behind a pointer/view) | element (of `[]T`, `[:]T`, `[..]T`) | sized (element of an array with a
        length: `[4][]T` is an invalid type like `[4][:]T` and `[4][..]T`, F60)"""
        r = self.rng
        k = r.below(10 if d < 3 else 3)
        if k <= 1 or (k == 2 and ctx != "top"):
            self.note("T.simple")
            return ["simple", r.pick(SIMPLE)]
        if k == 2:
            self.note("T.void")
            return ["simple", "void"]
        if k == 3:
            self.note("T.named")
            return ["named", self.name("S")]
        if k == 4:
            self.note("T.ptr")
            return ["ptr", self.ty("inner", d + 1)]
        if k == 5 and ctx == "top":
            self.note("T.view")
            return ["view", self.ty("inner", d + 1)]
        if k == 6:
            self.note("T.array")
            return ["array", r.pick([0, 1, 2, 7, 256, 65536]), self.ty("sized", d + 1)]
        if k == 7:
            self.note("T.arraynamed")
            return ["arraynamed", self.name("N"), self.ty("sized", d + 1)]
        if k == 8 and ctx != "sized":
            self.note("T.arraylike")
            return ["arraylike", self.ty("element", d + 1)]
        if k == 9 and ctx == "top":
            self.note("T.slice")
            return ["slice", self.ty("element", d + 1)]
        if k == 9 and ctx == "inner":
            self.note("T.endless")
            return ["endless", self.ty("element", d + 1)]
        if ctx == "top" and r.chance(1, 2):
            self.note("T.endless")
            return ["endless", self.ty("element", d + 1)]
        return ["simple", r.pick(SIMPLE)]

    # ---- expressions
    def int_lit(self):
        r = self.rng
        v = r.pick([0, 1, 2, 7, 10, 42, 127, 128, 255, 256, 65535, 1 << 31, (1 << 63) - 1, 1 << 64, I128_MAX, I128_MAX + 1,
                    (1 << 128) - 1, r.below(1000), r.below(1 << 40)])
        ty = "_" if r.chance(1, 2) else ["simple", r.pick(INT_SUFFIXES)]
        self.note("E.int")
        return ["int", v, ty]

    def steps(self, d, no_struct):
        out = []
        if d <= 1 and self.rng.chance(1, 60):
            # the longest chain of steps the grammar allows
            self.note("ST.chain-of-127")
            return ["steps"] + [["member", "m%d" % (i % 7)] for i in range(127)]
        for _ in range(self.rng.pick([0, 0, 0, 1, 1, 2, 3])):
            if self.rng.chance(1, 2):
                self.note("ST.member")
                out.append(["member", self.name("m")])
            else:
                self.note("ST.elem")
                out.append(["elem", self.expr(d + 1, no_struct)])
        return ["steps"] + out

    def primary(self, d, no_struct=False):
        r = self.rng
        deep = d >= self.max_depth
        k = r.below(6 if deep else 14)
        if k == 0:
            return self.int_lit()
        if k == 1:
            self.note("E.bool")
            return ["bool", r.below(2)]
        if k == 2:
            self.note("E.char")
            return ["int", r.pick([97, 65, 48, 32, 10, 0, 39, 92, 127, 255]), ["simple", "char8"]]
        if k == 3:
            self.note("E.str")
            n = r.below(5)
            data = []
            for _ in range(n):
                k2 = r.below(4)
                if k2 == 0:
                    data.append(r.pick([97, 98, 32, 10, 9, 34, 39, 92, 0, 200, 0x7f, 0xe2]))
                elif k2 == 1:
                    data.append(r.below(256))       # every byte value, incl. control bytes and lone continuation bytes
                elif k2 == 2:
                    data.append(r.pick([0x1b, 0x0b, 0x0c, 0x0e, 0x1f, 0x8a, 0x9f, 0xca, 0xdf, 0x4a, 0x5f, 0xaf, 0xfa]))
                else:
                    data.extend(chr(r.pick([0xdc, 0xfc, 0xe9, 0x3a9, 0x20ac, 0x4e2d, 0x1f600, 0x10ffff, 0x80, 0x7ff, 0x800])).encode("utf-8"))
            return ["str", hexs(data)]
        if k in (4, 5):
            self.note("E.deref")
            return ["deref", 0, self.name("v"), ["steps"] if deep else self.steps(d, no_struct)]
        if k == 6:
            self.note("E.addr")
            depth = r.pick([1, 1, 1, 1, 2, 2, 3, 126, 127])
            return ["deref", depth, self.name("v"), self.steps(d, no_struct)]
        if k == 7:
            self.note("E.call")
            return ["call", self.name("f"), 0] + [self.expr(d + 1, no_struct) for _ in range(r.below(4))]
        if k == 8 and self.builtins:
            self.note("E.builtin")
            return ["call", r.pick(BUILTINS), 1] + [self.expr(d + 1, no_struct) for _ in range(r.below(3))]
        if k == 9 and not no_struct:
            self.note("E.structural")
            return ["structural", ["named", self.name("S")]] + [["f", self.name("m"), self.expr(d + 1)] for _ in range(r.below(4))]
        if k == 10:
            self.note("E.array")
            return ["array"] + [self.expr(d + 1, no_struct) for _ in range(r.below(4))]
        if k in (11, 12):
            self.note("E.paren")
            return ["paren", self.expr(d + 1, no_struct)]
        return self.int_lit()

    def unary(self, d, no_struct=False):
        r = self.rng
        k = r.below(10)
        if k == 0:
            self.note("E.sizeof")
            return ["sizeof", self.ty("top", 1)]
        if k == 1:
            self.note("E.lengthof")
            return ["lengthof", r.pick([0, 0, 0, 0, 1, 1, 2, 126, 127]), self.name("v"), self.steps(d, no_struct)]
        if k in (2, 3):
            op = r.pick(["Negative", "BitwiseComplement"])
            e = self.primary(d, no_struct)
            self.note("E.unary")
            if op == "Negative" and e[0] == "int" and 0 < e[1] <= I128_MAX and (e[2] == "_" or e[2][1] in SIGNED):
                if e[2] == "_" and r.chance(1, 3):
                    # spelled in hexadecimal or binary the literal is a bit integer and the minus stays an operator
                    self.note("E.negative-of-bit-literal")
                    return ["un", op, ["int", e[1], "_", "bit"]]
                # the first-generation parser folds the sign into a signed literal
                self.note("E.negative-literal")
                return ["int", -e[1], e[2]]
            return ["un", op, e]
        return self.primary(d, no_struct)

    def singular(self, d, no_struct=False):
        r = self.rng
        e = self.unary(d, no_struct)
        if r.chance(1, 8):
            self.note("E.bitcast")
            e = ["bitcast", e]
        while r.chance(1, 8):
            self.note("E.typecast")
            e = ["typecast", e, self.ty("top", 1)]
        return e

    def mult(self, d, no_struct=False):
        e = self.singular(d, no_struct)
        while d < self.max_depth and self.rng.chance(1, 4):
            self.note("E.mul")
            e = ["bin", self.rng.pick(BINOPS_MUL), e, self.singular(d + 1, no_struct)]
        return e

    def expr(self, d=0, no_struct=False):
        r = self.rng
        if d >= self.max_depth:
            return self.singular(d, no_struct)
        k = r.below(9)
        if k == 8:
            # `&x .. offset`: the offset is a whole expression, so nothing can follow it
            self.note("E.advance")
            return ["bin", "AdvancePointer", ["deref", r.pick([1, 1, 2]), self.name("v"), self.steps(d + 1, no_struct)],
                    self.expr(d + 1, no_struct)]
        if k == 0:
            # bitwise chain of one operator over unary operands (left operand: no unparenthesised binary)
            self.note("E.bitwise")
            op = r.pick(BINOPS_BIT)
            e = self.singular(d + 1, no_struct)
            for _ in range(1 + r.below(3)):
                e = ["bin", op, e, self.unary(d + 1, no_struct)]
            return e
        if k == 1:
            self.note("E.shift")
            return ["bin", r.pick(BINOPS_SHIFT), self.singular(d + 1, no_struct), self.unary(d + 1, no_struct)]
        e = self.mult(d + 1, no_struct)
        while r.chance(1, 3):
            self.note("E.add")
            e = ["bin", r.pick(BINOPS_ADD), e, self.mult(d + 1, no_struct)]
        return e

    # ---- statements
    def ref(self, branch=False):
        r = self.rng
        # `if a == b &x = 1;` would read the `&` as a bitwise operator
        # the depth limit (127) is part of the grammar: at the limit the reference is still valid
        return ["ref", 0 if branch else r.pick([0, 0, 0, 0, 1, 1, 2, 126, 127]), self.name("v"), self.steps(1, False)]

    @staticmethod
    def ends_open(s):
        if s[0] != "if":
            return False
        if len(s) == 3:
            return True
        return Gen.ends_open(s[3])

    def stmt(self, d=0, branch=False):
        r = self.rng
        k = r.below(14 if d < 3 else 9)
        if branch and k in (0, 6):
            k = 2
        if k == 0:
            self.note("S.var")
            return ["var", self.name("v"), self.ty("top", 1) if r.chance(1, 2) else "_", self.expr() if r.chance(2, 3) else "_"]
        if k in (1, 2, 3):
            self.note("S.assign")
            return ["assign", self.ref(branch), self.expr()]
        if k == 4:
            self.note("S.mcall")
            return ["mcall", self.name("f"), 0] + [self.expr(1) for _ in range(r.below(3))]
        if k == 5:
            if self.builtins:
                self.note("S.builtin")
                return ["mcall", r.pick(BUILTINS), 1] + [self.expr(1) for _ in range(r.below(3))]
            self.note("S.loop")
            return ["loop"]
        if k == 6:
            self.note("S.label")
            return ["label", self.name("l")]
        if k == 7:
            self.note("S.goto")
            return ["goto", r.pick([self.name("l"), self.name("l"), "return"])]
        if k == 8:
            self.note("S.loop")
            return ["loop"]
        if k in (9, 10):
            self.note("S.block")
            return ["block"] + [self.stmt(d + 1) for _ in range(r.below(4))]
        cmp = ["cmp", r.pick(CMPOPS), self.expr(1, no_struct=True), self.expr(1, no_struct=True)]
        then = self.stmt(d + 1, branch=True)
        if r.chance(1, 2):
            self.note("S.if-else")
            if self.ends_open(then):
                then = ["block", then]
            return ["if", cmp, then, self.stmt(d + 1, branch=True)]
        self.note("S.if")
        return ["if", cmp, then]

    # ---- declarations
    def flags(self, allow_extern=True):
        r = self.rng
        fl = []
        if r.chance(1, 3):
            fl.append("Public")
        if allow_extern and r.chance(1, 4):
            fl.append("External")
        return fl

    def decl(self):
        r = self.rng
        k = r.below(9)
        if k == 0:
            self.note("D.import")
            # paths with characters that a string literal must escape (the rebuilder has to write them escaped again)
            return ["import", hexs(r.pick([b"core:text", b"lib/a.pn", b"x.pn", b"", b"a\\b.pn", b'a"b.pn', b"a\tb.pn",
                                           "caf\u00e9/\u20ac.pn".encode(), b"it's.pn", b"\x01\x7f.pn", b"a\nb"]))]
        if k == 1:
            self.note("D.const")
            return ["const", "|".join(self.flags()) or "_", self.name("K"), self.ty("top", 1), self.expr()]
        if k in (2, 3, 4, 5):
            fl = self.flags()
            params = ["params"] + [["p", self.name("p"), self.ty("top", 1)] for _ in range(r.below(4))]
            ret = self.ty("top", 1) if r.chance(1, 2) else ["simple", "void"]
            if r.chance(1, 4):
                self.note("D.fn-head")
                return ["fn", "|".join(fl) or "_", self.name("f"), params, ret, "_"]
            self.note("D.fn")
            stmts = ["stmts"] + [self.stmt() for _ in range(r.below(6))]
            retv = self.expr() if r.chance(1, 2) else "_"
            if retv != "_":
                self.note("D.fn-return-value")
            return ["fn", "|".join(fl) or "_", self.name("f"), params, ret, ["body", stmts, retv]]
        if k == 6:
            fl = self.flags()
            if r.chance(1, 4):
                self.note("D.struct-opaque")
                return ["struct", "|".join(fl + ["OpaqueStruct"]), self.name("S"), -1, ["members"]]
            self.note("D.struct")
            return ["struct", "|".join(fl) or "_", self.name("S"), -1,
                    ["members"] + [["m", self.name("m"), self.ty("top", 1)] for _ in range(r.below(4))]]
        self.note("D.word")
        size = r.pick([1, 2, 4, 8, 16])
        return ["struct", "|".join(self.flags()) or "_", self.name("W"), size,
                ["members"] + [["m", self.name("m"), self.ty("top", 1)] for _ in range(r.below(4))]]

    def module(self, ndecls=None):
        n = ndecls if ndecls is not None else 1 + self.rng.below(5)
        return ["module"] + [self.decl() for _ in range(n)]


# ---------------------------------------------------------------------------------------------- rendering

class Render:
    """tree -> list of tokens -> text in a random layout"""

    def __init__(self, rng, plain=False):
        self.rng = rng
        self.plain = plain
        self.toks = []

    def emit(self, *ts):
        self.toks.extend(ts)

    def ty(self, t):
        k = t[0]
        if k == "simple":
            self.emit(t[1])
        elif k == "named":
            self.emit(t[1])
        elif k == "ptr":
            self.emit("&")
            self.ty(t[1])
        elif k == "view":
            self.emit("(")
            self.ty(t[1])
            self.emit(")")
        elif k == "arraylike":
            self.emit("[", "]")
            self.ty(t[1])
        elif k == "slice":
            self.emit("[", ":", "]")
            self.ty(t[1])
        elif k == "endless":
            self.emit("[", "..", "]")
            self.ty(t[1])
        elif k == "array":
            self.emit("[", self.naked_decimal(t[1]), "]")
            self.ty(t[2])
        elif k == "arraynamed":
            self.emit("[", t[1], "]")
            self.ty(t[2])
        else:
            raise ValueError(t)

    def naked_decimal(self, v):
        s = str(v)
        if not self.plain and len(s) > 3 and self.rng.chance(1, 3):
            s = s[:-3] + "_" + s[-3:]
        return s

    def int_spelling(self, v, ty, hint=None):
        r = self.rng
        neg = v < 0
        a = -v if neg else v
        suffix = "" if ty == "_" else ty[1]
        # the spelling is free, except that an untyped literal behind a folded minus is decimal and an untyped literal
        # behind a minus operator is not (hint "bit")
        if hint == "bit":
            forms = ["hex", "bin", "HEX"]
        elif neg and ty == "_":
            forms = ["dec"]
        else:
            forms = ["dec", "dec", "hex", "bin", "HEX"]
        f = "dec" if (self.plain and hint != "bit") else r.pick(forms)
        if f == "dec":
            s = self.naked_decimal(a)
        elif f == "hex":
            s = "0x%x" % a
        elif f == "HEX":
            s = "0x%X" % a
        else:
            s = "0b" + bin(a)[2:]
        return (["-"] if neg else []) + [s + suffix]

    def string_parts(self, data):
        r = self.rng
        parts = [data]
        if not self.plain and len(data) >= 2 and r.chance(1, 3):
            i = 1 + r.below(len(data) - 1)
            parts = [data[:i], data[i:]]
        out = []
        for p in parts:
            s = '"'
            skip = 0
            for idx, b in enumerate(p):
                if skip:
                    skip -= 1
                    continue
                if b >= 0xc2 and not self.plain and r.chance(1, 2):
                    # a complete UTF-8 sequence may stand in the source as the character itself
                    ln = 2 if b < 0xe0 else 3 if b < 0xf0 else 4
                    try:
                        ch = bytes(p[idx:idx + ln]).decode("utf-8")
                        if len(ch) == 1 and len(p[idx:idx + ln]) == ln:
                            s += ch
                            skip = ln - 1
                            continue
                    except UnicodeDecodeError:
                        pass
                if b == 10:
                    s += "\\n"
                elif b == 9:
                    s += "\\t"
                elif b == 34:
                    s += '\\"'
                elif b == 39:
                    s += r.pick(["'", "\\'"])
                elif b == 92:
                    s += "\\\\"
                elif b == 0:
                    s += "\\0"
                elif 32 <= b < 127:
                    s += chr(b)
                else:
                    s += ("\\x%02x" if (self.plain or r.chance(1, 2)) else "\\x%02X") % b
            out.append(s + '"')
        return out

    def char_spelling(self, v):
        table = {10: "'\\n'", 0: "'\\0'", 39: "'\\''", 92: "'\\\\'", 9: "'\\t'"}
        if v in table:
            return table[v]
        if 32 <= v < 127:
            return "'" + chr(v) + "'"
        return "'\\x%02x'" % v

    def steps(self, st):
        for s in st[1:]:
            if s[0] == "member":
                self.emit(".", s[1])
            else:
                self.emit("[")
                self.expr(s[1])
                self.emit("]")

    def comma_list(self, items, fn, allow_trailing=True):
        for i, it in enumerate(items):
            fn(it)
            if i + 1 < len(items):
                self.emit(",")
            elif allow_trailing and not self.plain and self.rng.chance(1, 3):
                self.emit(",")

    def expr(self, e):
        k = e[0]
        if k == "int":
            if e[2] != "_" and e[2][1] == "char8":
                self.emit(self.char_spelling(e[1]))
            else:
                self.emit(*self.int_spelling(e[1], e[2], e[3] if len(e) > 3 else None))
        elif k == "bool":
            self.emit("true" if e[1] else "false")
        elif k == "str":
            self.emit(*self.string_parts(bytes.fromhex(e[1][1:])))
        elif k == "array":
            self.emit("[")
            self.comma_list(e[1:], self.expr)
            self.emit("]")
        elif k == "structural":
            self.emit(e[1][1], "{")

            def field(f):
                ex = f[2]
                if (not self.plain and ex[0] == "deref" and ex[1] == 0 and ex[2] == f[1] and len(ex[3]) == 1
                        and self.rng.chance(1, 2)):
                    self.emit(f[1])
                else:
                    self.emit(f[1], ":")
                    self.expr(ex)
            self.comma_list(e[2:], field)
            self.emit("}")
        elif k == "paren":
            self.emit("(")
            self.expr(e[1])
            self.emit(")")
        elif k == "deref":
            self.emit(*(["&"] * e[1]))
            self.emit(e[2])
            self.steps(e[3])
        elif k == "lengthof":
            self.emit("|")
            self.emit(*(["&"] * e[1]))
            self.emit(e[2])
            self.steps(e[3])
            self.emit("|")
        elif k == "sizeof":
            self.emit("|:")
            self.ty(e[1])
            self.emit("|")
        elif k == "call":
            self.emit(e[1] + "!" if e[2] else e[1], "(")
            self.comma_list(e[3:], self.expr)
            self.emit(")")
        elif k == "bin":
            self.expr(e[2])
            self.emit(OPSYM[e[1]])
            self.expr(e[3])
        elif k == "un":
            self.emit(OPSYM[e[1]])
            self.expr(e[2])
        elif k == "bitcast":
            self.emit("cast")
            self.expr(e[1])
        elif k == "typecast":
            self.expr(e[1])
            self.emit("as")
            self.ty(e[2])
        else:
            raise ValueError(e)

    def stmt(self, s):
        k = s[0]
        if k == "var":
            self.emit("var", s[1])
            if s[2] != "_":
                self.emit(":")
                self.ty(s[2])
            if s[3] != "_":
                self.emit("=")
                self.expr(s[3])
            self.emit(";")
        elif k == "assign":
            r = s[1]
            self.emit(*(["&"] * r[1]))
            self.emit(r[2])
            self.steps(r[3])
            self.emit("=")
            self.expr(s[2])
            self.emit(";")
        elif k == "mcall":
            self.emit(s[1] + "!" if s[2] else s[1], "(")
            self.comma_list(s[3:], self.expr)
            self.emit(")", ";")
        elif k == "loop":
            self.emit("loop", ";")
        elif k == "goto":
            self.emit("goto", s[1], ";")
        elif k == "label":
            self.emit(s[1], ":")
        elif k == "block":
            self.emit("{")
            for x in s[1:]:
                self.stmt(x)
            self.emit("}")
        elif k == "if":
            c = s[1]
            self.emit("if")
            self.expr(c[2])
            self.emit(OPSYM[c[1]])
            self.expr(c[3])
            self.stmt(s[2])
            if len(s) > 3:
                self.emit("else")
                self.stmt(s[3])
        else:
            raise ValueError(s)

    def decl(self, d):
        k = d[0]
        if k == "import":
            path = bytes.fromhex(d[1][1:])
            self.emit("import", '"' + "".join(chr(b) if 32 <= b < 127 and b not in (34, 92) else "\\x%02x" % b for b in path) + '"', ";")
            return
        flags = [] if d[1] == "_" else d[1].split("|")
        if "Public" in flags:
            self.emit("pub")
        if "External" in flags:
            self.emit("extern")
        if k == "const":
            self.emit("const", d[2], ":")
            self.ty(d[3])
            self.emit("=")
            self.expr(d[4])
            self.emit(";")
        elif k == "fn":
            self.emit("fn", d[2], "(")

            def param(p):
                self.emit(p[1], ":")
                self.ty(p[2])
            self.comma_list(d[3][1:], param)
            self.emit(")")
            if d[4] != ["simple", "void"] or (not self.plain and self.rng.chance(1, 6)):
                self.emit("->")
                self.ty(d[4])
            if d[5] == "_":
                self.emit(";")
            else:
                self.emit("{")
                for s in d[5][1][1:]:
                    self.stmt(s)
                if d[5][2] != "_":
                    self.emit("return", ":")
                    self.expr(d[5][2])
                self.emit("}")
        elif k == "struct":
            if d[3] == -1:
                self.emit("struct", d[2])
            else:
                self.emit("word%d" % (8 * d[3]), d[2])
            if "OpaqueStruct" in flags:
                self.emit(";")
            else:
                self.emit("{")

                def member(m):
                    self.emit(m[1], ":")
                    self.ty(m[2])
                self.comma_list(d[4][1:], member)
                self.emit("}")
        else:
            raise ValueError(d)

    def text(self):
        r = self.rng
        if self.plain:
            return " ".join(self.toks) + "\n"
        out = []
        for t in self.toks:
            out.append(t)
            k = r.below(12)
            if k < 7:
                out.append(" ")
            elif k < 9:
                out.append("\n" + "\t" * r.below(3))
            elif k == 9:
                out.append("  ")
            elif k == 10:
                out.append(" // " + r.pick(["note", "x = 1;", "{", "\"", "é"]) + "\n")
            else:
                out.append("\n\n")
        return "".join(out)


def render(module, rng, plain=False):
    rd = Render(rng, plain)
    for d in module[1:]:
        rd.decl(d)
    return rd.text()
