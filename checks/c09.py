"""C09 — literals mean exactly what they say."""
import collections
from lib import *

THEOREMS = ["Lex.decimal_roundtrip", "Lex.hex_roundtrip", "Lex.bin_roundtrip", "Lex.decimal_too_big",
            "Lex.valueOf_toDigits", "Lit.lint_iff_out_of_range", "Lit.lint_iff_out_of_range_negated_bit",
            "Lit.materialise_exact", "Lit.minus_fold", "Lit.minus_fold_i128_min", "Lit.lint_iff_out_of_range_on",
            "Lit.lint_iff_out_of_range_bit_on", "Lit.materialise_exact_on", "Lit.outcomeOn_host"]

TYPES = ["i8", "i16", "i32", "i64", "i128", "u8", "u16", "u32", "u64", "u128", "usize"]
WIDTH = {"i8": 8, "i16": 16, "i32": 32, "i64": 64, "i128": 128, "u8": 8, "u16": 16, "u32": 32, "u64": 64, "u128": 128,
         "usize": 64}


def rng_of(t):
    w = WIDTH[t]
    if t.startswith("i"):
        return -(1 << (w - 1)), (1 << (w - 1)) - 1
    return 0, (1 << w) - 1


def underscore(rng, s):
    out = [s[0]]
    for ch in s[1:]:
        if rng.chance(1, 4):
            out.append("_" * (1 + rng.below(2)))
        out.append(ch)
    if rng.chance(1, 5):
        out.append("_")
    return "".join(out)


def spell(rng, n, base):
    """a spelling of the non-negative integer n"""
    if base == 10:
        s = str(n)
        return underscore(rng, s) if rng.chance(1, 2) else s
    if base == 16:
        s = "%x" % n
        s = "".join(c.upper() if rng.chance(1, 2) else c for c in s)
        if rng.chance(1, 4):
            s = "0" * rng.below(3) + s
        d = underscore(rng, s) if rng.chance(1, 2) else s
        return "0x" + ("_" if rng.chance(1, 8) else "") + d
    s = bin(n)[2:]
    if rng.chance(1, 4):
        s = "0" * rng.below(3) + s
    if len(s) > 128:
        s = s[-128:] if n < (1 << 128) else s
    d = underscore(rng, s) if rng.chance(1, 2) else s
    return "0b" + d


def values_for(t, rng):
    lo, hi = rng_of(t)
    vs = {0, 1, hi, hi + 1, lo, lo - 1, 1 << 32, 1 << 64, 1 << 127, (1 << 128) - 1, 1 << 128, (1 << 32) - 1,
          (1 << 64) - 1, 255, 256, 127, 128, (1 << 31), (1 << 63)}
    for _ in range(6):
        vs.add(rng.below(hi + 1))
        vs.add(rng.below(1 << (8 * (1 + rng.below(16)))))
        if lo < 0:
            vs.add(-rng.below(-lo + 1))
    return sorted(vs)


def int_cases(rng, per_type_extra):
    cases = []
    for t in TYPES:
        lo, _hi = rng_of(t)
        for v in values_for(t, rng):
            neg = v < 0
            if neg and not t.startswith("i"):
                continue
            mag = -v if neg else v
            # a negated 0x / 0b literal of a signed type is not folded by the parser: the minimum of the type spelled this way is
            # in range as an expression but its literal part is not (F2b)
            bases = ([10, 16, 2] if (v == lo and t != "i128") else [10]) if neg else [10, 16, 2]
            for b in bases:
                for sfx in ("", t):
                    sp = spell(rng, mag, b) + sfx
                    cases.append(("lit", t, 1 if neg else 0, sp))
        # malformed
        for sp in ("1u7", "0x1g", "12ab", "0b12", "1_", "0x", "0b", "00", "1i", "0xu8", "1usize8"):
            cases.append(("lit", t, 0, sp))
    return cases


ESCAPES = ["\\n", "\\r", "\\t", "\\\\", "\\'", "\\\"", "\\0"]


def str_cases(rng):
    cases = []
    for b in range(256):
        cases.append(("str", '"\\x%02x"' % b))
        cases.append(("str", '"\\x%02X"' % b))
        if 32 <= b < 127 and chr(b) not in '"\\':
            cases.append(("str", '"' + chr(b) + '"'))
            if chr(b) != "'":
                cases.append(("str", "'" + chr(b) + "'"))
        cases.append(("str", "'\\x%02x'" % b))
    for e in ESCAPES:
        cases.append(("str", '"' + e + '"'))
        cases.append(("str", "'" + e + "'"))
    for cp in (0x41, 0x7f, 0x80, 0x7ff, 0x800, 0x20ac, 0xffff, 0x10000, 0x10ffff, 0xd7ff, 0xe000):
        cases.append(("str", '"\\u{%x}"' % cp))
        cases.append(("str", '"\\u{%X}"' % cp))
    # the number of digits of a unicode escape: one to six, leading zeros included (7 and 8 digits are E162 whatever the value)
    for digits in range(1, 9):
        for cp in (0x0, 0x41, 0x20ac):
            if len("%x" % cp) <= digits:
                cases.append(("str", '"\\u{%s}"' % ("%x" % cp).rjust(digits, "0")))
    cases.append(("str", "'\\u{41}'"))
    for bad in ('"\\u{d800}"', '"\\u{110000}"', '"\\u{}"', '"\\u41"', '"\\q"', '"\\x4"', '"\\x"', '"abc', "'ab'", "''",
                '"\\u{dfff}"', '"a\tb"', '"\\', "'\\"):
        cases.append(("str", bad))
    cases.append(("str", '"€é"'))
    for _ in range(150):
        parts = []
        for _ in range(1 + rng.below(3)):
            body = "".join(rng.pick(ESCAPES + ["a", "Z", " ", "0", "\\x41", "\\xff", "\\u{20ac}", "€", "{", "%", "'"])
                           for _ in range(rng.below(6)))
            parts.append('"' + body + '"')
        cases.append(("str", rng.pick([" ", "\n\t", "  "]).join(parts)))
    return cases


def program_for(group):
    """one program printing every literal of the group (all expected to compile)"""
    lines = ["fn main()", "{"]
    for i, c in enumerate(group):
        if c[0] == "lit":
            _, t, neg, sp = c
            lines.append("\tvar x%d: %s = %s%s;" % (i, t, "-" if neg else "", sp))
            lines.append('\tprint!(x%d, "\\n");' % i)
        else:
            # the literal(s) stand on lines of their own, as in the model's input
            lines.append("\tvar s%d =" % i)
            lines.append(c[1])
            lines.append("\t;")
            if c[1].lstrip().startswith("'"):
                lines.append("\tprint!(s%d);" % i)
            else:
                lines.append('\tprint!(|s%d|, ":", s%d);' % (i, i))
                # the literal as a direct argument of the formatting builtins: alone (emitted verbatim), between other
                # arguments (embedded in the format string, or passed as `%.*s` when it is not snprintf-safe), in format!
                lines.append('\tprint!("\\n--\\n");')
                lines += ["\tprint!(", c[1], "\t);", '\tprint!("\\n--\\n");']
                lines += ["\tprint!(7i32,", c[1], "\t, 8i32);", '\tprint!("\\n--\\n");']
                lines += ["\tvar f%d = format!(" % i, c[1], "\t);", '\tprint!(|f%d|, ":", f%d);' % (i, i)]
            lines.append('\tprint!("\\n--\\n");')
    lines.append("}")
    return "\n".join(lines) + "\n"


def model_req(c):
    if c[0] == "lit":
        return "C09\t(lit %s %d %s)" % (c[1], c[2], sexp_str(c[3]))
    return "C09\t(str %s)" % sexp_str(c[1])


def main():
    rep = Reporter("C09")
    if not setup_common(rep, THEOREMS):
        return rep.finish()
    rng = SplitMix64(rep.seed).fork("C09")
    thorough = rep.tier == "thorough"
    cases = []
    for _ in range(12 if thorough else 1):
        cases += int_cases(rng, 0)
    cases += str_cases(rng)
    # de-duplicate
    seen = set()
    uniq = []
    for c in cases:
        if c not in seen:
            seen.add(c)
            uniq.append(c)
    cases = uniq
    m = run_model([model_req(c) for c in cases])
    dist = collections.Counter()
    # classify by the model's prediction
    singles, batch = [], []
    for i, c in enumerate(cases):
        a = m[i]
        dist["model:" + a.split(" ")[0]] += 1
        if a.startswith("value") and " lint=0" in a:
            batch.append(i)
        elif a.startswith("bytes"):
            batch.append(i)
        elif a in ("mismatch", "not-one-token", "not-a-literal", "not-literals", "bad-request"):
            dist["skipped:" + a] += 1
        else:
            singles.append(i)
    progs = []   # (list of case indices, source)
    lit_batch = [i for i in batch if cases[i][0] == "lit"]
    str_batch = [i for i in batch if cases[i][0] == "str"]
    for k in range(0, len(lit_batch), 40):
        g = lit_batch[k:k + 40]
        progs.append((g, program_for([cases[i] for i in g])))
    for k in range(0, len(str_batch), 20):
        g = str_batch[k:k + 20]
        progs.append((g, program_for([cases[i] for i in g])))
    for i in singles:
        progs.append(([i], program_for([cases[i]])))
    h = run_harness(["alpha\trun\tmain.pn\t" + esc(src) for (_g, src) in progs])
    agreeing = 0
    nontrivial = set()

    def report(i, why, impl, src):
        c = cases[i]
        if c[0] == "lit":
            key = "lit:%s:%d:%s" % (c[1], c[2], c[3].replace("_", "").lower())
        else:
            key = "str:" + c[1]
        rep.violation(key, {"why": why, "case": c, "model_request": model_req(c), "model": m[i],
                            "harness_request": "alpha\trun\tmain.pn\t" + esc(program_for([c])),
                            "implementation": impl[:600], "source": program_for([c]),
                            "explanation": "the literal's run-time value / diagnostic / lint differs from what the literal "
                                           "denotes according to the stage-by-stage model (lexer -> parser -> linter -> generator)"})

    def check_group(g, ans, src):
        """returns list of (case index, why) failures"""
        fails = []
        hh, hd = kv(ans)
        exp_lines = []
        for i in g:
            a = m[i]
            if a.startswith("error"):
                code = int(a.split()[1])
                if not (hh == "err" and code in codes_of(hd)):
                    fails.append((i, "expected E%d" % code))
                continue
            if hh != "ok":
                fails.append((i, "expected acceptance, got " + ans[:80]))
                continue
            if a.startswith("value"):
                _, d = kv(a)
                val = a.split()[1]
                want_lint = d["lint"] == "1"
                if len(g) == 1:
                    has = 1142 in codes_of(hd, "lints")
                    if has != want_lint:
                        fails.append((i, "lint L1142 %s but model says %s" % (has, want_lint)))
                    # the property itself: lint iff the denoted value is out of range
                    if (d["inrange"] == "1") == want_lint:
                        fails.append((i, "spec: in-range=%s but lint=%s (denotes %s)" % (d["inrange"], d["lint"], d["denotes"])))
                if not want_lint:
                    exp_lines.append((i, val.encode()))
            elif a.startswith("bytes"):
                bs = bytes.fromhex(a.split()[1] if len(a.split()) > 1 else "")
                if cases[i][1].lstrip().startswith("'"):
                    exp_lines.append((i, bs))
                else:
                    # print! stops at a NUL byte (it formats strings C-style); the length is exact
                    bs0 = bs.split(b"\0")[0]
                    exp_lines.append((i, str(len(bs)).encode() + b":" + bs0))
                    exp_lines.append((i, bs0))
                    exp_lines.append((i, b"7" + bs0 + b"8"))
                    # format! of a literal with a NUL goes through snprintf: C-style, like print!
                    exp_lines.append((i, str(len(bs) if b"\0" not in bs else len(bs0)).encode() + b":" + bs0))
        if hh == "ok" and exp_lines:
            out = bytes.fromhex(hd.get("stdout", "h:")[2:])
            if hd.get("status") not in ("0",):
                # main returns void: exit status is unspecified; only stdout is compared
                pass
            if cases[g[0]][0] == "lit":
                got = out.split(b"\n")
                for k, (i, want) in enumerate(exp_lines):
                    if k >= len(got) or got[k] != want:
                        fails.append((i, "printed %r, denotes %r" % (got[k] if k < len(got) else None, want)))
            else:
                got = out.split(b"\n--\n")
                for k, (i, want) in enumerate(exp_lines):
                    if k >= len(got) or got[k] != want:
                        fails.append((i, "printed %r, denotes %r" % (got[k] if k < len(got) else None, want)))
        return fails

    for (g, src), ans in zip(progs, h):
        fails = check_group(g, ans, src)
        if fails and len(g) > 1:
            # re-run the failing literals alone for a minimal replay
            for i, why in fails:
                one = run_harness_serial(["alpha\trun\tmain.pn\t" + esc(program_for([cases[i]]))])[0]
                f2 = check_group([i], one, None)
                if f2:
                    report(i, f2[0][1], one, None)
                else:
                    report(i, why + " (only in a batch)", ans, src)
        else:
            for i, why in fails:
                report(i, why, ans, src)
        agreeing += len(g) - len(set(i for i, _ in fails))
        for i in g:
            nontrivial.add(cases[i])
    # the lint must fire wherever a literal can stand, not only in initialisers: for every integer type the largest
    # value, the first one beyond it and (signed) the smallest and the one below, with the type as suffix, in every
    # expression position.  L1142 exactly for the out-of-range ones.
    POSITIONS = {
        "initialiser": "fn main()\n{\n\tvar x: %(t)s = %(l)s;\n}\n",
        "assignment": "fn main()\n{\n\tvar x: %(t)s = 0;\n\tx = %(l)s;\n}\n",
        "return": "fn f() -> %(t)s\n{\n\treturn: %(l)s\n}\nfn main()\n{\n}\n",
        "condition-right": "fn main()\n{\n\tvar x: %(t)s = 0;\n\tif x == %(l)s\n\t{\n\t\tx = 1;\n\t}\n}\n",
        "condition-left": "fn main()\n{\n\tvar x: %(t)s = 0;\n\tif %(l)s == x\n\t{\n\t\tx = 1;\n\t}\n}\n",
        "else-if-condition": "fn main()\n{\n\tvar x: %(t)s = 0;\n\tif x == 0\n\t{\n\t\tx = 1;\n\t}\n\telse if x != %(l)s\n\t{\n\t\tx = 2;\n\t}\n}\n",
        "argument": "fn f(a: %(t)s)\n{\n}\nfn main()\n{\n\tf(%(l)s);\n}\n",
        "operand": "fn main()\n{\n\tvar x: %(t)s = 0;\n\tvar y: %(t)s = x + %(l)s;\n}\n",
        "array-element": "fn main()\n{\n\tvar a: [2]%(t)s = [0, %(l)s];\n}\n",
        "member": "struct S\n{\n\tm: %(t)s,\n}\nfn main()\n{\n\tvar s = S { m: %(l)s };\n}\n",
        "constant": "const K: %(t)s = %(l)s;\nfn main()\n{\n}\n",
        "nested-block-return": "fn f() -> %(t)s\n{\n\tvar x: %(t)s = 0;\n\t{\n\t\tx = 1;\n\t}\n\treturn: (%(l)s)\n}\nfn main()\n{\n}\n",
        "print-argument": "fn main()\n{\n\tprint!(%(l)s);\n}\n",
        "cast-operand": "fn main()\n{\n\tvar x: i128 = %(l)s as i128;\n}\n",
    }
    pjobs = []
    for t in TYPES:
        lo, hi = rng_of(t)
        for v in [hi, hi + 1] + ([lo + 1, lo - 1] if lo < 0 else []):
            if t == "i128" and v < lo:
                continue            # below i128: not a representable literal at all
            litsrc = ("-%d%s" % (-v, t)) if v < 0 else "%d%s" % (v, t)
            if t in ("i128", "u128") and (v > hi) and abs(v) >= (1 << 128):
                continue
            for pos, tmpl in POSITIONS.items():
                if t == "i128" and pos == "cast-operand":
                    continue
                pjobs.append((t, v, pos, tmpl % dict(t=t, l=litsrc), not (lo <= v <= hi)))
    ph = run_harness(["alpha\tcheck\tmain.pn\t" + esc(src) for (_, _, _, src, _) in pjobs])
    for (t, v, pos, src, want), ha in zip(pjobs, ph):
        hh, hd = kv(ha)
        has = hh == "ok" and 1142 in codes_of(hd, "lints")
        dist["lint-position:%s:%s" % (pos, "lint" if want else "clean")] += 1
        if hh == "ok" and has == want:
            agreeing += 1
        else:
            rep.violation("lint-position:%s:%s:%d" % (pos, t, v), {
                "why": "the literal %d of type %s in position `%s`: L1142 expected=%s, compiler says %s" % (v, t, pos, want, ha[:160]),
                "source": src, "harness_request": "alpha\tcheck\tmain.pn\t" + esc(src)})
    # the wasm32 target (`penne --wasm`): `usize` is 32 bits wide there.  Nothing can be run; the lint and the constant the
    # module stores are compared with the model for that target (Lit.outcomeOn true).
    wcases = []
    for v in sorted({0, 1, (1 << 31), (1 << 32) - 1, 1 << 32, (1 << 32) + 1, (1 << 63), (1 << 64) - 1, 1 << 64, (1 << 127),
                     (1 << 128) - 1} | {rng.below(1 << 32) for _ in range(4)} | {rng.below(1 << 64) for _ in range(4)}
                    | {rng.below(1 << 128) for _ in range(3 if thorough else 1)}):
        for b in (10, 16, 2):
            for sfx in ("", "usize"):
                wcases.append(("usize", spell(rng, v, b) + sfx))
    for t, v in (("u32", (1 << 32) - 1), ("u32", 1 << 32), ("u64", 1 << 32), ("u64", 1 << 64), ("i32", (1 << 31) - 1), ("i32", 1 << 31)):
        wcases.append((t, str(v)))
    wm = run_model(["C09\t(lit32 %s 0 %s)" % (t, sexp_str(sp)) for (t, sp) in wcases])
    wsrcs = ["fn main()\n{\n\tvar x: %s = %s;\n}\n" % (t, sp) for (t, sp) in wcases]
    wh = run_harness(["alpha\twasm+mods\tmain.pn\t" + esc(src) for src in wsrcs])
    for (t, sp), ma, ha, src in zip(wcases, wm, wh, wsrcs):
        hh, hd = kv(ha)
        why = None
        dist["wasm32:" + ma.split(" ")[0]] += 1
        if ma.startswith("value"):
            _, d = kv(ma)
            want_lint = d["lint"] == "1"
            bits = {"usize": 32, "u32": 32, "i32": 32, "u64": 64}[t]
            stored = None
            if hh == "ok":
                ir = "\n".join(bytes.fromhex(x[2:]).decode("utf-8", "replace") for x in hd.get("mods", "").split(";") if x.startswith("h:"))
                ms = re.search(r"store i%d (-?\d+), (?:i%d\*|ptr) %%x" % (bits, bits), ir)
                stored = int(ms.group(1)) % (1 << bits) if ms else None
            if hh != "ok":
                why = "expected acceptance, got " + ha[:100]
            elif (1142 in codes_of(hd, "lints")) != want_lint:
                why = "for wasm32: L1142 %s, but the literal is %s the range of %s there" % (
                    1142 in codes_of(hd, "lints"), "outside" if want_lint else "inside", t)
            elif stored != int(ma.split()[1]) % (1 << bits):
                why = "for wasm32: the module stores %s, the model says %s" % (stored, ma.split()[1])
        elif ma.startswith("error"):
            if not (hh == "err" and int(ma.split()[1]) in codes_of(hd)):
                why = "expected E%s" % ma.split()[1]
        else:
            continue
        if why:
            rep.violation("wasm32-lit:%s:%s" % (t, sp.replace("_", "").lower()), {
                "why": why, "source": src, "harness_request": "alpha\twasm+mods\tmain.pn\t" + esc(src),
                "model_request": "C09\t(lit32 %s 0 %s)" % (t, sexp_str(sp)), "model": ma, "implementation": ha[:300]})
        else:
            agreeing += 1
    report_broken_proof(rep)
    rep.coverage.update({
        "wasm32_literals": len(wcases),
        "evaluations": len(cases),
        "distinct_nontrivial": len(nontrivial),
        "programs": len(progs),
        "rule": "11 integer types x boundary values (0, 1, max, max+1, min, min-1, 2^31, 2^32, 2^63, 2^64, 2^127, 2^128-1, 2^128, "
                "...) and random values x {decimal, 0x, 0b} x {no suffix, matching suffix} x random case / `_` separators / "
                "leading zeros, unary minus on decimal spellings of signed types, malformed suffixes; all 256 byte values as "
                "\\xHH (both cases) in strings and chars, printable characters, every simple escape, \\u{..} boundary code "
                "points, malformed escapes/quotes, adjacent-literal concatenation. In-range literals are batched 40 per "
                "program and compared on printed output; every other case is its own program (codes / lint). distinct = by "
                "(type, sign, spelling)",
        "traces_validated_against_impl": agreeing,
        "distribution": dict(dist),
        "samples": [list(cases[3]), list(cases[len(cases) // 2]), list(cases[-1])],
    })
    return rep.finish()


if __name__ == "__main__":
    sys.exit(main())
