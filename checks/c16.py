"""C16 — the second-generation parser builds a faithful parse tree."""
import collections
from lib import *
import faultgen
import syngen
import xmltree

THEOREMS = ["Layout.flat_tree_faithful", "Layout.flat_tree_injective", "Layout.read_encModule", "Layout.read_encStmt", "Layout.read_encExpr", "Layout.read_encTy", "Syn.parse_print_module", "Syn.parse_print_stmt", "Syn.parse_print_expr", "Syn.parse_print_ty", "Syn.parse_print_args", "Syn.parse_print_elems", "Syn.parse_print_steps", "Syn.parse_print_fields", "Syn.print_norm", "Syn.print_norm_module", "Syn.second_rebuild_identical_module", "Syn.second_rebuild_identical", "Syn.decl_rt", "Syn.all_n"]


def norm_lean(tree):
    """the Lean printer shows string literals by their raw pieces (r<hex of the source text>): decode them"""
    def piece(m):
        parts = re.findall(r"r([0-9a-f]*)", m.group(1))
        data = b"".join(xmltree.decode_penne_string(bytes.fromhex(p).decode("utf-8")) for p in parts)
        return "(str h%s)" % data.hex()
    tree = re.sub(r"\(str((?: r[0-9a-f]*)+)\)", piece, tree)
    tree = re.sub(r"\(import r([0-9a-f]*)\)",
                  lambda m: "(import h%s)" % xmltree.decode_penne_string(bytes.fromhex(m.group(1)).decode("utf-8")).hex(), tree)
    return tree


def first_diff(a, b):
    i = next((k for k in range(min(len(a), len(b))) if a[k] != b[k]), min(len(a), len(b)))
    return "...%s  <>  ...%s" % (a[max(0, i - 60):i + 60], b[max(0, i - 60):i + 60])


def main():
    rep = Reporter("C16")
    if not setup_common(rep, THEOREMS):
        return rep.finish()
    rng = SplitMix64(rep.seed).fork("C16")
    thorough = rep.tier == "thorough"
    dist = collections.Counter()
    forms = collections.Counter()
    cases = []      # (class, source, expected tree or None)
    for i in range(20000 if thorough else 1200):
        g = syngen.Gen(rng.fork("g%d" % i), max_depth=3 + rng.below(3))
        m = g.module()
        for k, v in g.forms.items():
            forms[k] += v
        cases.append(("generated", syngen.render(m, rng.fork("r%d" % i)), syngen.sx(m), ""))
    for name, src in faultgen.corpus():
        cases.append(("corpus", src, None, name))
    # the documented limits, at the limit and on both sides of it: both parsers accept 127 steps / address-of operators and
    # reject 128; literals with more digits than bits whose value fits (F76: the second generation stopped at 127 steps)
    def prog(body):
        return "fn main()\n{\n\t%s\n}\n" % body
    for n in (1, 2, 126, 127, 128):
        for tag, body in (("steps", "var x = a%s;" % ("[0]" * n)), ("members", "var x = a%s;" % (".m" * n)),
                          ("mixed", "var x = a%s;" % ("[i].m" * (n // 2) + "[0]" * (n % 2))),
                          ("lhs-steps", "a%s = 1;" % ("[0]" * n)), ("addr", "var x = %sa;" % ("&" * n)),
                          ("ptrtype", "var x: %si32 = a;" % ("&" * n)), ("len-addr", "var x = |%sa|;" % ("&" * n)),
                          ("lhs-addr", "%sa = 1;" % ("&" * n))):
            cases.append(("boundary", prog(body), None, "%s%d" % (tag, n)))
    for n in (127, 128, 129, 200):
        cases.append(("boundary", prog("var x = 0b%s101;" % ("0" * (n - 3))), None, "bin%d" % n))
        cases.append(("boundary", prog("var x = 0x%s5;" % ("0" * (n - 1))), None, "hex%d" % n))
        cases.append(("boundary", prog("var x = 0b%s;" % ("1" * n)), None, "binones%d" % n))
    srcs = [c[1] for c in cases]
    dx = run_harness(["delta\txml\t" + esc(s.encode()) for s in srcs])
    al = run_harness(["alphaast\t" + esc(s) for s in srcs])
    dt = run_harness(["dtokens\t" + esc(s.encode()) for s in srcs])
    mreq, midx = [], []
    for i, a in enumerate(dt):
        if a.startswith("ok "):
            mreq.append("synparse\t" + a[3:])
            midx.append(i)
    lean = dict(zip(midx, run_model(mreq)))
    # the flat layout: the Lean encoder applied to the Lean parser's tree must give the real node array,
    # variant by variant and node id by node id
    import c17
    dump = run_harness(["delta\tdump\t" + esc(s.encode()) for s in srcs])
    layout = dict(zip(midx, run_model([r.replace("synparse\t", "synlayout\t", 1) for r in mreq])))
    agreeing = 0
    for i, ((cls, src, want, _name), a, b) in enumerate(zip(cases, dx, al)):
        problems = []
        h, d = kv(a)
        h2, d2 = kv(b)
        alpha_tree = xmltree.norm_alpha(bytes.fromhex(d2["tree"][2:]).decode()) if h2 == "ok" else None
        lean_ans = lean.get(i)
        lean_tree = norm_lean(lean_ans[3:]) if lean_ans and lean_ans.startswith("ok ") else None
        if cls == "generated" and alpha_tree is None:
            problems.append("the first-generation parser rejects a generated module: " + b[:100])
        if cls == "corpus" and alpha_tree is None:
            dist["corpus: not accepted by the first generation"] += 1
            if h == "ok" and not re.search(r"\bimport\b|\breturn\b", src):
                pass    # the second generation is allowed to accept more (semantic errors are not its business)
            continue
        if cls == "boundary" and alpha_tree is None:
            # beyond a limit: both generations must reject
            dist["boundary: rejected by the first generation"] += 1
            if h == "ok":
                rep.violation("boundary:" + cases[i][3], {"why": "the second generation accepts what the first rejects at a documented limit",
                                                          "source": src, "implementation": a[:200], "first_generation": b[:200]})
            else:
                agreeing += 1
            continue
        delta_tree = None
        if h == "lexerr":
            import c14
            if c14.known_class(src) is not None:
                dist["%s: lexer divergence recorded under C14 (%s)" % (cls, c14.known_class(src))] += 1
                continue
        if h != "ok" and cls == "corpus" and cases[i][3].startswith("tests/samples/invalid"):
            # an invalid sample that the first-generation PARSER lets through (it is rejected later): the second
            # generation may reject it earlier, e.g. `return:` inside a nested block (`return` is a keyword there)
            dist["corpus: invalid sample rejected earlier by the second generation"] += 1
            continue
        dist[cls] += 1
        if h != "ok":
            problems.append("the second-generation front end rejects a syntactically valid module: " + a[:120])
        else:
            if d.get("malformed") != "0":
                problems.append("MALFORMED node in the XML dump")
            try:
                delta_tree = syngen.sx(xmltree.module_of_xml(bytes.fromhex(d["xml"][2:]).decode()))
            except xmltree.XmlError as e:
                problems.append("XML dump not well formed or not a tree of the language: %s" % e)
        ref = want if want is not None else alpha_tree
        if delta_tree is not None and delta_tree != ref:
            problems.append("second-generation tree differs from the %s tree: %s" % ("generator's" if want else "first-generation", first_diff(delta_tree, ref)))
        if want is not None and alpha_tree is not None and alpha_tree != want:
            problems.append("first-generation tree differs from the generator's tree: " + first_diff(alpha_tree, want))
        # flat layout
        hd, dd = kv(dump[i])
        lay = layout.get(i)
        if hd == "ok" and "tree" in dd and lay and lay.startswith("ok "):
            real = []
            for node in c17.split_nodes(bytes.fromhex(dd["tree"][2:]).decode()):
                tag = re.match(r"[A-Za-z]+", node).group(0)
                m = c17.NODE_RE.search(node)
                tag = {"StartPrivateZone": "PrivateZone", "EndlessPrivateZone": "PrivateZone", "FunctionImpl": "Impl"}.get(tag, tag)
                real.append(tag + ("@" + m.group(1) if m else ""))
            lay_parts = lay[3:].split(" ")
            model_nodes = lay_parts[0].split(",")
            model_roots = [int(x) for x in lay_parts[1].split(",") if x] if len(lay_parts) > 1 else []
            real_roots = [j for j, x in enumerate(real) if x.split("@")[0] in
                          ("ConstantDeclaration", "FunctionDeclaration", "StructureDeclaration", "ImportDeclaration")]
            # the slot of a function without body is patched to NoMoreItems in the real array
            model_nodes = [("NoMoreItems" if x == "NoMoreItems" else x) for x in model_nodes]
            if real != model_nodes:
                k = next((j for j in range(min(len(real), len(model_nodes))) if real[j] != model_nodes[j]), min(len(real), len(model_nodes)))
                problems.append("flat node array differs from the Lean layout of the tree at node %d: real %s, model %s (lengths %d / %d)"
                                % (k, real[max(0, k - 2):k + 3], model_nodes[max(0, k - 2):k + 3], len(real), len(model_nodes)))
            elif model_roots != real_roots:
                problems.append("declaration roots of the Lean layout %s differ from the declaration nodes of the real array %s"
                                % (model_roots[:8], real_roots[:8]))
            else:
                dist["layout agrees"] += 1
        if lean_tree is None:
            problems.append("the Lean reference parser does not accept the token stream: %s" % (lean_ans or dt[i])[:100])
        elif lean_tree != ref:
            problems.append("the Lean reference parser's tree differs: " + first_diff(lean_tree, ref))
        if problems:
            rep.violation("module:%s" % hash_str(src), {
                "why": problems[:5], "class": cls, "source": src, "harness_request": "delta\txml\t" + esc(src.encode()),
                "model_request": ("synparse\t" + dt[i][3:])[:20000] if dt[i].startswith("ok ") else None,
                "implementation": a[:300], "first_generation": b[:200]})
        else:
            agreeing += 1
    report_broken_proof(rep)
    rep.coverage.update({
        "evaluations": len(cases), "distinct_nontrivial": len(set(srcs)),
        "rule": "syntax-directed generated modules (every declaration, type, statement and expression form; precedence and "
                "associativity chains; random spelling of literals, field shorthand, trailing commas, adjacent strings; random "
                "layout with comments) and every corpus file the first-generation parser accepts: the second-generation XML "
                "dump must be balanced and MALFORMED-free, and the tree decoded from it, the first-generation AST, the Lean "
                "reference parser's tree of the real token stream and the generator's own tree must be identical "
                "(canonical S-expressions)",
        "traces_validated_against_impl": agreeing, "distribution": dict(dist), "grammar_forms_generated": dict(forms),
        "samples": [srcs[0][:600]],
    })
    return rep.finish()


if __name__ == "__main__":
    sys.exit(main())
