"""Control-flow skeletons for C01: structured programs of opaque actions and conditions (blocks, if / else / else-if,
forward gotos, labels, blocks ending in `loop`), rendered as Penne source whose output is the trace, and the tools to
compare the real IR's basic-block graph with the flow graph of the Lean lowering (CF/Defs.lean) by bisimulation."""
import re

PRELUDE = """const ORACLE: [%(n)d]i32 = [%(bits)s];
fn act(a: i32)
{
	print!(a, "\\n");
}
fn nxt(ctr: &usize, c: i32) -> i32
{
	var v: i32 = 1;
	if ctr < %(n)dusize
	{
		v = ORACLE[ctr];
	}
	ctr = ctr + 1usize;
	print!(1000i32 + c, "\\n");
	print!(v, "\\n");
	return: v
}
"""


class Gen:
    def __init__(self, rng, max_depth=3):
        self.r = rng
        self.next_label = 1
        self.next_block = 1
        self.next_act = 1
        self.next_cond = 1
        self.max_depth = max_depth
        self.nconds = 0

    def fresh(self, what):
        v = getattr(self, "next_" + what)
        setattr(self, "next_" + what, v + 1)
        return v

    def block(self, outer_targets, depth, looped=False, body=False):
        """a statement list; outer_targets: labels of enclosing blocks located after this block"""
        r = self.r
        n = 1 + r.below(5 if depth == 0 else 4)
        kinds = []
        for i in range(n):
            kinds.append("label" if (r.chance(1, 5) and i > 0) else "stmt")
        # labels need ids before the statements in front of them are generated
        labels = {i: self.fresh("label") for i, k in enumerate(kinds) if k == "label"}
        out = []
        if looped:
            # the exit test comes first, so every iteration evaluates it
            out.append(("if", self.fresh_cond(), ("goto", r.pick(outer_targets))))
        for i in range(n):
            visible = [labels[j] for j in labels if j > i] + list(outer_targets)
            if kinds[i] == "label":
                out.append(("label", labels[i]))
            else:
                out.append(self.stmt(visible, depth))
        return out

    def fresh_cond(self):
        self.nconds += 1
        return self.fresh("cond")

    def branch(self, visible, depth):
        r = self.r
        if visible and r.chance(1, 3):
            return ("goto", r.pick(visible))
        return ("block", self.fresh("block"), 0, self.block(visible, depth + 1))

    def stmt(self, visible, depth):
        r = self.r
        k = r.below(10)
        if k < 3 or depth >= self.max_depth or self.nconds >= 7:
            return ("act", self.fresh("act"))
        if k < 4 and visible:
            return ("goto", r.pick(visible))
        if k < 6:
            return ("if", self.fresh_cond(), self.branch(visible, depth))
        if k < 8:
            c = self.fresh_cond()
            t = self.branch(visible, depth)
            if r.chance(1, 3) and self.nconds < 7:
                e = ("if", self.fresh_cond(), self.branch(visible, depth))      # else if
            else:
                e = ("block", self.fresh("block"), 0, self.block(visible, depth + 1))
            return ("ife", c, t, e)
        if k < 9 and visible:
            return ("block", self.fresh("block"), 1, self.block(visible, depth + 1, looped=True))
        return ("block", self.fresh("block"), 0, self.block(visible, depth + 1))

    def body(self):
        return self.block([], 0, body=True)


def sx(s):
    k = s[0]
    if k in ("act", "goto", "label"):
        return "(%s %d)" % (k, s[1])
    if k == "if":
        return "(if %d %s)" % (s[1], sx(s[2]))
    if k == "ife":
        return "(ife %d %s %s)" % (s[1], sx(s[2]), sx(s[3]))
    return "(block %d %d%s)" % (s[1], s[2], "".join(" " + sx(x) for x in s[3]))


def render_stmt(s, ind, out):
    t = "\t" * ind
    k = s[0]
    if k == "act":
        out.append("%sact(%d);" % (t, s[1]))
    elif k == "goto":
        out.append("%sgoto l%d;" % (t, s[1]))
    elif k == "label":
        out.append("%sl%d:" % (t, s[1]))
    elif k in ("if", "ife"):
        out.append("%sif nxt(&i, %d) == 1" % (t, s[1]))
        render_branch(s[2], ind, out)
        if k == "ife":
            e = s[3]
            if e[0] == "if":
                # else if: the nested `if` continues on the same line
                sub = []
                render_stmt(e, ind, sub)
                out.append("%selse %s" % (t, sub[0].lstrip("\t")))
                out.extend(sub[1:])
            else:
                out.append("%selse" % t)
                render_branch(e, ind, out)
    else:
        out.append("%s{" % t)
        for x in s[3]:
            render_stmt(x, ind + 1, out)
        if s[2]:
            out.append("%s\tloop;" % t)
        out.append("%s}" % t)


def render_branch(b, ind, out):
    if b[0] == "goto":
        out.append("%s\tgoto l%d;" % ("\t" * ind, b[1]))
    else:
        render_stmt(b, ind, out)


def source(body, oracle):
    out = []
    for s in body:
        render_stmt(s, 1, out)
    n = max(1, len(oracle))
    bits = ", ".join(str(b) for b in (oracle or [1]))
    return (PRELUDE % dict(n=n, bits=bits)) + "fn main() -> i32\n{\n\tvar i: usize = 0;\n" + "\n".join(out) + "\n\treturn: 0\n}\n"


def trace_of_stdout(text):
    """the program prints one number per line: an action id, or 1000 + condition id followed by the outcome"""
    nums = [int(x) for x in text.split()]
    ev = []
    i = 0
    while i < len(nums):
        if nums[i] >= 1000:
            ev.append("c%d:%d" % (nums[i] - 1000, nums[i + 1] if i + 1 < len(nums) else -1))
            i += 2
        else:
            ev.append("a%d" % nums[i])
            i += 1
    return ",".join(ev)


# ---------------------------------------------------------------------------------------------------------------------
# the real IR of `main` as a labelled transition system

def ir_blocks(ir):
    m = re.search(r"define [^\n]*@main\(\)[^\n]*\{\n(.*?)\n\}", ir, re.S)
    if not m:
        return None
    blocks = {}
    order = []
    cur = None
    for line in m.group(1).split("\n"):
        lm = re.match(r'^("?)([A-Za-z0-9_.\-]+)\1:', line)
        if lm:
            cur = lm.group(2)
            blocks[cur] = []
            order.append(cur)
            continue
        line = line.strip()
        if not line or cur is None:
            continue
        am = re.match(r"call (?:fastcc |ccc )?void @act\(i32 (\d+)\)", line)
        if am:
            blocks[cur].append(("act", int(am.group(1))))
            continue
        cm = re.match(r"%\S+ = call (?:fastcc |ccc )?i32 @nxt\(.*i32 (\d+)\)", line)
        if cm:
            blocks[cur].append(("cond", int(cm.group(1))))
            continue
        bm = re.match(r'br i1 %\S+, label %"?([A-Za-z0-9_.\-]+)"?, label %"?([A-Za-z0-9_.\-]+)"?', line)
        if bm:
            blocks[cur].append(("cbr", bm.group(1), bm.group(2)))
            continue
        bm = re.match(r'br label %"?([A-Za-z0-9_.\-]+)"?', line)
        if bm:
            blocks[cur].append(("br", bm.group(1)))
            continue
        if line.startswith("ret "):
            blocks[cur].append(("ret",))
    return blocks, order[0] if order else None


def parse_code(text):
    """S-expression of CF.showCode -> nested tuples"""
    toks = text.replace("(", " ( ").replace(")", " ) ").split()
    pos = [0]

    def rd():
        t = toks[pos[0]]
        pos[0] += 1
        if t == "(":
            xs = []
            while toks[pos[0]] != ")":
                xs.append(rd())
            pos[0] += 1
            return tuple(xs)
        return t
    return rd()


def bisimilar(blocks, entry, main, defs):
    """explore the real IR and the model graph in lockstep; returns None or a description of the first difference"""
    seen = set()
    stack = [((entry, 0), main, None)]   # (IR position, model code, pending condition of the IR side)
    steps = 0
    while stack:
        (blk, idx), code, _ = stack.pop()
        steps += 1
        if steps > 200000:
            return "exploration does not end"
        # model side: resolve jumps
        hops = 0
        while code[0] == "jmp":
            if code[1] not in defs:
                return "the model jumps to an undefined block %s" % code[1]
            code = defs[code[1]]
            hops += 1
            if hops > 10000:
                return "the model jumps in a circle without an event"
        # IR side: advance to the next event
        hops = 0
        pending = None
        while True:
            if blk not in blocks or idx >= len(blocks[blk]):
                return "the IR falls off block %s" % blk
            ins = blocks[blk][idx]
            if ins[0] == "br":
                blk, idx = ins[1], 0
                hops += 1
                if hops > 10000:
                    # an IR cycle without events: only matches a model cycle without events, which was excluded above
                    return "the IR loops without an event at %s" % blk
                continue
            break
        key = (blk, idx, code)
        if key in seen:
            continue
        seen.add(key)
        if ins[0] == "act":
            if code[0] != "act" or int(code[1]) != ins[1]:
                return "IR does action %d at %s, the model has %s" % (ins[1], blk, str(code)[:60])
            stack.append(((blk, idx + 1), code[2], None))
        elif ins[0] == "cond":
            if code[0] != "cond" or int(code[1]) != ins[1]:
                return "IR tests condition %d at %s, the model has %s" % (ins[1], blk, str(code)[:60])
            # the conditional branch must follow in this block
            nxt = blocks[blk][idx + 1] if idx + 1 < len(blocks[blk]) else None
            if not nxt or nxt[0] != "cbr":
                return "condition %d at %s is not followed by a conditional branch" % (ins[1], blk)
            stack.append(((nxt[1], 0), code[2], None))
            stack.append(((nxt[2], 0), code[3], None))
        elif ins[0] == "ret":
            if code[0] != "halt":
                return "IR returns at %s, the model continues with %s" % (blk, str(code)[:60])
        else:
            return "unexpected IR instruction %s at %s" % (ins, blk)
    return None


def parse_answer(ma):
    """the Lean driver's answer to a `cf` request"""
    m = re.match(r"nodup=(\d) src=(\S*) cfg=(\S*) main=(.*) defs=(.*)$", ma)
    if not m:
        return None
    defs = {}
    if m.group(5):
        for part in m.group(5).split(";"):
            n, c = part.split("=", 1)
            defs[n] = parse_code(c)
    return dict(nodup=m.group(1), src=m.group(2), cfg=m.group(3), main=parse_code(m.group(4)), defs=defs)
