"""C15 — the second-generation front end is total and memory-safe on any bytes."""
import collections
import glob
import itertools
from lib import *
import faultgen
import progen

THEOREMS = ["Flat.node_bound", "Flat.node_bound_nt", "Flat.table_checked", "Flat.pinned_capacity_too_small",
            "Flat.cursor_bound", "Flat.cursor_checked", "Flat.runProg_sound", "Flat.runNT_sound", "Flat.runProg_cursor",
            "Flat.runNT_cursor", "Flat.parse_total", "Flat.nt_total", "Flat.term_checked", "Flat.walk_sound",
            "Flat.runNT_total", "Flat.node_ids_fit"]

CODE = {"unexpectedToken": 300, "semicolonAfterIdentifier": 301, "missingConstantType": 343,
        "missingParameterType": 344, "missingMemberType": 346, "maxDepth": 390}

DELTA_TOKENS = faultgen.TOKENS + ["return", "return:", "print!(", "import \"a\";", "pub", "extern", "struct S", "word16",
                                  "..", "|:", "as", "cast", "'a'", "1u8", "0b1", "goto return;", "else", "a.b", "a[0]",
                                  "&a", "S { a, b: 1 }", "[a, a]"]

SEQ_ALPHABET = ["fn", "f", "x", "(", ")", "{", "}", "[", "]", ":", ";", "=", "==", "&", "|", "-", ",", "goto", "if",
                "else", "loop", "i32", "\"s\"", "1", "var", "pub", "struct", "const", "return", ".", "+", "as", "!"]


def nesting_depth(src):
    """maximal depth of brackets, or of a run of prefix operators (each costs stack in a recursive-descent parser)"""
    depth = best = 0
    for ch in src:
        if ch in "([{":
            depth += 1
            best = max(best, depth)
        elif ch in ")]}":
            depth = max(0, depth - 1)
    return best


def expected_codes(merr, kinds):
    out = []
    for item in merr.split(","):
        if not item:
            continue
        name, _, pos = item.partition("@")
        pos = int(pos)
        code = CODE[name]
        if name == "unexpectedToken" and pos < len(kinds) and kinds[pos] == "EndOfSource":
            code = 100
        out.append(code)
    return out[:100]


def tags_match(real, model):
    if len(real) != len(model):
        return False
    for r, m in zip(real, model):
        if r in ("StartPrivateZone", "EndlessPrivateZone"):
            r = "PrivateZone"
        if r == m:
            continue
        if m == "Impl" and r in ("FunctionImpl", "UnpatchedListItem", "NoMoreItems"):
            continue
        if m == "ListItem" and r == "UnpatchedListItem":
            continue
        return False
    return True


def operator_chain(src):
    """length of the longest run `operand op operand op ...` of binary operators without brackets in one statement"""
    best = 0
    for stmt in src.split(";"):
        if len(stmt) < 16000:
            continue
        best = max(best, len(re.findall(r"[A-Za-z0-9_!]\s*(?:\+|-|\*|/|%|&|\||\^|<<|>>)\s*[A-Za-z0-9_!]", stmt)))
    return best


def dense_inputs(rng, big):
    out = []
    n = 20000 if big else 600
    out.append(("dense-add", "fn f()\n{\n\tx = " + "+".join(["a"] * n) + ";\n}\n"))
    out.append(("dense-array", "fn f()\n{\n\tx = [" + ",".join(["a"] * n) + "];\n}\n"))
    out.append(("dense-shorthand", "fn f()\n{\n\tx = S {" + ",".join(["a"] * n) + "};\n}\n"))
    out.append(("dense-bitwise", "fn f()\n{\n\tx = " + "&".join(["!a"] * n) + ";\n}\n"))
    out.append(("dense-semicolons", ";" * (2 * n)))
    out.append(("dense-stmts", "fn f()\n{\n" + "a=a;" * n + "\n}\n"))
    out.append(("dense-decls", "struct S;" * n))
    out.append(("dense-pubpriv", "pub struct S;struct T;" * n))
    out.append(("dense-pubfn", "pub fn f(){}fn g(){}" * n))
    out.append(("dense-errors", "fn f(){a}" * n))
    out.append(("dense-lexerrors", "`" * n))
    out.append(("giant-identifier", "fn " + "a" * (60 * n) + "()\n{\n}\n"))
    out.append(("giant-string", "fn f()\n{\n\tvar s = \"" + "x" * (60 * n) + "\";\n}\n"))
    out.append(("giant-comment", "// " + "x" * (60 * n) + "\nfn f()\n{\n}\n"))
    out.append(("many-strings", "fn f()\n{\n\tvar s = " + "\"a\" " * n + ";\n}\n"))
    # depth limits: at, just past, at the width of the counter, and far beyond
    for n in (125, 126, 127, 128, 129, 254, 255, 256, 257, 300, 1000, 70000 if big else 3000):
        out.append(("amp-depth-expr-%d" % n, "fn f()\n{\n\tx = " + "&" * n + "a;\n}\n"))
        out.append(("amp-depth-stmt-%d" % n, "fn f()\n{\n\t" + "&" * n + "a = 1;\n}\n"))
        out.append(("amp-depth-lengthof-%d" % n, "fn f()\n{\n\tx = |" + "&" * n + "a|;\n}\n"))
        out.append(("amp-depth-type-%d" % n, "fn f(x: " + "&" * n + "i32)\n{\n}\n"))
        out.append(("steps-depth-member-%d" % n, "fn f()\n{\n\tx = a" + ".b" * n + ";\n}\n"))
        out.append(("steps-depth-elem-%d" % n, "fn f()\n{\n\ta" + "[0]" * n + " = 1;\n}\n"))
        out.append(("strings-%d" % n, "fn f()\n{\n\tx = " + "\"s\" " * n + ";\n}\n"))
    out.append(("amp-depth", "fn f()\n{\n\tx = " + "&" * 126 + "a;\n\ty = " + "&" * 127 + "a;\n\tz = " + "&" * 128 + "a;\n}\n"))
    out.append(("steps-depth", "fn f()\n{\n\tx = a" + ".b" * 126 + ";\n\ty = a" + "[0]" * 127 + ";\n\tz = a" + ".b" * 128 + ";\n}\n"))
    for d in (50, 300):
        out.append(("nest-paren-%d" % d, "fn f()\n{\n\tx = " + "(" * d + "1" + ")" * d + ";\n}\n"))
        out.append(("nest-block-%d" % d, "fn f()\n{\n" + "{" * d + "}" * d + "\n}\n"))
        out.append(("nest-if-%d" % d, "fn f()\n{\n" + "if a == b " * d + "loop;\n}\n"))
        out.append(("nest-type-%d" % d, "fn f(x: " + "[]&" * d + "i32)\n{\n}\n"))
        out.append(("nest-index-%d" % d, "fn f()\n{\n\tx = " + "a[" * d + "1" + "]" * d + ";\n}\n"))
    return out


LEAN_MAX_NUM_TOKENS = 2 ** 22 - 2      # Flat.maxNumTokens (lean/PenneModel/Props/C15.lean)
LEAN_MAX_NUM_NODES = 2 ** 24           # Flat.maxNumNodes


def rust_const(path, name):
    """the value of `const NAME: usize = <expression>;` (integers, << + - * and parentheses)"""
    text = open(os.path.join(REPO, path)).read()
    m = re.search(r"const\s+%s\s*:\s*usize\s*=\s*([^;]+);" % name, text)
    if not m or not re.fullmatch(r"[\d\s()<+*-]+", m.group(1)):
        return None
    return int(eval(m.group(1), {"__builtins__": {}}))


def node_number_limits(rep):
    """the 24-bit node numbers: the theorem `Flat.node_ids_fit` is about the constants of the source (read here), and
    modules around the limit are lexed and parsed for real (built inside the harness: 11 to 17 MB)"""
    t = rust_const("src/delta/lexer/tokens.rs", "MAX_NUM_TOKENS")
    n = rust_const("src/delta/parser/parse_node.rs", "MAX_NUM_NODES")
    plain = esc(b"x = a + a     ;\n")
    chain = esc(b"x = a" + b"  + a" * 999 + b";\n")
    # (functions, statements, statement, what is expected)
    probes = [(698, 1000, plain, "accept"), (699, 1000, plain, None), (820, 1000, plain, None),
              (2080, 1, chain, "accept"), (2088, 1, chain, "accept"), (2089, 1, chain, None), (2400, 1, chain, None)]
    answers = run_harness_serial(["dbig\t%d\t%d\t%s" % (f, k, st) for (f, k, st, _e) in probes])
    seen = []
    for (f, k, st, expect), a in zip(probes, answers):
        head, d = kv(a)
        seen.append("%dx%d:%s" % (f, k, a[:90]))
        why = []
        if head in ("panic", "crash"):
            why.append("the front end does not survive a module of this size: " + a[:200])
        elif head == "ok":
            if int(d["nodes"]) > LEAN_MAX_NUM_NODES:
                why.append("%s nodes cannot be told apart by 24-bit node numbers" % d["nodes"])
            if expect == "accept" and d.get("codes"):
                why.append("a well-formed module under the limits is not accepted: " + a[:120])
        elif head == "lexerr":
            if d.get("codes") != "103":
                why.append("exceeding the token limit is reported as %s, not E103" % d.get("codes"))
            if expect == "accept":
                why.append("a well-formed module under the limits is not accepted: " + a[:120])
        else:
            why.append("unexpected answer " + a[:120])
        if why:
            rep.violation("node-numbers:%dx%d:%s" % (f, k, "plain" if st == plain else "chain"), {
                "why": why, "harness_request": "dbig\t%d\t%d\t%s" % (f, k, unesc_preview(st)),
                "source": "%d functions `fn f()\\n{\\n ... }\\n` of %d statements `%s` each" % (f, k, unesc_preview(st)),
                "implementation": a[:300], "theorem": "Flat.node_ids_fit"})
    if t != LEAN_MAX_NUM_TOKENS or n != LEAN_MAX_NUM_NODES:
        if t is not None and n is not None and 4 * t + 6 <= n:
            pass        # other constants under which the theorem's arithmetic still holds
        elif not any(k.startswith('node-numbers:') for (k, _p, _n) in rep.violations):
            rep.violation("node-numbers:constants", {
                "why": ["MAX_NUM_TOKENS = %s and MAX_NUM_NODES = %s in the source; Flat.node_ids_fit is about %d and %d, and "
                        "4 * tokens + 6 <= nodes does not hold for the source's constants" % (t, n, LEAN_MAX_NUM_TOKENS,
                                                                                              LEAN_MAX_NUM_NODES)],
                "theorem": "Flat.node_ids_fit"}, no_input=True)
    return {"MAX_NUM_TOKENS": t, "MAX_NUM_NODES": n, "probes": seen}


def unesc_preview(st):
    return st if len(st) <= 60 else st[:40] + "..." + st[-12:]


def main():
    rep = Reporter("C15")
    if not setup_common(rep, THEOREMS):
        return rep.finish()
    rng = SplitMix64(rep.seed).fork("C15")
    thorough = rep.tier == "thorough"
    dist = collections.Counter()
    inputs = []          # (class, bytes, expectation) expectation in {None, "accept", "lexreject"}
    corpus = faultgen.corpus()
    for name, src in corpus:
        inputs.append(("corpus", src.encode(), None))
    for _ in range(6000 if thorough else 600):
        name, src = rng.pick(corpus)
        for _k in range(1 + rng.below(3)):
            src = faultgen.mutate(rng, src)
        inputs.append(("mutated-corpus", src.encode("utf-8", "surrogatepass") if False else src.encode("utf-8", "replace"), None))
    for _ in range(4000 if thorough else 400):
        p = progen.Gen(rng).program(size=2 + rng.below(8))
        src = progen.src_prog(p, progen.Layout(rng))
        inputs.append(("generated-valid", src.encode(), "accept"))
        if rng.chance(1, 2):
            lines = src.split("\n")
            i = rng.below(len(lines) + 1)
            bad = rng.pick(["`", "@", "#", "$", "\\", "\x01", "\x7f", "'", "\"", "0x", "1u7", "é",
                            # stray characters whose last byte lies at either end of the continuation-byte range, 2 to 4 bytes
                            "\u00bf", "\u00ff", "\u20bf", "\u0080", "\u07ff", "\uffff", "\U0001f63f", "\U0010ffff", "\u20bf\u00bf",
                            # escapes that do not denote a character: surrogates, beyond U+10FFFF, empty, too long, bad hex
                            '"\\u{d800}"', '"\\u{dfff}"', '"\\u{00d900}"', '"\\u{110000}"', '"\\u{}"', '"\\u{1234567}"',
                            '"\\xg1"', '"\\q"', "'\\u{d800}'", "'ab'", "''", "0b2", "0x1g", "340282366920938463463374607431768211456",
                            # a backslash before a character of several bytes (the location of E162 once ended inside it)
                            '"\\\u20ac"', "'\\\u20ac'", '"a\\\u00e9b"', '"\\\U0001f600"'])
            inputs.append(("invalid-lexeme", "\n".join(lines[:i] + [" " + bad + " "] + lines[i:]).encode(), "lexreject"))
        if rng.chance(1, 3):
            inputs.append(("faulted-program", faultgen.mutate(rng, src).encode("utf-8", "replace"), None))
    for _ in range(20000 if thorough else 2000):
        n = 1 + rng.below(40)
        s = " ".join(rng.pick(DELTA_TOKENS) for _ in range(n))
        if rng.chance(1, 2):
            s = "fn main()\n{\n\t" + s + "\n}\n"
        inputs.append(("token-soup", s.encode(), None))
    maxlen = 3 if thorough else 2
    for n in range(1, maxlen + 1):
        for seq in itertools.product(SEQ_ALPHABET, repeat=n):
            s = " ".join(seq)
            inputs.append(("token-seq-%d" % n, s.encode(), None))
            inputs.append(("token-seq-%d" % n, ("fn main()\n{\n\t" + s + "\n}\n").encode(), None))
    if not thorough:
        for _ in range(6000):
            seq = [rng.pick(SEQ_ALPHABET) for _ in range(3 + rng.below(3))]
            s = " ".join(seq)
            inputs.append(("token-seq-sampled", (s if rng.chance(1, 2) else "fn main()\n{\n\t" + s + "\n}\n").encode(), None))
    for _ in range(20000 if thorough else 2000):
        n = rng.pick([1, 2, 3, 8, 64, 512, 4096])
        k = rng.below(4)
        if k == 0:
            b = bytes(rng.below(256) for _ in range(n))
        elif k == 1:
            b = bytes(rng.pick([0, 9, 10, 13, 32, 34, 39, 92, 47, 42, 0x80, 0xC3, 0xA9, 0xE2, 0xFF, 0xF0, 65, 48]) for _ in range(n))
        elif k == 2:
            b = bytes(32 + rng.below(95) for _ in range(n))
        else:
            name, src = rng.pick(corpus)
            b = bytearray(src.encode() or b" ")
            for _j in range(1 + rng.below(4)):
                b[rng.below(len(b))] = rng.below(256)
            b = bytes(b)
        inputs.append(("random-bytes", b, None))
    for cls, src in dense_inputs(rng, big=False):
        inputs.append((cls, src.encode(), None))
    big_inputs = []
    if thorough:
        for cls, src in dense_inputs(rng, big=True):
            big_inputs.append(("big-" + cls, src.encode()[:256 * 1024], None))
    # resource limits: more tokens than max(len/2, 65536)
    big_inputs.append(("token-limit", (";" * 70000).encode(), "lexreject"))
    big_inputs.append(("token-limit", ("a " * 66000).encode(), None))
    big_inputs.append(("token-limit", ("a;" * 120000).encode(), "lexreject"))
    big_inputs.append(("near-token-limit", ("struct S;" * 21000).encode(), "accept"))
    # the token buffer filled to the token (sources under 128 KiB hold 65536 tokens including the end-of-source sentinels): every
    # count around the capacity, with a complete last declaration and with one that is cut off by the end of the file
    for total in ((65530, 65533, 65534, 65535, 65536, 65537) if thorough else (65534, 65535, 65536)):
        for tail_name, tail, ntail in ((("complete", "", 0), ("fn", "fn", 1), ("pub", "pub", 1), ("open-if", "fn f(){if", 6),
                                        ("open-assignment", "fn f(){x=", 7), ("open-struct", "struct S{", 3), ("open-string", 'import "x', 2))
                                       if thorough else (("fn", "fn", 1), ("open-if", "fn f(){if", 6))):
            k, rest = divmod(total - ntail, 7)
            src = "const A:u8=1;" * k + ";" * rest + tail
            big_inputs.append(("token-buffer-exact-fit:%d:%s" % (total, tail_name), src.encode(), None))
    # long flat lists (no nesting): tens of thousands of statements, parameters, members, elements, arguments, fields and
    # declarations in sources sparse enough to stay under the token limit; the parse tree links list items, and whoever
    # walks a list (the XML dump, the header) must not need a stack as deep as the list is long
    nl = 60000 if thorough else 30000
    big_inputs.append(("long-statements", ("fn f()\n{\n" + "\tvariable_x = 1;\n" * nl + "}\n").encode(), "accept"))
    big_inputs.append(("long-parameters", ("fn f(" + "parameter_x: i32, " * (nl // 2) + ")\n{\n}\n").encode(), "accept"))
    big_inputs.append(("long-members", ("struct S\n{\n" + "\tmember_x: i32,\n" * (nl // 2) + "}\n").encode(), "accept"))
    big_inputs.append(("long-elements", ("fn f()\n{\n\tx = [" + "element_x, " * nl + "];\n}\n").encode(), "accept"))
    big_inputs.append(("long-arguments", ("fn f()\n{\n\tg(" + "argument_x, " * nl + ");\n}\n").encode(), "accept"))
    big_inputs.append(("long-fields", ("fn f()\n{\n\tx = S { " + "field_x: a, " * (nl // 2) + "};\n}\n").encode(), "accept"))
    big_inputs.append(("long-declarations", ("pub const CONSTANT_X: i32 = 1;\n" * (nl // 3)).encode(), "accept"))
    # known finding F26 probes: stack exhaustion on deep nesting
    probes = [("deep-paren", "fn f()\n{\n\tx = " + "(" * 30000 + "1" + ")" * 30000 + ";\n}\n")]

    all_inputs = inputs + big_inputs + [(c, s.encode(), None) for c, s in probes]
    reqs = ["dparse\t" + esc(b) for (_c, b, _e) in all_inputs]
    reqs2 = ["delta\tfront\t" + esc(b) for (_c, b, _e) in all_inputs]
    ans = run_harness(reqs)
    ans2 = run_harness(reqs2)
    mreq = []
    midx = []
    for i, a in enumerate(ans):
        head, d = kv(a)
        # (the list-based Lean interpreter is quadratic in the number of nodes: the long flat lists are about the real
        # front end surviving them, the node sequence of such lists is compared on the shorter dense inputs)
        if head == "ok" and int(d["tokens"]) <= 200000 and not all_inputs[i][0].startswith("long-"):
            mreq.append("dparse\t" + d["kinds"])
            midx.append(i)
    mans = run_model(mreq)
    mof = dict(zip(midx, mans))
    agreeing = 0
    maxratio = (0, None)
    outcome = collections.Counter()
    for i, ((cls, b, expect), a, a2) in enumerate(zip(all_inputs, ans, ans2)):
        dist[cls] += 1
        head, d = kv(a)
        head2, d2 = kv(a2)
        problems = []
        key = None
        for h, aa in ((head, a), (head2, a2)):
            if h in ("panic", "crash"):
                src_text = b.decode("utf-8", "replace")
                if h == "crash" and nesting_depth(src_text) >= 2000:
                    key = "crash:stack-exhaustion-on-nesting-depth>=2000"
                elif h == "crash" and head == "ok" and operator_chain(src_text) >= 8000:
                    # the parser survives (`dparse` answered), the XML dump does not: its recursion follows the left spine
                    # of the operator chain, which is as deep as the chain is long
                    key = "crash:xml-dump-stack-exhaustion-on-operator-chain>=8000"
                else:
                    key = (aa[:160] if h == "panic" else "crash on " + cls)
                    key = re.sub(r"\s+", " ", key)
                problems.append("the front end does not survive this input: " + aa[:200])
                break
        outcome[head] += 1
        if not problems:
            if head != head2 and not (head == "ok" and d.get("codes") and head2 == "parseerr"):
                problems.append("dparse and delta front disagree on the outcome: %s vs %s" % (head, head2))
            if expect == "accept" and not (head == "ok" and d.get("codes", "") == ""):
                problems.append("a well-formed module is not accepted without diagnostics: " + a[:120])
            if expect == "lexreject" and head != "lexerr":
                problems.append("an input with an invalid lexeme or beyond a resource limit is not rejected by the lexer: " + a[:120])
            if head == "lexerr" and not codes_of(d):
                problems.append("lexing failed without a diagnostic")
            mr = re.search(r"render=(FAIL\S*)", a2)
            if mr:
                # the diagnostics of a rejected input, as the second-generation command line prints them (byte offsets, every
                # colour / charset configuration)
                problems.append("the diagnostics of this input cannot be rendered: " + mr.group(1)[:120])
            if head == "lexerr" and cls in ("token-limit",) and expect == "lexreject" and codes_of(d) != [103]:
                problems.append("exceeding the token limit is reported as %s, not E103" % d.get("codes"))
        if head == "ok" and i in mof and not problems:
            mh, md = kv("m " + mof[i])
            kinds = d["kinds"].split(",")
            rtags = d["tags"].split(",") if d.get("tags") else []
            mtags = md["tags"].split(",") if md.get("tags") else []
            ntok = int(d["tokens"])
            if ntok:
                r = int(d["nodes"]) / ntok
                if r > maxratio[0]:
                    maxratio = (r, cls)
            if md.get("fuel") == "true":
                problems.append("model ran out of fuel (termination argument no longer covers this parser)")
            if md.get("assert") == "true":
                problems.append("model: the assert_eq! after the declaration loop fails")
            if not tags_match(rtags, mtags):
                problems.append("node sequence differs from the model's: real %d nodes, model %d nodes" % (len(rtags), len(mtags)))
            if int(d["decls"]) != int(md["decls"]):
                problems.append("declaration count %s vs model %s" % (d["decls"], md["decls"]))
            if sorted(codes_of(d)) != sorted(expected_codes(md.get("errors", ""), kinds)):
                problems.append("codes %s vs model %s" % (codes_of(d), expected_codes(md.get("errors", ""), kinds)))
            if int(d["nodes"]) > 4 * ntok + 6:
                problems.append("more nodes than the proved bound 4*tokens+6")
            if not problems:
                agreeing += 1
        if problems:
            rep.violation(key or ("input:%s" % hash_str(b.decode("latin-1"))), {
                "why": problems, "class": cls, "source_hex": b[:4000].hex(), "source_len": len(b),
                "source_preview": b[:300].decode("utf-8", "replace"),
                "harness_request": ("dparse\t" + esc(b))[:20000],
                "model_request": ("dparse\t" + d.get("kinds", ""))[:20000] if head == "ok" else None,
                "implementation": a[:400], "implementation_front": a2[:400], "model": mof.get(i, "")[:400]})
    limits = node_number_limits(rep)
    report_broken_proof(rep)
    rep.coverage.update({"node_number_limits": limits})
    rep.coverage.update({
        "evaluations": len(all_inputs), "distinct_nontrivial": len(set(b for (_c, b, _e) in all_inputs)),
        "rule": "every input goes through lex -> parse -> errors()/build_header()/as_xml() in an isolated worker (panic and "
                "crash detection); for every input the lexer accepts, the token kinds are fed to the Lean action-language model "
                "of the parser and the exact sequence of node variants left in the buffer (also after errors), the declaration "
                "count and the error codes must agree; well-formed generated modules must be accepted, injected invalid lexemes "
                "and token-limit excess must be rejected by the lexer (E103)",
        "exhaustive": True,
        "exhaustive_part": "all sequences of <= %d tokens over a %d-token alphabet, bare and inside a function body" % (maxlen, len(SEQ_ALPHABET)),
        "traces_validated_against_impl": agreeing,
        "distribution": dict(dist), "outcomes": dict(outcome),
        "max_nodes_per_token_seen": {"ratio": round(maxratio[0], 3), "class": maxratio[1]},
    })
    return rep.finish()


if __name__ == "__main__":
    sys.exit(main())
