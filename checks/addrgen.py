"""Single-access programs for the correspondence between `Gen.Addr.runT` (lean/PenneModel/Gen/Address.lean: the model of
generator.rs `generate_storage_address`) and the instructions the real generator emits.

A program declares a few structures / words and one function `probe` whose body is one access through a parameter or a
local variable.  `ir_trace` reads the getelementptr / load / extractvalue instructions of `probe` back from the real IR
in the notation the model driver prints."""
import re

PRIMS = ["i8", "i16", "i32", "i64", "u8", "u16", "u32", "u64", "usize", "bool", "i128", "u128"]
WORD_SHAPES = [("word8", ["u8"]), ("word16", ["u8", "i8"]), ("word16", ["u16"]), ("word32", ["u16", "u8", "bool"]),
               ("word32", ["i32"]), ("word64", ["u32", "u16", "u16"]), ("word64", ["i64"])]
WORD_SIZE = {"word8": 8, "word16": 16, "word32": 32, "word64": 64}


class Gen:
    def __init__(self, rng):
        self.rng = rng
        self.decls = []     # (kind, [(member name, type)])

    # --- types ------------------------------------------------------------------------------------------------------
    def prim(self):
        return ("prim", self.rng.pick(PRIMS))

    def aggregate_ref(self):
        return ("decl", self.rng.below(len(self.decls)))

    def stored(self, depth):
        r = self.rng
        k = r.below(10)
        if depth <= 0 or k < 3:
            return self.prim()
        if k < 6:
            return ("array", 1 + r.below(4), self.stored(depth - 1))
        if k < 8 and self.decls:
            return self.aggregate_ref()
        if r.chance(1, 3):
            # a pointer (or pointer to pointer) to a primitive: reached through trailing dereferences
            return ("ptr", ("ptr", self.prim())) if r.chance(1, 3) else ("ptr", self.prim())
        return ("ptr", self.pointee(depth - 1))

    def pointee(self, depth):
        """what a pointer or view leads to, apart from primitives (see `stored`)"""
        r = self.rng
        k = r.below(10)
        if k < 3:
            return ("array", 1 + r.below(4), self.stored(depth - 1))
        if k < 5:
            return ("endless", self.stored(depth - 1))
        if k < 8 and self.decls:
            return self.aggregate_ref()
        if depth > 0:
            return ("ptr", self.pointee(depth - 1))
        return ("array", 2, self.prim())

    def declare(self):
        r = self.rng
        if r.chance(1, 4):
            kw, ms = r.pick(WORD_SHAPES)
            self.decls.append((kw, [("m%d" % j, ("prim", p)) for j, p in enumerate(ms)]))
        else:
            n = 1 + r.below(4)
            self.decls.append(("struct", [("m%d" % j, self.stored(2)) for j in range(n)]))

    # --- rendering --------------------------------------------------------------------------------------------------
    def src(self, t):
        k = t[0]
        if k == "prim":
            return t[1]
        if k == "array":
            return "[%d]%s" % (t[1], self.src(t[2]))
        if k == "endless":
            return "[..]" + self.src(t[1])
        if k == "ptr":
            return "&" + self.src(t[1])
        if k == "view":
            return "(" + self.src(t[1]) + ")"
        if k == "slice":
            return "[]" + self.src(t[1])
        if k == "sliceptr":
            return "&[]" + self.src(t[1])
        if k == "decl":
            return "T%d" % t[1]
        raise ValueError(t)

    def sexp(self, t):
        k = t[0]
        if k == "prim":
            return t[1]
        if k == "array":
            return "(array %d %s)" % (t[1], self.sexp(t[2]))
        if k == "decl":
            kw = self.decls[t[1]][0]
            return "(struct %d)" % t[1] if kw == "struct" else "(word %d %d)" % (t[1], WORD_SIZE[kw])
        name = {"endless": "endless", "ptr": "pointer", "view": "view", "slice": "slice", "sliceptr": "sliceptr"}[k]
        return "(%s %s)" % (name, self.sexp(t[1]))

    # --- a path down to a primitive ---------------------------------------------------------------------------------
    def path(self, t):
        """[(written step, model step)], leaf primitive"""
        r = self.rng
        out = []
        while True:
            peeled = 0
            while t[0] in ("ptr", "view"):
                t = t[1]
                peeled += 1
            k = t[0]
            if k == "prim":
                # the pointer levels between the last written step and the primitive are dereferenced at the end
                return out + [("", "d")] * peeled, t[1]
            if k == "array":
                out.append(("[%d]" % r.below(t[1]), "e"))
                t = t[2]
            elif k in ("endless", "slice", "sliceptr"):
                out.append(("[%d]" % r.below(9), "e"))
                t = t[1]
            elif k == "decl":
                ms = self.decls[t[1]][1]
                j = r.below(len(ms))
                out.append((".%s" % ms[j][0], "(m %d)" % j))
                t = ms[j][1]
            else:
                raise ValueError(t)


def program(rng):
    """(source, model request, description) — description: base kind and whether the access is a read"""
    g = Gen(rng)
    for _ in range(1 + rng.below(3)):
        g.declare()
    kind = rng.pick(["local", "pointer", "pointer", "view", "slice", "sliceptr"])
    if kind == "local":
        t = g.stored(3)
        while t[0] == "prim":
            t = g.stored(3)
    elif kind == "pointer":
        t = ("ptr", g.prim()) if rng.chance(1, 8) else ("ptr", g.pointee(2))
    elif kind == "view":
        t = ("view", g.pointee(2))
    elif kind == "slice":
        t = ("slice", g.stored(2))
    else:
        t = ("sliceptr", g.stored(2))
    steps, leaf = g.path(t)
    read = kind in ("view", "slice") or rng.chance(1, 3)
    access = "x" + "".join(w for w, _ in steps)
    lit = "true" if leaf == "bool" else "1"
    stmt = "var r: %s = %s;" % (leaf, access) if read else "%s = %s;" % (access, lit)
    decls = ""
    for i, (kw, ms) in enumerate(g.decls):
        decls += "%s T%d\n{\n%s}\n\n" % (kw, i, "".join("\t%s: %s,\n" % (n, g.src(mt)) for n, mt in ms))
    if kind == "local":
        fn = "fn probe()\n{\n\tvar x: %s;\n\t%s\n}\n" % (g.src(t), stmt)
    else:
        fn = "fn probe(x: %s)\n{\n\t%s\n}\n" % (g.src(t), stmt)
    members = " ".join("(%d %d %s)" % (i, j, g.sexp(mt)) for i, (kw, ms) in enumerate(g.decls) for j, (n, mt) in enumerate(ms))
    req = "addr\t(addr %s %s (%s) %s)" % ("local" if kind == "local" else "param", g.sexp(t),
                                          " ".join(m for _, m in steps), members)
    return decls + fn, req, (kind, read, len([1 for w, _ in steps if w]), len([1 for w, _ in steps if not w]))


# --- reading the real IR back -----------------------------------------------------------------------------------------

def _halves(s):
    """`T, T* ` -> `T*` (the element type is printed before the pointer operand's type)"""
    n = (len(s) - 3) // 2
    if n > 0 and s[:n] + ", " + s[:n] + "*" == s:
        return s[n + 2:]
    return None


def ir_trace(ir):
    """the instructions of `probe` up to its first store that feed the stored address or value, in the model's notation;
    returns (ops, type of the final address) or (None, why)"""
    m = re.search(r"^define [^\n]*@probe\([^\n]*\{\n(.*?)^\}", ir, re.M | re.S)
    if not m:
        return None, "no probe function in the IR"
    ins = []        # (result register, canonical text, operand registers)
    final = None
    for line in m.group(1).split("\n"):
        line = line.strip()
        if not line or line.endswith(":") or " = alloca " in line:
            continue
        mm = re.match(r"store (.*) (\S+), (.*\*) (%[\w.]+), align \d+$", line)
        if mm:
            final = (mm.group(2), mm.group(3), mm.group(4))
            break
        mm = re.match(r"(%[\w.]+) = getelementptr (?:inbounds )?(.*?) (%[\w.]+)((?:, i(?:32|64) [^,]+)*)$", line)
        if mm:
            pt = _halves(mm.group(2))
            if pt is None:
                return None, "unreadable getelementptr: " + line
            idx = []
            for ty, v in re.findall(r", (i32|i64) ([^,]+)", mm.group(4)):
                idx.append("c" + v if ty == "i32" and v.isdigit() else "e")
            ins.append((mm.group(1), "gep %s %s" % (pt, " ".join(idx)), [mm.group(3)]))
            continue
        mm = re.match(r"(%[\w.]+) = load (.*) (%[\w.]+), align \d+$", line)
        if mm:
            pt = _halves(mm.group(2))
            if pt is None:
                return None, "unreadable load: " + line
            ins.append((mm.group(1), "load " + pt, [mm.group(3)]))
            continue
        mm = re.match(r"(%[\w.]+) = extractvalue (.*) (%[\w.]+), (\d+)$", line)
        if mm:
            ins.append((mm.group(1), "ext%s %s" % (mm.group(4), mm.group(2)), [mm.group(3)]))
            continue
        return None, "unexpected instruction in probe: " + line
    if final is None:
        return None, "no store in probe"
    value, ptr_ty, ptr = final
    # keep what the store depends on (generate_word_deref leaves an unused extractvalue behind for slice parameters)
    live = {value, ptr}
    kept = []
    for reg, text, ops in reversed(ins):
        if reg in live:
            kept.append((reg, text))
            live.update(ops)
    kept.reverse()
    return kept, (value, ptr_ty, ptr)
