"""C17 — the extracted header is exactly the public interface."""
import collections
import itertools
from lib import *

THEOREMS = ["Flat.header_refines", "Flat.header_of_module", "Flat.header_no_private", "Flat.header_flags_cleared",
            "Flat.headerFrom_pub"]

NODE_RE = re.compile(r"NodeId\(U24\((\d+)\)\)")


def split_nodes(debug):
    """the `nodes: [...]` list of a ParseTree Debug dump, split at top-level commas"""
    i = debug.index("nodes: [") + len("nodes: [")
    depth = 0
    cur = []
    out = []
    while i < len(debug):
        ch = debug[i]
        if ch in "([{":
            depth += 1
        elif ch in ")]}":
            if depth == 0:
                break
            depth -= 1
        if ch == "," and depth == 0:
            out.append("".join(cur).strip())
            cur = []
        else:
            cur.append(ch)
        i += 1
    if "".join(cur).strip():
        out.append("".join(cur).strip())
    return out


def abstract(node):
    """a Debug-printed ParseNode as the S-expression of the Lean model's `Flat.Node`"""
    m = NODE_RE.search(node)
    if node.startswith("StartPrivateZone"):
        return "(start %s)" % m.group(1)
    if node.startswith("EndPrivateZone"):
        return "(end %s)" % m.group(1)
    if node.startswith("EndlessPrivateZone"):
        return "(endless)"
    if node.startswith("DeclarationFlags"):
        fl = re.findall(r"[A-Z][A-Za-z]+", node[len("DeclarationFlags"):])
        fl = [f for f in fl if f != "EnumSet"]
        rest = "|".join(f for f in fl if f != "Public")
        return '(flags %d "%s")' % (1 if "Public" in fl else 0, rest)
    if node.startswith("FunctionImpl"):
        return "(funimpl %s)" % m.group(1)
    if m:
        return '(ref "%s" %s)' % (node.split(" ")[0].split("{")[0].strip(), m.group(1))
    return '(plain "%s")' % node.replace('"', "'")


# declaration templates: (kind, source with {pub} and {n})
def decl_src(kind, pub, n, body_size):
    p = "pub " if pub else ""
    if kind == "fn":
        stmts = "".join("\tvar v%d_%d: i32 = %d + x;\n" % (n, j, j) for j in range(body_size))
        return "%sfn f%d(x: i32, y: []u8) -> i32\n{\n%s\tif x == %d\n\t{\n\t\tgoto return;\n\t}\n\treturn: x\n}\n" % (p, n, stmts, n)
    if kind == "head":
        return "%sextern fn h%d(a: &i32, b: usize) -> u8;\n" % (p, n)
    if kind == "externfn":
        # an extern function WITH a body (a function of this module for C callers): its body is private like any other
        stmts = "".join("\tvar w%d_%d: i32 = %d + x;\n" % (n, j, j) for j in range(body_size))
        return "%sextern fn e%d(x: i32) -> i32\n{\n%s\tloop%d:\n\tvar r: i32 = x;\n\treturn: r\n}\n" % (p, n, stmts, n)
    if kind == "plainhead":
        return "%sfn g%d(a: i32);\n" % (p, n)
    if kind == "const":
        return "%sconst K%d: [2]i32 = [%d, 2 * (3 + %d)];\n" % (p, n, n, n)
    if kind == "struct":
        return "%sstruct S%d\n{\n\ta: i32,\n\tb: [4]&u8,\n}\n" % (p, n)
    if kind == "word":
        return "%sword32 W%d\n{\n\tlo: u16,\n\thi: u16,\n}\n" % (p, n)
    if kind == "constcast":
        return "%sconst Q%d: i64 = (%di32 as i64) + (|:[%d]u8| as i64);\n" % (p, n, n, n)
    if kind == "opaque":
        return "%sstruct O%d;\n" % (p, n)
    if kind == "import":
        return '%simport "lib%d.pn";\n' % (p, n)
    raise ValueError(kind)


def header_source(decls):
    """the module restricted to its public declarations: `pub` removed, function bodies dropped"""
    out = []
    for (kind, pub, n, bs) in decls:
        if not pub:
            continue
        src = decl_src(kind, False, n, bs)
        if kind in ("fn", "externfn"):
            src = src[:src.index("\n{")] + ";\n"
        out.append(src)
    return "".join(out)


def main():
    rep = Reporter("C17")
    if not setup_common(rep, THEOREMS):
        return rep.finish()
    rng = SplitMix64(rep.seed).fork("C17")
    thorough = rep.tier == "thorough"
    dist = collections.Counter()
    kinds = ["fn", "head", "const", "struct", "word", "opaque", "constcast", "import", "externfn", "plainhead"]
    options = [(k, p) for k in kinds for p in (True, False)]
    modules = []
    for n in range(1, (5 if thorough else 4) + 1):
        if n == 4 and not thorough:
            combos = [tuple(rng.pick(options) for _ in range(4)) for _ in range(3000)]
        elif n == 5:
            combos = [tuple(rng.pick(options) for _ in range(5)) for _ in range(30000)]
        else:
            combos = itertools.product(options, repeat=n)
        for combo in combos:
            modules.append([(k, p, i, rng.below(4) if k == "fn" else 0) for i, (k, p) in enumerate(combo)])
    for _ in range(5000 if thorough else 400):
        n = 1 + rng.below(9)
        modules.append([(rng.pick(kinds + ["fn"]), rng.chance(1, 2), i, rng.pick([0, 1, 3, 12, 40])) for i in range(n)])
    srcs = ["".join(decl_src(k, p, n, bs) for (k, p, n, bs) in m) for m in modules]
    hsrcs = [header_source(m) for m in modules]
    h = run_harness(["delta\tdump\t" + esc(s.encode()) for s in srcs])
    hh = run_harness(["delta\txml\t" + esc(s.encode()) for s in hsrcs])
    # the node array of the restricted module itself: the header must hold the same nodes, one for one (nothing else may be
    # carried along, whether a dump shows it or not)
    hd_ = run_harness(["delta\tdump\t" + esc(s.encode()) for s in hsrcs])
    mreq = []
    parsed = []
    for a in h:
        head, d = kv(a)
        if head != "ok" or "tree" not in d:
            parsed.append(None)
            mreq.append("header\t()")
            continue
        tree = split_nodes(bytes.fromhex(d["tree"][2:]).decode())
        hdr = split_nodes(bytes.fromhex(d["header"][2:]).decode())
        parsed.append((d, [abstract(x) for x in tree], [abstract(x) for x in hdr]))
        mreq.append("header\t(" + " ".join(abstract(x) for x in tree) + ")")
    mm = run_model(mreq)
    agreeing = 0
    def shapes(nodes):
        return [re.sub(r"\d+", "N", x) for x in nodes]
    for mod, src, hsrc, a, ha, pr, ma, hda in zip(modules, srcs, hsrcs, h, hh, parsed, mm, hd_):
        npub = sum(1 for (k, p, n, bs) in mod if p)
        dist["%d decls/%d pub" % (len(mod), npub)] += 1
        problems = []
        if pr is None:
            problems.append("module not accepted: " + a[:120])
        else:
            d, tree, hdr = pr
            if ma != " ".join(hdr):
                problems.append("header node array differs from the Lean model's buildHeader of the same node array")
            rh, rd = kv(hda)
            if hsrc != "" and rh == "ok" and "tree" in rd:
                # (in the restricted module every declaration is private: its zone markers are not part of the comparison)
                rtree = [y for y in (abstract(x) for x in split_nodes(bytes.fromhex(rd["tree"][2:]).decode()))
                         if not y.startswith(("(start ", "(end ", "(endless)"))]
                if shapes(rtree) != shapes(hdr):
                    extra = [x for x in shapes(hdr) if x not in set(shapes(rtree))]
                    problems.append("the header holds %d nodes, the module restricted to its public declarations parses to %d; node kinds "
                                    "only the header has: %s" % (len(hdr), len(rtree), sorted(set(extra))[:6]))
            if int(d.get("hdecls", -1)) != npub:
                problems.append("header has %s declarations, the module has %d public ones" % (d.get("hdecls"), npub))
            if d.get("malformed") != "0":
                problems.append("MALFORMED node in an XML dump")
            hxml = bytes.fromhex(d["hxml"][2:]).decode() if "hxml" in d else None
            h2, d2 = kv(ha)
            if hsrc == "":
                exp = ""
            elif h2 == "ok" and "xml" in d2:
                exp = bytes.fromhex(d2["xml"][2:]).decode()
            else:
                exp = None
                problems.append("restricted module not accepted: " + ha[:100])
            if exp is not None and hxml != exp:
                problems.append("header XML differs from the XML of the module restricted to its public declarations")
            for (k, p, n, bs) in mod:
                if hxml is None:
                    break
                if not p and re.search(r'"(f|h|K|S|W|O|Q)%d"' % n, hxml):
                    problems.append("private declaration %d appears in the header" % n)
                if k == "fn" and ("v%d_" % n) in hxml:
                    problems.append("statements of function f%d appear in the header" % n)
        if problems:
            rep.violation("module:" + " ".join("%s%s%d" % ("+" if p else "-", k, bs) for (k, p, n, bs) in mod), {
                "why": problems, "source": src, "restricted_source": hsrc, "harness_request": "delta\txml\t" + esc(src.encode()),
                "model_request": mreq[modules.index(mod)][:3000], "implementation": a[:300]})
        else:
            agreeing += 1
    report_broken_proof(rep)
    rep.coverage.update({
        "evaluations": len(modules), "distinct_nontrivial": len(set(srcs)),
        "rule": "modules of 0..%d declarations: every interleaving of public / private functions with bodies, extern heads, "
                "constants (plain and with casts / size-of), structures, words and opaque structures (exhaustive up to 3, sampled at 4%s), plus random modules up to 9 "
                "declarations with bodies of 0..40 statements; for each: (i) the real flat node array is abstracted and fed to the "
                "Lean buildHeader, whose output must equal the real header's node array; (ii) the header's XML must equal the "
                "XML the real parser gives the module restricted to its public declarations (pub removed, bodies dropped); "
                "(iii) declaration count, no private name, no body statement in the header"
                % (5 if thorough else 4, " and 5" if thorough else ""),
        "exhaustive": True,
        "traces_validated_against_impl": agreeing, "distribution": dict(list(dist.items())[:40]),
        "samples": [srcs[len(srcs) // 2][:800]],
    })
    return rep.finish()


if __name__ == "__main__":
    sys.exit(main())
