"""C13 — diagnostics are well-located, documented and deterministic."""
import collections
from lib import *
import faultgen
import progen

THEOREMS = ["Diag.codes_documented", "Diag.known_undocumented_are_undocumented", "Diag.sorted_perm_invariant",
            "Diag.sorted_stable", "Diag.sorted_ordered"]


def regenerate_tables():
    """translator: the Lean tables are rebuilt from the current sources on every run"""
    err = open(os.path.join(REPO, "src/alpha/error.rs")).read()
    m = re.search(r"pub fn code\(&self\) -> u16\s*\{(.*?)\n\t\}\n", err, re.S)
    emitted = sorted(set(int(x) for x in re.findall(r"=>\s*(\d+)\s*,", m.group(1)))) if m else []
    docs = open(os.path.join(REPO, "docs/errors.md")).read()
    cat = sorted(set(int(x) for x in re.findall(r"^## [A-Za-z ]*\b[EL](\d+)\s*$", docs, re.M)))
    path = os.path.join(LEAN, "PenneModel", "Diag", "Generated.lean")
    text = ("-- GENERATED on every run by checks/c13.py from /repo/src/alpha/error.rs (`Error::code`) and /repo/docs/errors.md\n"
            "-- (headings).  Do not edit: the committed copy is only there so that `lake build` works before the first run.\n"
            "namespace Diag\n"
            "def emittedCodes : List Nat := [%s]\n"
            "def catalogue : List Nat := [%s]\n"
            "end Diag\n" % (", ".join(map(str, emitted)), ", ".join(map(str, cat))))
    if not os.path.exists(path) or open(path).read() != text:
        open(path, "w").write(text)
    return emitted, cat


def relayout(src):
    """the same tokens, one per line wherever blanks separated them, and a line break after every `:` and `->` (so that
    type annotations, return types and size queries span lines); strings, character literals and comments are kept"""
    out = []
    i = 0
    n = len(src)
    while i < n:
        c = src[i]
        if c == '"' or c == "'":
            j = i + 1
            while j < n and src[j] != c and src[j] != "\n":
                j += 2 if src[j] == "\\" else 1
            out.append(src[i:j + 1])
            i = j + 1
        elif src.startswith("//", i):
            j = src.find("\n", i)
            j = n if j < 0 else j
            out.append(src[i:j])
            i = j
        elif c in " \t":
            j = i
            while j < n and src[j] in " \t":
                j += 1
            out.append("\n")
            i = j
        elif c == ":":
            out.append(":\n")
            i += 1
        elif src.startswith("->", i):
            out.append("->\n")
            i += 2
        else:
            out.append(c)
            i += 1
    return "".join(out)


def parse_diag(ans):
    d = dict(x.split("=", 1) for x in ans.split(" ") if "=" in x)
    items = []
    for it in d.get("diags", "").split(","):
        mm = re.match(r"([DL])(\d+)@(.*):(\d+)-(\d+)/(\d+):(\d+)$", it)
        if mm:
            items.append((mm.group(1), int(mm.group(2)), mm.group(3), int(mm.group(4)), int(mm.group(5)), int(mm.group(6)), int(mm.group(7))))
    return d, items


# characters that the report renderer (ariadne) takes for line ends and the lexer does not: VT, FF, NEL, LS, PS (and a lone CR,
# which the lexer rejects outside comments and literals)
ARIADNE_ONLY_LINE_ENDS = "\x0b\x0c\x85\u2028\u2029\r"


def parse_headers(ans):
    """`line:column` of the first header of every rendered diagnostic, aligned with parse_diag's items (None if absent)"""
    d = dict(x.split("=", 1) for x in ans.split(" ") if "=" in x)
    raw = d.get("diags", "").split(",")
    hs = d.get("hdrs", "").split(",")
    out = []
    for k, it in enumerate(raw):
        if re.match(r"([DL])(\d+)@(.*):(\d+)-(\d+)/(\d+):(\d+)$", it):
            mm = re.match(r"(\d+):(\d+)$", hs[k]) if len(hs) == len(raw) else None
            out.append((int(mm.group(1)), int(mm.group(2))) if mm else None)
    return out


def main():
    rep = Reporter("C13")
    emitted, cat = regenerate_tables()
    if not setup_common(rep, THEOREMS):
        return rep.finish()
    rng = SplitMix64(rep.seed).fork("C13")
    thorough = rep.tier == "thorough"
    dist = collections.Counter()
    undocumented = [c for c in emitted if c not in cat]
    known_undoc = set()      # F8 (E163, E332, E390, E580, E583, E584, L1142, L1880) repaired: documented
    for c in undocumented:
        if c in known_undoc:
            rep.violation("undocumented:F8", {"codes": sorted(known_undoc)})
        else:
            rep.violation("undocumented:%d" % c, {"what": "code %d can be emitted (error.rs) but docs/errors.md has no section for it" % c})
    # inputs: single files and sets
    corpus = faultgen.corpus()
    inputs = []     # list of [(name, src)]
    n = 20000 if thorough else 700
    for i in range(n):
        r = rng.fork("i%d" % i)
        k = r.below(10)
        if k < 4:
            name, src = r.pick(corpus)
            for _ in range(1 + r.below(2)):
                src = faultgen.mutate(r, src)
            inputs.append([("m.pn", src)])
        elif k < 7:
            inputs.append([("m.pn", faultgen.faulted_program(r))])
        elif k < 8:
            inputs.append([("m.pn", faultgen.token_soup(r, 1 + r.below(30)))])
        elif k < 9:
            # error in an imported module / in the importer
            lib = "pub fn three() -> i32\n{\n\treturn: 3\n}\npub const K: i32 = 4;\n"
            main = 'import "lib.pn";\nfn main() -> i32\n{\n\tvar x: i32 = three() + K;\n\treturn: x\n}\n'
            if r.chance(1, 2):
                lib = faultgen.mutate(r, lib)
            else:
                main = faultgen.mutate(r, main)
            inputs.append([("main.pn", main), ("lib.pn", lib)] if r.chance(1, 2) else [("lib.pn", lib), ("main.pn", main)])
        else:
            # valid program: determinism of the IR text
            p = progen.Gen(r).program(size=4)
            inputs.append([("m.pn", progen.src_prog(p, progen.Layout(r)))])
    # bitcasts and conversions in every operand position (diagnostics located at a cast expression)
    for src in faultgen.cast_programs():
        inputs.append([("m.pn", src)])
    # dependency graphs of constants and structures with cycles (E413/E415/E416 name other members of the cycle)
    import c11
    first_cycle_input = len(inputs)
    gi = 0
    while len(inputs) - first_cycle_input < (400 if thorough else 40) and gi < 100000:
        src, ids, edges = c11.graph_case(rng.fork("cyc%d" % gi))
        gi += 1
        if len(edges) >= len(ids) and "const" in src and "struct" in src:
            inputs.append([("m.pn", src + "fn main()\n{\n}\n")])
    # lexical errors at the very end of a file that does not end in a newline: the location must still lie inside the file
    for tail in ('"abc\\', "'\\", '"abc', "'a", '"\\x4', '"\\u{41', "0x", "1u7", "`", "\u00e9", '"abc\\\n', '"abc\\\r\n'):
        inputs.append([("m.pn", "fn main()\n{\n\tvar x = " + tail)])
    # characters in comments and string literals that only the report renderer takes for line ends
    for ch in ("\u2028", "\u2029", "\x85", "\x0c"):
        inputs.append([("m.pn", "fn main()\n{\n\t// a%sb\n\tvar x: i32 = true;\n}\n" % ch)])
        inputs.append([("m.pn", "fn main()\n{\n\tvar s = \"a%sb\"; var x: i32 = true;\n}\n" % ch)])
    # file names with escapes in them
    for path in ("\\x1b[31mred.pn", "a\\nb.pn", "\\tq.pn", "\u00e9.pn"):
        inputs.append([("m.pn", 'import "%s";\nfn main()\n{\n}\n' % path)])
    inputs.append([("m.pn", "const A: usize = |:S|;\nconst B: usize = A + 16;\nconst C: usize = B + A;\nstruct S\n{\n\tbuf: [C]u8,\n}\nfn main()\n{\n}\n")])
    # diagnostics located at a type: every type to nesting depth 1 (2 in the thorough tier) in every position, as written
    # and with the type annotation wrapped over lines (the location of an annotation is built from the span of its tokens)
    type_region = {}     # input index -> (start, end) of the type annotation in the text: a diagnostic about a misplaced or
    #                      invalid type (E350..E359) must underline text that overlaps it ("covers the offending text")

    def nonws_positions(text):
        return [k for k, ch in enumerate(text) if not ch.isspace()]
    for (sx, tsrc) in c11.types(2 if thorough else 1):
        for pos in c11.POS:
            src = c11.type_program(pos, tsrc)
            at = src.rfind(tsrc)
            end_at = at + len(tsrc)
            if pos not in ("returned", "externReturned"):
                # E352 / E354 / E356 underline the declared variable, parameter or member: the name belongs to the region
                mname = re.search(r"([A-Za-z_][A-Za-z0-9_]*)\s*:\s*$", src[:at])
                if mname:
                    at = mname.start(1)
            type_region[len(inputs)] = (at, end_at)
            inputs.append([("m.pn", src)])
            rel = relayout(src)
            # the same characters apart from white space: carry the region over by counting them
            nw, nwr = nonws_positions(src), nonws_positions(rel)
            first = sum(1 for k in nw if k < at)
            last = sum(1 for k in nw if k < end_at) - 1
            if len(nw) == len(nwr) and 0 <= first <= last < len(nwr):
                type_region[len(inputs)] = (nwr[first], nwr[last] + 1)
            inputs.append([("m.pn", rel)])
    # size and length queries, casts with a target type, wrapped over lines
    for q in ("|:\n[]u8|", "|:\n&\n[4]i32|", "|\nmissing|", "|:\nNope|", "7u8 as\n[2]u8", "7u8 as\n&\nu8", "cast\n7u8", "cast 7u8 as\nbool"):
        inputs.append([("m.pn", "fn main()\n{\n\tvar x: usize =\n%s;\n}\n" % q)])
        inputs.append([("m.pn", "const X: usize =\n%s;\nfn main()\n{\n}\n" % q)])
    # the same programs laid out one token per line: every multi-token construct then spans lines, and a location built
    # from a span must still be reported on the line its span starts on
    relaid = {}
    for i in range(len(inputs)):
        u = inputs[i]
        if len(u) == 1 and (thorough or i % 3 == 0) and "\r" not in u[0][1]:
            relaid[len(inputs)] = i
            inputs.append([("m.pn", relayout(u[0][1]))])
    reqs = ["diag\t" + "\t".join(x for nm, s in u for x in (nm, esc(s))) for u in inputs]
    h = run_harness(reqs)
    for j, i in relaid.items():
        if h[i].startswith(("crash", "panic")) or h[j].startswith(("crash", "panic")):
            continue
        ci = sorted((k, c) for (k, c, _f, _s, _e, _l, _c) in parse_diag(h[i])[1])
        cj = sorted((k, c) for (k, c, _f, _s, _e, _l, _c) in parse_diag(h[j])[1])
        dist["layout-variant:token-per-line"] += 1
        if ci != cj:
            rep.violation("layout:token-per-line:" + reqs[i][:200], {
                "why": "the same tokens laid out one per line get different diagnostics", "files": dict(inputs[j]),
                "harness_request": reqs[j], "original": inputs[i][0][1], "expected (kind, code)": ci[:12], "got": cj[:12]})
    checked = located = 0
    for idx, (u, rq, a) in enumerate(zip(inputs, reqs, h)):
        if a.startswith("crash") or a.startswith("panic"):
            dist["crash-or-panic (C02's business)"] += 1
            continue
        d, items = parse_diag(a)
        dist["verdict:" + d.get("verdict", "?")[:8]] += 1
        srcs = dict(u)
        problems = []
        if not d.get("render", "").startswith("ok"):
            problems.append("rendering: " + d.get("render", ""))
        headers = parse_headers(a)
        for k, (kind, code, fname, s, e, line, col) in enumerate(items):
            checked += 1
            dist["%s%d" % ("E" if kind == "D" else "L", code)] += 1
            # what the user reads: the line in the header of the rendered report is the line of the location
            if k < len(headers) and headers[k] is not None:
                dist["rendered-header:compared"] += 1
                if headers[k][0] != line:
                    key = None
                    if fname in srcs and any(c in srcs[fname][:s] for c in ARIADNE_ONLY_LINE_ENDS):
                        key = "c13:rendered-line-after-a-unicode-line-separator"
                    (rep.violation(key, {"why": "E%d is on line %d of %s; the rendered report says %d:%d" % (code, line, fname, headers[k][0], headers[k][1]),
                                         "files": srcs, "harness_request": rq, "implementation": a[:600]})
                     if key else problems.append("E%d: the rendered report names line %d, the location is on line %d" % (code, headers[k][0], line)))
            if code not in cat and code not in known_undoc:
                problems.append("code %d not in the catalogue" % code)
            if fname not in srcs:
                problems.append("E%d: location names file %r which is not an input" % (code, fname))
                continue
            src = srcs[fname]
            nchars = len(src)
            # (a location AT the end of the file, for something that is missing there, may be one past the last character;
            # a span that starts inside the file must end inside it, or the renderer drops its label)
            if not (0 <= s <= e <= max(nchars, 1) + 1) or (s < nchars and e > nchars):
                problems.append("E%d: span %d-%d outside the file (%d chars)" % (code, s, e, nchars))
                continue
            true_line = src.count("\n", 0, s) + 1
            if s >= nchars and nchars > 0 and src.endswith("\n"):
                # end-of-file locations may be reported on the last real line
                true_line = min(true_line, src.count("\n"))
            located += 1
            if idx in type_region and 350 <= code <= 359:
                rs, re_ = type_region[idx]
                if not (s < re_ and rs < e):
                    problems.append("E%d is about the declaration `%s` but underlines `%s` (span %d-%d does not touch it at %d-%d)" % (
                        code, src[rs:re_][:40], src[s:e][:40], s, e, rs, re_))
            if line != true_line and not (s >= nchars):
                problems.append("E%d: reported line %d but the span starts on line %d (span %d-%d)" % (code, line, true_line, s, e))
        if problems:
            rep.violation("diag:" + rq[:300], {"why": problems[:6], "files": srcs, "harness_request": rq, "implementation": a[:1200]})
    # layout metamorphosis: the same single-file program with CRLF line ends, and with a comment line of multi-byte
    # characters in front (LF and CRLF), must get the same diagnostics at the same line/column over the same text
    base = [(i, u[0][1]) for i, u in enumerate(inputs)
            if len(u) == 1 and "\r" not in u[0][1] and all(ord(c) < 128 for c in u[0][1]) and not h[i].startswith(("crash", "panic"))
            # an empty source is a lexical error (E101) while a source holding only a comment is not (cf. F34):
            # putting a comment in front preserves the diagnostics only of sources with at least one token
            and re.sub(r"//[^\n]*", "", u[0][1]).strip() != ""]
    base = base[:(3000 if thorough else 250)]
    variants = []
    for i, src in base:
        variants.append((i, "crlf", 0, src.replace("\n", "\r\n")))
        variants.append((i, "multibyte-comment", 1, "// caf\u00e9 \u20ac \U0001F35D\n" + src))
        variants.append((i, "multibyte-comment+crlf", 1, ("// caf\u00e9 \u20ac \U0001F35D\n" + src).replace("\n", "\r\n")))
    vh = run_harness(["diag\tm.pn\t" + esc(v[3]) for v in variants])

    def located_items(src, ans):
        _d, items = parse_diag(ans)
        return [(kind, code, line, col, src[s_:e_]) for (kind, code, _f, s_, e_, line, col) in items]
    for (i, what, shift, vsrc), va in zip(variants, vh):
        if va.startswith(("crash", "panic")):
            continue
        # a span that reaches into the line ending (E161: the backslash and the character after it) covers `\n` in one layout
        # and the `\r` of `\r\n` in the other: the underlined text is compared without trailing line-ending characters
        want = [(k, c, line + shift, col, text.rstrip("\r\n")) for (k, c, line, col, text) in located_items(inputs[i][0][1], h[i])]
        got = [(k, c, line, col, text.replace("\r\n", "\n").rstrip("\r\n")) for (k, c, line, col, text) in located_items(vsrc, va)]
        dist["layout-variant:" + what] += 1
        if sorted(want) != sorted(got):
            rep.violation("layout:%s:%s" % (what, reqs[i][:200]), {
                "why": "the %s variant of the program gets different diagnostics, lines, columns or underlined text" % what,
                "files": {"m.pn": vsrc}, "harness_request": "diag\tm.pn\t" + esc(vsrc),
                "expected (kind, code, line, col, text)": sorted(want)[:8], "got": sorted(got)[:8]})
    # the second generation: a stray character of 2 to 4 bytes (last byte at either end of the continuation range) in front
    # of a token: exactly one E110 per character, and its diagnostics render (the location ends on a character boundary)
    strays = ["\u00bf", "\u00ff", "\u20bf", "\u0080", "\u07ff", "\uffff", "\U0001f63f", "\U0010ffff", "\u00e9", "\u20ac"]
    sv = []
    for k, (i, src) in enumerate(base[:(600 if thorough else 60)]):
        ch = strays[k % len(strays)] * (1 + k % 2)
        lines = src.split("\n")
        j = (k * 7) % max(1, len(lines))
        sv.append((ch, "\n".join(lines[:j] + [" " + ch + " " + lines[j]] + lines[j + 1:]), src))
    base110 = [kv(a_)[1].get("codes", "").split(",").count("110") for a_ in run_harness(["delta\txml\t" + esc(b_.encode()) for _, _, b_ in sv])]
    for (ch, vsrc, _b), va, n_base in zip(sv, run_harness(["delta\txml\t" + esc(vsrc.encode()) for _, vsrc, _ in sv]), base110):
        hh, hd = kv(va)
        dist["delta-stray-character:" + hh[:8]] += 1
        problems = []
        if hh in ("crash", "panic") or "render=FAIL" in va:
            problems.append("the second generation cannot render its diagnostics: " + va[:200])
        elif hh == "lexerr":
            n110 = hd.get("codes", "").split(",").count("110") - n_base
            if n110 != len(ch):
                problems.append("%d E110 for %d stray character(s) %r" % (n110, len(ch), ch))
        else:
            problems.append("a stray character is not a lexical error: " + va[:120])
        if problems:
            rep.violation("delta-stray:" + repr(ch) + ":" + str(hash_str(vsrc)), {"why": problems, "files": {"m.pn": vsrc}, "harness_request": "delta\txml\t" + esc(vsrc.encode())})
    # determinism: fresh processes must print identical diagnostics (primary locations and the hash of the complete rendered
    # text: messages, secondary labels, notes) / IR.  Inputs with dependency cycles (several candidates for every label,
    # collected in hash sets by the scoper) are all re-run.
    det = [i for i in range(len(inputs)) if i % (10 if thorough else 18) == 0 or i >= first_cycle_input]
    runs = [[run_harness_serial([reqs[i]])[0] for i in det] for _ in range(4)]
    for k, i in enumerate(det):
        outs = set(r[k] for r in runs) | {h[i]}
        if len(outs) > 1:
            rep.violation("nondeterministic:" + reqs[i][:300], {
                "why": "repeated runs in fresh processes give different diagnostics or IR", "files": dict(inputs[i]),
                "harness_request": reqs[i], "outputs": sorted(outs)[:4]})
        else:
            dist["deterministic"] += 1
    # probes
    two_imports = [("main.pn", 'import "a.pn";\nimport "b.pn";\nfn main() -> i32\n{\n\tvar x: i32 = fa() + fb();\n\treturn: x\n}\n'),
                   ("a.pn", "pub fn fa() -> i32\n{\n\treturn: 1\n}\n"), ("b.pn", "pub fn fb() -> i32\n{\n\treturn: 2\n}\n")]
    rq = "diag\t" + "\t".join(x for nm, s in two_imports for x in (nm, esc(s)))
    outs = set(run_harness_serial([rq])[0] for _ in range(12))
    if len(outs) > 1:
        rep.violation("nondeterministic:two-imports", {"why": "IR text of a module with two imports differs between runs",
                                                        "files": dict(two_imports), "harness_request": rq, "outputs": sorted(outs)})
    crlf = "fn main() -> i32\r\n{\r\n\tvar x: i32 = 1;\r\n\tgoto nowhere;\r\n\treturn: x\r\n}\r\n"
    a = run_harness_serial(["diag\tm.pn\t" + esc(crlf)])[0]
    _, items = parse_diag(a)
    want = crlf.index("nowhere")
    if not items or items[0][3] != want:
        rep.violation("crlf-span-drift", {"why": "CRLF source: E400 span starts at %s, the label is at char %d" % (items[0][3] if items else None, want),
                                          "source": crlf, "implementation": a})
    report_broken_proof(rep)
    rep.coverage.update({
        "evaluations": len(inputs), "distinct_nontrivial": len(set(reqs)),
        "rule": "mutated corpus files (tests/samples, examples, core, vendor; 1-2 textual faults incl. multi-byte characters, "
                "CRLF, truncation), generated programs with 1-3 faults, token soup, two-module sets with a fault in the "
                "importer or the imported module, valid programs; for every diagnostic: code in the catalogue regenerated "
                "from docs/errors.md, location inside a named input file, span inside the file, reported line = line of the "
                "span start (LF sources), rendering under {colour, no colour} x {unicode, ascii}; a sample re-run in 3 fresh "
                "processes must give identical diagnostics and IR hash",
        "diagnostics_checked": checked, "diagnostics_line_checked": located,
        "traces_validated_against_impl": checked, "distribution": dict(dist),
        "emitted_codes": len(emitted), "catalogue_codes": len(cat),
        "samples": [reqs[0][:400]],
    })
    return rep.finish()


if __name__ == "__main__":
    sys.exit(main())
