"""C14 — both lexers implement the same lexical grammar, with exact spans."""
import collections
import itertools
from lib import *

THEOREMS = ["Lex.lex_source_of_tokens", "Lex.layout_irrelevant", "Lex.lex_line_of_tokens", "Lex.lexLineAux_sequence", "Lex.lexemeP_ident", "Lex.lexemeP_builtin",
            "Lex.lexemeP_keyword", "Lex.lexemeP_sym1", "Lex.lexemeP_sym2", "Lex.lexemeP_string", "Lex.lexemeP_char", "Lex.lexer_total", "Lex.lexStep_progress", "Lex.string_literal_exact", "Lex.char_literal_exact", "Lex.lexQuote_items", "Lex.lexemeP_decimal",
            "Lex.lexemeP_hex_suffix", "Lex.lexemeP_zero", "Lex.fixed_spellings_lex", "Lex.lexStep_decimal", "Lex.lexStep_decimal_suffix", "Lex.lexStep_decimal_overflow",
            "Lex.lexStep_hex", "Lex.lexStep_hex_suffix", "Lex.lexStep_hex_overflow", "Lex.lexStep_bin",
            "Lex.lexStep_bin_suffix"]

ALPHABET = list("abfinrtuxeFG01289_\"'\\{}()[]<>=!|:.-/&+*%;, \t\n\r") + ["\u00e9", "\x01"]


def norm_for_delta(ans):
    """the part of a token dump on which the two generations must agree: kinds, integer payloads, suffix
    types, exact spans of proper tokens; for error tokens the code and the line (the two lexers point at
    different parts of an illegal lexeme, e.g. the whole unterminated literal vs the place where the quote is
    missing).  String literals carry no bytes in delta; `return` is reserved there (documented exception)."""
    out = []
    for t in ans.split(" "):
        if not t:
            continue
        head, _, pos = t.rpartition("@")
        if head.startswith("Q"):
            head = "Q"
        if head == "Ireturn":
            head = "Kreturn"
        if head.startswith("E"):
            pos = "line" + pos.partition("/")[2].partition(":")[0]
        out.append(head + "@" + pos)
    return " ".join(out)


def kinds(ans):
    return [t.rpartition("@")[0] for t in ans.split(" ") if t]


KNOWN_CLASSES = [
    # (F9a, F9b, F9c, F9d, F9f, F9g are repaired: those inputs are compared like any other)
    # (finding id, predicate on the source text): syntactic classes of inputs on which the two lexers are known
    # to diverge (known-findings.json); such inputs are still compared alpha-vs-reference, and each class is
    # probed with its specific input on every run.
    ("F9e", re.compile(r"[^\x00-\x7f]")),                   # non-ASCII (byte vs char offsets; one E110 per byte)
]
PROBES = [("F9a", "'\\u{41}'"), ("F9b", '"\\u{0000041}"'), ("F9c", "0b" + "0" * 129 + "1"), ("F9d", '"\\\n'),
          ("F9e", "\u00e9"), ("F9f", "a\rb"), ("F9g", '"\r\n')]


def known_class(src):
    """a class that makes the delta-vs-reference comparison meaningless on this input, or F9e (compare kinds)"""
    hit = [fid for fid, rx in KNOWN_CLASSES if rx.search(src)]
    for fid in hit:
        if fid != "F9e":
            return fid
    return "F9e" if hit else None


SPELL = {
    "dec": lambda rng: rng.pick(["0", "1", "7", "42", "1_000", "255", "340282366920938463463374607431768211455",
                                 "340282366920938463463374607431768211456", "9_9", "18446744073709551616"]),
    "hex": lambda rng: "0x" + rng.pick(["0", "ff", "FF", "dead_beef", "1_", "_1", "ffffffffffffffffffffffffffffffff",
                                        "100000000000000000000000000000000", "0000000000000000000000000000000001", ""]),
    "bin": lambda rng: "0b" + rng.pick(["0", "1", "1010", "1_0", "1" * 128, "1" * 129, "0" * 129 + "1", ""]),
    "suffix": lambda rng: rng.pick(["", "", "u8", "i8", "u16", "i16", "u32", "i32", "u64", "i64", "u128", "i128", "usize",
                                    "u7", "x", "_u8", "char8"]),
    "stray": lambda rng: rng.pick(["\u00bf", "\u00ff", "\u20bf", "\u0080", "\u00c0", "\u07ff", "\uffff", "\U0001f63f", "\U0010ffff", "\u00e9", "\u20ac",
                                   "\u00bf\u00bf", "a\u00bfb", "\u20bf1"]),
    "ident": lambda rng: rng.pick(["a", "foo", "_x", "x1", "fnord", "iffy", "return", "returns", "Word8", "word8", "u8x",
                                   "true", "false", "_", "__", "loop", "as", "cast", "import", "struct", "bool"]),
    "sym": lambda rng: rng.pick(["(", ")", "{", "}", "[", "]", "<", ">", "|", "&", "^", "!", "+", "-", "*", "/", "%", ":",
                                 ";", ".", ",", "=", "==", "!=", ">=", "<=", "<<", ">>", "->", "|:", ".."]),
    "str": lambda rng: '"' + "".join(rng.pick(["a", " ", "\\n", "\\t", "\\\\", "\\\"", "\\'", "\\0", "\\x41", "\\xfF",
                                                "\\x4", "\\u{41}", "\\u{20ac}", "\\u{d800}", "\\u{110000}", "\\u{}",
                                                "\\u{0000041}", "\\u41", "\\q", "\u20ac", "'", "\t", "\\r"])
                                      for _ in range(rng.below(4))) + rng.pick(['"', '"', '"', ""]),
    "chr": lambda rng: "'" + rng.pick(["a", " ", "\\n", "\\'", "\"", "\\x41", "\\x80", "ab", "", "\\u{41}", "\u00e9",
                                       "\\0", "\\\\"]) + rng.pick(["'", "'", "'", ""]),
    "builtin": lambda rng: rng.pick(["print!", "format!", "abort!", "fn!", "x!"]),
}


def random_source(rng):
    parts = []
    for _ in range(1 + rng.below(12)):
        k = rng.pick(["dec", "hex", "bin", "ident", "ident", "sym", "sym", "str", "chr", "builtin", "stray"])
        t = SPELL[k](rng)
        if k in ("dec", "hex", "bin"):
            t += SPELL["suffix"](rng)
        parts.append(t)
        parts.append(rng.pick([" ", " ", "", "\t", "\n", " // c\n", "  ", "\n\n", "//\n"]))
    return "".join(parts)


def multiline_source(rng):
    """several lines, LF / CRLF / mixed line ends, multi-byte characters in comments, strings and bare: the span of
    every later token depends on how each earlier line and line end was counted"""
    style = rng.pick(["lf", "crlf", "crlf", "mixed"])
    lines = []
    for _ in range(3 + rng.below(5)):
        parts = []
        for _k in range(rng.below(4)):
            k = rng.pick(["dec", "ident", "ident", "sym", "str", "chr", "hex", "stray"])
            parts.append(SPELL[k](rng))
            parts.append(rng.pick([" ", " ", "\t", ""]))
        if rng.chance(1, 3):
            parts.append(rng.pick(['"\u00e9"', '"\u20ac\u00e9"', "\u00e9", "'\u00e9'", '"\U0001F35D"']))
        if rng.chance(1, 3):
            parts.append(" // " + rng.pick(["c", "caf\u00e9", "\u20ac \u20ac", "\U0001F35D", ""]))
        end = {"lf": "\n", "crlf": "\r\n"}.get(style) or rng.pick(["\n", "\r\n"])
        lines.append("".join(parts) + end)
    return "".join(lines)


def main():
    rep = Reporter("C14")
    if not setup_common(rep, THEOREMS):
        return rep.finish()
    rng = SplitMix64(rep.seed).fork("C14")
    thorough = rep.tier == "thorough"
    srcs = [""]
    maxlen = 4 if thorough else 3
    for n in range(1, maxlen + 1):
        if n == 4:
            # length 4 exhaustively over the 24 characters that start or continue multi-character lexemes
            sub = list("ax0b1_u8\"'\\{<=!|:.-/ \n") + ["\u00e9"]
            for t in itertools.product(sub, repeat=4):
                srcs.append("".join(t))
        else:
            for t in itertools.product(ALPHABET, repeat=n):
                srcs.append("".join(t))
    n_exh = len(srcs)
    # every ASCII byte (all 128, control characters included) right after every kind of unfinished or finished lexeme: where
    # a lexeme ends is decided per character, by table or bit trick, and the unusual bytes are where such code goes wrong
    PREFIXES = ["0x", "0x1", "0xf", "0b", "0b1", "1", "12", "1_", "a", "ab", "x1", "1u", "1u8", "0x1u", "print", "print!",
                "'", "'a", "'\\", "'\\x", "'\\x4", "'\\x41", "\"", "\"a", "\"\\", "\"\\x", "\"\\x4", "\"\\u", "\"\\u{",
                "\"\\u{4", "\"\\u{41", "\"\\u{41}", "/", "//", "<", "-", "=", "!", "|", ".", ""]
    for pre in PREFIXES:
        for b in range(128):
            ch = chr(b)
            closing = "'" if pre.startswith("'") else ('"' if pre.startswith('"') else "")
            srcs.append(pre + ch)
            srcs.append(pre + ch + closing + " z")
            if pre.startswith('"\\u{') and not pre.endswith("}"):
                srcs.append(pre + ch + "}" + closing + " z")
    for _ in range(100000 if thorough else 6000):
        srcs.append(random_source(rng))
    for _ in range(30000 if thorough else 3000):
        srcs.append(multiline_source(rng))
    model = run_model(["lex\t" + sexp_str(s) for s in srcs])
    a = run_harness(["lexa\t" + esc(s) for s in srcs])
    d = run_harness(["lexd\t" + esc(s.encode("utf-8")) for s in srcs])
    dist = collections.Counter()
    agree_a = agree_d = 0
    nontrivial = set()
    kinds_seen = collections.Counter()
    for i, s in enumerate(srcs):
        ks = kinds(model[i])
        for k in ks:
            kinds_seen[k[0]] += 1
        if len(ks) >= 1:
            nontrivial.add(model[i])
        if a[i] == model[i]:
            agree_a += 1
        else:
            rep.violation("alpha:" + repr(s), {
                "lexer": "alpha", "source": s, "harness_request": "lexa\t" + esc(s), "model_request": "lex\t" + sexp_str(s),
                "implementation": a[i], "model": model[i],
                "explanation": "the first-generation lexer's tokens/payloads/spans differ from the reference lexer model"})
        cls = known_class(s)
        if re.search(r"(?<![A-Za-z0-9_])return!", s):
            # documented exception: `return` is reserved in delta, so `return!` is keyword + `!` there, a builtin in alpha
            dist["delta-skipped-documented:return!"] += 1
            continue
        if cls is not None and cls != "F9e":
            dist["delta-skipped-known-class:" + cls] += 1
            continue
        exp = norm_for_delta(model[i])
        got = norm_for_delta(d[i])
        if s == "":
            exp, got = kinds(exp), kinds(got)
        if cls == "F9e" or "\r" in s:
            # offsets are counted in bytes vs characters, and CRLF shifts first-generation spans (C13):
            # compare kinds and payloads only, with runs of E110 collapsed
            def squash(ks):
                out = []
                for k in ks:
                    if k == "E110" and out and out[-1] == "E110":
                        continue
                    out.append(k)
                return out
            # (one E110 per character in both generations since F9e was repaired: runs are compared as they are, unless a
            # lone carriage return is involved - F9f)
            exp, got = kinds(exp), kinds(got)
        if got == exp:
            agree_d += 1
        else:
            rep.violation("delta:" + repr(s), {
                "lexer": "delta", "source": s, "harness_request": "lexd\t" + esc(s.encode()),
                "model_request": "lex\t" + sexp_str(s), "implementation": d[i], "model": model[i],
                "alpha": a[i],
                "explanation": "the two lexers disagree on this input (kinds, payloads, suffix types, codes or spans) "
                               "outside the documented exception (`return`)"})
    # probes of the known divergences: each must still diverge to be reported as a known finding
    pm = run_model(["lex\t" + sexp_str(p) for _, p in PROBES])
    pd = run_harness_serial(["lexd\t" + esc(p.encode()) for _, p in PROBES])
    for (fid, p), mm, dd in zip(PROBES, pm, pd):
        if [k for k in kinds(norm_for_delta(mm))] != [k for k in kinds(norm_for_delta(dd))]:
            rep.violation("probe:" + fid, {"source": p, "model": mm, "implementation": dd})
        else:
            rep.notes.append("known divergence %s no longer reproduces on its probe %r" % (fid, p))
    report_broken_proof(rep)
    rep.coverage.update({
        "evaluations": len(srcs),
        "distinct_nontrivial": len(nontrivial),
        "rule": "all strings of length <= 3 over a %d-character alphabet of lexically significant characters%s (exhaustive: %d) "
                "plus %d random token sequences in random spellings/layouts and multi-line sources with LF/CRLF/mixed line ends "
                "and multi-byte characters; each through the real alpha lexer, the real delta "
                "lexer and the Lean reference lexer; non-trivial = at least one token; distinct by token dump"
                % (len(ALPHABET), " and length 4 over a 23-character sub-alphabet" if thorough else "", n_exh, len(srcs) - n_exh),
        "exhaustive": True,
        "traces_validated_against_impl": agree_a + agree_d,
        "alpha_agree": agree_a, "delta_agree": agree_d,
        "distribution": dict(dist), "token_kinds": dict(kinds_seen),
        "samples": [srcs[n_exh // 2], srcs[n_exh + 1], srcs[-1]],
    })
    return rep.finish()


if __name__ == "__main__":
    sys.exit(main())
