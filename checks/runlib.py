"""Running generated programs through the real compiler (+lli) and the Lean interpreter, comparing outputs."""
from lib import *
import progen


def model_run(progs):
    return run_model(["run\t" + progen.sx_prog(p) for p in progs])


def impl_run(sources, mode="run"):
    return run_harness(["alpha\t%s\tmain.pn\t%s" % (mode, esc(s)) for s in sources])


def impl_obs(ans):
    """(verdict, status, stdout-lines-joined) from a harness `alpha run` answer"""
    hh, hd = kv(ans)
    if hh != "ok":
        return (hh + ":" + ans[:120], None, None, hd)
    got = bytes.fromhex(hd.get("stdout", "h:")[2:]).decode("utf8", "replace")
    lines = got.split("\n")
    if lines and lines[-1] == "":
        lines.pop()
    return ("ok", hd.get("status"), "|".join(lines), hd)


def model_obs(ans):
    if not ans.startswith("ok"):
        return (ans.split(" ")[0], None, None)
    _, d = kv(ans)
    return ("ok", d.get("status"), d.get("out", ""))


def shrink_program(p, still_fails, budget=120):
    """greedy removal of statements (any nesting level) of every function while still_fails(p)"""
    import copy

    def candidates(body):
        for i in range(len(body)):
            yield body[:i] + body[i + 1:]
        for i, s in enumerate(body):
            if s[0] == 'block':
                for sub in candidates(s[1]):
                    yield body[:i] + [('block', sub)] + body[i + 1:]
            elif s[0] == 'if' and s[2][0] == 'block':
                for sub in candidates(s[2][1]):
                    yield body[:i] + [('if', s[1], ('block', sub))] + body[i + 1:]
            elif s[0] == 'ife':
                yield body[:i] + [('if', s[1], s[2])] + body[i + 1:]
    cur = p
    improved = True
    while improved and budget > 0:
        improved = False
        for fi in range(len(cur['fns']) - 1, -1, -1):
            for cand in candidates(cur['fns'][fi]['body']):
                budget -= 1
                if budget <= 0:
                    break
                q = copy.deepcopy(cur)
                q['fns'][fi]['body'] = cand
                try:
                    if still_fails(q):
                        cur = q
                        improved = True
                        break
                except Exception:
                    pass
            if improved or budget <= 0:
                break
    return cur
