"""C08 — only vars and explicitly passed pointers can be mutated."""
import collections
from lib import *
import progen
import runlib

THEOREMS = ["Mut.needs_outer_iff", "Mut.write_rejected_iff", "Mut.frame", "Mut.call_changes_only_addressed",
            "Mut.bindArgs_spec", "Types.Ty.autoderef_takes_no_address", "Types.Ty.subAutoderef_holdsAddress"]

STRUCT = dict(kind='struct', name='S', members=[('a', None), ('b', None)])


def program(rng):
    """a caller whose variables are printed before and after each call; callees write (or not) through every parameter kind.
    returns (program AST, list of (printed-before index, printed-after index, passed_with_addr, callee_writes))"""
    g = progen.Gen(rng)
    t = rng.pick(progen.INTS)
    lit = lambda: g.lit(t, small=True)
    fns = []
    structs = [dict(kind='struct', name='S', members=[('a', t), ('b', t)])]
    # callees
    fns.append(dict(name='w_ptr', params=[('p', 'ptr', t), ('v', 'val', t)], ret=None,
                    body=[('assign', 'p', ('bin', t, 'add', ('var', 'p'), ('var', 'v')))], retexpr=None))
    fns.append(dict(name='r_ptr', params=[('p', 'ptr', t)], ret=t, body=[], retexpr=('bin', t, 'add', ('var', 'p'), ('lit', t, 1))))
    fns.append(dict(name='w_val', params=[('p', 'val', t)], ret=t,
                    body=[('decl', 'q', t, ('bin', t, 'add', ('var', 'p'), ('lit', t, 1)))], retexpr=('var', 'q')))
    fns.append(dict(name='w_sp', params=[('s', 'sliceptr', t), ('v', 'val', t)], ret=None,
                    body=[('assignidx', 's', ('lit', 'usize', 0), ('var', 'v'))], retexpr=None))
    fns.append(dict(name='r_view', params=[('s', 'view', t)], ret=t, body=[], retexpr=('idx', 's', ('lit', 'usize', 0))))
    fns.append(dict(name='w_st', params=[('s', 'structptr', 'S'), ('v', 'val', t)], ret=None,
                    body=[('assignmem', 's', 0, 'a', ('var', 'v'))], retexpr=None))
    fns.append(dict(name='r_st', params=[('s', 'structview', 'S')], ret=t, body=[],
                    retexpr=('bin', t, 'add', ('mem', 's', 0, 'a'), ('mem', 's', 1, 'b'))))
    # nested: forwards its pointer
    fns.append(dict(name='w_fwd', params=[('p', 'ptr', t), ('v', 'val', t)], ret=None,
                    body=[('calls', 'w_ptr', [('addr', 'p'), ('val', ('var', 'v'))])], retexpr=None))
    body = [('decl', 'x', t, lit()), ('decl', 'y', t, lit()), ('declarr', 'arr', t, 3, [lit(), lit(), lit()]),
            ('declstruct', 'st', 'S', [('a', lit()), ('b', lit())])]
    observe = [('print', ('var', 'x'), 0), ('print', ('var', 'y'), 0), ('print', ('idx', 'arr', ('lit', 'usize', 0)), 0),
               ('print', ('mem', 'st', 0, 'a'), 0), ('print', ('mem', 'st', 1, 'b'), 0)]
    calls = []
    k = 0
    for _ in range(3 + rng.below(6)):
        c = rng.below(9)
        body += observe
        if c == 0:
            body.append(('calls', 'w_ptr', [('addr', rng.pick(['x', 'y'])), ('val', lit())]))
        elif c == 1:
            k += 1
            body.append(('decl', 'r%d' % k, t, ('call', 'r_ptr', [('addr', rng.pick(['x', 'y']))])))
        elif c == 2:
            k += 1
            body.append(('decl', 'r%d' % k, t, ('call', 'w_val', [('val', ('var', rng.pick(['x', 'y'])))])))
        elif c == 3:
            body.append(('calls', 'w_sp', [('addr', 'arr'), ('val', lit())]))
        elif c == 4:
            k += 1
            body.append(('decl', 'r%d' % k, t, ('call', 'r_view', [('view', 'arr')])))
        elif c == 5:
            body.append(('calls', 'w_st', [('addr', 'st'), ('val', lit())]))
        elif c == 6:
            k += 1
            body.append(('decl', 'r%d' % k, t, ('call', 'r_st', [('view', 'st')])))
        elif c == 7:
            body.append(('calls', 'w_fwd', [('addr', rng.pick(['x', 'y'])), ('val', lit())]))
        else:
            k += 1
            body.append(('declptr', 'p%d' % k, t, rng.pick(['x', 'y'])))
            body.append(('calls', 'w_ptr', [('addr', 'p%d' % k), ('val', lit())]))
        calls.append(body[-1])
    body += observe
    main = dict(name='main', params=[], ret=None, body=body, retexpr=None)
    return dict(consts=[], fns=fns + [main], structs=structs), calls


INVALID = [
    # (expected code, model request or None, source)
    (530, "(write parameter)", "fn w(p: i32)\n{\n\tp = 1;\n}\n"),
    (530, "(write parameter element desliceByView)", "fn w(s: []i32)\n{\n\ts[0] = 1;\n}\n"),
    (530, "(write parameter member)", "struct S\n{\n\ta: i32,\n}\nfn w(s: S)\n{\n\ts.a = 1;\n}\n"),
    (530, "(write constant)", "const C: i32 = 1;\nfn main()\n{\n\tC = 2;\n}\n"),
    (530, "(write parameter)", "fn w(p: i32)\n{\n\tvar q: &i32 = &p;\n}\n"),
    (0, "(write parameter autoderef)", "fn w(p: &i32)\n{\n\tp = 1;\n}\n"),
    (0, "(write parameter desliceByPointer element)", "fn w(s: &[]i32)\n{\n\ts[0] = 1;\n}\n"),
    (0, "(write parameter autoderef member)", "struct S\n{\n\ta: i32,\n}\nfn w(s: &S)\n{\n\ts.a = 1;\n}\n"),
    (0, "(write variable)", "fn main()\n{\n\tvar x: i32 = 1;\n\tx = 2;\n}\n"),
    (0, "(write variable element)", "fn main()\n{\n\tvar a: [2]i32 = [1, 2];\n\ta[1] = 2;\n}\n"),
    (0, "(write variable element)", "fn main()\n{\n\tvar a: []i32 = [1, 2];\n\ta[1] = 2;\n}\n"),
    (531, None, "fn main()\n{\n\tvar a: [2]i32 = [1, 2];\n\tvar b: [2]i32 = [3, 4];\n\ta = b;\n}\n"),
    (531, None, "fn main()\n{\n\tvar a: [2]i32 = [1, 2];\n\tvar b = a;\n}\n"),
    (532, None, "fn w(data: []i32)\n{\n\tvar c = data;\n}\n"),
    (533, None, "struct S\n{\n\ta: i32,\n}\nfn main()\n{\n\tvar x = S { a: 1 };\n\tvar y: S = x;\n}\n"),
    (533, None, "struct S\n{\n\ta: i32,\n}\nfn main()\n{\n\tvar x = S { a: 1 };\n\tvar y = S { a: 2 };\n\ty = x;\n}\n"),
    # views whose elements or members are pointers: writing THROUGH the stored pointer changes what the caller's pointer
    # points to (allowed: the caller wrote `&` when it stored the pointer), but RE-SEATING the stored pointer (`&x[0] = &q`)
    # changes the caller's array or structure itself, which was passed without `&`: E530
    (530, None, "fn f(x: []&i32, q: &i32)\n{\n\t&x[0] = &q;\n}\nfn main()\n{\n}\n"),
    (530, None, "struct S\n{\n\tp: &i32,\n}\nfn f(s: S, q: &i32)\n{\n\t&s.p = &q;\n}\nfn main()\n{\n}\n"),
    (530, None, "struct S\n{\n\tp: &i32,\n}\nfn f(x: []S, q: &i32)\n{\n\t&x[1].p = &q;\n}\nfn main()\n{\n}\n"),
    (530, None, "struct S\n{\n\tv: i32,\n}\nfn f(x: []S)\n{\n\tx[0].v = 1;\n}\nfn main()\n{\n}\n"),
    (530, None, "fn f(x: [][2]i32)\n{\n\tx[0][1] = 1;\n}\nfn main()\n{\n}\n"),
    (0, None, "fn f(x: &[]&i32, q: &i32)\n{\n\t&x[0] = &q;\n}\nfn main()\n{\n}\n"),
    (0, None, "struct S\n{\n\tp: &i32,\n}\nfn f(s: &S, q: &i32)\n{\n\t&s.p = &q;\n}\nfn main()\n{\n}\n"),
    (0, None, "fn f(q: &i32)\n{\n\tvar a: i32 = 1;\n\tvar x: [2]&i32 = [&a, &a];\n\t&x[0] = &q;\n}\nfn main()\n{\n}\n"),
    (513, None, "fn w(p: &u8) -> u8\n{\n\treturn: p\n}\nfn main() -> u8\n{\n\tvar t: u8 = 10;\n\tvar r = w(t);\n\treturn: r\n}\n"),
    (513, None, "fn w(s: &[]i32)\n{\n\ts[0] = 1;\n}\nfn main()\n{\n\tvar a: [2]i32 = [1, 2];\n\tw(a);\n}\n"),
    (0, None, "fn w(p: &u8) -> u8\n{\n\treturn: p\n}\nfn main() -> u8\n{\n\tvar t: u8 = 10;\n\tvar r = w(&t);\n\treturn: r\n}\n"),
]


# ---- forwarding matrix: every way a function can hold data x every parameter type of a callee that writes through it,
#      the argument always passed WITHOUT `&`.  No expectation about acceptance: whatever is accepted must leave the data alone.
HOLD = [
    # (id, declaration as parameter of `caller` or None, local declaration or None, argument in main, read expression)
    ("local-scalar", None, "var b: i32 = 2;", None, "b"),
    ("local-array", None, "var b: [4]i32 = [1, 2, 3, 4];", None, "b[1]"),
    ("local-struct", None, "var b: S = S { a: 2, c: 3 };", None, "b.a"),
    ("param-value", "b: i32", None, "2", "b"),
    ("param-pointer", "b: &i32", None, "&x", "b"),
    ("param-view", "b: []i32", None, "data", "b[1]"),
    ("param-slice-pointer", "b: &[]i32", None, "&data", "b[1]"),
    ("param-array-pointer", "b: &[4]i32", None, "&data", "b[1]"),
    ("param-struct-view", "b: S", None, "st", "b.a"),
    ("param-struct-pointer", "b: &S", None, "&st", "b.a"),
]
TAKE = [
    # (parameter type of the callee, write through it)
    ("i32", "p = 9;"), ("&i32", "p = 9;"), ("[]i32", "p[1] = 9;"), ("&[]i32", "p[1] = 9;"), ("[4]i32", "p[1] = 9;"),
    ("&[4]i32", "p[1] = 9;"), ("[..]i32", "p[1] = 9;"), ("&[..]i32", "p[1] = 9;"), ("S", "p.a = 9;"), ("&S", "p.a = 9;"),
    ("(S)", "p.a = 9;"), ("([]i32)", "p[1] = 9;"), ("&&i32", "p = 9;"),
]


def forwarding_matrix():
    out = []
    for hid, hparam, hlocal, harg, read in HOLD:
        for ptype, write in TAKE:
            for ext in ("", "extern "):
                for via in ("direct", "twice", "cast", "cast-in-parentheses", "cast-then-forward"):
                    callee = "%sfn callee(p: %s)\n{\n\t%s\n}\n" % (ext, ptype, write)
                    middle = ""
                    call = "callee(b);"
                    # `cast` takes the type of the parameter: a view must not be reinterpreted as something writable
                    if via == "cast":
                        call = "callee(cast b);"
                    if via == "cast-in-parentheses":
                        call = "callee((cast b));"
                    if via == "cast-then-forward":
                        middle = "fn middle(q: %s)\n{\n\tcallee(q);\n}\n" % ptype
                        call = "middle(cast b);"
                    if via == "twice":
                        # one more hop that only forwards, again without `&`
                        middle = "fn middle(q: %s)\n{\n\tcallee(q);\n}\n" % ptype
                        call = "middle(b);"
                    caller = ("fn caller(%s) -> i32\n{\n%s\tvar before: i32 = %s;\n\t%s\n\tvar after: i32 = %s;\n"
                              "\treturn: after - before\n}\n" % (hparam or "", ("\t" + hlocal + "\n") if hlocal else "", read, call, read))
                    main = ("fn main() -> i32\n{\n\tvar x: i32 = 2;\n\tvar data: [4]i32 = [1, 2, 3, 4];\n"
                            "\tvar st: S = S { a: 2, c: 3 };\n\tvar r: i32 = caller(%s);\n"
                            "\treturn: r + (x - 2) + (data[1] - 2) + (st.a - 2)\n}\n" % (harg or ""))
                    src = "struct S\n{\n\ta: i32,\n\tc: i32,\n}\n" + callee + middle + caller + main
                    out.append(("%s -> %s%s (%s)" % (hid, ext, ptype, via), src))
    return out


# ---- address matrix: a callee that only holds a view (or a by-value copy, or reads a constant) tries to obtain a pointer
#      into it with `&` in every syntactic position an expression can stand in, and writes through that pointer.  As above:
#      no expectation about acceptance; whatever is accepted must leave the caller's data alone.
ADDR_HOLD = [
    # (id, parameter of `callee`, argument in main, place whose address is taken, its type)
    ("struct-view-member", "b: S", "st", "b.a", "i32"),
    ("array-view-element", "b: []i32", "data", "b[1]", "i32"),
    ("sized-array-view-element", "b: [4]i32", "data", "b[1]", "i32"),
    ("struct-view-nested-array", "b: T", "tt", "b.arr[1]", "i32"),
    ("constant", "", "", "K", "i32"),
    ("by-value", "b: i32", "x", "b", "i32"),
]
ADDR_POS = [
    # (id, statements given the place `%s`)
    ("declaration", "\tvar p: &i32 = &%s;\n\tp = 9;\n"),
    ("declaration-inferred", "\tvar p = &%s;\n\tp = 9;\n"),
    ("array-literal", "\tvar ps: []&i32 = [&%s];\n\tps[0] = 9;\n"),
    ("sized-array-literal", "\tvar ps: [1]&i32 = [&%s];\n\tps[0] = 9;\n"),
    ("array-literal-2", "\tvar z: i32 = 0;\n\tvar ps: []&i32 = [&z, &%s];\n\tps[1] = 9;\n"),
    ("struct-literal", "\tvar h = P { q: &%s };\n\th.q = 9;\n"),
    ("argument", "\tsetter(&%s);\n"),
    ("address-assignment", "\tvar z: i32 = 0;\n\tvar p: &i32 = &z;\n\t&p = &%s;\n\tp = 9;\n"),
    ("parenthesised", "\tvar p: &i32 = (&%s);\n\tp = 9;\n"),
]


def address_matrix():
    out = []
    for hid, hparam, harg, place, _t in ADDR_HOLD:
        for pid, stmts in ADDR_POS:
            src = ("struct S\n{\n\ta: i32,\n\tc: i32,\n}\nstruct T\n{\n\tarr: [4]i32,\n}\nstruct P\n{\n\tq: &i32,\n}\n"
                   "const K: i32 = 2;\n"
                   "fn setter(p: &i32)\n{\n\tp = 9;\n}\n%s"
                   "fn callee(%s)\n{\n%s}\n"
                   "fn main() -> i32\n{\n\tvar x: i32 = 2;\n\tvar data: [4]i32 = [1, 2, 3, 4];\n\tvar st: S = S { a: 2, c: 3 };\n"
                   "\tvar tt: T = T { arr: [1, 2, 3, 4] };\n\tcallee(%s);\n"
                   "\treturn: (x - 2) + (data[1] - 2) + (st.a - 2) + (tt.arr[1] - 2) + (K - 2)\n}\n"
                   % ("", hparam, stmts % place, harg))
            out.append(("address of %s in %s" % (hid, pid), src))
    return out


def copy_matrix():
    """whole arrays, views and structures cannot be copied (E531, E532, E533): every aggregate in every copying position,
    with a plain index / member value or one computed by a call in the same statement (the analyzer tracks "is a direct
    call argument" in a flag: a call must not leave it set for the rest of the statement)"""
    pre = ("struct S\n{\n\ta: i32,\n}\nstruct W\n{\n\tn: usize,\n\tinner: S,\n\trow: [2]i32,\n}\n"
           "fn pick(i: usize) -> usize\n{\n\treturn: i\n}\nfn pick2(i: usize, j: usize) -> usize\n{\n\treturn: i + j\n}\n"
           "fn noarg() -> usize\n{\n\treturn: 1\n}\n")
    # (name, code, how main gets it, expression, its type, a literal of that type)
    aggs = [("array", 531, "\tvar row: [2]i32 = [1, 2];\n", "row", "[2]i32", "[7, 8]"),
            ("struct", 533, "\tvar st: S = S { a: 1 };\n", "st", "S", "S { a: 7 }")]
    idxs = [("literal", "1"), ("call", "pick(1)"), ("call2", "pick2(0, 1)"), ("noarg-call", "noarg()"), ("variable", "k")]
    out = []
    for (an, code, adecl, aexpr, aty, alit) in aggs:
        for (iname, idx) in idxs:
            common = "\tvar k: usize = 1;\n" + adecl
            m = "\tvar m: [2]%s = [%s, %s];\n" % (aty, alit, alit)
            w = "\tvar w = W { n: 0, inner: S { a: 3 }, row: [3, 4] };\n"
            field = "row" if an == "array" else "inner"
            cases = [
                ("element-of-array", common + m + "\tm[%s] = %s;\n" % (idx, aexpr)),
                ("member-after-index", common + "\tvar ws: [2]W = [W { n: 0, inner: S { a: 3 }, row: [3, 4] }, W { n: 0, inner: S { a: 3 }, row: [3, 4] }];\n"
                 "\tws[%s].%s = %s;\n" % (idx, field, aexpr)),
                ("structure-literal-member", common + "\tvar w2 = W { n: %s, %s: %s, %s };\n" % (
                    idx, field, aexpr, "inner: S { a: 3 }" if an == "array" else "row: [3, 4]")),
                ("array-literal-element", common + "\tvar n: usize = %s;\n\tvar m2 = [%s, %s];\n" % (idx, aexpr, aexpr)),
                ("declaration-after-call", common + "\tvar n: usize = %s;\n\tvar c = %s;\n" % (idx, aexpr)),
                ("assignment", common + "\tvar c: %s = %s;\n\tvar n: usize = %s;\n\tc = %s;\n" % (aty, alit, idx, aexpr)),
                ("member", common + w + "\tw.n = %s;\n\tw.%s = %s;\n" % (idx, field, aexpr)),
            ]
            for (pos, body) in cases:
                out.append(("%s copied in %s (%s index)" % (an, pos, iname), code, pre + "fn main()\n{\n" + body + "}\n"))
    # views (parameters) copied inside the callee
    for (iname, idx) in idxs:
        out.append(("view copied in declaration (%s)" % iname, 532,
                    pre + "fn callee(data: []i32)\n{\n\tvar n: usize = %s;\n\tvar c = data;\n}\nfn main()\n{\n}\n" % idx))
        out.append(("structure view copied into an element (%s)" % iname, 533,
                    pre + "fn callee(sv: S)\n{\n\tvar kept: [2]S = [S { a: 1 }, S { a: 2 }];\n\tkept[%s] = sv;\n}\nfn main()\n{\n}\n" % idx))
        out.append(("structure view copied into a literal (%s)" % iname, 533,
                    pre + "fn callee(sv: S)\n{\n\tvar w = W { n: %s, inner: sv, row: [1, 2] };\n}\nfn main()\n{\n}\n" % idx))
    return out


def main():
    rep = Reporter("C08")
    if not setup_common(rep, THEOREMS):
        return rep.finish()
    rng = SplitMix64(rep.seed).fork("C08")
    thorough = rep.tier == "thorough"
    dist = collections.Counter()
    agreeing = total = 0
    n = 4000 if thorough else 150
    progs = [program(rng.fork("p%d" % i)) for i in range(n)]
    m = runlib.model_run([p for p, _ in progs])
    srcs = [progen.src_prog(p, progen.Layout(rng.fork("l%d" % i))) for i, (p, _) in enumerate(progs)]
    h = runlib.impl_run(srcs)
    for (p, calls), ma, ha, src in zip(progs, m, h, srcs):
        mo = runlib.model_obs(ma)
        dist["model:" + mo[0]] += 1
        if mo[0] != "ok":
            continue
        total += 1
        io = runlib.impl_obs(ha)
        problems = []
        if io[0] != "ok":
            problems.append("accepted-by-construction program rejected: " + io[0])
        elif io[2] != mo[2]:
            problems.append("output differs from the interpreter")
        else:
            # static prediction, independent of the interpreter: a variable changes across a call only if it was passed with `&`
            vals = io[2].split("|")
            per = 5
            for ci, call in enumerate(calls):
                before = vals[ci * per:(ci + 1) * per]
                after = vals[(ci + 1) * per:(ci + 2) * per]
                args = call[2] if call[0] == 'calls' else (call[3][2] if call[0] == 'decl' and call[3][0] == 'call' else [])
                addressed = set(a[1] for a in args if a[0] == 'addr')
                names = ['x', 'y', 'arr', 'st', 'st']
                for j, nm in enumerate(names):
                    aliased = nm in addressed or any(a.startswith('p') for a in addressed)
                    if before[j] != after[j] and not aliased:
                        problems.append("call %s changed `%s` although it was not passed with `&`" % (call, nm))
        if problems:
            rep.violation("prog:" + progen.sx_prog(p)[:300], {"why": problems[:4], "source": src,
                                                            "harness_request": "alpha\trun\tmain.pn\t" + esc(src),
                                                            "model_request": "run\t" + progen.sx_prog(p), "implementation": ha[:800], "model": ma[:400]})
        else:
            agreeing += 1
    # static rules
    mreq = ["mut\t" + rq for _, rq, _ in INVALID if rq]
    mans = run_model(mreq) if mreq else []
    it = iter(mans)
    hs = run_harness_serial(["alpha\tcheck\tm.pn\t" + esc(src) for _, _, src in INVALID])
    for (code, rq, src), ha in zip(INVALID, hs):
        total += 1
        exp = code
        if rq:
            mv = int(next(it))
            if mv != code:
                rep.violation("model-table:" + rq, {"why": "Lean writeVerdict gives %d, the rule table says %d" % (mv, code)})
        hh, hd = kv(ha)
        codes = codes_of(hd) if hh == "err" else []
        ok = (hh == "ok") if exp == 0 else (exp in codes)
        dist["static:%s" % ("E%d" % exp if exp else "ok")] += 1
        if ok:
            agreeing += 1
        else:
            rep.violation("static:" + src, {"why": "expected %s, compiler says %s %s" % ("E%d" % exp if exp else "acceptance", hh, codes),
                                            "source": src, "harness_request": "alpha\tcheck\tm.pn\t" + esc(src), "implementation": ha[:300]})
    # F71: a function head (`fn f(p: []i32);`) whose definition lives in another module with another signature: nothing
    # compares the two, so the caller passes `arr` without `&` and the definition writes through a slice pointer
    liar = [("main.pn", "fn poke_arr(p: []i32);\nfn main() -> i32\n{\n\tvar arr: [2]i32 = [1, 2];\n\tpoke_arr(arr);\n\treturn: arr[0]\n}\n"),
            ("lib.pn", "pub fn poke_arr(p: &[]i32)\n{\n\tp[0] = 50;\n}\n")]
    la = run_harness_serial(["alpha\trun\t" + "\t".join(x for nm, src in liar for x in (nm, esc(src)))])[0]
    lh, ld = kv(la)
    total += 1
    if lh == "ok" and ld.get("status") != "1":
        rep.violation("c08:head-and-definition-disagree-across-modules", {
            "why": "`arr` was passed without `&` to a function declared with a view parameter, and the call changed it (status %s instead of 1): "
                   "the definition in the other module takes `&[]i32`" % ld.get("status"), "files": dict(liar), "implementation": la[:300]})
    # F72: an aggregate copied into a member of a structure literal that is itself a direct call argument
    cp = ("struct S\n{\n\tv: i32,\n}\nstruct O\n{\n\ts: S,\n\tn: i32,\n}\nfn foo(o: O) -> i32\n{\n\treturn: o.s.v\n}\nfn main() -> i32\n{\n"
          "\tvar s = S { v: 3 };\n\treturn: foo(O { s: s, n: 1 })\n}\n")
    ca_ = run_harness_serial(["alpha\tcheck\tm.pn\t" + esc(cp)])[0]
    ch2, cd2 = kv(ca_)
    total += 1
    if not (ch2 == "err" and 533 in codes_of(cd2)):
        rep.violation("c08:aggregate-copied-inside-a-structure-literal-argument", {
            "why": "`foo(O { s: s, n: 1 })` copies the structure `s` into the literal; E533 expected as for `var o = O { s: s, n: 1 };`: " + ca_[:200], "source": cp})
    # copy matrix
    cm = copy_matrix()
    ch = run_harness(["alpha\tcheck\tm.pn\t" + esc(src) for _, _, src in cm])
    for (what, code, src), ha in zip(cm, ch):
        total += 1
        hh, hd = kv(ha)
        codes = codes_of(hd) if hh == "err" else []
        dist["copy:E%d:%s" % (code, "rejected" if code in codes else hh)] += 1
        if code in codes:
            agreeing += 1
        else:
            rep.violation("copy:" + what, {"why": "%s: expected E%d, compiler says %s %s" % (what, code, hh, codes), "source": src,
                                           "harness_request": "alpha\tcheck\tm.pn\t" + esc(src), "implementation": ha[:300]})
    # forwarding matrix and address matrix
    fm = forwarding_matrix() + address_matrix()
    fh = run_harness(["alpha\trun\tm.pn\t" + esc(src) for _, src in fm])
    for (what, src), ha in zip(fm, fh):
        total += 1
        hh, hd = kv(ha)
        if hh != "ok":
            dist["matrix:" + (hh if hh != "err" else "rejected")] += 1
            if hh not in ("err",):
                # crashes / internal errors are C02's business; not an acceptance
                pass
            agreeing += 1
            continue
        dist["matrix:accepted"] += 1
        if hd.get("status") != "0":
            rep.violation("matrix:" + what, {
                "why": "accepted, and data held by the caller changed although every argument on the way was passed without `&` "
                       "(exit status %s = after - before)" % hd.get("status"),
                "source": src, "harness_request": "alpha\trun\tm.pn\t" + esc(src), "implementation": ha[:300]})
        else:
            agreeing += 1
    report_broken_proof(rep)
    rep.coverage.update({
        "evaluations": total, "distinct_nontrivial": total,
        "rule": "generated callers that print x, y, arr[0], st.a, st.b before and after each of 3-8 random calls to callees that "
                "write or only read through a pointer, a by-value parameter, a slice pointer, an array view, a struct pointer, a "
                "struct view, a forwarded pointer and an aliasing pointer variable (random integer type and values): stdout vs the "
                "Lean interpreter AND the static prediction 'unchanged unless passed with &'; plus the fixed rule table "
                "(E530 writes/addresses, E531-E533 aggregate copies, E513 missing &) vs the compiler and the Lean writeVerdict; plus "
                "the address matrix (6 immutable holders x 9 positions of `&`: declaration, array / structure literal, argument, address assignment ...: accepted implies the caller's data is untouched); the forwarding matrix: 10 ways a function can hold data x 13 parameter types of a writing callee x extern/plain x "
                "direct/forwarded, every argument passed without `&`: whatever is accepted must leave the data unchanged",
        "traces_validated_against_impl": agreeing, "distribution": dict(dist), "samples": [srcs[0][:1200]],
    })
    return rep.finish()


if __name__ == "__main__":
    sys.exit(main())
