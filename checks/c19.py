"""C19 — the token fuzzer emits only valid lexemes."""
import collections
from lib import *

THEOREMS = ["Lex.fuzz_output_no_lexical_error", "Lex.emit_safe2", "Lex.safe_noErr", "Lex.lex_errFree", "Lex.closedLex_string",
            "Lex.closedLex_char", "Lex.wordLex_ident", "Lex.piece_decimal_suffixed", "Lex.piece_hex_upper_suffixed", "Lex.fuzz_size", "Lex.fuzz_decimal", "Lex.fuzz_hex_upper", "Lex.hex_roundtrip", "Lex.bin_roundtrip",
            "Lex.fuzz_decimal_suffixed", "Lex.fuzz_hex_suffixed", "Lex.fuzz_bin_suffixed", "Lex.fixed_spellings_lex"]

# shapes of the lexemes the fuzzer can emit (one regex per branch of fill_to_capacity_with_tokens), used as a
# membership certificate: every token of every real output must be of one of these shapes.
SHAPES = [
    ("fixed", re.compile(r"^(\(|\)|\{|\}|\[|\]|<|>|\||&|\^|!|_|\+|-|\*|/|%|:|;|\.|,|=|==|!=|>=|<=|<<|>>|->|\|:|\.\.|fn|var|const|if|goto|loop|return|else|cast|as|import|pub|extern|struct|word8|word16|word32|word64|word128|void|i8|i16|i32|i64|i128|u8|u16|u32|u64|u128|usize|char8|bool|true|false)$")),
    ("decimal", re.compile(r"^(0|[1-9][0-9]*)(i8|i16|i32|i64|i128|u8|u16|u32|u64|u128|usize)?$")),
    ("hex", re.compile(r"^0x([0-9a-f]+|[0-9A-F]+)(i8|i16|i32|i64|i128|u8|u16|u32|u64|u128|usize)?$")),
    ("bin", re.compile(r"^0b[01]+(i8|i16|i32|i64|i128|u8|u16|u32|u64|u128|usize)?$")),
    ("identifier", re.compile(r"^[A-Za-z_][A-Za-z0-9_]*!?$")),
    ("char", re.compile(r"^'(\\x[0-9A-F]{2}|\\[nrt\\'\"]|[ -~])'$")),
    ("string", re.compile(r'^"([^"\\\n]|\\x[0-9A-F]{2}|\\[nrt\\\'"]|\\u\{[0-9a-f]{1,6}\})*"$', re.S)),
]


SUF = r"(?:i8|i16|i32|i64|i128|u8|u16|u32|u64|u128|usize)"
PIECES = [
    ("word:ident", re.compile(r"[A-Za-z_][A-Za-z0-9_]*(?![A-Za-z0-9_])")),
    ("word:hex", re.compile(r"0x(?:0|[1-9a-f][0-9a-f]*|[1-9A-F][0-9A-F]*)%s?(?![A-Za-z0-9_])" % SUF)),
    ("word:bin", re.compile(r"0b(?:0|1[01]*)%s?(?![A-Za-z0-9_])" % SUF)),
    ("word:dec", re.compile(r"(?:0|[1-9][0-9]*)%s?(?![A-Za-z0-9_])" % SUF)),
    ("string", re.compile(r'"(?:[ !#-\[\]-~]|\\[nrt\\\'"0]|\\x[0-9A-Fa-f]{2}|\\u\{[0-9a-fA-F]{1,8}\}|[^\x00-\x7f])*"')),
    ("char", re.compile(r"'(?:[ -&(-\[\]-~]|\\[nrt\\'\"0]|\\x[0-9A-Fa-f]{2}|\\u\{[0-9a-fA-F]{1,2}\})'")),
    ("sym", re.compile(r"[(){}\[\]<>|&^!+*%:;.,=\-/]")),
]


def in_emission_model(line):
    """is the line in the language of `Lex.emit` with `PieceOK` pieces (Lean: Lex/Safe.lean, Props/C19.lean)?  Returns None, or
    the column and reason of the first character that no piece family accounts for"""
    i = 0
    n = len(line)
    while i < n:
        ch = line[i]
        if ch in " \t":
            i += 1
            continue
        if line.startswith("//", i):
            return None
        for name, rx in PIECES:
            m = rx.match(line, i)
            if m:
                lex = m.group(0)
                if name.startswith("word:") and name != "word:ident":
                    digits = re.sub(SUF + "$", "", lex)
                    v = int(digits[2:], 16) if name == "word:hex" else int(digits[2:], 2) if name == "word:bin" else int(digits)
                    if v >= 2 ** 128:
                        return (i, "number of 129 bits or more: " + lex[:50])
                for um in re.finditer(r"\\u\{([0-9a-fA-F]+)\}", lex) if name in ("string", "char") else ():
                    v = int(um.group(1), 16)
                    if not (v < 0xD800 or 0xE000 <= v < 0x110000) or (name == "char" and v >= 128):
                        return (i, "escape outside the modelled items: " + um.group(0))
                i = m.end()
                break
        else:
            return (i, "no piece family starts with %r" % line[i:i + 12])
    return None


def shape_of(lexeme):
    for name, rx in SHAPES:
        if rx.match(lexeme):
            return name
    return None


def main():
    rep = Reporter("C19")
    if not setup_common(rep, THEOREMS):
        return rep.finish()
    rng = SplitMix64(rep.seed).fork("C19")
    thorough = rep.tier == "thorough"
    n = 2500 if thorough else 200
    sizes = [1 + rng.below(64 if thorough else 8) for _ in range(n)]
    ans = run_harness(["fuzz\t%d" % kb for kb in sizes])
    texts = []
    dist = collections.Counter()
    total_bytes = 0
    # the command itself (`penne fuzz tokens --kb K --out-dir D`: whatever src/main.rs does around the fuzzer, before the file is
    # written): the files it writes, lexed by both lexers.  Small sizes mostly: a token that straddles the requested size is
    # the last thing written, and what the command does with the end of the buffer shows there.
    import tempfile
    import shutil
    from concurrent.futures import ThreadPoolExecutor
    penne = build_penne_bin()
    cli_sizes = [rng.pick([1, 1, 1, 1, 1, 2, 2, 3, 5, 8, 16, 64]) for _ in range(8000 if thorough else 1500)]
    cli_dir = tempfile.mkdtemp(prefix="c19cli", dir=CACHE)

    def cli_run(job):
        i, kb = job
        d = os.path.join(cli_dir, "r%d" % i)
        os.makedirs(d)          # (the command writes into an existing directory)
        pr = subprocess.run([penne, "fuzz", "tokens", "--kb", str(kb), "--out-dir", d, "--silent"], stdout=subprocess.PIPE,
                            stderr=subprocess.PIPE, env=env_for_cargo(), timeout=300)
        f = os.path.join(d, "fuzzed_tokens.pn")
        raw = open(f, "rb").read() if os.path.exists(f) else None
        shutil.rmtree(d, ignore_errors=True)
        return kb, pr.returncode, raw, (pr.stdout + pr.stderr)[-300:]
    with ThreadPoolExecutor(max_workers=NCPU) as ex:
        cli = list(ex.map(cli_run, enumerate(cli_sizes)))
    shutil.rmtree(cli_dir, ignore_errors=True)
    cli_texts = []
    for kb, rc, raw, out in cli:
        dist["command:%dKB" % kb] += 1
        if rc != 0 or raw is None:
            rep.violation("command:failed:%d" % kb, {"what": "`penne fuzz tokens --kb %d --out-dir D` failed or wrote no file (status %s)" % (kb, rc),
                                                     "output": out.decode("utf-8", "replace")})
            continue
        try:
            text = raw.decode("utf-8")
        except UnicodeDecodeError:
            rep.violation("command:utf8:%d" % kb, {"what": "the file the command wrote is not valid UTF-8", "kb": kb, "text_hex": raw.hex()[:4000]})
            continue
        if len(raw) < 1024 * kb:
            rep.violation("command:size:%d:%d" % (kb, len(raw)), {"what": "the file the command wrote is shorter than requested", "kb": kb, "len": len(raw)})
        cli_texts.append((kb, text))
    la = run_harness(["lexa\t" + esc(t) for _kb, t in cli_texts])
    ld = run_harness(["lexd\t" + esc(t.encode()) for _kb, t in cli_texts])
    for (kb, text), a1, a2 in zip(cli_texts, la, ld):
        bad = [x for x in (a1.split(" ") + a2.split(" ")) if re.match(r"E\d+@", x)] if not (a1.startswith(("crash", "panic")) or a2.startswith(("crash", "panic"))) else ["crash"]
        if bad:
            rep.violation("command:lexerr:%d:%s" % (kb, hash_str(text)), {
                "what": "a real lexer reports a lexical error on a file written by `penne fuzz tokens --kb %d`" % kb,
                "errors": bad[:6], "end_of_text": text[-300:], "harness_request": ("lexa\t" + esc(text))[:20000]})
        total_bytes += len(text)
    for kb, a in zip(sizes, ans):
        d = dict(p.split("=", 1) for p in a.split(" ") if "=" in p)
        if "text" not in d:
            rep.violation("fuzz:" + a[:100], {"what": "fuzzer run failed", "implementation": a[:500]})
            continue
        raw = bytes.fromhex(d["text"][2:])
        total_bytes += len(raw)
        try:
            text = raw.decode("utf-8")
        except UnicodeDecodeError:
            rep.violation("utf8:" + d["text"][:64], {"what": "output is not valid UTF-8", "text_hex": d["text"]})
            continue
        texts.append(text)
        if len(raw) < 1024 * kb:
            rep.violation("size:%d:%d" % (kb, len(raw)), {"what": "output shorter than requested", "kb": kb, "len": len(raw)})
        if d.get("alpha_errs") or d.get("delta_errs"):
            rep.violation("lexerr:" + d["text"][:64], {
                "what": "a real lexer reports a lexical error on fuzzer output",
                "alpha_errors(code@offset)": d.get("alpha_errs"), "delta_errors": d.get("delta_errs"), "text": text,
                "harness_request": "lexa\t" + esc(text), "model_request": "lex\t" + sexp_str(text)})
    # membership in the emission model: every line of every real output must be in the language the composition theorem
    # (Lex.fuzz_output_no_lexical_error) quantifies over; a line outside it means the model no longer covers the fuzzer
    outside = 0
    for t in texts:
        for ln_no, line in enumerate(t.replace("\r\n", "\n").split("\n")):
            why = in_emission_model(line)
            dist["line:" + ("in-model" if why is None else "outside")] += 1
            if why is not None:
                outside += 1
                if outside <= 3:
                    rep.violation("emission-model:%s" % why[1][:60], {
                        "what": "a line of real fuzzer output is outside the language of the Lean emission model (pieces x spacing "
                                "rule), so the composition theorem does not speak about it; no lexical error was found on it",
                        "theorem": "Lex.fuzz_output_no_lexical_error", "line": line[:400], "column": why[0], "reason": why[1]},
                        no_input=True)
    # the model lexes the same texts: no error token, and every token is of a shape the piece theorems cover
    m = run_model(["lex\t" + sexp_str(t) for t in texts])
    certified = 0
    for t, ma in zip(texts, m):
        ok = True
        lines_off = None
        for tok in ma.split(" "):
            if not tok:
                continue
            head, _, pos = tok.rpartition("@")
            span = pos.split("/")[0]
            s, e = span.split("-")
            lexeme = t_slice(t, int(s), int(e))
            if head.startswith("E"):
                ok = False
                rep.violation("model-lexerr:" + lexeme[:40], {"what": "the reference lexer reports an error on fuzzer output",
                                                                "token": tok, "lexeme": lexeme, "text": t})
                break
            sh = shape_of(lexeme)
            dist["shape:" + str(sh)] += 1
            if sh is None:
                ok = False
                dist["uncertified"] += 1
                rep.notes.append("lexeme outside the modelled piece shapes: %r" % lexeme[:60])
        if ok:
            certified += 1
    report_broken_proof(rep)
    rep.coverage.update({
        "evaluations": len(sizes),
        "distinct_nontrivial": len(set(texts)),
        "rule": "real outputs of fill_to_capacity_with_tokens(95, buf, 0) with capacity kb*1096 exactly as `penne fuzz tokens` "
                "calls it, kb in 1..%d; each is checked for UTF-8 validity, size >= kb KiB, zero lexical errors in the real "
                "alpha lexer, the real delta lexer and the Lean reference lexer, every line is recognised as a member of the "
                "emission model's language (pieces x spacing rule) and every lexeme is matched against the piece "
                "shapes the theorems quantify over; distinct = distinct output texts" % (64 if thorough else 8),
        "traces_validated_against_impl": certified,
        "bytes_lexed": total_bytes,
        "distribution": dict(dist),
        "samples": [texts[0][:300] if texts else ""],
    })
    rep.notes = rep.notes[:10]
    return rep.finish()


def t_slice(text, s, e):
    """spans are in characters with the first-generation lexer's line arithmetic (CR of CRLF not counted)"""
    return _index(text)[s:e] if False else CharIndex.get(text)[s:e]


class CharIndex:
    cache = {}

    @staticmethod
    def get(text):
        # alpha offsets: each line contributes chars + 1; CRLF counts as one separator
        v = CharIndex.cache.get(id(text))
        if v is None:
            v = text.replace("\r\n", "\n")
            CharIndex.cache = {id(text): v}
        return v


if __name__ == "__main__":
    sys.exit(main())
