"""C19 — the token fuzzer emits only valid lexemes."""
import collections
from lib import *

THEOREMS = ["Lex.fuzz_size", "Lex.fuzz_decimal", "Lex.fuzz_hex_upper", "Lex.hex_roundtrip", "Lex.bin_roundtrip",
            "Lex.fuzz_decimal_suffixed", "Lex.fuzz_hex_suffixed", "Lex.fuzz_bin_suffixed", "Lex.fixed_spellings_lex"]

# shapes of the lexemes the fuzzer can emit (one regex per branch of fill_to_capacity_with_tokens), used as a
# membership certificate: every token of every real output must be of one of these shapes.
SHAPES = [
    ("fixed", re.compile(r"^(\(|\)|\{|\}|\[|\]|<|>|\||&|\^|!|_|\+|-|\*|/|%|:|;|\.|,|=|==|!=|>=|<=|<<|>>|->|\|:|\.\.|fn|var|const|if|goto|loop|return|else|cast|as|import|pub|extern|struct|word8|word16|word32|word64|word128|void|i8|i16|i32|i64|i128|u8|u16|u32|u64|u128|usize|char8|bool|true|false)$")),
    ("decimal", re.compile(r"^(0|[1-9][0-9]*)(i8|i16|i32|i64|i128|u8|u16|u32|u64|u128|usize)?$")),
    ("hex", re.compile(r"^0x([0-9a-f]+|[0-9A-F]+)(i8|i16|i32|i64|i128|u8|u16|u32|u64|u128|usize)?$")),
    ("bin", re.compile(r"^0b[01]+(i8|i16|i32|i64|i128|u8|u16|u32|u64|u128|usize)?$")),
    ("identifier", re.compile(r"^[A-Za-z_][A-Za-z0-9_]*!?$")),
    ("char", re.compile(r"^'(\\x[0-9A-F]{2}|\\[nrt\\'\"]|[ -~])'$")),
    ("string", re.compile(r'^"([^"\\\n]|\\x[0-9A-F]{2}|\\[nrt\\\'"]|\\u\{[0-9a-f]{1,6}\})*"$', re.S)),
]


def shape_of(lexeme):
    for name, rx in SHAPES:
        if rx.match(lexeme):
            return name
    return None


def main():
    rep = Reporter("C19")
    if not setup_common(rep, THEOREMS):
        return rep.finish()
    rng = SplitMix64(rep.seed).fork("C19")
    thorough = rep.tier == "thorough"
    n = 2500 if thorough else 200
    sizes = [1 + rng.below(64 if thorough else 8) for _ in range(n)]
    ans = run_harness(["fuzz\t%d" % kb for kb in sizes])
    texts = []
    dist = collections.Counter()
    total_bytes = 0
    for kb, a in zip(sizes, ans):
        d = dict(p.split("=", 1) for p in a.split(" ") if "=" in p)
        if "text" not in d:
            rep.violation("fuzz:" + a[:100], {"what": "fuzzer run failed", "implementation": a[:500]})
            continue
        raw = bytes.fromhex(d["text"][2:])
        total_bytes += len(raw)
        try:
            text = raw.decode("utf-8")
        except UnicodeDecodeError:
            rep.violation("utf8:" + d["text"][:64], {"what": "output is not valid UTF-8", "text_hex": d["text"]})
            continue
        texts.append(text)
        if len(raw) < 1024 * kb:
            rep.violation("size:%d:%d" % (kb, len(raw)), {"what": "output shorter than requested", "kb": kb, "len": len(raw)})
        if d.get("alpha_errs") or d.get("delta_errs"):
            rep.violation("lexerr:" + d["text"][:64], {
                "what": "a real lexer reports a lexical error on fuzzer output",
                "alpha_errors(code@offset)": d.get("alpha_errs"), "delta_errors": d.get("delta_errs"), "text": text,
                "harness_request": "lexa\t" + esc(text), "model_request": "lex\t" + sexp_str(text)})
    # the model lexes the same texts: no error token, and every token is of a shape the piece theorems cover
    m = run_model(["lex\t" + sexp_str(t) for t in texts])
    certified = 0
    for t, ma in zip(texts, m):
        ok = True
        lines_off = None
        for tok in ma.split(" "):
            if not tok:
                continue
            head, _, pos = tok.rpartition("@")
            span = pos.split("/")[0]
            s, e = span.split("-")
            lexeme = t_slice(t, int(s), int(e))
            if head.startswith("E"):
                ok = False
                rep.violation("model-lexerr:" + lexeme[:40], {"what": "the reference lexer reports an error on fuzzer output",
                                                                "token": tok, "lexeme": lexeme, "text": t})
                break
            sh = shape_of(lexeme)
            dist["shape:" + str(sh)] += 1
            if sh is None:
                ok = False
                dist["uncertified"] += 1
                rep.notes.append("lexeme outside the modelled piece shapes: %r" % lexeme[:60])
        if ok:
            certified += 1
    report_broken_proof(rep)
    rep.coverage.update({
        "evaluations": len(sizes),
        "distinct_nontrivial": len(set(texts)),
        "rule": "real outputs of fill_to_capacity_with_tokens(95, buf, 0) with capacity kb*1096 exactly as `penne fuzz tokens` "
                "calls it, kb in 1..%d; each is checked for UTF-8 validity, size >= kb KiB, zero lexical errors in the real "
                "alpha lexer, the real delta lexer and the Lean reference lexer, and every lexeme is matched against the piece "
                "shapes the theorems quantify over; distinct = distinct output texts" % (64 if thorough else 8),
        "traces_validated_against_impl": certified,
        "bytes_lexed": total_bytes,
        "distribution": dict(dist),
        "samples": [texts[0][:300] if texts else ""],
    })
    rep.notes = rep.notes[:10]
    return rep.finish()


def t_slice(text, s, e):
    """spans are in characters with the first-generation lexer's line arithmetic (CR of CRLF not counted)"""
    return _index(text)[s:e] if False else CharIndex.get(text)[s:e]


class CharIndex:
    cache = {}

    @staticmethod
    def get(text):
        # alpha offsets: each line contributes chars + 1; CRLF counts as one separator
        v = CharIndex.cache.get(id(text))
        if v is None:
            v = text.replace("\r\n", "\n")
            CharIndex.cache = {id(text): v}
        return v


if __name__ == "__main__":
    sys.exit(main())
