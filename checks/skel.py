"""Statement skeletons shared by C04/C05/C06: enumeration, random generation,
rendering to Penne source and to the model's S-expressions.

A statement is a tuple:
  ('label', n) ('goto', n) ('loop',) ('decl', v, [uses]) ('use', [vs])
  ('if', [cond vars], stmt) ('ife', [cond vars], stmt, stmt) ('block', [stmts])
Names are small ints; labels render as l<n> (99 = `return`), variables as v<n>.
"""

RETURN = 99


def lname(n):
    return "return" if n == RETURN else "l%d" % n


def vname(v):
    return "v%d" % v


def sexp(s):
    k = s[0]
    if k == 'label':
        return "(label %d)" % s[1]
    if k == 'goto':
        return "(goto %d)" % s[1]
    if k == 'loop':
        return "(loop)"
    if k == 'decl':
        return "(decl %d (%s))" % (s[1], " ".join(map(str, s[2])))
    if k == 'use':
        return "(use (%s))" % " ".join(map(str, s[1]))
    if k == 'if':
        return "(if (%s) %s)" % (" ".join(map(str, s[1])), sexp(s[2]))
    if k == 'ife':
        return "(ife (%s) %s %s)" % (" ".join(map(str, s[1])), sexp(s[2]), sexp(s[3]))
    if k == 'block':
        return "(block%s)" % "".join(" " + sexp(x) for x in s[1])
    raise ValueError(k)


def body_sexp(ss):
    return "(body%s)" % "".join(" " + sexp(x) for x in ss)


def cond_src(cvs):
    if not cvs:
        return "0 == 0"
    return " + ".join(vname(v) for v in cvs) + " == 0"


def expr_src(vs):
    if not vs:
        return "1"
    return " + ".join(vname(v) for v in vs)


def render(s, ind, out, naked=False):
    """append source lines for statement s"""
    k = s[0]
    pad = "\t" * ind
    if k == 'label':
        out.append(pad + lname(s[1]) + ":")
    elif k == 'goto':
        out.append(pad + "goto " + lname(s[1]) + ";")
    elif k == 'loop':
        out.append(pad + "loop;")
    elif k == 'decl':
        out.append(pad + "var %s: i32 = %s;" % (vname(s[1]), expr_src(s[2])))
    elif k == 'use':
        vs = s[1]
        if vs:
            out.append(pad + "%s = %s;" % (vname(vs[0]), expr_src(vs[1:] if len(vs) > 1 else vs)))
        else:
            out.append(pad + "nop();")
    elif k == 'if':
        out.append(pad + "if " + cond_src(s[1]))
        render(s[2], ind if s[2][0] == 'block' else ind + 1, out, True)
    elif k == 'ife':
        out.append(pad + "if " + cond_src(s[1]))
        render(s[2], ind if s[2][0] == 'block' else ind + 1, out, True)
        if s[3][0] == 'if' or s[3][0] == 'ife':
            sub = []
            render(s[3], ind, sub, True)
            out.append(pad + "else " + sub[0].lstrip("\t"))
            out.extend(sub[1:])
        else:
            out.append(pad + "else")
            render(s[3], ind if s[3][0] == 'block' else ind + 1, out, True)
    elif k == 'block':
        out.append(pad + "{")
        for x in s[1]:
            render(x, ind + 1, out)
        out.append(pad + "}")
    else:
        raise ValueError(k)


def render_fn(ss, params=(), prelude=(), consts=(), with_return=None, name="f"):
    """a module with one function whose body is prelude + ss.
    with_return: None -> void function; else a variable number whose value is returned
    (the model body then ends with (label 99))."""
    out = []
    for c in consts:
        out.append("const %s: i32 = 1;" % vname(c))
    out.append("fn nop()")
    out.append("{")
    out.append("}")
    sig = ", ".join("%s: i32" % vname(p) for p in params)
    if with_return is None:
        out.append("fn %s(%s)" % (name, sig))
    else:
        out.append("fn %s(%s) -> i32" % (name, sig))
    out.append("{")
    for p in prelude:
        render(p, 1, out)
    for s in ss:
        render(s, 1, out)
    if with_return is not None:
        out.append("\treturn: " + (vname(with_return) if with_return >= 0 else "0"))
    out.append("}")
    return "\n".join(out) + "\n"


def size(s):
    k = s[0]
    if k == 'block':
        return 1 + sum(size(x) for x in s[1])
    if k == 'if':
        return 1 + (size(s[2]) if s[2][0] == 'block' else 0)
    if k == 'ife':
        return 1 + (size(s[2]) if s[2][0] == 'block' else 0) + (size(s[3]) if s[3][0] in ('block', 'if', 'ife') else 0)
    return 1


def enum_lists(n, depth, atoms, compound):
    """all statement lists of total size exactly n.
    atoms: list of statements of size 1.
    compound(k, depth, rec): yields statements of size exactly k >= 2 (or 1 for an empty block),
    where rec(m, d) enumerates lists of size m at depth d."""
    memo = {}

    def lists(m, d):
        key = (m, d)
        if key in memo:
            return memo[key]
        res = []
        if m == 0:
            res.append([])
        else:
            for first_size in range(1, m + 1):
                firsts = stmts(first_size, d)
                if not firsts:
                    continue
                rests = lists(m - first_size, d)
                for f in firsts:
                    for r in rests:
                        res.append([f] + r)
        memo[key] = res
        return res

    smemo = {}

    def stmts(k, d):
        key = (k, d)
        if key in smemo:
            return smemo[key]
        res = []
        if k == 1:
            res.extend(atoms)
        if d > 0:
            res.extend(compound(k, d, lists))
        smemo[key] = res
        return res

    return lists(n, depth)


def shrink(ss, fails, budget=400):
    """greedy structural shrinking of a statement list while fails(ss) stays true"""
    cur = ss
    improved = True
    while improved and budget > 0:
        improved = False
        for cand in shrink_candidates(cur):
            budget -= 1
            if budget <= 0:
                break
            if fails(cand):
                cur = cand
                improved = True
                break
    return cur


def shrink_candidates(ss):
    # drop one statement
    for i in range(len(ss)):
        yield ss[:i] + ss[i + 1:]
    # replace a compound by its contents / simplify inside
    for i, s in enumerate(ss):
        k = s[0]
        if k == 'block':
            yield ss[:i] + list(s[1]) + ss[i + 1:]
            for sub in shrink_candidates(list(s[1])):
                yield ss[:i] + [('block', sub)] + ss[i + 1:]
        elif k == 'if':
            yield ss[:i] + [s[2]] + ss[i + 1:]
            for sub in shrink_candidates([s[2]]):
                if len(sub) == 1:
                    yield ss[:i] + [('if', s[1], sub[0])] + ss[i + 1:]
        elif k == 'ife':
            yield ss[:i] + [('if', s[1], s[2])] + ss[i + 1:]
            yield ss[:i] + [s[2]] + ss[i + 1:]
            yield ss[:i] + [s[3]] + ss[i + 1:]
            for sub in shrink_candidates([s[2]]):
                if len(sub) == 1:
                    yield ss[:i] + [('ife', s[1], sub[0], s[3])] + ss[i + 1:]
            for sub in shrink_candidates([s[3]]):
                if len(sub) == 1:
                    yield ss[:i] + [('ife', s[1], s[2], sub[0])] + ss[i + 1:]
