"""C07 — no implicit conversions: ill-typed programs are rejected."""
import collections
import copy
from lib import *
import progen
import runlib

THEOREMS = ["Types.no_implicit_conversion", "Types.mismatch_is_E551", "Types.op_classes", "Types.allPrims_complete",
            "Types.cast_classes", "Types.violation_rejected", "Types.pointer_mismatch", "Types.pointer_only_equality",
            "Types.Ty.conc_concrete", "Types.Ty.conc_refl", "Types.Ty.declaredAs_concrete", "Types.Ty.equals_iff",
            "Types.Ty.coerceInto_shape", "Types.Ty.update_concrete", "Types.Ty.update_prims", "Types.Ty.update_array_lengths"]

PRIMS = ["i8", "i16", "i32", "i64", "i128", "u8", "u16", "u32", "u64", "u128", "usize", "char8", "bool"]
BIN = {"add": "+", "sub": "-", "mul": "*", "div": "/", "mod": "%", "and": "&", "or": "|", "xor": "^", "shl": "<<", "shr": ">>"}
CMP = {"eq": "==", "ne": "!=", "lt": "<", "le": "<=", "gt": ">", "ge": ">="}


def lit(t):
    if t == "bool":
        return "true"
    if t == "char8":
        return "'a'"
    return "1" + t


def main():
    rep = Reporter("C07")
    if not setup_common(rep, THEOREMS):
        return rep.finish()
    rng = SplitMix64(rep.seed).fork("C07")
    thorough = rep.tier == "thorough"
    dist = collections.Counter()
    cells = []   # (tag, model request, source)
    for op, sym in BIN.items():
        for l in PRIMS:
            for r in PRIMS:
                src = "fn main()\n{\n\tvar a: %s = %s;\n\tvar b: %s = %s;\n\tvar c = a %s b;\n}\n" % (l, lit(l), r, lit(r), sym)
                cells.append(("bin", "(bin %s %s %s)" % (op, l, r), src))
    for op, sym in CMP.items():
        for l in PRIMS:
            for r in PRIMS:
                src = "fn main()\n{\n\tvar a: %s = %s;\n\tvar b: %s = %s;\n\tvar c: i32 = 0;\n\tif a %s b\n\t{\n\t\tc = 1;\n\t}\n}\n" % (l, lit(l), r, lit(r), sym)
                cells.append(("cmp", "(bin %s %s %s)" % (op, l, r), src))
        src = "fn main()\n{\n\tvar x: i32 = 1;\n\tvar p: &i32 = &x;\n\tvar q: &i32 = &x;\n\tvar c: i32 = 0;\n\tif &p %s &q\n\t{\n\t\tc = 1;\n\t}\n}\n" % sym
        cells.append(("cmp-pointer", "(ptr %s)" % op, src))
    # pointers keep their pointee type: every pair of pointee types, one and two levels deep
    for op, sym in list(CMP.items()) + [("add", "+"), ("and", "&")]:
        for l in PRIMS:
            for r in PRIMS:
                if op in CMP:
                    use = "\tvar c: i32 = 0;\n\tif &a %s &b\n\t{\n\t\tc = 1;\n\t}\n" % sym
                    use2 = "\tvar c: i32 = 0;\n\tif &&p %s &&q\n\t{\n\t\tc = 1;\n\t}\n" % sym
                else:
                    use = "\tvar c = &a %s &b;\n" % sym
                    use2 = "\tvar c = &&p %s &&q;\n" % sym
                src = "fn main()\n{\n\tvar a: %s = %s;\n\tvar b: %s = %s;\n%s}\n" % (l, lit(l), r, lit(r), use)
                cells.append(("pointer-pair", "(bin %s (ptr %s) (ptr %s))" % (op, l, r), src))
                if op in ("eq", "lt") and (l == r or (PRIMS.index(l) + PRIMS.index(r)) % 3 == 0):
                    src = ("fn main()\n{\n\tvar a: %s = %s;\n\tvar b: %s = %s;\n\tvar p: &%s = &a;\n\tvar q: &%s = &b;\n%s}\n"
                           % (l, lit(l), r, lit(r), l, r, use2))
                    cells.append(("pointer-pair-2", "(bin %s (ptr (ptr %s)) (ptr (ptr %s)))" % (op, l, r), src))
    for l in PRIMS:
        # a pointer against its own pointee type
        src = "fn main()\n{\n\tvar a: %s = %s;\n\tvar b: %s = %s;\n\tvar c: i32 = 0;\n\tif &a == b\n\t{\n\t\tc = 1;\n\t}\n}\n" % (l, lit(l), l, lit(l))
        cells.append(("pointer-vs-value", "(bin eq (ptr %s) %s)" % (l, l), src))
    for t in PRIMS:
        cells.append(("un", "(un neg %s)" % t, "fn main()\n{\n\tvar a: %s = %s;\n\tvar c = -a;\n}\n" % (t, lit(t))))
        cells.append(("un", "(un compl %s)" % t, "fn main()\n{\n\tvar a: %s = %s;\n\tvar c = !a;\n}\n" % (t, lit(t))))
    # the same unary operators applied directly to a suffixed literal (the parser folds a minus into decimal literals of
    # signed types; whatever it folds must not slip past the operand check), in four spellings
    for t in PRIMS:
        if t in ("bool", "char8"):
            continue
        for sp in ("-1%s", "- 1%s", "-0x1%s", "-(1%s)", "-0b1%s"):
            cells.append(("un-literal", "(un neg %s)" % t, "fn main()\n{\n\tvar c = %s;\n}\n" % (sp % t)))
        cells.append(("un-literal", "(un compl %s)" % t, "fn main()\n{\n\tvar c = !1%s;\n}\n" % t))
    for s_ in PRIMS:
        for d in PRIMS:
            cells.append(("cast", "(cast %s %s)" % (s_, d), "fn main()\n{\n\tvar a: %s = %s;\n\tvar c: %s = a as %s;\n}\n" % (s_, lit(s_), d, d)))
    # agreement positions: assignment, initialisation, argument / parameter and return, for every pair of primitive types
    # (and a pointer to each): accepted exactly when the two types are identical
    agree = []
    for t1 in PRIMS:
        for t2 in PRIMS:
            v = "\tvar a: %s = %s;\n" % (t1, lit(t1))
            agree.append((t1, t2, "init", "fn main()\n{\n%s\tvar b: %s = a;\n}\n" % (v, t2)))
            agree.append((t1, t2, "assign", "fn main()\n{\n%s\tvar b: %s = %s;\n\tb = a;\n}\n" % (v, t2, lit(t2))))
            agree.append((t1, t2, "argument", "fn callee(p: %s)\n{\n}\nfn main()\n{\n%s\tcallee(a);\n}\n" % (t2, v)))
            agree.append((t1, t2, "return", "fn callee() -> %s\n{\n%s\treturn: a\n}\nfn main()\n{\n}\n" % (t2, v)))
            agree.append((t1, t2, "pointer-init", "fn main()\n{\n%s\tvar p: &%s = &a;\n}\n" % (v, t2)))
            agree.append((t1, t2, "pointer-argument", "fn callee(p: &%s)\n{\n}\nfn main()\n{\n%s\tcallee(&a);\n}\n" % (t2, v)))
            agree.append((t1, t2, "struct-literal-member", "struct S\n{\n\tm: %s,\n}\nfn main()\n{\n%s\tvar s = S { m: a };\n}\n" % (t2, v)))
            agree.append((t1, t2, "struct-literal-member-literal", "struct S\n{\n\tk: u8,\n\tm: %s,\n}\nfn main()\n{\n\tvar s = S { k: 1u8, m: %s };\n}\n" % (t2, lit(t1))))
            agree.append((t1, t2, "struct-literal-pointer-member", "struct S\n{\n\tm: &%s,\n}\nfn main()\n{\n%s\tvar s = S { m: &a };\n}\n" % (t2, v)))
            agree.append((t1, t2, "member-assignment", "struct S\n{\n\tm: %s,\n}\nfn main()\n{\n%s\tvar s = S { m: %s };\n\ts.m = a;\n}\n" % (t2, v, lit(t2))))
            # the assignee reached through pointers: a pointer variable, a pointer parameter, a pointer in an array, a pointer
            # member, a pointer to a pointer; and an element instead of a member
            SDEF = "struct S\n{\n\tm: %s,\n}\nstruct H\n{\n\tps: &S,\n}\n" % t2
            SVAR = "\tvar s = S { m: %s };\n" % lit(t2)
            agree.append((t1, t2, "member-assignment-through-pointer", SDEF + "fn main()\n{\n%s%s\tvar p: &S = &s;\n\tp.m = a;\n}\n" % (v, SVAR)))
            agree.append((t1, t2, "member-assignment-through-pointer-parameter", SDEF + "fn set(p: &S)\n{\n%s\tp.m = a;\n}\nfn main()\n{\n}\n" % v))
            agree.append((t1, t2, "member-assignment-through-pointer-in-array", SDEF + "fn main()\n{\n%s%s\tvar ps: [2]&S = [&s, &s];\n\tps[1].m = a;\n}\n" % (v, SVAR)))
            agree.append((t1, t2, "member-assignment-through-pointer-member", SDEF + "fn main()\n{\n%s%s\tvar h = H { ps: &s };\n\th.ps.m = a;\n}\n" % (v, SVAR)))
            agree.append((t1, t2, "member-assignment-through-pointer-to-pointer", SDEF + "fn main()\n{\n%s%s\tvar p: &S = &s;\n\tvar pp: &&S = &&p;\n\tpp.m = a;\n}\n" % (v, SVAR)))
            agree.append((t1, t2, "element-assignment-through-pointer", "fn main()\n{\n%s\tvar arr: [2]%s = [%s, %s];\n\tvar p: &[2]%s = &arr;\n\tp[1] = a;\n}\n" % (v, t2, lit(t2), lit(t2), t2)))
            agree.append((t1, t2, "element-assignment-through-slice-pointer-parameter", "fn set(p: &[]%s)\n{\n%s\tp[1] = a;\n}\nfn main()\n{\n}\n" % (t2, v)))
            agree.append((t1, t2, "pointee-assignment", "fn set(p: &%s)\n{\n%s\tp = a;\n}\nfn main()\n{\n}\n" % (t2, v)))
    # the length of an array is part of its type: array literals, annotations and pointers to arrays agree only at equal
    # shapes; a nested literal must not be ragged
    def arr_lit(shape, elem="i32"):
        if not shape:
            return "1" + elem
        return "[" + ", ".join(arr_lit(shape[1:], elem) for _ in range(shape[0])) + "]"

    def arr_ty(shape, elem="i32"):
        return "".join("[%d]" % k for k in shape) + elem

    SHAPES = [(2,), (3,), (1,), (2, 2), (2, 3), (3, 2), (2, 2, 2), (2, 3, 2)]
    for s1 in SHAPES:
        for s2 in SHAPES:
            for elem in ("i32", "u8"):
                t1, t2 = arr_ty(s1, elem), arr_ty(s2, elem)
                v = "\tvar a: %s = %s;\n" % (t1, arr_lit(s1, elem))
                agree.append((t1, t2, "array-literal-init", "fn main()\n{\n\tvar b: %s = %s;\n}\n" % (t2, arr_lit(s1, elem))))
                agree.append((t1, t2, "array-pointer-init", "fn main()\n{\n%s\tvar p: &%s = &a;\n}\n" % (v, t2)))
                agree.append((t1, t2, "array-struct-literal-member", "struct S\n{\n\tm: %s,\n}\nfn main()\n{\n\tvar s = S { m: %s };\n}\n" % (t2, arr_lit(s1, elem))))
                agree.append((t1, t2, "array-pointer-argument", "fn callee(p: &%s)\n{\n}\nfn main()\n{\n%s\tcallee(&a);\n}\n" % (t2, v)))
    for inner in ((3, 2), (2, 3), (1, 2), (2, 2, 3), (3, 3, 2)):
        rows = ", ".join(arr_lit((k,)) for k in inner)
        ragged = "ragged:" + "/".join(map(str, inner))
        agree.append((ragged, "inferred", "ragged-literal", "fn main()\n{\n\tvar g = [%s];\n}\n" % rows))
        agree.append((ragged, "[%d][%d]i32" % (len(inner), inner[0]), "ragged-literal-annotated",
                      "fn main()\n{\n\tvar g: [%d][%d]i32 = [%s];\n}\n" % (len(inner), inner[0], rows)))
        strs = ", ".join('"' + "abcdefg"[:k] + '"' for k in inner)
        agree.append((ragged, "inferred", "ragged-string-literal", "fn main()\n{\n\tvar g = [%s];\n}\n" % strs))
        agree.append((ragged, "[%d][%d]char8" % (len(inner), inner[0]), "ragged-string-literal-annotated",
                      "fn main()\n{\n\tvar g: [%d][%d]char8 = [%s];\n}\n" % (len(inner), inner[0], strs)))
    # the documented coercions (array to view, address of an array to slice pointer) keep the element type
    for t1 in PRIMS:
        for t2 in PRIMS:
            v = "\tvar a: [2]%s = [%s, %s];\n" % (t1, lit(t1), lit(t1))
            agree.append((t1, t2, "array-for-view-parameter", "fn callee(p: []%s)\n{\n}\nfn main()\n{\n%s\tcallee(a);\n}\n" % (t2, v)))
            agree.append((t1, t2, "array-address-for-slice-pointer", "fn callee(p: &[]%s)\n{\n}\nfn main()\n{\n%s\tcallee(&a);\n}\n" % (t2, v)))
    gh = run_harness(["alpha\tcheck\tm.pn\t" + esc(src) for _, _, _, src in agree])
    agree_bad = []
    for (t1, t2, pos, src), ha in zip(agree, gh):
        hh, hd = kv(ha)
        codes = codes_of(hd) if hh == "err" else []
        same = t1 == t2
        ok = (hh == "ok") if same else (hh == "err" and any((500 <= c < 600) or c in (330, 331, 332, 333, 334, 335, 352, 354) for c in codes))
        if pos.startswith("array") or pos.startswith("ragged"):
            # rejected is rejected: an array literal with elements of different types fails with an empty error list,
            # which is C02's known finding, not an accepted ill-typed program
            ok = (hh == "ok") if same else (hh == "err")
        dist["agree:%s:%s" % (pos, "same" if same else "different")] += 1
        if not ok:
            agree_bad.append((t1, t2, pos, src, ha))
    # calls: every number of arguments against every number of parameters, in expression and statement position, with
    # typed variables and with suffixed literals: accepted exactly when the counts agree (E510 too few, E511 too many)
    arity = []
    for nparams in range(0, 4):
        for nargs in range(0, 5):
            for stmt in (False, True):
                for argkind in ("var", "lit"):
                    params = ", ".join("p%d: i32" % k for k in range(nparams))
                    args = ", ".join(("a" if argkind == "var" else "%di32" % (k + 1)) for k in range(nargs))
                    if stmt:
                        f = "fn callee(%s)\n{\n}\n" % params
                        use = "\tcallee(%s);\n" % args
                    else:
                        f = "fn callee(%s) -> i32\n{\n\treturn: 7\n}\n" % params
                        use = "\tvar r: i32 = callee(%s);\n" % args
                    arity.append((nparams, nargs, f + "fn main()\n{\n\tvar a: i32 = 1;\n" + use + "}\n"))
    ah = run_harness(["alpha\tcheck\tm.pn\t" + esc(src) for _, _, src in arity])
    arity_bad = []
    for (nparams, nargs, src), ha in zip(arity, ah):
        hh, hd = kv(ha)
        codes = codes_of(hd) if hh == "err" else []
        want = 0 if nargs == nparams else (510 if nargs < nparams else 511)
        ok = (hh == "ok") if want == 0 else (want in codes)
        dist["arity:%s" % ("ok" if want == 0 else "E%d" % want)] += 1
        if not ok:
            arity_bad.append((nparams, nargs, src, ha, want))
    m = run_model(["optype\t" + rq for _, rq, _ in cells])
    h = run_harness(["alpha\tcheck\tm.pn\t" + esc(src) for _, _, src in cells])
    agreeing = total = 0
    for (tag, rq, src), ma, ha in zip(cells, m, h):
        total += 1
        hh, hd = kv(ha)
        codes = codes_of(hd) if hh == "err" else []
        exp = int(ma) if ma.isdigit() else -1
        ok = (hh == "ok") if exp == 0 else (exp in codes)
        dist["%s:%s" % (tag, "E%d" % exp if exp else "ok")] += 1
        if ok:
            agreeing += 1
        else:
            rep.violation("cell:" + rq, {"why": "model expects %s, compiler says %s %s" % ("E%d" % exp if exp else "acceptance", hh, codes),
                                         "source": src, "harness_request": "alpha\tcheck\tm.pn\t" + esc(src),
                                         "model_request": "optype\t" + rq, "implementation": ha[:300]})
    for (t1, t2, pos, src, ha) in agree_bad:
        rep.violation("agree:%s:%s:%s" % (pos, t1, t2), {
            "why": "%s of a %s to a %s: expected %s, compiler says %s" % (pos, t1, t2, "acceptance" if t1 == t2 else "a typing error (E5xx / E33x)", ha[:200]),
            "source": src, "harness_request": "alpha\tcheck\tm.pn\t" + esc(src), "implementation": ha[:300]})
    total += len(agree)
    agreeing += len(agree) - len(agree_bad)
    for (nparams, nargs, src, ha, want) in arity_bad:
        rep.violation("arity:%d:%d:%s" % (nparams, nargs, src[:200]), {
            "why": "a call with %d argument(s) to a function with %d parameter(s): expected %s, compiler says %s" % (
                nargs, nparams, "acceptance" if want == 0 else "E%d" % want, ha[:200]),
            "source": src, "harness_request": "alpha\tcheck\tm.pn\t" + esc(src), "implementation": ha[:300]})
    total += len(arity)
    agreeing += len(arity) - len(arity_bad)
    # type-breaking single edits of well-typed generated programs: must be rejected (with a typing code)
    TYPING = set(range(500, 600)) | {333, 334, 330, 331, 332, 335, 352, 354}
    nmut = 3000 if thorough else 150
    jobs = []
    for i in range(nmut):
        r = rng.fork("m%d" % i)
        p = progen.Gen(r).program(size=4 + r.below(6))
        q, kind = break_types(p, r)
        if q is None:
            continue
        jobs.append((kind, p, q))
    base = runlib.impl_run([progen.src_prog(p, progen.Layout(rng, plain=True)) for _, p, _ in jobs], mode="check")
    mut_src = [progen.src_prog(q, progen.Layout(rng, plain=True)) for _, _, q in jobs]
    mut = runlib.impl_run(mut_src, mode="check")
    for (kind, p, q), ba, ma_, src in zip(jobs, base, mut, mut_src):
        total += 1
        if not ba.startswith("ok"):
            rep.violation("welltyped-rejected:" + progen.sx_prog(p)[:300], {"why": "a well-typed generated program is rejected", "implementation": ba[:300],
                                                                            "source": progen.src_prog(p, progen.Layout(rng, plain=True))})
            continue
        hh, hd = kv(ma_)
        codes = codes_of(hd) if hh == "err" else []
        dist["mutant:%s:%s" % (kind, hh)] += 1
        if hh == "err" and any(c in TYPING for c in codes):
            agreeing += 1
        else:
            rep.violation("mutant:%s:%s" % (kind, src[:300]), {
                "why": "type-breaking edit (%s) is not rejected with a typing diagnostic: %s %s" % (kind, hh, codes),
                "source": src, "harness_request": "alpha\tcheck\tm.pn\t" + esc(src), "implementation": ma_[:300]})
    # the type-agreement relations of value_type.rs (what the typer's unification is made of) against the Lean model
    # (Types/Agree.lean), on pairs of types: all pairs to nesting depth 1, every depth-2 type against itself and its
    # one-position variants, random deeper pairs
    LEAVES = ["i32", "u8", "char8", "bool", "void", "usize", "(struct 1)", "(struct 2)", "(word 1 8)", "(word 1 4)", "(word 2 8)",
              "unresolved", "(unresolved 1)", "(unresolved 2)"]
    CONS = ["(array 2 %s)", "(array 3 %s)", "(named 1 %s)", "(named 2 %s)", "(slice %s)", "(sliceptr %s)", "(endless %s)",
            "(arraylike %s)", "(pointer %s)", "(view %s)"]
    d1 = [c % l for c in CONS for l in LEAVES]
    d01 = LEAVES + d1
    pairs = [(a, b) for a in d01 for b in d01]
    d2 = [(c, t) for c in CONS for t in d1]
    for (c, t) in d2:
        a = c % t
        pairs.append((a, a))
        for c2 in CONS:
            pairs.append((a, c2 % t))
        for t2 in rng.sample(d1, 6) if hasattr(rng, "sample") else [rng.pick(d1) for _ in range(6)]:
            pairs.append((a, c % t2))
            pairs.append((c % t2, a))

    def rand_ty(r, depth):
        if depth == 0 or r.chance(1, 4):
            return r.pick(LEAVES)
        return r.pick(CONS) % rand_ty(r, depth - 1)

    def vary(r, t):
        # change one atom or one constructor of the S-expression
        toks = t.replace("(", " ( ").replace(")", " ) ").split()
        idx = [i for i, x in enumerate(toks) if x not in "()" and not x.isdigit()]
        i = r.pick(idx)
        heads = ["array 2", "array 3", "named 1", "named 2", "slice", "sliceptr", "endless", "arraylike", "pointer", "view"]
        if toks[i] in ("array", "named"):
            toks[i:i + 2] = r.pick(heads).split()
        elif toks[i] in ("slice", "sliceptr", "endless", "arraylike", "pointer", "view"):
            toks[i:i + 1] = r.pick(heads).split()
        elif toks[i] in ("struct", "word", "unresolved") and i > 0 and toks[i - 1] == "(":
            return t
        else:
            toks[i] = r.pick(["i32", "u8", "char8", "bool", "usize"])
        return " ".join(toks).replace("( ", "(").replace(" )", ")")
    for i in range(60000 if thorough else 8000):
        r = rng.fork("ty%d" % i)
        a = rand_ty(r, 2 + r.below(3))
        b = a if r.chance(1, 6) else (vary(r, a) if r.chance(2, 3) else rand_ty(r, 2 + r.below(3)))
        pairs.append((a, b))
    # chains of pointers and views over a type, against what autoderef may read them as
    for i in range(30000 if thorough else 6000):
        r = rng.fork("chain%d" % i)
        base = r.pick(d01)
        a = base
        for _ in range(1 + r.below(3)):
            a = r.pick(["(pointer %s)", "(pointer %s)", "(view %s)"]) % a
        b = base
        k = r.below(6)
        if k == 0:
            for _ in range(r.below(3)):
                b = r.pick(["(pointer %s)", "(view %s)"]) % b
        elif k == 1:
            b = r.pick(["(slice %s)", "(sliceptr %s)", "(pointer (endless %s))", "(view (endless %s))"]) % r.pick(LEAVES)
        elif k == 2:
            b = vary(r, a)
        elif k == 3:
            b = r.pick(["(pointer %s)", "(view %s)"]) % vary(r, base)
        pairs.append((a, b))
    # access paths: a random well-formed type, a random valid path of [index] / .member steps on it, and the type the typer
    # demands of the variable for that path (Types/Paths.lean: `elaborate`, `demanded`; re-implemented here to build the
    # pair).  `access_path_accepted` says the variable's type is a concretization of it; the real relation must say so too.
    demanded_pairs = set()

    def rand_inner(r, depth):
        if depth == 0 or r.chance(1, 3):
            return r.pick(["i32", "u8", "(struct 1)", "(struct 2)", "(word 1 8)", "bool"])
        return r.pick(["(array 2 %s)", "(array 3 %s)", "(named 1 %s)", "(endless %s)", "(pointer %s)"]) % rand_inner(r, depth - 1)

    def parse_ty(t):
        toks = t.replace("(", " ( ").replace(")", " ) ").split()

        def go(i):
            if toks[i] != "(":
                return toks[i], i + 1
            head = toks[i + 1]
            j = i + 2
            args = []
            while toks[j] != ")":
                a, j = go(j)
                args.append(a)
            return (head, args), j + 1
        return go(0)[0]

    def show_ty(x):
        return x if isinstance(x, str) else "(%s %s)" % (x[0], " ".join(show_ty(a) for a in x[1]))

    def demanded_for(r, t):
        """walk a random valid path from type t (parsed); returns the demanded type (parsed) or None"""
        def peel(x):
            pre = []
            while not isinstance(x, str) and x[0] in ("pointer", "view"):
                pre.append(x[0])
                x = x[1][-1]
            return pre, x

        def wrap(pre, inner):
            for c in reversed(pre):
                inner = (c, [inner])
            return inner
        pre, x = peel(t)
        if isinstance(x, str) or r.chance(1, 6):
            return wrap([], "i32") if False else None
        if x[0] in ("array", "named", "endless", "slice", "sliceptr"):
            sub = demanded_for(r, x[1][-1])
            inner = ("arraylike", [sub if sub is not None else x[1][-1]])
            return wrap(pre, inner)
        if x[0] in ("struct", "word"):
            return wrap(pre, "unresolved")
        return None
    for i in range(20000 if thorough else 4000):
        r = rng.fork("path%d" % i)
        t = rand_inner(r, 1 + r.below(3))
        t = r.pick(["%s", "%s", "(slice %s)", "(sliceptr %s)", "(view %s)"]) % t
        d = demanded_for(r, parse_ty(t))
        if d is not None:
            demanded_pairs.add(len(pairs))
            pairs.append((t, show_ty(d)))
            dist["access-path-demanded"] += 1
    am = run_model(["agree\t(agree %s %s)" % ab for ab in pairs])
    ah2 = run_harness(["agree\t%s\t%s" % ab for ab in pairs])
    for k, ((a, b), ma, ha) in enumerate(zip(pairs, am, ah2)):
        total += 1
        if k in demanded_pairs and "conc=1" not in ha:
            rep.violation("access-path:%s:%s" % (a, b), {
                "why": "a valid access path on a variable of type %s makes the typer demand %s of it, and the type is NOT a "
                       "concretization of that (theorem Types.Ty.access_path_accepted says it is): the access would be rejected" % (a, b),
                "types": [a, b], "implementation": ha, "model": ma})
        dist["agree-relations:" + ("same" if a == b else "different") + ":" + ma.replace("declared=", "d").replace(" conc=", "c").replace(" coerce=", "o").replace(" coerceaddr=", "a").replace(" autoderef=", "r")] += 1
        if ma == ha and not ma.startswith("bad"):
            agreeing += 1
        else:
            rep.violation("agree-relations:%s:%s" % (a, b), {
                "why": "can_be_declared_as / can_be_concretization_of / can_coerce_into / can_coerce_address_into / can_autoderef_into on this pair of "
                       "types differ between value_type.rs and the Lean model",
                "types": [a, b], "model": ma, "implementation": ha, "model_request": "agree\t(agree %s %s)" % (a, b),
                "harness_request": "agree\t%s\t%s" % (a, b)})
    # the unification step itself (typer::do_update_symbol through the guarded hook verif_update_symbol) against Ty.update:
    # all depth <= 1 pairs under the four combinations of "written by the programmer", the other pairs under a random one
    nd01 = len(d01) * len(d01)
    ureqs = []
    for k, (a, b) in enumerate(pairs):
        combos = [("0", "0"), ("0", "1"), ("1", "0"), ("1", "1")] if k < nd01 else [rng.pick([("0", "0"), ("0", "1"), ("1", "0"), ("1", "1")])]
        for (sa, na) in combos:
            ureqs.append((a, b, sa, na))
    um = run_model(["update\t(update %s %s %s %s)" % q for q in ureqs])
    uh = run_harness(["update\t%s\t%s\t%s\t%s" % q for q in ureqs])
    for q, ma, ha in zip(ureqs, um, uh):
        if ha == "illformed":
            dist["update:illformed-skipped"] += 1
            continue
        total += 1
        dist["update:" + ma] += 1
        if ma == ha and ma in ("none", "old", "new"):
            agreeing += 1
        else:
            rep.violation("update:%s:%s:%s%s" % q, {
                "why": "typer::do_update_symbol (known type, new type, symbol authoritative, new authoritative) = %s, the Lean model Ty.update says %s" % (ha, ma),
                "request": list(q), "model_request": "update\t(update %s %s %s %s)" % q, "harness_request": "update\t%s\t%s\t%s\t%s" % q})
    report_broken_proof(rep)
    rep.coverage.update({
        "evaluations": total, "distinct_nontrivial": total,
        "rule": "exhaustive operator x type matrices: 10 binary operators x 13 x 13 primitive operand types, 6 comparisons x "
                "13 x 13, 6 comparisons and 2 binary operators on pointers to every pair of pointee types (one and two levels), a "
                "pointer against its pointee type, 2 unary operators x 13, calls with 0..4 arguments against 0..3 parameters, initialisation / assignment / argument / return / pointer agreement for all 13 x 13 type pairs, all 13 x 13 casts (each cell a small program; verdict and code "
                "vs the Lean tables); plus well-typed generated programs with one type-breaking edit (declared type changed, "
                "literal of another type, bool/int confusion, wrong argument type, missing/extra argument, wrong return type, "
                "unsigned negation, signed bitwise): the original must be accepted, the mutant rejected with a typing code; "
                "the four public type-agreement relations of value_type.rs against the Lean model on all pairs of types to depth 1 "
                "(157 x 157 over 14 leaves incl. structures, words, unresolved placeholders and 10 constructors), every depth-2 "
                "type against its one-constructor variants, and random pairs to depth 4; the unification step typer::do_update_symbol "
                "(hook verif_update_symbol) against Ty.update on the same pairs under the four authoritative-flag combinations",
        "exhaustive": True,
        "traces_validated_against_impl": agreeing, "distribution": dict(dist),
        "samples": [cells[0][2], cells[-1][2]],
    })
    return rep.finish()


def other_type(r, t):
    cands = [x for x in progen.INTS + ["bool"] if x != t]
    return r.pick(cands)


def break_types(p, r):
    """one type-breaking edit of a well-typed program; returns (program, kind) or (None, None)"""
    q = copy.deepcopy(p)
    main = q['fns'][-1]
    k = r.below(8)
    decls = [i for i, s in enumerate(main['body']) if s[0] == 'decl']
    if k == 0 and decls:
        i = r.pick(decls)
        s = main['body'][i]
        main['body'][i] = ('decl', s[1], other_type(r, s[2]), s[3])
        return q, "declared-type-changed"
    if k == 1 and decls:
        i = r.pick(decls)
        s = main['body'][i]
        t2 = other_type(r, s[2])
        main['body'][i] = ('decl', s[1], s[2], ('lit', t2, 1) if t2 != 'bool' else ('blit', True))
        return q, "initialiser-of-another-type"
    if k == 2 and decls:
        i = r.pick(decls)
        s = main['body'][i]
        if s[2] == 'bool':
            return None, None
        t2 = other_type(r, s[2])
        if t2 == 'bool':
            t2 = 'u8' if s[2] != 'u8' else 'i8'
        main['body'][i] = ('decl', s[1], s[2], ('bin', s[2], 'add', s[3], ('lit', t2, 1)))
        return q, "operand-of-another-type"
    if k == 3:
        helpers = [f for f in q['fns'][:-1] if f['params'] and f['ret'] is not None and all(pp[1] == 'val' for pp in f['params'])]
        if helpers:
            f = r.pick(helpers)
            args = []
            for (pn, kind, t) in f['params']:
                args.append(('val', ('lit', t, 1) if t != 'bool' else ('blit', True)))
            j = r.below(len(args))
            t = f['params'][j][2]
            t2 = other_type(r, t)
            args[j] = ('val', ('lit', t2, 1) if t2 != 'bool' else ('blit', False))
            main['body'].insert(1, ('decl', 'zz1', f['ret'], ('call', f['name'], args)))
            return q, "argument-of-another-type"
    if k == 4:
        helpers = [f for f in q['fns'][:-1] if f['ret'] is not None and all(pp[1] == 'val' for pp in f['params'])]
        if helpers:
            f = r.pick(helpers)
            args = [('val', ('lit', t, 1) if t != 'bool' else ('blit', True)) for (pn, kind, t) in f['params']]
            if r.chance(1, 2) and args:
                args = args[:-1]
                kind = "too-few-arguments"
            else:
                args = args + [('val', ('lit', 'i32', 1))]
                kind = "too-many-arguments"
            main['body'].insert(1, ('decl', 'zz1', f['ret'], ('call', f['name'], args)))
            return q, kind
    if k == 5:
        main['retexpr'] = ('lit', 'u8', 1) if r.chance(1, 2) else ('blit', True)
        return q, "return-of-another-type"
    if k == 6:
        t = r.pick(["u8", "u16", "u32", "u64", "u128", "usize"])
        main['body'].insert(1, ('decl', 'zz2', t, ('neg', t, ('lit', t, 1))))
        return q, "unsigned-negation"
    if k == 7:
        t = r.pick(["i8", "i16", "i32", "i64", "i128", "usize"])
        main['body'].insert(1, ('decl', 'zz3', t, ('bin', t, r.pick(['and', 'or', 'xor', 'shl']), ('lit', t, 1), ('lit', t, 1))))
        return q, "signed-or-usize-bitwise"
    return None, None


if __name__ == "__main__":
    sys.exit(main())
