"""C10 — compile-time evaluation agrees with run time."""
import collections
from lib import *
import progen
import runlib

THEOREMS = ["Layout.sizeof_array", "Layout.align_dvd_size", "Layout.struct_size_bounds", "Layout.word_layout_agree",
            "Layout.word_fits"]

PRIMS = {"i8": 1, "i16": 2, "i32": 4, "i64": 8, "i128": 16, "u8": 1, "u16": 2, "u32": 4, "u64": 8, "u128": 16,
         "usize": 8, "char8": 1}
WORDMEMBERS = ["i8", "i16", "i32", "i64", "i128", "u8", "u16", "u32", "u64", "u128", "char8", "bool"]


def const_vs_var_program(rng):
    g = progen.Gen(rng, features={"casts", "consts"})
    consts, scope, body = [], [], []
    for _ in range(3 + rng.below(5)):
        t = rng.pick(progen.INTS)
        name = g.fresh("C_")
        e = g.expr(t, scope, 3)
        consts.append((name, t, e))
        v = g.fresh("v")
        body.append(('decl', v, t, e))
        body.append(('print', ('var', name), 0))
        body.append(('print', ('var', v), 0))
        scope.append(dict(name=name, t=t, kind='const'))
    main = dict(name='main', params=[], ret=None, body=body, retexpr=None)
    return dict(consts=consts, fns=[main], structs=[])


def lengths_program(rng, t, n):
    g = progen.Gen(rng)
    lit = lambda: g.lit(t, small=True)
    fns = [
        dict(name='lv', params=[('x', 'view', t)], ret='usize', body=[], retexpr=('len', 'x')),
        dict(name='lsp', params=[('x', 'sliceptr', t)], ret='usize', body=[], retexpr=('len', 'x')),
        dict(name='lv2', params=[('x', 'view', t)], ret='usize', body=[('decl', 'r', 'usize', ('call', 'lv', [('view', 'x')]))],
             retexpr=('var', 'r')),
        dict(name='lsp2', params=[('x', 'sliceptr', t)], ret='usize',
             body=[('decl', 'r', 'usize', ('call', 'lsp', [('addr', 'x')]))], retexpr=('var', 'r')),
        dict(name='lp', params=[('x', 'arrptr', ('arr', n, t))], ret='usize', body=[], retexpr=('len', 'x')),
    ]
    body = [('declarr', 'a', t, n, [lit() for _ in range(n)]),
            ('declarr', 'b', t, 'C_N', [lit() for _ in range(n)])]
    for e in [('len', 'a'), ('call', 'lv', [('view', 'a')]), ('call', 'lsp', [('addr', 'a')]), ('call', 'lv2', [('view', 'a')]),
              ('call', 'lsp2', [('addr', 'a')]), ('call', 'lp', [('addr', 'a')]),
              ('len', 'b'), ('call', 'lv', [('view', 'b')]), ('call', 'lsp', [('addr', 'b')])]:
        x = g.fresh("r")
        body.append(('decl', x, 'usize', e))
        body.append(('print', ('var', x), 0))
    main = dict(name='main', params=[], ret=None, body=body, retexpr=None)
    return dict(consts=[('C_N', 'usize', ('lit', 'usize', n))], fns=fns + [main], structs=[])


def sizes_program(rng):
    """returns (source, [(label, ltype-sexp | ("same", index of an earlier query))]).  Structures refer to each other by value,
    in literal-length and NAMED-length arrays; constants hold `|:S|` and serve as array lengths in turn; the top-level
    declarations come in a shuffled order (the compiler has to order them by dependency itself)."""
    structs = []     # (name, kind, [(fname, src type, ltype sexp)], ltype sexp)
    queries = []
    consts = []      # source lines of constants

    def member(depth):
        c = rng.below(100)
        if c < 50 or depth <= 0:
            t = rng.pick(list(PRIMS) + ["bool"])
            # (usize and pointers have another size on the wasm target: placeholders, resolved by the caller)
            return t, ("bool" if t == "bool" else "(int usz)" if t == "usize" else "(int %d)" % PRIMS[t])
        if c < 58:
            t = rng.pick(list(PRIMS))
            return "&" + t, "ptr"
        if c < 72:
            k = rng.below(5)
            st, lt = member(depth - 1)
            return "[%d]%s" % (k, st), "(arr %d %s)" % (k, lt)
        if c < 86:
            # an array whose length is a named constant
            k = rng.below(5)
            if structs and rng.chance(3, 5):
                s_ = structs[-1] if rng.chance(1, 2) else rng.pick(structs)
                st, lt = s_[0], s_[3]
            else:
                st, lt = member(depth - 1)
            cname = "LEN%d" % len(consts)
            consts.append("const %s: usize = %d;" % (cname, k))
            return "[%s]%s" % (cname, st), "(arr %d %s)" % (k, lt)
        if structs:
            s = rng.pick(structs)
            return s[0], s[3]
        return "u8", "(int 1)"
    for i in range(2 + rng.below(6)):
        name = "S%d" % i
        if rng.chance(1, 4):
            ms = [rng.pick(WORDMEMBERS) for _ in range(rng.below(5))]
            sizes = [1 if m == "bool" else PRIMS[m] for m in ms]
            need = int(run_model(["wordsize\t(%s)" % " ".join(map(str, sizes))])[0])
            kinds = [k for k in (1, 2, 4, 8, 16) if k >= need]
            if kinds and need > 0:
                kind = "word%d" % (8 * rng.pick(kinds[:2]))
                members = [("m%d" % j, m, "bool" if m == "bool" else "(int %d)" % PRIMS[m]) for j, m in enumerate(ms)]
                structs.append((name, kind, members, "(struct%s)" % "".join(" " + m[2] for m in members)))
                continue
        members = []
        for j in range(rng.below(6)):
            st, lt = member(2)
            members.append(("m%d" % j, st, lt))
        if structs and rng.chance(1, 2):
            # chains: this structure holds the previous one by value
            members.insert(rng.below(len(members) + 1), ("prev", structs[-1][0], structs[-1][3]))
        structs.append((name, "struct", members, "(struct%s)" % "".join(" " + m[2] for m in members)))
    blocks = []
    for name, kind, members, lt in structs:
        b = ["%s %s" % (kind, name), "{"]
        for fn, st, _ in members:
            b.append("\t%s: %s," % (fn, st))
        b.append("}")
        blocks.append("\n".join(b))
    body = []
    for name, kind, members, lt in structs:
        body.append('\tprint!(|:%s|, "\\n");' % name)
        queries.append(("|:%s|" % name, lt))
        at = len(queries) - 1
        k = rng.below(5)
        body.append('\tprint!(|:[%d]%s|, "\\n");' % (k, name))
        queries.append(("|:[%d]%s|" % (k, name), "(arr %d %s)" % (k, lt)))
        if rng.chance(1, 2):
            # the same size as a constant, and as the length of a byte array inside another structure
            consts.append("const SIZE_%s: usize = |:%s|;" % (name, name))
            blocks.append("struct Raw_%s\n{\n\tbytes: [SIZE_%s]u8,\n}" % (name, name))
            body.append('\tprint!(SIZE_%s, "\\n");' % name)
            queries.append(("SIZE_%s" % name, ("same", at)))
            body.append('\tvar raw_%s: Raw_%s;' % (name, name))
            body.append('\tprint!(|raw_%s.bytes|, "\\n");' % name)
            queries.append(("|raw_%s.bytes|" % name, ("same", at)))
            body.append('\tprint!(|:Raw_%s|, "\\n");' % name)
            queries.append(("|:Raw_%s|" % name, ("same", at)))
    for t in list(PRIMS) + ["bool"]:
        k = rng.below(9)
        body.append('\tprint!(|:[%d]%s|, "\\n");' % (k, t))
        queries.append(("|:[%d]%s|" % (k, t), "(arr %d %s)" % (k, "bool" if t == "bool" else "(int usz)" if t == "usize" else "(int %d)" % PRIMS[t])))
    decls = blocks + consts
    for a in range(len(decls) - 1, 0, -1):
        b = rng.below(a + 1)
        decls[a], decls[b] = decls[b], decls[a]
    main_at = rng.below(len(decls) + 1)
    decls.insert(main_at, "fn main()\n{\n" + "\n".join(body) + "\n}")
    return "\n".join(decls) + "\n", queries


def main():
    rep = Reporter("C10")
    if not setup_common(rep, THEOREMS):
        return rep.finish()
    rng = SplitMix64(rep.seed).fork("C10")
    thorough = rep.tier == "thorough"
    dist = collections.Counter()
    agreeing = 0
    total = 0
    samples = []
    # (a) const vs var, (b) lengths: through the interpreter
    progs = []
    for i in range(3000 if thorough else 60):
        progs.append(("constvar", const_vs_var_program(rng.fork("a%d" % i))))
    for t in (progen.INTS if thorough else ["i32", "u8", "i128", "usize"]):
        for n in range(0, 9):
            progs.append(("len:%s:%d" % (t, n), lengths_program(rng.fork("b%s%d" % (t, n)), t, n)))
    m = runlib.model_run([p for _, p in progs])
    srcs = [progen.src_prog(p, progen.Layout(rng.fork("l%d" % i), plain=(i % 2 == 0))) for i, (_, p) in enumerate(progs)]
    h = runlib.impl_run(srcs)
    for (tag, p), ma, ha, src in zip(progs, m, h, srcs):
        mo = runlib.model_obs(ma)
        dist[tag.split(":")[0] + ":model-" + mo[0]] += 1
        if mo[0] != "ok":
            continue
        total += 1
        io = runlib.impl_obs(ha)
        ok = io[0] == "ok" and io[2] == mo[2]
        why = "output differs from the evaluator"
        if ok and tag == "constvar":
            lines = io[2].split("|")
            for k in range(0, len(lines) - 1, 2):
                if lines[k] != lines[k + 1]:
                    ok = False
                    why = "a constant and a variable initialised with the same expression print different values"
        if ok and tag.startswith("len"):
            n = tag.split(":")[2]
            if any(x != n for x in io[2].split("|")):
                ok = False
                why = "|x| differs from the declared length"
        if ok:
            agreeing += 1
        else:
            rep.violation(tag + ":" + progen.sx_prog(p)[:300], {
                "why": why, "source": src, "harness_request": "alpha\trun\tmain.pn\t" + esc(src),
                "model_request": "run\t" + progen.sx_prog(p), "implementation": ha[:1500], "model": ma[:1500]})
    samples.append(srcs[0][:600])
    # (c) sizes
    for i in range(3000 if thorough else 200):
        src, queries0 = sizes_program(rng.fork("c%d" % i))
        queries = [(q, lt.replace("usz", "8") if isinstance(lt, str) else lt) for q, lt in queries0]
        # the wasm target: the same sizes as constants, read back from the module's IR (pointers and usize take 4 bytes)
        if i % 4 == 0:
            wq = [(qi, q, lt.replace("usz", "4").replace("ptr", "ptr32")) for qi, (q, lt) in enumerate(queries0) if isinstance(lt, str) and q.startswith("|:")]
            wsrc = src + "".join("const WZ%d: usize = %s;\n" % (qi, q) for qi, q, _ in wq)
            wa = run_harness_serial(["alpha\twasm+mods\tmain.pn\t" + esc(wsrc)])[0]
            wh, wd = kv(wa)
            total += 1
            wexp = run_model(["sizeof\t" + lt for _, _, lt in wq]) if wq else []
            wir = bytes.fromhex(wd["mods"].split(";")[0][2:]).decode("utf-8", "replace") if wd.get("mods", "").startswith("h:") else ""
            wgot = [(re.search(r"^@WZ%d = .*constant i32 (\d+)" % qi, wir, re.M) or [None, None])[1] for qi, _, _ in wq]
            if wh == "ok" and wgot == wexp:
                agreeing += 1
                dist["sizes-wasm32:agree"] += 1
            else:
                rep.violation("sizes-wasm:" + src[:300], {
                    "why": "|:T| for the wasm32 target differs from the layout model (pointers and usize are 4 bytes there)", "source": wsrc,
                    "harness_request": "alpha\twasm+mods\tmain.pn\t" + esc(wsrc),
                    "differences(query, model, implementation)": [(q, e, g) for (_, q, _), e, g in zip(wq, wexp, wgot) if e != g][:10],
                    "implementation": wa[:300]})
        direct = [(qi, lt) for qi, (_, lt) in enumerate(queries) if isinstance(lt, str)]
        ans = dict(zip([qi for qi, _ in direct], run_model(["sizeof\t" + lt for _, lt in direct])))
        exp = [ans[qi] if isinstance(lt, str) else ans[lt[1]] for qi, (_, lt) in enumerate(queries)]
        ha = runlib.impl_run([src])[0]
        io = runlib.impl_obs(ha)
        total += 1
        if io[0] == "ok" and io[2].split("|") == exp:
            agreeing += 1
            dist["sizes:agree"] += 1
        else:
            got = io[2].split("|") if io[2] else []
            diffs = [(q[0], q[1], e, g) for q, e, g in zip(queries, exp, got) if e != g]
            rep.violation("sizes:" + src[:300], {
                "why": "|:T| differs from the layout model", "source": src, "harness_request": "alpha\trun\tmain.pn\t" + esc(src),
                "differences(query, type, model, implementation)": diffs[:10], "implementation": ha[:800]})
        if i == 0:
            samples.append(src[:600])
    # (d) `|x|` of arrays that are members of structures, elements of arrays, rows of nested arrays - reached by name, through
    #     pointers, views, slice pointers and arrays of pointers (agggen.access_program: every program adds the lengths of its
    #     inner arrays, however it reaches them, into one printed number that a Python oracle predicts)
    import agggen
    accs = [agggen.access_program(rng.fork("len%d" % i)) for i in range(1500 if thorough else 100)]
    xh = runlib.impl_run([a[0] for a in accs])
    for (src, want, tags), ans in zip(accs, xh):
        v = runlib.impl_obs(ans)
        total += 1
        dist["member-lengths:" + tags[0]] += 1
        if v[0] == "ok" and v[2] == want:
            agreeing += 1
        else:
            rep.violation("member-lengths:%x" % hash_str(src), {
                "why": "lengths and elements of inner arrays reached along access paths: expected the program to print %s, got %s" % (want, ans[:200]),
                "source": src, "harness_request": "alpha\trun\tmain.pn\t" + esc(src), "oracle": "checks/agggen.py access_program"})
    # sizes are per module: two modules with their own private structure of the same name (other members, another size), as
    # constants, in functions and through their members; both file orders.  Layout: {u64, u64, [3]u8} = 24, {u16} = 2.
    libsrc = ("struct Header\n{\n\ta: u64,\n\tb: u64,\n\tc: [3]u8,\n}\nconst LIB_SIZE: usize = |:Header|;\npub fn lib_size() -> usize\n{\n"
              "\tvar h = Header { a: 1, b: 2, c: [3, 4, 5] };\n\treturn: LIB_SIZE + |:Header| + (h.c[2] as usize)\n}\n")
    mainsrc = ('import "lib.pn";\nstruct Header\n{\n\tx: u16,\n}\nconst MAIN_SIZE: usize = |:Header|;\nfn main() -> i32\n{\n'
               "\tvar h = Header { x: 7 };\n\treturn: (MAIN_SIZE + |:Header| + lib_size() + (h.x as usize)) as i32\n}\n")
    for order in ((("lib.pn", libsrc), ("main.pn", mainsrc)), (("main.pn", mainsrc), ("lib.pn", libsrc))):
        rq = "alpha\trun\t" + "\t".join(x for n_, s_ in order for x in (n_, esc(s_)))
        ha = run_harness_serial([rq])[0]
        hh_, hd_ = kv(ha)
        total += 1
        dist["sizes-per-module"] += 1
        if hh_ == "ok" and hd_.get("status") == str(2 + 2 + 24 + 24 + 5 + 7):
            agreeing += 1
        else:
            rep.violation("sizes-per-module:" + order[0][0], {
                "why": "two modules with their own private `struct Header` (24 and 2 bytes): expected exit status 64 "
                       "(2 + 2 + 24 + 24 + 5 + 7), got " + ha[:200], "files": dict(order), "harness_request": rq})
    report_broken_proof(rep)
    rep.coverage.update({
        "evaluations": total,
        "distinct_nontrivial": total,
        "rule": "(a) random constant expressions over all integer types (arithmetic, bitwise, shifts, casts, other constants) "
                "declared as `const` and as `var` in the same program, both printed; (b) arrays of every length 0..8 whose "
                "length is read by name, through a view, a slice pointer, a view/slice pointer passed on, a pointer to the "
                "array, and with a named constant as length; (c) random struct/word member lists (primitives, bool, pointers, "
                "arrays with literal and NAMED lengths, nested structures; constants holding |:S| used as array lengths in turn; top-level declarations in shuffled order) printing |:S|, |:[k]S|, the constants and |x|, compared with the Lean layout model; "
                "distinct = each program counted once",
        "traces_validated_against_impl": agreeing,
        "distribution": dict(dist),
        "samples": samples,
    })
    return rep.finish()


if __name__ == "__main__":
    sys.exit(main())
