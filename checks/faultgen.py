"""Inputs that are mostly *not* valid programs: mutated corpus files, generated programs with injected faults,
token soup, short token sequences.  Shared by C02 (crash freedom), C03 and C13 (diagnostics)."""
import glob
import os
import itertools

import progen
from lib import REPO

TOKENS = ["fn", "var", "const", "if", "goto", "loop", "else", "cast", "as", "import", "pub", "extern", "struct",
          "word8", "word64", "i32", "u8", "usize", "bool", "void", "true", "false", "x", "y", "main", "f", "S",
          "0", "1", "255u8", "0x10", "-1", "\"s\"", "'c'", "(", ")", "{", "}", "[", "]", "<", ">", "|", "&", "^", "!",
          "+", "-", "*", "/", "%", ":", ";", ".", ",", "=", "==", "!=", ">=", "<=", "<<", ">>", "->", "|:", "..", "_",
          "return", "print!", "abort!"]

SMALL_ALPHABET = ["fn", "var", "x", "1", "(", ")", "{", "}", "[", "]", ":", ";", "=", "==", "&", "|", "-", ",", "goto",
                  "if", "else", "loop", "i32", "\"s\""]


def corpus():
    files = []
    for pat in ("tests/samples/valid/*.pn", "tests/samples/invalid/*.pn", "examples/*.pn", "core/**/*.pn", "vendor/**/*.pn"):
        files += glob.glob(os.path.join(REPO, pat), recursive=True)
    out = []
    for f in sorted(files):
        try:
            out.append((os.path.relpath(f, REPO), open(f, encoding="utf-8").read()))
        except UnicodeDecodeError:
            pass
    return out


def mutate(rng, src):
    """one textual fault"""
    if not src:
        return rng.pick(TOKENS)
    k = rng.below(14)
    lines = src.split("\n")
    if k == 0:      # delete a character
        i = rng.below(len(src))
        return src[:i] + src[i + 1:]
    if k == 1:      # insert a token
        i = rng.below(len(src) + 1)
        return src[:i] + " " + rng.pick(TOKENS) + " " + src[i:]
    if k == 2:      # delete a line
        i = rng.below(len(lines))
        return "\n".join(lines[:i] + lines[i + 1:])
    if k == 3:      # duplicate a line
        i = rng.below(len(lines))
        return "\n".join(lines[:i + 1] + lines[i:])
    if k == 4:      # swap two lines
        i, j = rng.below(len(lines)), rng.below(len(lines))
        lines[i], lines[j] = lines[j], lines[i]
        return "\n".join(lines)
    if k == 5:      # replace a character by something odd
        i = rng.below(len(src))
        return src[:i] + rng.pick(["é", "€", "\U0001F35D", "\x00", "\x7f", "\\", "\"", "'", "\t", "@", "#", "$", "`"]) + src[i + 1:]
    if k == 6:      # truncate
        return src[:rng.below(len(src))]
    if k == 7:      # CRLF line ends
        return src.replace("\n", "\r\n")
    if k == 8:      # rename an identifier occurrence
        import re
        ids = list(re.finditer(r"\b[a-z_][a-z0-9_]*\b", src))
        if ids:
            m = ids[rng.below(len(ids))]
            return src[:m.start()] + rng.pick(["x", "undefined_name", "main", "i32", "loop", m.group(0) + "x"]) + src[m.end():]
        return src
    if k == 9:      # change a number
        import re
        nums = list(re.finditer(r"\b[0-9][0-9_]*", src))
        if nums:
            m = nums[rng.below(len(nums))]
            return src[:m.start()] + rng.pick(["0", "99999999999999999999999999999999999999999", "256", "-1", "1u7", "0x", "3000000000"]) + src[m.end():]
        return src
    if k == 10:     # change a type
        import re
        tys = list(re.finditer(r"\b(i8|i16|i32|i64|i128|u8|u16|u32|u64|u128|usize|bool|char8)\b", src))
        if tys:
            m = tys[rng.below(len(tys))]
            return src[:m.start()] + rng.pick(["i8", "u128", "bool", "void", "usize", "&i32", "[]u8", "[..]u8", "(i32)", "Nope"]) + src[m.end():]
        return src
    if k == 11:     # delete a token-ish word
        import re
        ws = list(re.finditer(r"\S+", src))
        if ws:
            m = ws[rng.below(len(ws))]
            return src[:m.start()] + src[m.end():]
        return src
    if k == 12:     # unbalance
        i = rng.below(len(src) + 1)
        return src[:i] + rng.pick(["{", "}", "(", ")", "[", "]", "\"", "'", "//", "/*"]) + src[i:]
    # multi-byte text in a comment and a string
    i = rng.below(len(lines))
    lines[i] = lines[i] + " // café € \U0001F35D"
    return "\n".join(lines)


def token_soup(rng, n):
    return " ".join(rng.pick(TOKENS) for _ in range(n)) + rng.pick(["", "\n", " "])


def token_sequences(maxlen, alphabet=None):
    """all token sequences up to maxlen, each at top level and wrapped in a function body"""
    alphabet = alphabet or TOKENS
    for n in range(1, maxlen + 1):
        for seq in itertools.product(alphabet, repeat=n):
            s = " ".join(seq)
            yield s
            yield "fn main()\n{\n\t" + s + "\n}\n"


def faulted_program(rng, nfaults=None):
    p = progen.Gen(rng).program(size=3 + rng.below(6))
    src = progen.src_prog(p, progen.Layout(rng))
    for _ in range(nfaults or (1 + rng.below(3))):
        src = mutate(rng, src)
    return src


def nested(rng, depth):
    """deep nesting of blocks / parentheses / types (depth <= 256)"""
    k = rng.below(4)
    if k == 0:
        return "fn main()\n{\n" + "{" * depth + "}" * depth + "\n}\n"
    if k == 1:
        return "fn main() -> i32\n{\n\treturn: " + "(" * depth + "1" + ")" * depth + "\n}\n"
    if k == 2:
        return "fn f(x: " + "&" * depth + "i32)\n{\n}\n"
    return "fn main()\n{\n\tvar x: " + "[1]" * depth + "u8;\n}\n"


def clash_modules(rng):
    return clash_modules_with_status(rng)[0]


def clash_modules_with_status(rng):
    """two or three modules that each declare PRIVATE things under the same names (a structure or word with a different
    layout, a helper function, a constant) and export one public function each; a valid program"""
    n = 2 + rng.below(2)
    kind = rng.pick(["struct", "struct", "word", "fn", "const", "all"])
    mods = []
    total = 0
    for j in range(n):
        total += ((j + 1) if kind in ("struct", "all") else 0) + (1 if kind in ("word", "all") else 0) \
            + ((j + 1) if kind in ("fn", "all") else 0) + (10 * (j + 1) if kind in ("const", "all") else 0)
        tys = ["i32", "i64", "u8", "i16"]
        parts = []
        use = []
        if kind in ("struct", "all"):
            k = 1 + (j + rng.below(2)) % 3
            mt = [rng.pick(tys) for _ in range(k)]
            parts.append("struct Pair\n{\n" + "".join("\tm%d: %s,\n" % (i, t) for i, t in enumerate(mt)) + "}\n")
            use.append("\tvar pair = Pair { " + ", ".join("m%d: %d" % (i, i + j + 1) for i in range(k)) + " };\n"
                       "\tr = r + (pair.m0 as i32);\n")
        if kind in ("word", "all"):
            size, mt = rng.pick([(16, ["u8", "u8"]), (32, ["u16", "u8"]), (64, ["u32", "u32"]), (32, ["u8", "u8", "u8"])])
            parts.append("word%d Bits\n{\n" % size + "".join("\tw%d: %s,\n" % (i, t) for i, t in enumerate(mt)) + "}\n")
            use.append("\tvar bits = Bits { " + ", ".join("w%d: %d" % (i, i + 1) for i in range(len(mt))) + " };\n"
                       "\tr = r + (bits.w0 as i32);\n")
        if kind in ("fn", "all"):
            parts.append("fn helper(x: i32) -> i32\n{\n\treturn: x + %d\n}\n" % (j + 1))
            use.append("\tr = helper(r);\n")
        if kind in ("const", "all"):
            parts.append("const K: i32 = %d;\n" % (10 * (j + 1)))
            use.append("\tr = r + K;\n")
        body = "\tvar r: i32 = 0;\n" + "".join(use)
        if j < n - 1:
            src = "".join(parts) + "pub fn value%d() -> i32\n{\n%s\treturn: r\n}\n" % (j, body)
            mods.append(("lib%d.pn" % j, src))
        else:
            imports = "".join('import "lib%d.pn";\n' % i for i in range(n - 1))
            calls = "".join("\tr = r + value%d();\n" % i for i in range(n - 1))
            src = imports + "".join(parts) + "fn main() -> i32\n{\n%s%s\treturn: r\n}\n" % (body, calls)
            mods.append(("main.pn", src))
    if rng.chance(1, 2):
        mods.reverse()
    return mods, total % 256


def cast_programs():
    """small programs around the bitcast operator `cast` and the conversion `as` in every operand position, well-typed or not
    (they reach the diagnostics whose location is a cast expression)"""
    tys = {"i32": "7", "u32": "8", "i64": "9", "u8": "1", "bool": "true", "usize": "3"}
    out = []
    for t1, v1 in tys.items():
        for t2, v2 in tys.items():
            decl = "\tvar a: %s = %s;\n\tvar b: %s = %s;\n" % (t1, v1, t2, v2)
            bodies = [
                "\tif cast a == cast b\n\t{\n\t\ta = a;\n\t}\n",
                "\tif cast a == b\n\t{\n\t\ta = a;\n\t}\n",
                "\tif a == cast b\n\t{\n\t\ta = a;\n\t}\n",
                "\tvar c = cast a;\n",
                "\tvar c: %s = cast a;\n" % t2,
                "\tvar c: %s = cast a + b;\n" % t2,
                "\tvar c: %s = cast (a as %s);\n" % (t2, t2),
                "\tvar c = cast a + cast b;\n",
                "\tb = cast a;\n",
                "\tvar c: %s = (cast a) as %s;\n" % (t2, t2),
            ]
            for body in bodies:
                out.append("fn main()\n{\n" + decl + body + "}\n")
    return out


def constant_hazards():
    """constants whose initializer does not fold to a plain integer (division / remainder by zero, over-wide shifts, wrapping),
    used by another constant, as an array length (variable, member, parameter), in a size query and at run time"""
    out = []
    exprs = ["1 / 0", "1 % 0", "0 / 0", "1 << 64", "1 << 200", "0 - 1", "7 / Z", "7 % Z", "|:S| / Z", "(1 / 0) + 1", "0 * (1 / 0)",
             "1 / (Z * 2)", "18446744073709551615 + 1", "1 >> 64"]
    uses = ["const M: usize = N;\n", "const M: usize = N + 1;\n", "fn f()\n{\n\tvar a: [N]i32;\n}\n", "struct T\n{\n\tm: [N]u8,\n}\n",
            "fn f(a: [N]u8)\n{\n}\n", "fn f() -> usize\n{\n\treturn: N\n}\n", "fn f() -> usize\n{\n\tvar a: [2][N]u8;\n\treturn: |a[0]|\n}\n",
            "const M: usize = |:[N]u8|;\n", "struct T\n{\n\tm: &[N]u8,\n}\n", ""]
    pre = "const Z: usize = 0;\nstruct S\n{\n\ta: u8,\n}\n"
    for e in exprs:
        for u in uses:
            out.append(pre + "const N: usize = %s;\n" % e + u)
            out.append(u + "const N: usize = %s;\n" % e + pre)
        for t in ("i32", "u8", "i8", "u64", "i128"):
            out.append(pre + "const N: %s = %s;\nfn main() -> %s\n{\n\treturn: N\n}\n" % (t, e.replace("|:S|", "8"), t))
    return out


# --- one fault in every expression context -------------------------------------------------------------------------

FAULTS_I32 = [
    ("undefined-variable", "nowhere_"),
    ("undefined-function", "nofn_(1)"),
    ("too-many-arguments", "one(1, 2)"),
    ("too-few-arguments", "one()"),
    ("missing-member", "st.nomember_"),
    ("member-of-integer", "n.a"),
    ("index-of-integer", "n[0]"),
    ("index-of-undefined", "nowhere_[0]"),
    ("bool-plus-int", "(true + 1)"),
    ("mixed-widths", "(1u8 + n)"),
    ("void-call-as-value", "nothing()"),
    ("length-of-integer", "|n|"),
    ("address-where-value", "&n"),
    ("array-where-value", "arr"),
    ("structure-where-value", "st"),
    ("argument-of-wrong-type", "one(true)"),
    ("undefined-in-argument", "one(nowhere_)"),
    ("undefined-in-index", "arr[nowhere_]"),
    ("missing-member-in-index", "arr[st.nomember_]"),
    ("skipped-declaration", "late_"),
    ("cast-of-undefined", "(nowhere_ as i32)"),
    ("bitcast-of-structure", "cast st"),
    ("undefined-structure-literal", "Nostruct_ { a: 1 }.a"),
    ("wrong-suffix", "1i64"),
]

CONTEXTS_I32 = [
    ("initializer", "var y: i32 = {E};"),
    ("untyped-initializer", "var y = {E};"),
    ("negated", "var y: i32 = -{E};"),
    ("complemented", "var y: i32 = !{E};"),
    ("parenthesized", "var y: i32 = ({E});"),
    ("negated-parenthesized", "var y: i32 = -({E});"),
    ("left-operand", "var y: i32 = {E} + 1;"),
    ("right-operand", "var y: i32 = 1 + {E};"),
    ("negated-operand", "var y: i32 = 2 * -{E};"),
    ("shift-amount", "var y: i32 = n << {E};"),
    ("cast", "var y: i64 = {E} as i64;"),
    ("negated-cast", "var y: i64 = -{E} as i64;"),
    ("index", "var y: i32 = arr[{E} as usize];"),
    ("argument", "var y: i32 = one({E});"),
    ("negated-argument", "var y: i32 = one(-{E});"),
    ("statement-call-argument", "consume({E});"),
    ("array-element", "var y: [2]i32 = [{E}, 2];"),
    ("negated-array-element", "var y = [1, -{E}];"),
    ("structure-member", "var y = S { a: {E} };"),
    ("negated-structure-member", "var y = S { a: -{E} };"),
    ("assignment", "n = {E};"),
    ("negated-assignment", "n = -{E};"),
    ("element-assignment", "arr[0] = {E};"),
    ("member-assignment", "st.a = {E};"),
    ("index-of-assignment", "arr[{E} as usize] = 1;"),
    ("comparison-left", "if {E} == 1\n\t{\n\t\tn = 2;\n\t}"),
    ("comparison-right", "if 1 < {E}\n\t{\n\t\tn = 2;\n\t}"),
    ("negated-comparison", "if -{E} == 1\n\t{\n\t\tn = 2;\n\t}"),
    ("return-value", "return: {E}"),
    ("negated-return-value", "return: -{E}"),
    ("print-argument", 'print!("{}", {E});'),
    ("negated-print-argument", 'print!("{}", -{E});'),
    ("format-argument", 'var y = format!("a", {E});'),
    ("length-index", "var y: usize = |arrs[{E} as usize]|;"),
    ("constant", None),
]


def fault_context_matrix():
    """programs whose ONLY fault sits in one expression position: (tag, source).  Each must be rejected with a diagnostic."""
    out = []
    for fname, fexpr in FAULTS_I32:
        for cname, ctx in CONTEXTS_I32:
            if ctx is None:
                if fname in ("skipped-declaration",) or "st" in fexpr.split(".")[0:1] or fexpr in ("arr", "st", "&n", "|n|", "n.a", "n[0]", "(1u8 + n)", "cast st"):
                    continue
                body = ""
                head = "const K: i32 = -%s;\n" % fexpr
            else:
                head = ""
                body = "\t" + ctx.replace("{E}", fexpr) + "\n"
            is_return = ctx is not None and ctx.startswith("return:")
            src = ("struct S\n{\n\ta: i32,\n}\n" + head +
                   "fn one(a: i32) -> i32\n{\n\treturn: a\n}\nfn nothing()\n{\n}\nfn consume(a: i32)\n{\n}\n"
                   "fn host() -> i32\n{\n\tvar n: i32 = 1;\n\tvar arr: [2]i32 = [1, 2];\n\tvar arrs: [2][2]i32 = [[1, 2], [3, 4]];\n"
                   "\tvar st = S { a: 1 };\n\tgoto after_late;\n\tvar late_: i32 = 3;\n\tafter_late:\n"
                   + ("" if is_return else body) + ("\t" + ctx.replace("{E}", fexpr) + "\n" if is_return else "\treturn: n\n")
                   + "}\nfn main()\n{\n}\n")
            out.append(("%s/%s" % (fname, cname), src))
    return out


STATEMENT_FAULTS = [
    "n[0] = 1;", "n.a = 1;", "st.nomember_ = 1;", "arr[0][1] = 1;", "st.a[0] = 1;", "st.a.b = 1;", "nowhere_[0] = 1;",
    "nowhere_.a = 1;", "late_ = 1;", "arr.a = 1;", "arr = 1;", "st = 1;", "n = arr;", "&n = 1;", "&&n = 1;", "n = &&n;", "n = &n;",
    "n[0] = n[1];", "n.a = n.b;", "st.a = st.a[0];", "arr[0] = arr[0][0];", "arr[n[0] as usize] = 1;", "arrs[0] = 1;", "arrs[0][0][0] = 1;",
    "var e_;", "var e_;\n\tvar f_: i32 = e_.s;", "var e_;\n\te_.s = 2;", "var e_;\n\tvar f_: i32 = e_.s;\n\te_.s = 2;",
    "var e_;\n\tvar f_ = e_ + S { a: 1 };", "var e_;\n\te_.a = n;", "var e_ = 33;\n\tvar f_: i32 = e_.x;",
    "var e_;\n\tvar f_: i32 = e_[0];", "var e_;\n\te_[0] = 1;", "var e_;\n\tconsume(e_);\n\te_ = arr;",
    "var e_ = 0x10;\n\tvar p_: &u32 = e_;", "var e_;\n\te_ = e_;", "var e_;\n\tvar f_ = e_;", "var e_ = nothing();",
    "var e_: [2]i32 = [nothing(), 1];", "var e_;\n\tvar f_: i32 = |e_|;", "var e_;\n\tvar f_ = &e_;", "var e_;\n\tvar f_: &i32 = &e_;\n\te_ = arr;",
    "var e_;\n\tvar f_: i32 = e_.s.t;", "var e_;\n\tvar f_: i32 = e_[0].s;", "var e_ = S { a: 1 }.a.b;", "var e_;\n\tif e_ == 1\n\t{\n\t\tn = 2;\n\t}",
    "var e_;\n\tprint!(\"{}\", e_);", "var e_;\n\tvar f_ = -e_;", "var e_;\n\tvar f_ = e_ as i64;", "var e_;\n\tvar f_ = cast e_;",
    "var e_: i32 = cast st;", "var e_ = cast n;", "var e_: S = cast n;",
]

CONSTANT_FAULTS = [
    "const K: S = S { a: K };", "const K: S = S { a: K.a };", "const K: [1]i32 = [K];", "const K: [2]i32 = [1, K[0]];",
    "const K: i32 = K;", "const K: i32 = -K;", "const K: i32 = K + 1;", "const K: i32 = one(1);", "const K: i32 = L;\nconst L: i32 = K;",
    "const K: S = S { a: L };\nconst L: i32 = K.a;", "const K: S = S { a: 1 };\nconst L: S = S { a: L.a + K.a };",
    "const K: [K]i32 = [1];", "const K: usize = |L|;\nconst L: [K]i32 = [1];", "const K: i32 = nowhere_;", "const K: S = S { a: nowhere_ };",
    "const K: S = S { nomember_: 1 };", "const K: Nostruct_ = Nostruct_ { a: 1 };", "const K: i32 = true;", "const K: [2]i32 = [1, true];",
    "const K: i32 = 1 as S;", "const K: i32 = cast 1u8;", "const K = 1;", "const K: i32;", "const K: &i32 = &L;\nconst L: i32 = 1;",
]


def statement_fault_programs():
    """programs with one faulty statement (assignees, untyped variables) or one faulty constant: (tag, source)"""
    out = []
    for st in STATEMENT_FAULTS:
        out.append(("statement:" + st.replace("\n\t", " "),
                    "struct S\n{\n\ta: i32,\n}\nfn one(a: i32) -> i32\n{\n\treturn: a\n}\nfn nothing()\n{\n}\nfn consume(a: i32)\n{\n}\n"
                    "fn host() -> i32\n{\n\tvar n: i32 = 1;\n\tvar arr: [2]i32 = [1, 2];\n\tvar arrs: [2][2]i32 = [[1, 2], [3, 4]];\n"
                    "\tvar st = S { a: 1 };\n\tgoto after_late;\n\tvar late_: i32 = 3;\n\tafter_late:\n\t" + st + "\n\treturn: n\n}\nfn main()\n{\n}\n"))
    for k in CONSTANT_FAULTS:
        for use in ("", "fn main() -> i32\n{\n\tvar u_ = K;\n\treturn: 0\n}\n"):
            out.append(("constant:" + k.replace("\n", " "), "struct S\n{\n\ta: i32,\n}\nfn one(a: i32) -> i32\n{\n\treturn: a\n}\n" + k + "\n" + use))
    return out
