"""C18 — the command line tool reports outcomes faithfully."""
import collections
import shutil
import stat
from lib import *

THEOREMS = ["Cli.backend_precedence", "Cli.exit_zero_iff", "Cli.compile_failure", "Cli.run_shows_status",
            "Cli.verbosity_gating"]

VALID_A = 'fn main() -> i32\n{\n\tvar x: i32 = %d;\n\tprint!("hello\\n");\n\treturn: x\n}\n'
INVALID = 'fn main() -> i32\n{\n\tvar x: i32 = 1;\n\tgoto nowhere;\n\treturn: x\n}\n'
INVALID_UNI = 'fn main() -> i32\n{\n\tvar café: i32 = 1;\n\treturn: 0\n}\n'
LIB = 'pub fn three() -> i32\n{\n\treturn: 3\n}\n'
MAIN2 = 'import "lib.pn";\nfn main() -> i32\n{\n\tvar x: i32 = three();\n\treturn: x\n}\n'


def write_stub(path, status, tag):
    with open(path, "w") as f:
        f.write("#!/bin/sh\n")
        f.write('echo "%s $@" >> "$STUB_LOG"\n' % tag)
        f.write("cat > /dev/null\n")
        f.write('echo "stub-output-%s"\n' % tag)
        if status == "signal":
            f.write("kill -SEGV $$\n")
        else:
            f.write("exit %d\n" % status)
    os.chmod(path, os.stat(path).st_mode | stat.S_IEXEC)


def main():
    rep = Reporter("C18")
    if not setup_common(rep, THEOREMS, need_harness=False):
        return rep.finish()
    try:
        penne = build_penne_bin()
    except BuildError as e:
        rep.violation("penne-build", {"what": "the penne binary no longer builds", "log": str(e)[-3000:]}, no_input=True)
        return rep.finish()
    rng = SplitMix64(rep.seed).fork("C18")
    thorough = rep.tier == "thorough"
    work = os.path.join(CACHE, "c18work")
    shutil.rmtree(work, ignore_errors=True)
    os.makedirs(work)
    dist = collections.Counter()
    agreeing = 0
    samples = []
    subs = ["build", "default", "run", "emit"]
    # "clash": two modules export the same symbol, the set does not link (the failure is only known at the very end, when
    # the modules are combined): the tool must not go on to the backend nor exit 0
    inputs = ["valid", "invalid", "two", "two-invalid", "invalid-uni", "clash"]
    n = 600 if thorough else 110
    for k in range(n):
        d = os.path.join(work, "c%d" % k)
        os.makedirs(os.path.join(d, "bin"))
        sub = subs[k % 4]
        inp = inputs[(k // 4) % 6] if k < 48 else rng.pick(inputs)
        status = rng.pick([0, 0, 3, 7, "signal"]) if sub in ("build", "default", "run") else 0
        retval = rng.below(200)
        log = os.path.join(d, "stub.log")
        for tag in ("flag", "env", "cfg"):
            write_stub(os.path.join(d, "stub_" + tag), status, tag)
        write_stub(os.path.join(d, "bin", "clang"), status, "default-clang")
        # the default of `run` is the real lli unless a stub is asked for
        use_real_lli = sub == "run" and rng.chance(1, 2)
        if not use_real_lli:
            write_stub(os.path.join(d, "bin", "lli"), status, "default-lli")
        files = []
        if inp == "valid":
            open(os.path.join(d, "main.pn"), "w").write(VALID_A % retval)
            files = ["main.pn"]
        elif inp == "invalid":
            open(os.path.join(d, "main.pn"), "w").write(INVALID)
            files = ["main.pn"]
        elif inp == "clash":
            open(os.path.join(d, "left.pn"), "w").write("pub fn scale(x: i32) -> i32\n{\n\treturn: x * 2\n}\n")
            open(os.path.join(d, "right.pn"), "w").write("pub fn scale(x: i32) -> i32\n{\n\treturn: x * 3\n}\n")
            open(os.path.join(d, "main.pn"), "w").write('import "left.pn";\nfn main() -> i32\n{\n\treturn: scale(4)\n}\n')
            files = rng.pick([["main.pn", "left.pn", "right.pn"], ["right.pn", "main.pn", "left.pn"], ["left.pn", "right.pn", "main.pn"]])
        elif inp == "invalid-uni":
            open(os.path.join(d, "main.pn"), "w").write(INVALID_UNI)
            files = ["main.pn"]
        else:
            open(os.path.join(d, "lib.pn"), "w").write(LIB if inp == "two" else LIB.replace("3\n", "x\n"))
            open(os.path.join(d, "main.pn"), "w").write(MAIN2)
            files = ["main.pn", "lib.pn"] if rng.chance(1, 2) else ["lib.pn", "main.pn"]
        compile_ok = inp in ("valid", "two")
        if inp in ("valid", "two") and rng.chance(1, 3):
            files = [os.path.join(d, f) for f in files]      # the sources named by absolute paths
        flag = rng.chance(1, 3)
        env = rng.chance(1, 2)
        cfg = rng.chance(1, 2) and sub in ("build", "default")
        silent = rng.chance(1, 5)
        verbose = rng.chance(1, 5)
        color = rng.pick(["never", "always", None])
        arrows = rng.pick(["ascii", "unicode", None])
        outdir = rng.chance(1, 2)
        argv = [penne]
        if sub != "default":
            argv.append(sub)
        argv += files
        if flag and sub != "emit":
            argv += ["--backend", os.path.join(d, "stub_flag")]
        # a backend that is named but cannot be started (an empty string, a file that does not exist) is still THE backend:
        # the tool must try it and fail, not fall back or skip the step
        env_kind = rng.pick(["stub", "stub", "stub", "empty", "missing"])
        cfg_kind = rng.pick(["stub", "stub", "stub", "empty", "missing"])
        kind_value = lambda kind, tag: {"stub": os.path.join(d, "stub_" + tag), "empty": "", "missing": os.path.join(d, "no_such_backend_" + tag)}[kind]
        if cfg:
            open(os.path.join(d, "cfg.toml"), "w").write('backend = "%s"\n' % kind_value(cfg_kind, "cfg"))
            argv += ["--config", os.path.join(d, "cfg.toml")]
        if silent:
            argv.append("--silent")
        if verbose:
            argv.append("--verbose")
        if color:
            argv.append("--color=" + color)
        if arrows:
            argv.append("--arrows=" + arrows)
        if outdir:
            argv += ["--out-dir", os.path.join(d, "out")]
        envv = dict(os.environ)
        envv["STUB_LOG"] = log
        envv["PATH"] = os.path.join(d, "bin") + ":" + envv["PATH"]
        envv.pop("PENNE_BACKEND", None)
        envv.pop("PENNE_LLI", None)
        if env and sub != "emit":
            envv["PENNE_BACKEND" if sub in ("build", "default") else "PENNE_LLI"] = kind_value(env_kind, "env")
        p = subprocess.run(argv, cwd=d, env=envv, stdout=subprocess.PIPE, stderr=subprocess.PIPE, timeout=120)
        out = p.stdout + p.stderr
        # model
        msub = "build" if sub == "default" else sub
        real_lli_used = use_real_lli and not flag and not (env and sub == "run")
        if real_lli_used:
            # the two-module program returns three(), the single-module one returns `retval`
            be = (str(3) if inp == "two" else str(retval % 256)) if compile_ok else "0"
        else:
            be = "signalled" if status == "signal" else str(status)
        chosen_kind = "stub"
        if not (flag and sub != "emit"):
            if env and sub != "emit":
                chosen_kind = env_kind
            elif cfg:
                chosen_kind = cfg_kind
        if chosen_kind != "stub":
            be = "spawnfailed"
        dist["backend-source:%s" % ("flag" if (flag and sub != "emit") else "env-" + env_kind if (env and sub != "emit") else "cfg-" + cfg_kind if cfg else "default")] += 1
        req = "(inv %s %s %s %s %d %s %d %d)" % (
            msub, "flag" if (flag and sub != "emit") else "-", "env" if (env and sub != "emit") else "-",
            "cfg" if cfg else "-", 1 if compile_ok else 0, be, 1 if silent else 0, 1 if verbose else 0)
        ma = run_model(["C18\t" + req])[0]
        md = dict(x.split("=", 1) for x in ma.split(" "))
        # observations
        logged = open(log).read().split("\n") if os.path.exists(log) else []
        invoked_tag = logged[0].split(" ")[0] if logged and logged[0] else None
        mo = re.search(rb"Output: (-?\d+)", out)
        problems = []
        if (p.returncode == 0) != (md["exit0"] == "1"):
            problems.append("exit status %d, model says exit0=%s" % (p.returncode, md["exit0"]))
        exp_tag = md["backend"]
        if exp_tag in ("clang", "lli"):
            exp_tag = "default-" + exp_tag
        if md["invoked"] == "1" and be == "spawnfailed":
            if invoked_tag is not None:
                problems.append("backend invoked: %s, although the chosen backend cannot be started" % invoked_tag)
        elif md["invoked"] == "1" and not real_lli_used:
            if invoked_tag != exp_tag:
                problems.append("backend invoked: %s, expected %s" % (invoked_tag, exp_tag))
        if md["invoked"] == "0" and invoked_tag is not None:
            problems.append("a backend was invoked (%s) although none should be" % invoked_tag)
        if md["output"] != "-":
            if not mo or mo.group(1).decode() != md["output"]:
                problems.append("`Output: %s` expected, got %r" % (md["output"], mo.group(0) if mo else None))
        elif mo:
            problems.append("unexpected %r" % mo.group(0))
        if sub == "run" and compile_ok and md["invoked"] == "1" and not silent and be != "spawnfailed":
            marker = b"hello" if real_lli_used and inp == "valid" else (b"stub-output" if not real_lli_used else None)
            if marker and marker not in out:
                problems.append("the program's output was not passed through")
        if not compile_ok:
            if md["diags"] == "1":
                if not re.search(rb"\[E\d+\]", out):
                    problems.append("no rendered diagnostic")
                if color == "never" and b"\x1b[" in out:
                    problems.append("ANSI escapes despite --color=never")
                # (with --verbose the stage dumps print the rebuilt source behind a `¦` gutter: not part of the diagnostics)
                if arrows == "ascii" and color == "never" and inp != "invalid-uni" and not verbose and any(b > 127 for b in out):
                    problems.append("non-ASCII arrows despite --arrows=ascii")
            elif re.search(rb"\[E\d+\]", out):
                problems.append("diagnostics although --silent")
        if compile_ok and outdir and sub in ("emit", "run", "build", "default"):
            for f in files:
                # the source may have been named by an absolute path (then the file lies under out/<that path>) or relatively
                rel = f[len(d) + 1:] if f.startswith(d + os.sep) else f
                cands = [os.path.join(d, "out", rel + ".ll"), os.path.join(d, "out", f.lstrip(os.sep) + ".ll")]
                if not any(os.path.exists(ll) and b"define" in open(ll, "rb").read() for ll in cands):
                    problems.append("no %s.ll with the module's IR under the output directory" % rel)
            stray = [x for x in os.listdir(d) if x.endswith(".ll")]
            if stray:
                problems.append("IR files outside the output directory: %s" % stray)
        dist["%s/%s/exit%d" % (sub, inp, 0 if p.returncode == 0 else 1)] += 1
        if inp == "clash" and problems == ["no rendered diagnostic"] and p.returncode != 0 and b"symbol multiply defined" in out:
            # F15 as the command line shows it: LLVM's linker prints its own message and ends the process; the status is
            # non-zero and no backend runs, but there is no Penne diagnostic
            rep.violation("c18:link-failure-reported-by-llvm-only", {"argv": argv, "output_tail": out[-600:].decode("utf8", "replace")})
            shutil.rmtree(d, ignore_errors=True)
            continue
        if problems:
            rep.violation("argv:" + " ".join(a.replace(d, ".").replace(penne, "penne") for a in argv) + " status=" + str(status), {
                "argv": argv, "cwd": d, "env_backend": envv.get("PENNE_BACKEND") or envv.get("PENNE_LLI"),
                "stub_status": status, "model_request": "C18\t" + req, "model": ma, "exit_status": p.returncode,
                "problems": problems, "output_tail": out[-1500:].decode("utf8", "replace"),
                "files": {os.path.basename(f): open(os.path.join(d, f)).read() for f in files}})
        else:
            agreeing += 1
            shutil.rmtree(d, ignore_errors=True)
        if k < 2:
            samples.append({"argv": [a.replace(d, ".") for a in argv[1:]], "model": ma, "exit": p.returncode})
    # rendering sweep: every kind of diagnostic must honour --color=never / --arrows=ascii.  Inputs: every invalid sample of
    # the repository, an `as` matrix over primitive, pointer, array and slice types (every branch of the conversion notes),
    # mutated corpus files and faulted generated programs; each through the real binary (`emit`, no backend).
    import faultgen
    sweep = []
    inv_dir = os.path.join(REPO, "tests", "samples", "invalid")
    for fn_ in sorted(os.listdir(inv_dir)):
        if fn_.endswith(".pn"):
            try:
                sweep.append(("sample:" + fn_, open(os.path.join(inv_dir, fn_), encoding="utf-8").read()))
            except UnicodeDecodeError:
                pass
    CT = {"i32": "1", "u8": "1", "i64": "1", "usize": "1", "bool": "true", "char8": "'a'",
          "&i32": "&x", "&u8": "&y", "&&i32": "&&p", "[2]i32": "[1, 2]", "[2]u8": "[1, 2]", "&[]i32": "&arr", "&[]u8": "&arr8"}
    for s_, init in CT.items():
        for d_ in CT:
            sweep.append(("as:%s:%s" % (s_, d_),
                          "fn main()\n{\n\tvar x: i32 = 1;\n\tvar y: u8 = 1;\n\tvar p: &i32 = &x;\n\tvar arr: [2]i32 = [1, 2];\n"
                          "\tvar arr8: [2]u8 = [1, 2];\n\tvar a: %s = %s;\n\tvar c: %s = %sa as %s;\n}\n"
                          % (s_, init, d_, "&" * s_.count("&"), d_)))
    # source files that have the same place under the output directory (`lib.pn` and `../lib.pn`, named from a subdirectory):
    # a successful emit leaves the IR of EVERY module, so either both files are there or the tool does not report success
    cd = os.path.join(work, "collision")
    os.makedirs(os.path.join(cd, "sub"))
    open(os.path.join(cd, "lib.pn"), "w").write('import "lib.pn";\nfn main() -> i32\n{\n\treturn: helper()\n}\n')
    open(os.path.join(cd, "sub", "lib.pn"), "w").write("pub fn helper() -> i32\n{\n\treturn: 3\n}\n")
    for names in (["../lib.pn", "lib.pn"], ["lib.pn", "../lib.pn"]):
        od = os.path.join(cd, "out%d" % (names[0] == "lib.pn"))
        pr = subprocess.run([penne, "emit", "--color=never", "--out-dir", od] + names, cwd=os.path.join(cd, "sub"),
                            stdout=subprocess.PIPE, stderr=subprocess.PIPE, timeout=120)
        lls = []
        for root, _dirs, fs in os.walk(od):
            lls += [open(os.path.join(root, x), "rb").read() for x in fs if x.endswith(".ll")]
        has_main = any(b"@main" in x for x in lls)
        has_helper = any(b"define" in x and b"@helper" in x and b"@main" not in x for x in lls)
        dist["same-output-place:exit%d" % (0 if pr.returncode == 0 else 1)] += 1
        if pr.returncode == 0 and not (has_main and has_helper):
            rep.violation("cli:two-modules-one-output-file:" + names[0], {
                "why": "`penne emit --out-dir D %s` (from the directory sub/) exits 0, but the output directory holds the IR of %d "
                       "module(s), not of both: one file was written over the other" % (" ".join(names), len(lls)),
                "files": {"lib.pn": open(os.path.join(cd, "lib.pn")).read(), "sub/lib.pn": open(os.path.join(cd, "sub", "lib.pn")).read()},
                "argv": ["penne", "emit", "--out-dir", "D"] + names, "cwd": "sub/", "output": (pr.stdout + pr.stderr)[-600:].decode("utf-8", "replace")})
    # a backend that does not read its input (it is free to): the tool's status is the backend's status, whether the IR fits the
    # pipe's buffer (small module: the write used to race with the backend's exit) or not (1500 functions: 200 KiB)
    bd = os.path.join(work, "noreader")
    os.makedirs(bd)
    open(os.path.join(bd, "small.pn"), "w").write("fn main() -> i32\n{\n\treturn: 3\n}\n")
    open(os.path.join(bd, "big.pn"), "w").write("".join("pub fn f%d() -> i32\n{\n\treturn: %d\n}\n" % (i, i % 100) for i in range(1500))
                                                 + "fn main() -> i32\n{\n\treturn: f7()\n}\n")
    for be, want in (("true", 0), ("false", 1)):
        bpath = next((os.path.join(x, be) for x in ("/bin", "/usr/bin") if os.path.exists(os.path.join(x, be))), None)
        if bpath is None:
            continue
        for src, reps in (("big.pn", 1), ("small.pn", 4)):
            for _k in range(reps):
                pr = subprocess.run([penne, "build", "--backend", bpath, "--out-dir", os.path.join(bd, "o"), src], cwd=bd,
                                    stdout=subprocess.PIPE, stderr=subprocess.PIPE, timeout=120)
                got = 0 if pr.returncode == 0 else 1
                dist["backend-without-reader:%s:%s:exit%d" % (be, src, got)] += 1
                if got != want:
                    rep.violation("cli:backend-that-does-not-read:%s:%s" % (be, src), {
                        "why": "`penne build --backend %s %s`: the backend ends with status %d without reading the IR, the tool exits with %d"
                               % (bpath, src, want, pr.returncode),
                        "argv": ["penne", "build", "--backend", bpath, src], "output": (pr.stdout + pr.stderr)[-400:].decode("utf-8", "replace")})
                    break
    srng = rng.fork("sweep")
    cps = faultgen.corpus()
    for i in range(400 if thorough else 60):
        nm, src = cps[srng.below(len(cps))]
        sweep.append(("mutated:" + nm, faultgen.mutate(srng.fork("m%d" % i), src)))
    for i in range(400 if thorough else 60):
        sweep.append(("faulted:%d" % i, faultgen.faulted_program(srng.fork("f%d" % i))))
    sd = os.path.join(work, "sweep")
    os.makedirs(sd)
    import concurrent.futures
    def render(job):
        idx, (tag, src) = job
        f = os.path.join(sd, "s%d.pn" % idx)
        try:
            open(f, "w", encoding="utf-8").write(src)
        except UnicodeEncodeError:
            return tag, src, None, b""
        try:
            pr = subprocess.run([penne, "emit", f, "--color=never", "--arrows=ascii", "--out-dir", os.path.join(sd, "o%d" % idx)],
                                cwd=sd, stdout=subprocess.PIPE, stderr=subprocess.PIPE, timeout=120)
        except subprocess.TimeoutExpired:
            return tag, src, "timeout", b""
        return tag, src, pr.returncode, pr.stdout + pr.stderr
    with concurrent.futures.ThreadPoolExecutor(max_workers=NCPU) as ex:
        rendered = list(ex.map(render, enumerate(sweep)))
    nsweep = 0
    for tag, src, rc, out in rendered:
        if rc is None:
            continue
        nsweep += 1
        problems = []
        cls = tag.split(":")[0]
        has_diag = re.search(rb"\[[EL]\d+\]", out) is not None
        if b"\x1b[" in out:
            problems.append("ANSI escapes despite --color=never")
        if all(ord(ch) < 128 for ch in src) and any(b > 127 for b in out):
            problems.append("non-ASCII output despite --arrows=ascii on an ASCII source")
        if rc == "timeout":
            problems.append("timeout")
        elif rc != 0 and not has_diag and rc > 0 and b"panicked" not in out and rc != 101:
            problems.append("non-zero exit status %s without a rendered diagnostic" % rc)
        elif rc == 0 and re.search(rb"\[E\d+\]", out):
            problems.append("exit status 0 although an error was rendered")
        dist["sweep:%s:%s" % (cls, "exit0" if rc == 0 else "nonzero")] += 1
        if problems:
            rep.violation("sweep:%s:%s" % (tag, hash_str(src)), {"problems": problems, "source": src, "exit_status": rc,
                          "argv": ["penne", "emit", "main.pn", "--color=never", "--arrows=ascii"],
                          "output_tail": out[-1500:].decode("utf8", "replace")})
        else:
            agreeing += 1
    shutil.rmtree(sd, ignore_errors=True)
    n += nsweep
    report_broken_proof(rep)
    rep.coverage.update({
        "evaluations": n, "distinct_nontrivial": len(dist),
        "rule": "invocations of the real binary (built from the current tree with the alpha feature): subcommand in {build, "
                "(default), run, emit} x input in {valid, invalid, two valid modules, two modules one invalid, invalid with "
                "non-ASCII} x backend given by flag / environment / config / default (stub scripts that log their argv and "
                "exit with a chosen status or die by signal; the real lli for half of the `run` cases) x --silent, --verbose, "
                "--color, --arrows, --out-dir; distinct = (subcommand, input, exit class); rendering sweep: every invalid sample of "
                "the repository, an `as` matrix over 13 primitive/pointer/array/slice types, mutated corpus files and faulted "
                "generated programs through `penne emit --color=never --arrows=ascii`: no ANSI escape, ASCII-only output for an "
                "ASCII source, a rendered diagnostic with every failure, never exit 0 with an error",
        "traces_validated_against_impl": agreeing,
        "distribution": dict(dist), "samples": samples,
    })
    return rep.finish()


if __name__ == "__main__":
    sys.exit(main())
