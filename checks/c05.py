"""C05 — no variable is used out of scope, shadowed, or with its declaration skipped."""
import collections
from lib import *
import skel

THEOREMS = ["Vars.no_false_e482", "Vars.e482_justified", "Vars.step_inv", "Vars.goStmt_run", "Vars.block_scoped", "Vars.goStmt_stack", "Vars.use_undefined_iff", "Vars.use_skipped_iff",
            "Vars.use_ok_iff", "Vars.declare_clash_iff",
            "Vars.accepted_runs_initialised", "Vars.Dyn.dyn_agrees_with_cf", "Vars.sound", "Vars.lwf_list", "Vars.place_brOKL", "Vars.skip_to_label",
            "Vars.skip_detected", "Vars.goStmt_pending", "Vars.goStmt_persist", "Vars.goStmt_fresh"]
R = 0        # declared first in every body
CONST = 5    # a module constant
PARAM = 3    # a parameter


def target(vs):
    return R if vs[0] in (CONST, PARAM) else vs[0]


def render_uses(ss):
    """source-level statements: `use vs` is the assignment `<target> = v + ...;`"""
    out = []
    for s in ss:
        k = s[0]
        if k == 'use':
            out.append(('use', [target(s[1])] + list(s[1])))
        elif k == 'block':
            out.append(('block', render_uses(s[1])))
        elif k == 'if':
            out.append(('if', s[1], render_uses([s[2]])[0]))
        elif k == 'ife':
            out.append(('ife', s[1], render_uses([s[2]])[0], render_uses([s[3]])[0]))
        else:
            out.append(s)
    return out


def occurrences(s):
    """model statement: uses listed in the order the scoper analyses them"""
    k = s[0]
    if k == 'use':
        vs = s[1]
        return ('use', list(vs) + [target(vs)])
    if k == 'block':
        return ('block', [occurrences(x) for x in s[1]])
    if k == 'if':
        return ('if', s[1], occurrences(s[2]))
    if k == 'ife':
        return ('ife', s[1], occurrences(s[2]), occurrences(s[3]))
    return s


def requests(body, variant):
    """variant: 0 plain; 1 with return value; 2 with a constant and a parameter; 3 bare: no constant, no parameter and no
    variable declared in front of the body (nothing at all is in scope at the first statements)"""
    consts = [CONST] if variant == 2 else []
    params = [PARAM] if variant == 2 else []
    ret = R if variant == 1 else None
    prelude = [] if variant == 3 else [('decl', R, [])]
    src = skel.render_fn(render_uses(body), params=params, prelude=prelude, consts=consts, with_return=ret)
    mbody = list(prelude) + [occurrences(s) for s in body]
    if variant == 1:
        mbody = mbody + [('label', skel.RETURN), ('use', [R])]
    msexp = "(fn (consts%s) (params%s) %s)" % ("".join(" %d" % c for c in consts), "".join(" %d" % p for p in params),
                                                 skel.body_sexp(mbody))
    return "alpha\tcheck\tf.pn\t" + esc(src), "C05\t" + msexp, src, (consts, params, mbody)


MRE = re.compile(r"codes=([0-9 ]*) labels=([0-9 ]*)$")
MINE = (402, 422, 424, 482)


def observe(h_ans, m_ans):
    hh, hd = kv(h_ans)
    if hh == "ok":
        impl = ("ok", [])
    elif hh == "err":
        impl = ("err", codes_of(hd))
    else:
        impl = (h_ans[:200], [])
    mm = MRE.match(m_ans)
    if not mm:
        return impl, None, None
    return impl, sorted(int(x) for x in mm.group(1).split()), sorted(int(x) for x in mm.group(2).split())


def agree(impl, mc):
    if mc is None:
        return False
    if impl[0] == "ok":
        return mc == []
    if impl[0] == "err":
        return [c for c in impl[1] if c in MINE] == mc and all(c in MINE for c in impl[1])
    return False


# ---------------------------------------------------------------------------
# independent oracle: definite-declaration (must) analysis over the control-flow graph

def path_oracle(consts, params, body):
    """returns True when some use of a variable is reachable along a path on which the declaration it
    lexically resolves to has not been executed in the current activation of its block.
    Only meaningful for label-correct bodies without undefined or clashing names."""
    nodes = []   # dict(kind, succ=[...], gen=site or None, kill=set(), uses=[sites])
    site_ctr = [0]

    def new(kind, **kw):
        d = dict(kind=kind, succ=[], gen=None, kill=set(), uses=[])
        d.update(kw)
        nodes.append(d)
        return len(nodes) - 1

    base_sites = {}
    for n in list(consts) + list(params):
        site_ctr[0] += 1
        base_sites[n] = site_ctr[0]
    pending_gotos = []  # (node index, label name, block chain)
    label_nodes = {}    # (block uid, name, index in block) -> node

    block_uid = [0]

    def resolve(scopes, n):
        for sc in reversed(scopes):
            if n in sc:
                return sc[n]
        return None

    def emit_list(ss, scopes, chain):
        """chain: list of (block uid, index of the current statement in that block) outermost first"""
        my_sites = set()
        scopes = scopes + [{}]
        uid = chain[-1][0]
        for i, s in enumerate(ss):
            chain[-1] = (uid, i)
            emit(s, scopes, chain, my_sites)
        return my_sites

    def emit(s, scopes, chain, my_sites):
        k = s[0]
        if k == 'decl':
            n = new('decl', uses=[resolve(scopes, u) for u in s[2]])
            site_ctr[0] += 1
            nodes[n]['gen'] = site_ctr[0]
            scopes[-1][s[1]] = site_ctr[0]
            my_sites.add(site_ctr[0])
        elif k == 'use':
            new('use', uses=[resolve(scopes, u) for u in s[1]])
        elif k == 'loop':
            n = new('loop')
            nodes[n]['loop_to'] = chain[-1][0]
        elif k == 'goto':
            n = new('goto')
            pending_gotos.append((n, s[1], list(chain)))
        elif k == 'label':
            n = new('label')
            label_nodes[(chain[-1][0], s[1], chain[-1][1])] = n
        elif k == 'if':
            c = new('cond', uses=[resolve(scopes, u) for u in s[1]])
            emit(s[2], scopes, chain, my_sites)
            j = new('join')
            nodes[c]['succ'].append(j)
        elif k == 'ife':
            c = new('cond', uses=[resolve(scopes, u) for u in s[1]])
            emit(s[2], scopes, chain, my_sites)
            skip = new('skip-else')
            nodes[c]['succ'].append(skip + 1)
            emit(s[3], scopes, chain, my_sites)
            j = new('join')
            nodes[skip]['only'] = j
        elif k == 'block':
            block_uid[0] += 1
            uid = block_uid[0]
            e = new('enter')
            nodes[e]['block'] = uid
            inner = emit_list(s[1], scopes, chain + [(uid, 0)])
            x = new('exit')
            nodes[e]['kill'] = set(inner)
            nodes[x]['kill'] = set(inner)
        else:
            raise ValueError(k)

    entry = new('entry')
    block_uid[0] += 1
    top_uid = block_uid[0]
    emit_list(body, [dict(base_sites)], [(top_uid, 0)])
    end = new('end')
    enter_of = {nd['block']: i for i, nd in enumerate(nodes) if nd['kind'] == 'enter'}
    for i, nd in enumerate(nodes):
        if nd['kind'] == 'skip-else':
            nd['succ'] = [nd['only']]
        elif i + 1 < len(nodes):
            nd['succ'].append(i + 1)       # fall through (every statement is considered reachable)
        if nd['kind'] == 'loop' and nd['loop_to'] in enter_of:
            nd['succ'].append(enter_of[nd['loop_to']])
    for n, name, chain in pending_gotos:
        target = None
        for (uid, idx) in reversed(chain):
            cands = [(j, node) for (u, nm, j), node in label_nodes.items() if u == uid and nm == name and j > idx]
            if cands:
                target = min(cands)[1]
                break
        if target is not None:
            nodes[n]['succ'].append(target)
    ALL = set(range(1, site_ctr[0] + 1))
    IN = [set(ALL) for _ in nodes]
    IN[entry] = set(base_sites.values())
    preds = [[] for _ in nodes]
    for i, nd in enumerate(nodes):
        for t in nd['succ']:
            preds[t].append(i)

    def out(i):
        o = IN[i] - nodes[i]['kill']
        if nodes[i]['gen'] is not None:
            o = o | {nodes[i]['gen']}
        return o
    changed = True
    while changed:
        changed = False
        for i in range(len(nodes)):
            if i == entry:
                continue
            if not preds[i]:
                continue
            new_in = set(ALL)
            for p in preds[i]:
                new_in &= out(p)
            if new_in != IN[i]:
                IN[i] = new_in
                changed = True
    for i, nd in enumerate(nodes):
        for u in nd['uses']:
            if u is not None and u not in IN[i]:
                return True
    return False


# ---------------------------------------------------------------------------

ATOMS = [('decl', 1, []), ('decl', 2, [1]), ('use', [1]), ('use', [2, 1]), ('goto', 0), ('label', 0),
         ('if', [R], ('goto', 0)), ('goto', 1), ('label', 1)]


def compound(k, d, rec):
    for lst in rec(k - 1, d - 1):
        yield ('block', lst)


def random_body(rng, n, depth, nv, nl):
    out = []
    while n > 0:
        r = rng.below(100)
        v = 1 + rng.below(nv)
        if rng.chance(1, 12):
            v = rng.pick([R, CONST, PARAM])
        us = [1 + rng.below(nv) for _ in range(rng.below(3))]
        lab = rng.below(nl)
        if r < 22:
            out.append(('decl', v, us))
        elif r < 45:
            out.append(('use', [v] + us))
        elif r < 57:
            out.append(('goto', lab))
        elif r < 69:
            out.append(('label', lab))
        elif r < 78:
            out.append(('if', us or [R], ('goto', lab)))
        elif r < 82:
            out.append(('ife', us or [R], ('goto', lab), ('goto', rng.below(nl))))
        elif depth > 0 and n > 1:
            m = 1 + rng.below(min(n - 1, 5))
            inner = random_body(rng, m, depth - 1, nv, nl)
            r2 = rng.below(10)
            if r2 < 5:
                out.append(('block', inner))
            elif r2 < 8:
                out.append(('if', us or [R], ('block', inner)))
            else:
                out.append(('ife', us or [R], ('block', inner), ('block', random_body(rng, 1 + rng.below(3), depth - 1, nv, nl))))
            n -= m
        else:
            out.append(('use', [R]))
        n -= 1
    return out


def valid_body(rng, n, depth, scope, counter, outer_pendings):
    """mostly-valid bodies: uses pick visible variables; a goto targets a fresh label or one that is still pending
    in this or an enclosing block (several gotos, at different depths, to one label); every pending label is
    placed later in the block that owns it; declarations pick fresh names (sometimes a clash)"""
    out = []
    scope = list(scope)
    pending = []          # labels that must still be placed in this block
    while n > 0:
        r = rng.below(100)
        if pending and rng.chance(1, 4):
            out.append(('label', pending.pop(rng.below(len(pending)))))
            continue

        def pickv():
            if scope and not rng.chance(1, 15):
                return rng.pick(scope)
            return 1 + rng.below(6)
        if r < 25:
            counter[1] += 1
            v = counter[1] if not rng.chance(1, 12) else pickv()
            out.append(('decl', v, [pickv() for _ in range(rng.below(3))] if scope else []))
            scope.append(v)
        elif r < 50 and scope:
            out.append(('use', [pickv() for _ in range(1 + rng.below(3))]))
        elif r < 72:
            live = pending + [l for ps in outer_pendings for l in ps]
            if live and rng.chance(2, 5):
                lab = rng.pick(live)
            else:
                counter[0] += 1
                lab = counter[0]
                if outer_pendings and rng.chance(1, 3):
                    rng.pick(outer_pendings).append(lab)
                else:
                    pending.append(lab)
            g = ('goto', lab)
            if rng.chance(1, 2):
                g = ('if', [pickv()] if scope else [R], g)
            out.append(g)
        elif depth > 0 and n > 1:
            m = 1 + rng.below(min(n - 1, 5))
            inner = valid_body(rng, m, depth - 1, scope, counter, outer_pendings + [pending])
            if rng.chance(1, 2):
                out.append(('block', inner))
            else:
                out.append(('if', [pickv()] if scope else [R], ('block', inner)))
            n -= m
        else:
            out.append(('use', [R]))
        n -= 1
    for lab in pending:
        out.append(('label', lab))
        if scope and rng.chance(1, 2):
            out.append(('use', [rng.pick(scope)]))
    return out


def multi_goto_body(rng, counter):
    """several gotos to ONE label issued from scopes of different sizes (nested blocks with their own locals),
    declarations in the label's block between and around them, uses after the label"""
    def fresh():
        counter[1] += 1
        return counter[1]
    counter[0] += 1
    lab = counter[0]
    out = []
    scope = [R]
    for _ in range(rng.below(3)):
        v = fresh()
        out.append(('decl', v, []))
        scope.append(v)
    declared_between = []
    for g in range(2 + rng.below(3)):
        # a goto, possibly inside a nested block holding some locals of its own
        locs = rng.below(4)
        goto = ('goto', lab) if rng.chance(1, 2) else ('if', [rng.pick(scope)], ('goto', lab))
        if locs or rng.chance(1, 3):
            inner = []
            for _ in range(locs):
                inner.append(('decl', fresh(), []))
            if rng.chance(1, 3):
                inner = [('block', inner + [goto])]
            else:
                inner = inner + [goto]
            out.append(('block', inner) if rng.chance(1, 2) else ('if', [rng.pick(scope)], ('block', inner)))
        else:
            out.append(goto)
        for _ in range(rng.below(3)):
            v = fresh()
            out.append(('decl', v, []))
            scope.append(v)
            declared_between.append(v)
    out.append(('label', lab))
    for _ in range(1 + rng.below(3)):
        out.append(('use', [rng.pick(declared_between) if declared_between and rng.chance(3, 4) else rng.pick(scope)]))
    return out


def main():
    rep = Reporter("C05")
    if not setup_common(rep, THEOREMS):
        return rep.finish()
    rng = SplitMix64(rep.seed).fork("C05")
    thorough = rep.tier == "thorough"
    cases = []
    maxn = 5 if thorough else 4
    for n in range(0, maxn + 1):
        for b in skel.enum_lists(n, 2, ATOMS, compound):
            cases.append((b, 0))
    for n in range(0, maxn + 1):
        for b in skel.enum_lists(n, 2, ATOMS, compound):
            cases.append((b, 3))
    n_exh = len(cases)
    for i in range(60000 if thorough else 4000):
        cases.append((random_body(rng, 1 + rng.below(14 if i % 3 else 30), 3, 2 + rng.below(2), 1 + rng.below(3)), i % 4))
    for i in range(60000 if thorough else 4000):
        cases.append((valid_body(rng, 2 + rng.below(16), 3, [R], [10, 10], []), i % 3))
    for i in range(40000 if thorough else 3000):
        cases.append((multi_goto_body(rng, [10, 10]), i % 4))
    reqs = [requests(b, v) for (b, v) in cases]
    m = run_model([r[1] for r in reqs])
    # keep label-correct bodies only (the property is stated on those; E400/E420 gotos/labels are poisoned
    # before the variable scoper sees them)
    keep = []
    for i in range(len(cases)):
        mm = MRE.match(m[i])
        if mm and mm.group(2).strip() == "":
            keep.append(i)
    h = run_harness([reqs[i][0] for i in keep])
    dist = collections.Counter()
    agreeing = 0
    oracle_checked = 0
    nontrivial = set()
    bad = []
    for j, i in enumerate(keep):
        impl, mc, _ = observe(h[j], m[i])
        dist["verdict:" + impl[0][:8]] += 1
        for c in (mc or []):
            dist["E%d" % c] += 1
        ok = agree(impl, mc)
        why = "impl-vs-model"
        if ok and mc is not None and not any(c in (402, 422, 424) for c in mc):
            consts, params, mbody = reqs[i][3]
            skippable = path_oracle(consts, params, mbody)
            oracle_checked += 1
            dist["oracle:skippable" if skippable else "oracle:clean"] += 1
            if skippable != (482 in mc):
                ok = False
                why = "path-oracle-vs-model"
        if ok:
            agreeing += 1
        else:
            bad.append((i, why))
        s = reqs[i][1]
        if "goto" in s and "decl" in s[20:]:
            nontrivial.add(s)
    for i, why in bad[:6]:
        b, v = cases[i]

        def fails(cand):
            r = requests(cand, v)
            mm = run_model([r[1]])[0]
            g = MRE.match(mm)
            if not g or g.group(2).strip() != "":
                return False
            impl, mc, _ = observe(run_harness_serial([r[0]])[0], mm)
            if not agree(impl, mc):
                return True
            if not any(c in (402, 422, 424) for c in mc):
                return path_oracle(*r[3]) != (482 in mc)
            return False
        small = skel.shrink(b, fails)
        r = requests(small, v)
        hh = run_harness_serial([r[0]])[0]
        mm = run_model([r[1]])[0]
        rep.violation("fn:" + r[1].split("\t", 1)[1], {
            "why": why, "harness_request": r[0], "model_request": r[1], "source": r[2], "implementation": hh, "model": mm,
            "path_oracle_skippable": path_oracle(*r[3]),
            "explanation": "verdict / E402,E422,E424,E482 multiset of the real scoper differs from the model, or the "
                           "model's E482 verdict differs from the independent definite-declaration analysis of the CFG"})
    report_broken_proof(rep)
    rep.coverage.update({
        "evaluations": len(keep),
        "generated": len(cases),
        "distinct_nontrivial": len(nontrivial),
        "rule": "bodies over typed declarations (2-3 variable names, a module constant, a parameter), uses, labels, gotos, "
                "conditional gotos, blocks: all with <= %d statements over 9 atoms and blocks to depth 2 (%d), plus random "
                "bodies to 30 statements depth 3 in three function shapes; only label-correct bodies (C04 model reports "
                "nothing) are evaluated; non-trivial = has a goto and a declaration after the first; "
                "three-way: real compiler vs Lean model (code multiset) vs CFG must-declared oracle (E482 verdict)"
                % (maxn, n_exh),
        "exhaustive": True,
        "traces_validated_against_impl": agreeing,
        "path_oracle_checked": oracle_checked,
        "distribution": dict(dist),
        "samples": [reqs[i][1] for i in (keep[len(keep) // 3], keep[-1])],
    })
    return rep.finish()


if __name__ == "__main__":
    sys.exit(main())
