#!/usr/bin/env python3
"""Regenerates MANIFEST.json from the table below (one entry per claimed property)."""
import json
import os

VERIF = os.path.dirname(os.path.dirname(os.path.abspath(__file__)))

CLAIMED = {
    "C01": dict(
        text="`Types.Ty.access_path_accepted`: every access path the language allows on a variable (any sequence of [index] and .member steps through arrays, slices, structures, pointers and views of any nesting) is accepted by the typer's unification (model of analyze_assignment_steps / build_type_of_ref1 / is_like / can_be_concretization_of; the proof attempt exposed F64 before it held). Lean theorems, for every bit width at once: the LLVM instruction the generator selects for each operator "
             "(add/sub/mul, sdiv/udiv, srem/urem by signedness of the operand type, and/or/xor, shl/lshr, icmp s*/u*, "
             "neg, not, trunc/sext/zext) computes the documented result on values (`arith_sound`, `sdiv_sound`, `udiv_sound`, "
             "`cmp_sound`, ...). A source-level Lean interpreter (wrapping integers, forward gotos, block loops, auto-deref "
             "pointers, views, lengths, calls, constants) is compared with lli on the IR of type-directed random programs "
             "under random layouts (stdout and exit status). Control flow: `CF.control_flow_lowering_correct` - for every body "
             "of blocks, if/else, forward gotos, labels and looped blocks over opaque actions and oracle-driven conditions, if the "
             "source semantics (the control part of the interpreter) runs it to its end, the flow graph it is lowered to "
             "produces the same trace (any nesting, any number of jumps and iterations); tied at both ends on every run: the "
             "trace real skeleton programs print = the source semantics, and the real IR's basic blocks are bisimilar to the "
             "lowered graph; `CF.scoper_accepted_never_stuck`: a body the label-scoper model (C04) accepts never ends a run with a "
             "pending jump. Structure/word literals are checked against a Python oracle. Partial: evaluation order of "
             "expressions and address computation are not theorems.",
        note="Trusted: Lean kernel, the interpreter as the formalisation of the documented semantics (its operator layer is what "
             "the theorems speak about), the program generator's two renderings (source / S-expression), lli 14 as executor.",
        technique="Lean 4 proof (BitVec operator soundness at all widths; control-flow lowering correctness by simulation) + interpreter-vs-lli correspondence and IR-vs-model bisimulation on generated programs",
        design="§4 C01"),
    "C02": dict(
        text="Lean model of how failures travel through the tree (Error / Poisoned leaves, combining and short-circuiting "
             "resolution) with theorems: a failure with an empty error list always stems from a `Poisoned` leaf "
             "(`no_silent_failure`), every reported code comes from an Error leaf, and where errors are combined a silent "
             "failure is exactly 'poisoned without an error' (`silent_failure_iff`, `all_error_visible`). The real compiler is "
             "run through lex..generate_ir/link on all token sequences up to a small length, mutated corpus files, faulted "
             "generated programs, token soup, nesting up to depth 256 and 2-3 module sets, in worker processes that classify "
             "ok / err with codes / err with NO codes / panic (with its call site) / crash / internal error. Partial: process "
             "level behaviour (stack, LLVM aborts, hangs) is exercised, not modelled (the lexer model's totality is `Lex.lexer_total`, "
             "the parser model's `Flat.parse_total`).",
        note="Trusted: Lean kernel, harness worker classification (catch_unwind per request, dead-worker detection, panic hook "
             "recording the call site). Twelve distinct genuine defects of the pinned tree are recorded as known findings, each "
             "identified by its call site (source text of the panic location) or by a causal input class checked by "
             "neutralisation; anything else is a violation.",
        technique="Lean 4 proof (poison propagation) + fault-enumeration style correspondence with crash classification",
        design="§4 C02"),
    "C03": dict(
        text="Lean theorems about the symbol decisions of the generator (`linkage_spec`: external iff pub, main or forward "
             "declared; `callconv_spec`) and about its address computation: `Gen.Addr.variable_access_well_typed` / "
             "`parameter_access_well_typed` — for every well-formed type and every access path the typer elaborates on it "
             "(any nesting of arrays, endless arrays, slices, structures, words, pointers, views) the getelementptr / load / "
             "extractvalue instructions of `generate_storage_address` are well typed in LLVM's type system and end in a pointer "
             "to the lowered accessed type; the model of that loop is tied to the real generator instruction by instruction "
             "(operand types and constant indices read back from the IR of single-access programs). For every input the compiler ACCEPTS (generated programs: valid, without main, wasm "
             "target, with run-time UB and non-termination, split over modules; the valid corpus and its mutants) LLVM's own "
             "assembler and verifier must accept every module's IR and the linked IR, every source function must be defined "
             "and main/pub functions external. Partial: the validity of the instruction stream is decided by the LLVM tools "
             "as oracle (implementation-vs-oracle), not by a theorem, for everything but address computations.",
        note="Trusted: Lean kernel, llvm-as / opt 14 as oracle, the regex that lists source functions, the reader of probe functions (checks/addrgen.py).",
        technique="Lean 4 proof (decision logic) + LLVM assembler/verifier as independent oracle on every accepted input",
        design="§4 C03"),
    "C04": dict(
        text="Lean theorem `Labels.labels_scope_iff`: for every function body (unbounded length and nesting) the model of "
             "label_references.rs raises exactly the E400/E420 codes of a forward, positional specification; the model is tied "
             "to the current tree by an exhaustive small-scope + random differential run against the real scoper.",
        note="Trusted: Lean kernel (+propext), hand transcription of label_references.rs (checked by correspondence), harness, renderer of skeleton bodies to Penne source.",
        technique="Lean 4 proof (mutual structural induction) + model/implementation correspondence",
        design="§4 C04"),
    "C05": dict(
        text="Lean model of the statement-level variable scoper (stack, duplicate detection, goto/label pruning) with theorems "
             "for its decision logic (E402 iff unresolved, E482 iff resolved-to-pruned, duplicate iff visible on any layer) and "
             "block scoping for all bodies (`Vars.block_scoped`, `Vars.goStmt_stack`: a statement only appends to the innermost "
             "layer, a block restores the stack), and `Vars.skip_detected`: in ANY state with a pending `goto l`, for ANY statements "
             "in between (not containing `l:`) and after, a variable declared at that level before `l:` and used after it is "
             "reported (E482, or E422 if its declaration clashed) - by invariants preserved by every statement (`goStmt_pending`, "
             "`goStmt_fresh`, `goStmt_persist`). Converse `Vars.no_false_e482`: whenever a function's analysis reports E482 its body "
             "contains, in textual order, `goto l`, the declaration of the used variable, `l:` (no other `l:` in between) and the use "
             "(the walk is a fold over the body's events, `goStmt_run`; history invariant `TInv` preserved by every event, `step_inv`). "
             "Soundness for executions, `Vars.accepted_runs_initialised`: a function on which the models of the variable scoper, the "
             "label scoper and the placement analyzer raise nothing never reaches - in any run of a goto/label/loop semantics with "
             "oracle-driven conditions, any fuel, any number of loop rounds - a statement mentioning a variable whose declaration has "
             "not been executed in the current activation of its block (`Vars.sound`: the state of the single static pass at a "
             "program point is `Good` for every run at that point; `SkipInv`/`skip_to_label` for the statements a jump goes over; "
             "`lwf_list`: a pending label cannot occur inside a block that starts meanwhile, from C04 acceptance). "
             "Both directions are also checked three-way (real compiler vs model vs an independent must-declared CFG analysis) "
             "on exhaustive small scopes and random bodies.",
        note="Trusted: Lean kernel (+propext), transcription of variable_references.rs (checked by correspondence on the code multiset "
             "{402,422,424,482}), the Python CFG oracle used for the E482 verdict, harness, renderer. Only label-correct bodies are evaluated.",
        technique="Lean 4 proof (decision logic, stack invariants, skipped-declaration completeness by mutual induction, no-false-E482 by a history invariant) + three-way model/implementation/CFG-oracle correspondence",
        design="§4 C05"),
    "C06": dict(
        text="Lean theorems `Place.placement_iff` and `Place.lint_iff`: for every statement tree the model of "
             "analyzer/syntax.rs (three mutable flags threaded exactly as in the Rust) raises exactly the E800/E801/E840 codes "
             "of a context-based placement specification, and the model of linter.rs raises L1800 exactly once per braced "
             "branch starting with `loop`; exhaustive small-scope + random differential run against the real compiler.",
        note="Trusted: Lean kernel (+propext), hand transcription of syntax.rs/linter.rs (checked by correspondence), harness, renderer. "
             "The dangling-else shape (if-else whose then-branch ends in an else-less if) is excluded from generation because its text denotes another tree.",
        technique="Lean 4 proof (mutual structural induction with flag invariants) + model/implementation correspondence",
        design="§4 C06"),
    "C07": dict(
        text="Lean theorems over the complete operator x operand-type tables (13 primitives, pointers, everything else): a "
             "binary operator or comparison is accepted only if both operand types are identical (`no_implicit_conversion`, "
             "`mismatch_is_E551`); arithmetic only on integers and char8, bitwise/shift only on fixed-width unsigned integers, "
             "negation only on signed integers, ordering never on pointers, nothing on aggregates (`op_classes`, by kernel "
             "evaluation of the whole table); `as` only between distinct primitives and never into bool (`cast_classes`); every "
             "violation is E550/E551 (`violation_rejected`). The tables are compared with the compiler exhaustively (10 binary "
             "x 169, 6 comparisons x 169 + pointers, 2 unary x 13, 169 casts), and well-typed generated programs with one "
             "type-breaking edit must be rejected with a typing code. Type agreement (what unification in the typer is made "
             "of, value_type.rs `equals` / `is_like` / `can_be_declared_as` / `can_be_concretization_of` / `can_coerce_into`, and "
             "`do_update_symbol`) is modelled over ALL types (lengths, named lengths, structure identities, inference placeholders): "
             "`Ty.conc_concrete` (a type is a concretization of a fully known type only if it is that type), "
             "`declaredAs_concrete`, `equals_iff` (equality up to the char8/u8 alias, at any depth), `coerceInto_shape` (only the "
             "documented array/slice/structure-to-slice/view coercions), `update_concrete` (two fully known types unify only when "
             "identical or by such a coercion), `update_prims`, `update_array_lengths`; the four public relations are compared "
             "with the real functions on 64 000 type pairs (all pairs to depth 1, variants, random to depth 4), and the agreement "
             "positions (initialisation, assignment, argument, return, pointers, structure-literal members, member assignment, "
             "array shapes, ragged literals) on all 13 x 13 type pairs through the compiler; `Ty.update` is compared with the "
             "real `do_update_symbol` (guarded hook `verif_update_symbol`) on 130 000 (type, type, flags) requests. Partial: how the "
             "typer walks a program and which pairs it unifies is not modelled (covered by the agreement-position programs).",
        note="Trusted: Lean kernel, transcription of resolver.rs tables (checked exhaustively cell by cell), the mutant generator. "
             "char8 counts as arithmetic-capable and usize is excluded from bitwise/shift, as the tables have it.",
        technique="Lean 4 proof (kernel-checked complete finite tables) + exhaustive matrix correspondence + typed mutants",
        design="§4 C07"),
    "C08": dict(
        text="Lean theorems: the mutability analysis lets a write / address-of escape the mutable-base requirement exactly "
             "when the reference passes through a pointer (`needs_outer_iff`, `write_rejected_iff`); and the frame property of "
             "a core calculus of calls with by-value and pointer parameters: in every statically accepted program, for every "
             "nesting of calls, a function changes among pre-existing cells only its own mutable locals and the targets of "
             "its pointers (`frame`), hence a call changes a caller's cell only if the caller passed its address "
             "(`call_changes_only_addressed`). Generated callers print their variables before and after calls to callees "
             "that write or read through every parameter kind (pointer, value, slice pointer, array view, struct pointer, "
             "struct view, forwarded pointer, aliasing pointer variable): compared with the Lean interpreter and with the "
             "static prediction; the rule table (E530, E531-E533, E513) is compared with the compiler; a copy matrix (every "
             "aggregate in every copying position, index computed by a literal / variable / call) and the forwarding and address "
             "matrices run through the compiler. `Ty.autoderef_takes_no_address` (Types/Agree.lean, model of "
             "`can_autoderef_into`, compared with the real function on 70 000 type pairs): whatever a reference may implicitly be "
             "read as, every pointer in the result comes from a pointer in its own type - no address is taken without `&`. Partial: in the "
             "calculus arrays/structs are single cells; element/member paths are covered by the interpreter runs only.",
        note="Trusted: Lean kernel, transcription of needs_outer_mutability (checked by the rule table), the calculus as an "
             "abstraction of the call semantics (its executable semantics is not itself compared with the compiler; the "
             "interpreter of C01 is), lli.",
        technique="Lean 4 proof (frame property by induction on fuel over a call calculus) + before/after correspondence",
        design="§4 C08"),
    "C09": dict(
        text="Lean theorems: the value the lexer computes for the standard base-2/10/16 numeral of every n < 2^128 is n "
             "(`decimal_roundtrip`, `hex_roundtrip`, `bin_roundtrip`, with the C14 lemmas for every `_` placement and suffix), "
             "n >= 2^128 is E140 (`decimal_too_big`), unary minus folds into decimal literals 1..2^127-1 (`minus_fold`), the "
             "range lint fires iff the value is outside the type's range (`lint_iff_out_of_range`), in-range literals are "
             "materialised exactly for all 11 integer types (`materialise_exact`). The stage-by-stage model is compared with the "
             "real compiler end to end (printed run-time values through lli, E140/E141/E16x codes, L1142). Escape decoding of "
             "string/char literals: `Lex.string_literal_exact` / `char_literal_exact` (Props/C14) - every item between the quotes "
             "(`QItem`: what a printable character, a simple escape, `\\xHH`, `\\u{..}`, a raw non-ASCII character means) yields "
             "exactly its bytes, for any sequence of items.",
        note="Trusted: Lean kernel, transcription of lexer/parser/linter/generator literal arms (checked by end-to-end correspondence), "
             "`print!` and lli as the observation channel (print! stops at NUL: string content is compared up to the first NUL, "
             "length exactly). Minus is only generated in front of decimal spellings (in front of 0x/0b it is an operator on an "
             "unsigned bit pattern). F1 (usize mask) fixed; F2 (i128 minimum lint) known.",
        technique="Lean 4 proof (numeral round trips, range/materialisation arithmetic by omega) + end-to-end correspondence",
        design="§4 C09"),
    "C10": dict(
        text="Lean layout model of what `|:T|` yields, with theorems for all types/lists: |:[N]T| = N * |:T|, every size is "
             "a multiple of its alignment (array stride = element size), structure size >= sum of members, is padded to the "
             "structure's alignment and by less than one alignment unit, and the typer's own word-size algorithm equals the "
             "generated layout for every list of primitive word members (`word_layout_agree`, `word_fits`). const-vs-var "
             "evaluation and |x| through every passing mode are checked end to end against the single Lean evaluator. "
             "Partial: LLVM's constant folder is not modelled; its agreement with run-time evaluation is correspondence only.",
        note="Trusted: Lean kernel, the layout model's tie to LLVM's data layout (checked by printing |:T| for random structures), "
             "the interpreter (C01), lli.",
        technique="Lean 4 proof (layout arithmetic, two-algorithm agreement) + end-to-end correspondence",
        design="§4 C10"),
    "C11": dict(
        text="Lean theorems: the incremental container bookkeeping of the scoper reports a cyclical constant/structure "
             "exactly when the by-value dependency graph has a cycle, for every edge list and hence independently of the "
             "order of declarations (`cycle_detected`, `cycle_perm_invariant`, via the invariant contained_ids = reachability); "
             "in a well-formed type no void/slice/slice-pointer/view hides at any nesting depth (`wellformed_inside`); accepted "
             "`extern` signature types consist of ABI primitives under pointers/views/array views at every depth "
             "(`extern_abi`). The legality model is compared with the compiler on every type (9 leaves x 7 constructors, "
             "depth 2 quick / 3 thorough) in 8 declaration positions, random dependency graphs against two independent cycle "
             "checks, generated programs under random permutations of their declarations, and fixed duplicate / word-size / "
             "non-constant-length cases. Behaviour: `Sem.function_order_irrelevant` - permuting the functions of a program leaves the source interpreter's result unchanged at every fuel (the interpreter reaches the list only through lookups by name). Partial: the order of constants and structures (dependency ordering of the compiler) is exercised through permutations of generated programs, not proved at the level of behaviour.",
        note="Trusted: Lean kernel, transcription of value_type.rs / typer.rs legality and of found_container_1 (checked "
             "exhaustively / on random graphs), the interpreter (C01). Two panics were found here and fixed in /repo "
             "(nested array-likes in extern signatures; pointer to a cyclical structure).",
        technique="Lean 4 proof (reachability invariant of an incremental closure; structural induction on types) + exhaustive type/position and random-graph correspondence",
        design="§4 C11"),
    "C12": dict(
        text="Lean model of import expansion with theorems for every module set and every processing order of the import "
             "pairs (the Rust iterates a HashSet): a module gains exactly the exports of the modules it imports directly — "
             "`pub` items, flag cleared, functions as heads — never private or transitively imported items "
             "(`export_exact`, `export_export`), and two processing orders give every module the same declarations up to "
             "the order of the spliced block (`order_irrelevant`). Generated programs split at random over 2-4 files are run "
             "in every file order and compared with the single-file program; removing a needed `pub` or import must be "
             "rejected exactly when the model says a reference stops resolving; unrelated modules through one Compiler must "
             "get the IR they get alone. Partial: 'behaves exactly like the single-file program' is exercised, not proved.",
        note="Trusted: Lean kernel, transcription of expander.rs (checked through the visibility predictions), the interpreter "
             "(C01), the partitioning renderer, lli. F5 (stale intrinsic cache across modules) was found here and fixed.",
        technique="Lean 4 proof (order-independent refinement of the splice loop) + partition/permutation correspondence",
        design="§4 C12"),
    "C13": dict(
        text="Lean theorems: every code the compiler can emit is in the published catalogue except the eight codes of "
             "finding F8 — proved by kernel evaluation over tables REGENERATED on every run from error.rs and docs/errors.md "
             "(`codes_documented`), so a new undocumented code or a removed section breaks the proof; the diagnostic order is a "
             "stable key sort: a permutation in key order (`sorted_perm`, `sorted_ordered`), independent of arrival order when "
             "keys are distinct (`sorted_perm_invariant`), stable otherwise (`sorted_stable`). Every diagnostic of thousands "
             "of failing inputs is checked for catalogue membership, a primary location inside a named input file and on the "
             "reported line, and rendering in all colour/charset configurations; samples are re-run in fresh processes and "
             "must give identical diagnostics and IR text (per module and linked). Partial: span arithmetic of the lexer/parser "
             "is checked through the C14 reference lexer and this correspondence, not by a theorem; ariadne is trusted.",
        note="Trusted: Lean kernel, the regex translator that extracts the two code tables, the harness reading the primary "
             "location through the cfg(penne_verif) hook, ariadne. F4 (CRLF span drift) and F6 (HashSet splice order) were "
             "found and fixed; F8 (undocumented codes) is a known finding.",
        technique="Lean 4 proof over regenerated tables (translator) + sort refinement + diagnostic-location correspondence",
        design="§4 C13"),
    "C14": dict(
        text="Lean reference lexer (alpha's lexer arm by arm) with theorems: every fixed spelling (punctuation, keywords, type "
             "names: complete table) and every integer literal spelling (decimal / 0x / 0b, any `_` separator placement, any "
             "of the 11 suffixes, any value) followed by a non-extending character is cut off as exactly that token with "
             "exactly its characters as span at any line/column/offset; 129-bit literals give E140. Both real lexers are "
             "compared with the reference on all strings of length <= 3 over a 48-character alphabet and random token "
             "sequences. Whole statement: `Lex.lex_source_of_tokens` - ANY source made of lines (ended by LF or CRLF) of tokens in "
             "legal spellings (`LexemeP`: all integer spellings, identifiers, builtins, keywords/type names, punctuation, plain "
             "string/char literals), with any indentation, any blanks between them - or none where the next character cannot "
             "extend the token (`Item.after`) - and an optional `//` comment, lexes to exactly those tokens, on the right lines, "
             "each spanning exactly its characters (`lex_line_of_tokens`, `lexLineAux_sequence` by induction over the line). "
             "String/char literals with escapes (`string_literal_exact`, `char_literal_exact`): any run of printable characters, simple "
             "escapes, `\\xHH`, `\\u{..}` and raw non-ASCII characters is the token holding exactly the bytes those items stand for. "
             "Totality (`lexer_total`): every step on a non-empty rest consumes a character or ends the line, so the fuel of lex_line "
             "is never exhausted on any input. Partial: the error side (which code an ILLEGAL lexeme gets) is covered for number "
             "overflow by theorem and otherwise by correspondence only.",
        note="Trusted: Lean kernel (propext, Quot.sound, Classical.choice at most), transcription of alpha/lexer.rs (checked exactly, "
             "incl. spans, by correspondence), harness token dump of both real lexers. Delta is compared on kinds/payloads/suffix "
             "types/exact spans of proper tokens and on code+line of error tokens; seven divergence classes are known findings "
             "(F9a-g) and are excluded from the delta comparison by syntactic class, each probed on every run.",
        technique="Lean 4 proof (scanner lemmas, kernel-checked complete tables, whole-source composition theorem) + three-way lexer correspondence",
        design="§4 C14"),
    "C15": dict(
        text="The second-generation parser is written as data (an action language: take / branch on token / push nodes / call / "
             "fail; one nonterminal per function or loop of parser.rs) with an interpreter. A checker walks the table once and "
             "a generic soundness theorem lifts its verdict to every run: for EVERY list of token kinds (valid or not) the parser "
             "pushes at most 4*tokens+6 nodes (potential argument; the pinned capacity 5+2*tokens is refuted by a kernel-evaluated "
             "valid module, and was the cause of a panic on a repo test sample — fixed), and the cursor stays inside the token "
             "array (a taken EndOfSource fails at once), and the model never runs out of fuel (`parse_total`: every call follows a "
             "consumed token or goes to a smaller rank, so six stack frames per token position suffice — the termination "
             "argument of the recursive descent). Tie: on every input the real lexer accepts, the exact sequence of node "
             "variants in the real buffer (also after errors), declaration count and error codes must equal the model's. "
             "Totality / memory safety at run time is exercised, not proved: isolated workers run lex->parse->errors/"
             "build_header/as_xml on random bytes, mutated corpus, token soup, all token sequences up to length 2 (3 thorough), "
             "density extremes, token-limit excess (E103). Partial: the lexer's buffer bookkeeping is not a theorem; the stack "
             "depth the termination theorem bounds is unbounded in bytes (F26); no sanitizer is used (not part of this technique).",
        note="Trusted: Lean kernel, the hand-written table (tied by the node-sequence comparison), Debug formatting of ParseNode, "
             "harness. Known finding F26: stack exhaustion on bracket nesting >= 2000 (no recursion limit).",
        technique="Lean 4 proof by reflection (checked table + generic soundness, all token lists) + node-sequence correspondence + crash-classifying fuzz",
        design="§4 C15"),
    "C16": dict(
        text="A Lean reference parser (tree-building recursive descent mirroring parser.rs) and token-level printer; theorems "
             "`parse_print_module` and its layers (types, expressions at every precedence level, statements, declarations): printing "
             "any tree the parser can produce and parsing the tokens gives the tree back (all sizes; only `&x .. n` left out). Tie, four ways: for syntax-directed generated modules covering every "
             "production (random literal spellings, shorthand, trailing commas, layouts, comments) and every corpus file the first "
             "generation accepts, the tree decoded from the second-generation XML dump (balanced, MALFORMED-free), the "
             "first-generation AST, the Lean parser's tree of the REAL token stream and the generator's own tree must be "
             "identical canonical S-expressions. Flat layout: `Layout.encModuleR` lays a module out as the parser pushes it (variants, "
             "absolute node ids in Item/List/ListItem/ThenElse/If/Block/FunctionImpl, private-zone markers and their in-place patch) "
             "and is compared with the real node array and declaration roots of every module on every run; `Layout.readDecl` follows "
             "print_xml (node + 5-node context window + stored ids); theorem `flat_tree_faithful`: for every module reading the buffer "
             "at the declaration roots gives the declarations back (all sizes/nestings), hence `flat_tree_injective`.",
        note="Trusted: Lean kernel, checks/xmltree.py (XML -> tree, string-literal decoding), harness AST serialiser, generator. "
             "Normalisations stated in DESIGN: the first generation folds `-literal`, treats `return:` as a label, keeps `foo!` names.",
        technique="Lean 4 proof (parser/printer round trip; flat-layout encode/read-back) + four-way tree and node-array correspondence on generated and corpus modules",
        design="§4 C16"),
    "C17": dict(
        text="Lean model of the flat node array and of build_header_nodes (skip private zones, stop at the endless zone, "
             "rebase references by the number of skipped nodes, clear the pub flag) with a refinement theorem: for every module "
             "laid out as alternating public and private segments at any base offset, the header of the concrete array is the "
             "layout of the public segments alone (nothing private, references rebased, flags cleared) — all sizes, by induction. "
             "Tie: the real node array of each generated module is abstracted and fed to the model, whose header must equal the "
             "real header node for node; plus the header's XML must equal the real parser's XML of the module restricted to its "
             "public declarations; exhaustive over every interleaving of 5 declaration kinds x pub/private up to 3 (4, 5 sampled).",
        note="Trusted: Lean kernel, the Debug-dump abstraction of ParseNode (every variant carrying a NodeId is a `ref`), the "
             "parser's placement of private-zone markers (checked only through the XML metamorphic comparison), harness. The "
             "unsafe set_len bookkeeping is not modelled (the model is a list, not spare capacity).",
        technique="Lean 4 proof (refinement to a layout spec) + node-array correspondence + metamorphic XML comparison",
        design="§4 C17"),
    "C18": dict(
        text="Lean model of the tool's decision logic with theorems: backend = flag, else environment, else config, else "
             "default (`backend_precedence`); exit status 0 iff compilation succeeded and (emit | run with a normally exiting "
             "interpreter | build with backend status 0) (`exit_zero_iff`); a failed compilation never spawns a backend; `run` "
             "shows exactly the program's status; --silent/--verbose gating. The real binary, built from the current tree, is "
             "run on valid/invalid single- and multi-file inputs with stub backends that log argv and exit with chosen "
             "statuses / die by signal, and with the real lli; exit status, chosen backend, `Output: n`, pass-through of "
             "program output, rendered diagnostics honouring --color=never/--arrows=ascii and .pn.ll files are compared with "
             "the model. Partial: clap parsing, process spawning and ariadne rendering are outside the model.",
        note="Trusted: Lean kernel, the transcription of main.rs decision points (checked by correspondence), the stub backends, "
             "the OS. `penne run` exits 0 whenever the interpreter exited normally (the status is shown, not propagated).",
        technique="Lean 4 proof (decision logic stated outright) + black-box correspondence with the real binary",
        design="§4 C18"),
    "C19": dict(
        text="Lean theorems over the fuzzer's unbounded payloads: for every u128 value the spellings the fuzzer formats "
             "(`to_string`, `{:x}`, `{:X}`, `{:b}`), bare and with each of the eleven suffixes, followed by a non-extending "
             "character are lexed as proper tokens of exactly that value; the fixed spellings are a complete kernel-checked "
             "table; the size bound follows from the loop condition. Real outputs (exactly as `penne fuzz tokens` produces "
             "them) are lexed by both real lexers and the reference lexer and every lexeme is matched against the shapes the "
             "theorems cover. Composition: `Lex.fuzz_output_no_lexical_error` - text assembled as fill_to_capacity_with_tokens "
             "assembles it (`emit`: any blanks, the extra space of add_space_if_necessary before a word-like piece after an "
             "identifier character, the piece; optional `//` comment; lines ended by LF or CRLF) from ANY pieces the fuzzer can "
             "draw - identifier-shaped words, every number spelling with every suffix, builtins, punctuation (glued or not: "
             "`<` `<` is `<<`, `x` `!=` is `x!` `=`, `/` `//` a comment), string and character literals made of printable "
             "characters, simple escapes, `\\xHH`, `\\u{..}`, raw non-ASCII - lexes without a single error token in the reference "
             "lexer (closure `Safe` under lexStep; `emit_safe2` by induction over the pieces). Every line of every real output is "
             "recognised as a member of that language on every run. Partial: the theorem is about the reference lexer; the real "
             "lexers are tied to it by correspondence (C14), the delta lexer only up to its known divergences.",
        note="Trusted: Lean kernel, the reference lexer's tie to both real lexers (C14 run), the shape regexes used as membership "
             "certificate, the harness calling fill_to_capacity_with_tokens with the CLI's arguments. Randomness comes from the "
             "generator's own thread RNG (not seedable without a hook): the replay of a failure is the output text itself.",
        technique="Lean 4 proof (per-piece for all payloads; whole-output composition over the emission model) + certificate-checked correspondence on real fuzzer outputs",
        design="§4 C19"),
    "C20": dict(
        text="Lean model of the rebuilder at token level (one printing arm per node kind) and of the parser; theorems "
             "`parse_print_module`: parseModule (printModule m) = m.map norm for EVERY module the parser can produce (any number of "
             "declarations, statements, nesting, expression size; only the pointer-advance operator left out), where norm only "
             "re-spells literals; `print_norm_module`: printing the reparsed module gives the same tokens (second rebuild identical). Tie: for generated modules without builtin calls and every corpus file that parses error-free: "
             "parse -> rebuild -> parse gives the same first-generation AST up to literal suffix/spelling, the second rebuild is "
             "byte-identical, and the tokens of the rebuilt text equal the Lean printer's tokens for the Lean parser's tree of the "
             "source's real token stream. Known findings: #-markers on structure types (F27/F28), declaration-less modules (F34).",
        note="Trusted: Lean kernel, harness (rebuild + AST serialiser), marker stripping regexes, token comparison up to literal "
             "spelling. Layout (indentation, line breaks) is not modelled: tokens only.",
        technique="Lean 4 proof (printer/parser round trip) + rebuild/reparse correspondence with the real rebuilder and parsers",
        design="§4 C20"),
}

NOT_APPLICABLE = {}

ALL = ["C%02d" % i for i in range(1, 21)]


def main():
    checks = []
    for pid in ALL:
        if pid not in CLAIMED:
            continue
        c = CLAIMED[pid]
        checks.append({
            "property_id": pid,
            "quick_cmd": "bin/check %s --tier quick" % pid,
            "thorough_cmd": "bin/check %s --tier thorough" % pid,
            "evidence_file": "/verif/evidence/%s.json" % pid,
            "replay_cmd_template": "bin/check %s --replay {path}" % pid,
            "engine": "lean-model+harness",
            "level_claimed": {"category": "proof", "text": c["text"], "design_ref": c["design"]},
            "level_note": c["note"],
            "technique": c["technique"],
        })
    na = []
    for pid in ALL:
        if pid in CLAIMED:
            continue
        na.append({"property_id": pid, "reason": NOT_APPLICABLE.get(
            pid, "not yet claimed: the Lean model and correspondence check for this property are still being built (see DESIGN.md §4)")})
    m = {
        "version": 1,
        "setup_cmd": "bin/setup",
        "hooks": {
            "guard": "penne_verif",
            "enable": "RUSTFLAGS='--cfg penne_verif' (set by checks/lib.py when building harness/ against /repo)",
            "baseline_off_cmd": "cd /repo && cargo test --workspace --no-fail-fast --offline",
            "source_commits": ["34afbae", "f15b830"],
            "add_only": True,
        },
        "engines": [{
            "name": "lean-model+harness",
            "path": "/verif/lean, /verif/harness, /verif/checks",
            "serves_properties": sorted(CLAIMED.keys()),
            "kind_free_text": "Lean 4 models + theorems (lake build, #print axioms audit); Rust harness linking the real penne library from /repo; python orchestrator diffing model and implementation observations",
        }],
        "checks": checks,
        "not_applicable": na,
        "notes": "Machine-checked proof in Lean 4 about hand-written models, tied to /repo by a correspondence run on every check. See DESIGN.md.",
    }
    with open(os.path.join(VERIF, "MANIFEST.json"), "w") as f:
        json.dump(m, f, indent=1)


if __name__ == "__main__":
    main()
