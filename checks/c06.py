"""C06 — loop and if-branches only appear where the language allows them."""
import collections
from lib import *
import skel

THEOREMS = ["Place.placement_iff", "Place.lint_iff", "Place.chkStmt_spec", "Place.chkBlock_spec",
            "Place.lintStmt_spec"]
X = 0
END = 0   # the label every goto targets; it is the last statement of the function body
ATOMS = [('goto', END), ('loop',), ('use', [X]), ('label', 1)]


def open_if(s):
    if s[0] == 'if':
        return True
    if s[0] == 'ife':
        return open_if(s[3])
    return False


def enum_trees(maxn):
    """all statement lists with total node count <= maxn"""
    smemo, lmemo = {}, {}

    def stmts(k):
        if k in smemo:
            return smemo[k]
        res = []
        if k == 1:
            res.extend(ATOMS)
        if k >= 1:
            for lst in lists(k - 1):
                res.append(('block', lst))
        if k >= 2:
            for t in stmts(k - 1):
                res.append(('if', [X], t))
        if k >= 3:
            for a in range(1, k - 1):
                for t in stmts(a):
                    if open_if(t):
                        continue
                    for e in stmts(k - 1 - a):
                        res.append(('ife', [X], t, e))
        smemo[k] = res
        return res

    def lists(m):
        if m in lmemo:
            return lmemo[m]
        res = []
        if m == 0:
            res.append([])
        for fs in range(1, m + 1):
            for f in stmts(fs):
                for r in lists(m - fs):
                    res.append([f] + r)
        lmemo[m] = res
        return res
    out = []
    for n in range(0, maxn + 1):
        out.extend(lists(n))
    return out


def random_stmt(rng, n, depth):
    r = rng.below(100)
    if depth <= 0 or n <= 1 or r < 35:
        return rng.pick(ATOMS)
    if r < 60:
        return ('block', random_list(rng, rng.below(min(n, 6)), depth - 1))
    if r < 78:
        return ('if', [X], random_stmt(rng, n - 1, depth - 1))
    for _ in range(10):
        t = random_stmt(rng, n // 2, depth - 1)
        if not open_if(t):
            return ('ife', [X], t, random_stmt(rng, n // 2, depth - 1))
    return ('goto', END)


def random_list(rng, n, depth):
    return [random_stmt(rng, max(1, n), depth) for _ in range(n)]


def relabel(ss, counter):
    """give every label statement a fresh name (labels are not the subject here)"""
    out = []
    for s in ss:
        k = s[0]
        if k == 'label':
            counter[0] += 1
            out.append(('label', counter[0]))
        elif k == 'block':
            out.append(('block', relabel(s[1], counter)))
        elif k == 'if':
            out.append(('if', s[1], relabel([s[2]], counter)[0]))
        elif k == 'ife':
            out.append(('ife', s[1], relabel([s[2]], counter)[0], relabel([s[3]], counter)[0]))
        else:
            out.append(s)
    return out


def requests(body):
    body = relabel(body, [0])
    full = [('decl', X, [])] + body + [('label', END)]
    src = skel.render_fn(body + [('label', END)], prelude=[('decl', X, [])])
    return "alpha\tcheck\tf.pn\t" + esc(src), "C06\t" + skel.body_sexp(full), src


MRE = re.compile(r"codes=([0-9 ]*) spec=([0-9 ]*) lints=([0-9 ]*) speclints=([0-9 ]*)$")


def observe(h_ans, m_ans):
    hh, hd = kv(h_ans)
    if hh == "ok":
        impl = ("ok", [], codes_of(hd, "lints"))
    elif hh == "err":
        impl = ("err", codes_of(hd), None)
    else:
        impl = (h_ans[:200], [], None)
    mm = MRE.match(m_ans)
    if not mm:
        return impl, None
    g = [sorted(int(x) for x in mm.group(i).split()) for i in range(1, 5)]
    return impl, g


def agree(impl, g):
    if g is None:
        return False
    mc, sc, ml, sl = g
    if mc != sc or ml != sl:
        return False
    if impl[0] == "ok":
        return mc == [] and impl[2] == ml
    if impl[0] == "err":
        return impl[1] == mc
    return False


def main():
    rep = Reporter("C06")
    if not setup_common(rep, THEOREMS):
        return rep.finish()
    rng = SplitMix64(rep.seed).fork("C06")
    thorough = rep.tier == "thorough"
    bodies = enum_trees(6 if thorough else 5)
    n_exh = len(bodies)
    for i in range(40000 if thorough else 3000):
        bodies.append(random_list(rng, 1 + rng.below(8), 4))
    reqs = [requests(b) for b in bodies]
    h = run_harness([r[0] for r in reqs])
    m = run_model([r[1] for r in reqs])
    dist = collections.Counter()
    agreeing = 0
    nontrivial = set()
    bad = []
    for i, b in enumerate(bodies):
        impl, g = observe(h[i], m[i])
        dist["verdict:" + impl[0][:8]] += 1
        if g:
            for c in g[0]:
                dist["E%d" % c] += 1
            if impl[0] == "ok":
                for c in g[2]:
                    dist["L%d" % c] += 1
        if agree(impl, g):
            agreeing += 1
        else:
            bad.append(i)
        s = reqs[i][1]
        if "loop" in s or "(if" in s:
            nontrivial.add(s)
    for i in bad[:8]:
        def fails(cand):
            r = requests(cand)
            impl, g = observe(run_harness_serial([r[0]])[0], run_model([r[1]])[0])
            return not agree(impl, g)
        small = skel.shrink(bodies[i], fails)
        r = requests(small)
        hh = run_harness_serial([r[0]])[0]
        mm = run_model([r[1]])[0]
        rep.violation("body:" + skel.body_sexp(relabel(small, [0])), {
            "harness_request": r[0], "model_request": r[1], "source": r[2], "implementation": hh, "model": mm,
            "explanation": "the compiler's E800/E801/E840 multiset (or, when accepted, its L1800 lints) differs from the "
                           "context-based placement specification, which the model provably equals"})
    report_broken_proof(rep)
    rep.coverage.update({
        "evaluations": len(bodies),
        "distinct_nontrivial": len(nontrivial),
        "rule": "all statement trees over {goto, loop, assignment, label, block, if, if-else} with <= %d nodes "
                "(exhaustive: %d; if-else whose then-branch ends in an else-less if is excluded: its source text "
                "denotes another tree), plus %d random trees to depth 4; non-trivial = contains a loop or an if"
                % (6 if thorough else 5, n_exh, len(bodies) - n_exh),
        "exhaustive": True,
        "traces_validated_against_impl": agreeing,
        "distribution": dict(dist),
        "samples": [reqs[i][1] for i in (n_exh // 2, n_exh + 1, len(bodies) - 1)],
    })
    return rep.finish()


if __name__ == "__main__":
    sys.exit(main())
