"""C11 — top-level declarations are order-independent and must be well-formed."""
import collections
from lib import *
import progen
import runlib

THEOREMS = ["Sem.function_order_irrelevant", "Sem.interp_congr", "Types.wellformed_inside", "Types.accepted_positions_wellformed", "Types.variable_types", "Types.extern_abi",
            "Order.cycle_detected", "Order.cycle_perm_invariant", "Order.reach_snoc", "Order.foundContainer_step"]

LEAFS = ["void", "i32", "u8", "i128", "bool", "char8", "usize", "struct", "word"]
CONS = [("pointer", "&%s"), ("view", "(%s)"), ("slice", "[:]%s"), ("endless", "[..]%s"), ("arraylike", "[]%s"),
        ("array", "[3]%s"), ("arrayN", "[N]%s")]
POS = ["variable", "parameter", "returned", "structMember", "wordMember", "externParameter", "externReturned", "constant"]
PRE = "const N: usize = 2;\nstruct S\n{\n\ta: i32,\n}\nword32 W\n{\n\ta: u16,\n}\n"


def leaf_src(l):
    return {"struct": "S", "word": "W"}.get(l, l)


def types(depth):
    cur = [(l, leaf_src(l)) for l in LEAFS]
    out = list(cur)
    for _ in range(depth):
        nxt = []
        for (sx, src) in cur:
            for (c, fmt) in CONS:
                nxt.append(("(%s %s)" % ("array" if c == "arrayN" else c, sx), fmt % src))
        out += nxt
        cur = nxt
    return out


def type_program(pos, tsrc):
    if pos == "variable":
        return PRE + "fn main()\n{\n\tvar x: %s;\n}\n" % tsrc
    if pos == "parameter":
        return PRE + "fn f(x: %s)\n{\n}\n" % tsrc
    if pos == "returned":
        return PRE + "fn f() -> %s;\n" % tsrc
    if pos == "structMember":
        return PRE + "struct T\n{\n\tm: %s,\n}\n" % tsrc
    if pos == "wordMember":
        return PRE + "word128 T\n{\n\tm: %s,\n}\n" % tsrc
    if pos == "externParameter":
        return PRE + "extern fn f(x: %s);\n" % tsrc
    if pos == "externReturned":
        return PRE + "extern fn f() -> %s;\n" % tsrc
    return PRE + "const X: %s = 1;\n" % tsrc


def graph_case(rng):
    """random dependency graph of constants (usize) and structures; returns (source, ids, edges in analysis order)"""
    n = 2 + rng.below(7)
    kinds = [rng.pick(["const", "struct"]) for _ in range(n)]
    # mostly acyclic (edges to higher ids), sometimes a back edge
    deps = []
    for i in range(n):
        ds = []
        for j in range(n):
            if i == j:
                if rng.chance(1, 40):
                    ds.append((j, "val"))
                continue
            p = 5 if j > i else 40
            if rng.chance(1, p):
                ds.append((j, "ptr" if (kinds[i] == "struct" and kinds[j] == "struct" and rng.chance(1, 3)) else "val"))
        deps.append(ds)
    order = list(range(n))
    for i in range(n - 1, 0, -1):
        j = rng.below(i + 1)
        order[i], order[j] = order[j], order[i]
    out = []
    edges = []
    for i in order:
        if kinds[i] == "const":
            terms = []
            for (j, how) in deps[i]:
                if kinds[j] == "const":
                    terms.append("C%d" % j)
                    edges.append((i, j))
                else:
                    terms.append("|:S%d|" % j)
                    edges.append((i, j))
            out.append("const C%d: usize = %s;" % (i, " + ".join(terms + ["1"])))
        else:
            out.append("struct S%d" % i)
            out.append("{")
            for k, (j, how) in enumerate(deps[i]):
                if kinds[j] == "struct":
                    if how == "ptr":
                        out.append("\tm%d: &S%d," % (k, j))
                    else:
                        out.append("\tm%d: %sS%d," % (k, rng.pick(["", "[2]"]), j))
                        edges.append((i, j))
                else:
                    # a named length is a dependency also behind a pointer (the constant must be resolved first)
                    out.append("\tm%d: %s[C%d]u8," % (k, rng.pick(["", "", "&", "&&", "[2]&", "&[2]"]), j))
                    edges.append((i, j))
            out.append("\tz: u8,")
            out.append("}")
    return "\n".join(out) + "\n", list(range(n)), edges


def ring_cases(rng, thorough):
    """dependency rings of length 2..6 (structures, or constants and structures alternating through `|:S|` and `[C]u8`),
    optionally with a tail hanging off the ring, in every declaration order (sampled above length 4); returns
    (source, ids, edges in declaration order) like graph_case"""
    import itertools
    out = []
    for n in range(2, 7):
        perms = list(itertools.permutations(range(n)))
        if n > 4:
            perms = [perms[rng.below(len(perms))] for _ in range(300 if thorough else 40)]
        for mixed in (False, True):
            if mixed and n < 2:
                continue
            for order in perms:
                kinds = ["struct" if (not mixed or i % 2 == 0) else "const" for i in range(n)]
                lines = []
                edges = []
                for i in order:
                    j = (i + 1) % n
                    if kinds[i] == "const":
                        target = "|:S%d|" % j if kinds[j] == "struct" else "C%d" % j
                        lines.append("const C%d: usize = %s + 1;" % (i, target))
                    else:
                        member = "S%d" % j if kinds[j] == "struct" else "[C%d]u8" % j
                        lines.append("struct S%d\n{\n\tm: %s,\n\tz: u8,\n}" % (i, member))
                    edges.append((i, j))
                out.append(("\n".join(lines) + "\n", list(range(n)), edges))
    return out


DUPS = [
    (421, "fn f()\n{\n}\nfn f()\n{\n}\n"),
    (421, "fn f(x: i32);\nfn g()\n{\n}\nfn f()\n{\n}\n"),
    (423, "const A: i32 = 1;\nconst B: i32 = 2;\nconst A: i32 = 3;\n"),
    (425, "struct S\n{\n\ta: i32,\n}\nstruct S\n{\n\tb: u8,\n}\n"),
    (425, "struct S\n{\n\ta: i32,\n}\nword32 S\n{\n\tb: u8,\n}\n"),
    (426, "struct S\n{\n\ta: i32,\n\tb: u8,\n\ta: i32,\n}\n"),
    (424, "fn f(a: i32, b: u8, a: i32)\n{\n}\n"),
    (424, "const K: i32 = 1;\nfn f(K: i32)\n{\n}\n"),
    (422, "const K: i32 = 1;\nfn f()\n{\n\tvar K: i32 = 2;\n}\n"),
    (380, "word16 W\n{\n\ta: u16,\n\tb: u8,\n}\n"),
    (380, "word8 W\n{\n\ta: u8,\n\tb: u8,\n}\n"),
    (380, "word64 W\n{\n\ta: u8,\n\tb: u64,\n}\n"),
    (433, "fn f()\n{\n\tvar n: usize = 3;\n\tvar a: [n]u8;\n}\n"),
    (433, "fn f(n: usize)\n{\n\tvar a: [n]u8;\n}\n"),
    (0, "word64 W\n{\n\ta: u8,\n\tb: u32,\n}\n"),
    # a member is not a duplicate of a constant, a function or a member of another structure with the same name (F61)
    (0, "const x: i32 = 1;\nstruct S\n{\n\tx: i32,\n}\nfn main() -> i32\n{\n\tvar s = S { x: 5 };\n\treturn: s.x + x\n}\n"),
    (0, "struct S\n{\n\tx: i32,\n}\nconst x: i32 = 1;\nstruct T\n{\n\tx: u8,\n\tf: i32,\n}\nfn f()\n{\n}\n"),
    (426, "const y: i32 = 1;\nstruct S\n{\n\tx: i32,\n\ty: u8,\n\tx: i32,\n}\n"),
    # an array length that does not fit usize must not wrap around (F59)
    (300, "fn f()\n{\n\tvar a: [18446744073709551617]u8;\n}\n"),
    (300, "struct S\n{\n\ta: [18446744073709551616]u8,\n}\n"),
    (300, "fn f(a: [340282366920938463463374607431768211455]u8)\n{\n}\n"),
    (0, "const A: i32 = 1;\nfn A()\n{\n}\nstruct B\n{\n\ta: i32,\n}\nfn B()\n{\n}\n"),
]


def main():
    rep = Reporter("C11")
    if not setup_common(rep, THEOREMS):
        return rep.finish()
    rng = SplitMix64(rep.seed).fork("C11")
    thorough = rep.tier == "thorough"
    dist = collections.Counter()
    agreeing = total = 0
    samples = []
    # (a) permutation invariance
    for i in range(1500 if thorough else 40):
        p = progen.Gen(rng.fork("p%d" % i)).program(size=3 + rng.below(6))
        ma = runlib.model_run([p])[0]
        mo = runlib.model_obs(ma)
        if mo[0] != "ok":
            continue
        decls = [('const', k) for k in range(len(p['consts']))] + [('fn', k) for k in range(len(p['fns']))]
        srcs = []
        perms = []
        for _ in range(5):
            o = list(decls)
            for a in range(len(o) - 1, 0, -1):
                b = rng.below(a + 1)
                o[a], o[b] = o[b], o[a]
            perms.append(o)
            srcs.append(progen.src_prog(p, progen.Layout(rng, plain=True), order=o))
        hs = runlib.impl_run(srcs)
        for o, src, ha in zip(perms, srcs, hs):
            total += 1
            if runlib.impl_obs(ha)[:3] == mo:
                agreeing += 1
                dist["perm:agree"] += 1
            else:
                rep.violation("perm:%d:%s" % (i, o), {
                    "why": "a permutation of the top-level declarations changes verdict or behaviour",
                    "source": src, "harness_request": "alpha\trun\tmain.pn\t" + esc(src),
                    "model_request": "run\t" + progen.sx_prog(p), "implementation": ha[:1200], "model": ma[:600]})
    # (b) dependency graphs
    gcases = [graph_case(rng.fork("g%d" % i)) for i in range(20000 if thorough else 400)]
    gcases += ring_cases(rng.fork("rings"), thorough)
    gm = run_model(["cycle\t(graph (ids %s) (edges %s))" % (" ".join(map(str, ids)), " ".join("(%d %d)" % e for e in edges))
                    for _, ids, edges in gcases])
    gh = run_harness(["alpha\tcheck\tg.pn\t" + esc(src) for src, _, _ in gcases])
    for (src, ids, edges), ma, ha in zip(gcases, gm, gh):
        total += 1
        hh, hd = kv(ha)
        _, md = kv("x " + ma)
        cyc = md.get("hascycle") == "1"
        model_cyc = md.get("cyclical", "") != ""
        codes = codes_of(hd) if hh == "err" else []
        ok = (model_cyc == cyc) and ((hh == "err" and any(c in (413, 415, 416) for c in codes)) if cyc else hh == "ok")
        dist["graph:" + ("cyclic" if cyc else "acyclic") + ":" + hh] += 1
        if ok:
            agreeing += 1
        else:
            rep.violation("graph:" + src[:200], {
                "why": "dependency graph %s: compiler says %s %s, incremental model says cyclical=%s" % (
                    "has a cycle" if cyc else "is acyclic", hh, codes, md.get("cyclical")),
                "source": src, "harness_request": "alpha\tcheck\tg.pn\t" + esc(src), "model": ma, "implementation": ha[:400]})
    samples.append(gcases[0][0][:500])
    # (c) every type up to nesting depth d in every position
    ts = types(3 if thorough else 2)
    cells = [(pos, sx, src) for (sx, src) in ts for pos in POS]
    cm = run_model(["legal\t(legal %s %s)" % (pos, sx) for (pos, sx, src) in cells])
    ch = run_harness(["alpha\tcheck\tt.pn\t" + esc(type_program(pos, src)) for (pos, sx, src) in cells])
    for (pos, sx, src), ma, ha in zip(cells, cm, ch):
        total += 1
        hh, hd = kv(ha)
        codes = codes_of(hd) if hh == "err" else []
        exp = int(ma) if ma.isdigit() else -1
        if pos == "constant":
            ok = (exp in codes) if exp else not any(c in codes for c in (350, 353, 358))
        else:
            ok = (hh == "ok") if exp == 0 else (exp in codes)
        dist["type:%s:%s" % (pos, "E%d" % exp if exp else "ok")] += 1
        if ok:
            agreeing += 1
        else:
            rep.violation("type:%s:%s" % (pos, src), {
                "why": "type `%s` in position %s: model expects %s, compiler says %s %s" % (src, pos, "E%d" % exp if exp else "acceptance", hh, codes),
                "source": type_program(pos, src), "harness_request": "alpha\tcheck\tt.pn\t" + esc(type_program(pos, src)),
                "model_request": "legal\t(legal %s %s)" % (pos, sx), "implementation": ha[:400]})
    # (d) duplicates, word sizes, non-constant lengths
    dh = run_harness(["alpha\tcheck\td.pn\t" + esc(src) for _, src in DUPS])
    for (code, src), ha in zip(DUPS, dh):
        total += 1
        hh, hd = kv(ha)
        codes = codes_of(hd) if hh == "err" else []
        ok = (hh == "ok") if code == 0 else (code in codes)
        dist["fixed:%s" % ("E%d" % code if code else "ok")] += 1
        if ok:
            agreeing += 1
        else:
            rep.violation("fixed:" + src, {"why": "expected %s, got %s %s" % ("E%d" % code if code else "acceptance", hh, codes),
                                           "source": src, "harness_request": "alpha\tcheck\td.pn\t" + esc(src), "implementation": ha[:300]})
    # (d2) an opaque structure (`struct Op;`) has no size: it may only stand behind a pointer or as a view parameter.  By value
    #      (member, array element, variable, size query) it must be rejected like the other misplaced types; it is not (F58).
    OPAQUE_BAD = ["struct S\n{\n\tx: Op,\n}\n", "struct S\n{\n\ty: [2]Op,\n}\n", "const N: usize = |:Op|;\n",
                  "fn f()\n{\n\tvar x: Op;\n}\n", "fn f()\n{\n\tvar x: [2]Op;\n}\n", "word64 W\n{\n\tx: Op,\n}\n"]
    OPAQUE_OK = ["fn f(x: &Op)\n{\n}\n", "struct S\n{\n\tp: &Op,\n}\n", "fn f(x: Op)\n{\n}\n", "fn f()\n{\n\tvar p: &Op = 0x10;\n}\n"]
    oh = run_harness(["alpha\tir\td.pn\t" + esc("struct Op;\n" + src) for src in OPAQUE_BAD + OPAQUE_OK])
    accepted_by_value = []
    for k, (src, ha) in enumerate(zip(OPAQUE_BAD + OPAQUE_OK, oh)):
        total += 1
        hh, hd = kv(ha)
        bad = k < len(OPAQUE_BAD)
        dist["opaque:%s:%s" % ("by-value" if bad else "indirect", hh)] += 1
        if bad and not (hh == "err" and codes_of(hd)):
            accepted_by_value.append((src, ha[:120]))
        elif not bad and hh != "ok":
            rep.violation("opaque-indirect:" + src, {"why": "an opaque structure behind a pointer / as a view parameter must be accepted: " + ha[:200],
                                                     "source": "struct Op;\n" + src})
        else:
            agreeing += 1
    if accepted_by_value:
        rep.violation("c11:opaque-structure-by-value-not-rejected", {
            "why": "an opaque structure used by value is not rejected with a diagnostic (%d of %d uses)" % (len(accepted_by_value), len(OPAQUE_BAD)),
            "uses": accepted_by_value})
    # (d3) `[]T` (an array of unknown length, only meaningful as the outermost type of a parameter) nested inside an array: as
    #      a variable or member type it is accepted and laid out as if the inner `[]` were not there (F60)
    nested = ["fn f()\n{\n\tvar x: [4][]i32;\n}\n", "struct M\n{\n\tm: [4][]i32,\n\tk: i32,\n}\n"]
    nh = run_harness(["alpha\tcheck\td.pn\t" + esc(src) for src in nested])
    nested_ok = [src for src, ha in zip(nested, nh) if not (kv(ha)[0] == "err" and codes_of(kv(ha)[1]))]
    total += len(nested)
    if nested_ok:
        rep.violation("c11:arraylike-nested-in-array-not-rejected", {"why": "`[4][]i32` is accepted as a variable / member type", "uses": nested_ok})
    # (e) every word layout: declared size x every member sequence up to length 4 (3 quick) over the five member sizes,
    #     plus a nested word; rejected with E380 iff the typer's layout (model: Layout.typerWordSize) exceeds the declared size
    import itertools
    MEMBER = {1: "u8", 2: "u16", 4: "u32", 8: "u64", 16: "u128"}
    layouts = []
    for declared in (1, 2, 4, 8, 16):
        for n in range(1, (4 if thorough else 3) + 1):
            for sizes in itertools.product((1, 2, 4, 8, 16), repeat=n):
                layouts.append((declared, sizes))
    for sizes in itertools.product((1, 2, 4), repeat=4):
        layouts.append((8, sizes))
        layouts.append((16, sizes))
    wsrc = []
    for declared, sizes in layouts:
        members = "".join("\tm%d: %s,\n" % (i, MEMBER[sz]) for i, sz in enumerate(sizes))
        wsrc.append("word%d W\n{\n%s}\nfn main()\n{\n}\n" % (8 * declared, members))
    wh = run_harness(["alpha\tcheck\tw.pn\t" + esc(src) for src in wsrc])
    wm = run_model(["wordsize\t(" + " ".join(str(x) for x in sizes) + ")" for _, sizes in layouts])
    for (declared, sizes), src, ha, ma in zip(layouts, wsrc, wh, wm):
        total += 1
        hh, hd = kv(ha)
        codes = codes_of(hd) if hh == "err" else []
        exp_reject = int(ma) > declared
        got_reject = 380 in codes
        dist["word-layout:%s" % ("E380" if exp_reject else "ok")] += 1
        if exp_reject == got_reject and (hh == "ok") == (not exp_reject):
            agreeing += 1
        else:
            rep.violation("word-layout:%d:%s" % (declared, ",".join(map(str, sizes))), {
                "why": "word%d with members of sizes %s: laid out in %s bytes by the model, so %s expected; compiler says %s %s"
                       % (8 * declared, list(sizes), ma, "E380" if exp_reject else "acceptance", hh, codes),
                "source": src, "harness_request": "alpha\tcheck\tw.pn\t" + esc(src),
                "model_request": "wordsize\t(" + " ".join(str(x) for x in sizes) + ")", "implementation": ha[:300]})
    report_broken_proof(rep)
    rep.coverage.update({
        "evaluations": total, "distinct_nontrivial": total,
        "rule": "(a) generated programs under 5 random permutations of their top-level declarations (verdict, stdout, status "
                "vs the interpreter); (b) random dependency graphs (<= 8 nodes) of usize constants and structures with edges "
                "through initialisers, |:S|, array lengths, by-value members and (edge-free) pointer members, declarations in "
                "random order: rejected with E413/E415/E416 iff the by-value graph has a cycle (independent closure) and iff the "
                "incremental model reports one; (c) every type over 9 leaves x 7 constructors to nesting depth %d in 8 positions "
                "(exhaustive) vs the legality model; (d) fixed duplicate / word-size / non-constant-length cases; (e) every word "
                "declaration of 5 declared sizes x every member-size sequence up to length %d (exhaustive): E380 iff the layout "
                "model's size exceeds the declared size"
                % (3 if thorough else 2, 4 if thorough else 3),
        "exhaustive": True,
        "traces_validated_against_impl": agreeing, "distribution": dict(dist), "samples": samples,
    })
    return rep.finish()


if __name__ == "__main__":
    sys.exit(main())
