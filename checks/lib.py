"""Shared machinery of the /verif checks: builds, process pipes, diffing,
evidence, known findings, violation reporting.  Python 3 stdlib only."""

import json
import os
import re
import subprocess
import sys
import threading
import time

VERIF = os.path.dirname(os.path.dirname(os.path.abspath(__file__)))
REPO = os.environ.get("VERIF_REPO", "/repo")
LEAN = os.path.join(VERIF, "lean")
HARNESS_DIR = os.path.join(VERIF, "harness")
# VERIF_REPO / VERIF_CACHE: used only by tools/try_mutant.sh, to run the checks against a scratch copy of the repository
# (a seeded change) with its own build directories; the registered commands leave both unset
CACHE = os.environ.get("VERIF_CACHE", os.path.join(VERIF, ".cache"))
TARGET = os.path.join(CACHE, "target")
HARNESS_BIN = os.path.join(TARGET, "debug", "penne-verif-harness")
MODEL_BIN = os.path.join(LEAN, ".lake", "build", "bin", "penne-model")
NCPU = os.cpu_count() or 4

ALLOWED_AXIOMS = {"propext", "Classical.choice", "Quot.sound"}
FORBIDDEN = re.compile(
    r"\bsorry\b|\badmit\b|^\s*axiom\s|native_decide|bv_decide|implemented_by|\bunsafe\s|maxHeartbeats\s+0"
)


def log(*a):
    print(*a, file=sys.stderr, flush=True)


def env_for_cargo():
    env = dict(os.environ)
    env["PATH"] = os.path.join(VERIF, "tools", "llvm", "bin") + ":" + env.get("PATH", "")
    env["CARGO_TARGET_DIR"] = TARGET
    env["RUSTFLAGS"] = "--cfg penne_verif"
    env["CARGO_NET_OFFLINE"] = "true"
    return env


class BuildError(Exception):
    pass


def build_harness():
    """cargo build of the harness against /repo's current working tree."""
    t0 = time.time()
    lock = os.path.join(HARNESS_DIR, "Cargo.lock")
    if not os.path.exists(lock):
        import shutil
        shutil.copy(os.path.join(REPO, "Cargo.lock"), lock)
    p = subprocess.run(
        ["cargo", "build", "--offline", "--bin", "penne-verif-harness"]
        + (["--config", 'paths=["%s"]' % REPO] if REPO != "/repo" else []),
        cwd=HARNESS_DIR, env=env_for_cargo(), stdout=subprocess.PIPE, stderr=subprocess.STDOUT, text=True)
    if p.returncode != 0:
        raise BuildError("harness build failed:\n" + p.stdout[-4000:])
    return time.time() - t0


def build_penne_bin():
    """the real `penne` binary (alpha) from the current tree, for C18."""
    env = env_for_cargo()
    env["CARGO_TARGET_DIR"] = os.path.join(CACHE, "target-bin")
    env["RUSTFLAGS"] = ""
    p = subprocess.run(
        ["cargo", "build", "--offline", "--features", "alpha,llvm-sys", "--bin", "penne"],
        cwd=REPO, env=env, stdout=subprocess.PIPE, stderr=subprocess.STDOUT, text=True)
    if p.returncode != 0:
        raise BuildError("penne binary build failed:\n" + p.stdout[-4000:])
    return os.path.join(env["CARGO_TARGET_DIR"], "debug", "penne")


def strip_comments(src):
    # remove /- ... -/ (nested) and -- line comments, roughly, for the forbidden-word scan
    out = []
    i = 0
    depth = 0
    n = len(src)
    while i < n:
        if src.startswith("/-", i):
            depth += 1
            i += 2
        elif depth and src.startswith("-/", i):
            depth -= 1
            i += 2
        elif depth:
            i += 1
        elif src.startswith("--", i):
            while i < n and src[i] != "\n":
                i += 1
        else:
            out.append(src[i])
            i += 1
    return "".join(out)


def lean_sources():
    res = []
    for root, _dirs, files in os.walk(LEAN):
        if ".lake" in root:
            continue
        for f in files:
            if f.endswith(".lean"):
                res.append(os.path.join(root, f))
    return sorted(res)


def scan_forbidden():
    hits = []
    for path in lean_sources():
        if "/.audit/" in path:
            continue
        body = strip_comments(open(path).read())
        for ln, line in enumerate(body.split("\n"), 1):
            if FORBIDDEN.search(line):
                hits.append("%s: %s" % (os.path.relpath(path, LEAN), line.strip()))
    return hits


def prove(prop_id, theorems, extra_targets=(), leanchecker=False):
    """Build the property's theorem module and the driver; audit the axioms of
    every listed theorem.  Returns a dict for the evidence; raises nothing:
    failures are reported in the dict (ok=False, failed=[names])."""
    t0 = time.time()
    mod = "PenneModel.Props.%s" % prop_id
    res = {"module": mod, "theorems": list(theorems), "ok": True, "failed": [], "axioms": {},
           "checker_cmd": "cd lean && lake build %s penne-model && lake env lean .audit/%s.lean" % (mod, prop_id)}
    p = subprocess.run(["lake", "build", mod, "penne-model"] + list(extra_targets), cwd=LEAN,
                       stdout=subprocess.PIPE, stderr=subprocess.STDOUT, text=True)
    if p.returncode != 0:
        res["ok"] = False
        res["failed"] = list(theorems)
        res["build_log"] = p.stdout[-6000:]
        res["wall_s"] = time.time() - t0
        return res
    hits = scan_forbidden()
    if hits:
        res["ok"] = False
        res["forbidden"] = hits
        res["failed"] = list(theorems)
    os.makedirs(os.path.join(LEAN, ".audit"), exist_ok=True)
    audit = os.path.join(LEAN, ".audit", "%s.lean" % prop_id)
    with open(audit, "w") as f:
        f.write("import %s\n" % mod)
        for t in theorems:
            f.write("#print axioms %s\n" % t)
    p = subprocess.run(["lake", "env", "lean", audit], cwd=LEAN, stdout=subprocess.PIPE,
                       stderr=subprocess.STDOUT, text=True)
    out = p.stdout
    for t in theorems:
        m = re.search(r"'%s' depends on axioms: \[([^\]]*)\]" % re.escape(t), out, re.S)
        if m:
            axs = [a.strip() for a in m.group(1).replace("\n", " ").split(",") if a.strip()]
        elif re.search(r"'%s' does not depend on any axioms" % re.escape(t), out):
            axs = []
        else:
            res["ok"] = False
            res["failed"].append(t)
            res["axioms"][t] = "NOT FOUND: " + out[-300:]
            continue
        res["axioms"][t] = axs
        if not set(axs) <= ALLOWED_AXIOMS:
            res["ok"] = False
            res["failed"].append(t)
    if leanchecker and res["ok"]:
        p = subprocess.run(["lake", "env", "leanchecker", mod], cwd=LEAN, stdout=subprocess.PIPE,
                           stderr=subprocess.STDOUT, text=True)
        res["leanchecker_rc"] = p.returncode
        if p.returncode != 0:
            res["ok"] = False
            res["failed"] = list(theorems)
            res["leanchecker_log"] = p.stdout[-2000:]
    res["wall_s"] = time.time() - t0
    return res


def esc(s):
    """escape a text field for the harness line protocol"""
    if isinstance(s, bytes):
        return "h:" + s.hex()
    return s.replace("\\", "\\\\").replace("\t", "\\t").replace("\n", "\\n").replace("\r", "\\r")


def sexp_str(s):
    """quote a python str/bytes as an S-expression string for the model driver"""
    out = ['"']
    data = s if isinstance(s, (bytes, bytearray)) else None
    if data is not None:
        for b in data:
            out.append("\\x%02x" % b)
    else:
        for ch in s:
            o = ord(ch)
            if ch == "\\":
                out.append("\\\\")
            elif ch == '"':
                out.append('\\"')
            elif ch == "\n":
                out.append("\\n")
            elif ch == "\t":
                out.append("\\t")
            elif ch == "\r":
                out.append("\\r")
            else:
                out.append(ch)
    out.append('"')
    return "".join(out)


def _big_stack():
    import resource
    try:
        resource.setrlimit(resource.RLIMIT_STACK, (resource.RLIM_INFINITY, resource.RLIM_INFINITY))
    except (ValueError, OSError):
        pass


# a single request that keeps a line-protocol process silent for this long is a hang: the process is killed and the
# request is answered `crash rc=hang` (so that a change which makes the compiler loop is reported, not waited for)
# Once requests have hung, later ones are given less time (300, 120, 60, 30, 30, ... seconds), so that a change which
# makes many inputs loop still ends the check in minutes; only a run that already reports hangs is affected.
STALL_SECONDS = float(os.environ.get("VERIF_STALL", "300"))
_HANGS = [0]


def stall_now():
    n = _HANGS[0]
    return max(30.0, STALL_SECONDS / (1, 2.5, 5)[min(n, 2)]) if n < 3 else 30.0


def _pipe(cmd, lines, env=None, big_stack=False, stall=None):
    """feed `lines` to a line-protocol process; return (answers, returncode); returncode is "hang" when the process
    was killed after `stall` seconds without output"""
    p = subprocess.Popen(cmd, stdin=subprocess.PIPE, stdout=subprocess.PIPE, stderr=subprocess.DEVNULL, env=env,
                         preexec_fn=_big_stack if big_stack else None)
    data = ("\n".join(lines) + "\n").encode("utf-8", "surrogateescape")

    def feed():
        try:
            p.stdin.write(data)
            p.stdin.close()
        except (BrokenPipeError, OSError):
            pass
    th = threading.Thread(target=feed)
    th.start()
    hung = False
    if stall is None:
        out = p.stdout.read()
    else:
        import select
        chunks = []
        fd = p.stdout.fileno()
        while True:
            ready, _, _ = select.select([fd], [], [], stall)
            if not ready:
                hung = True
                p.kill()
                break
            b = os.read(fd, 1 << 16)
            if not b:
                break
            chunks.append(b)
        out = b"".join(chunks)
    th.join()
    rc = p.wait()
    if hung:
        rc = "hang"
        _HANGS[0] += 1
    answers = out.decode("utf-8", "replace").split("\n")
    if answers and answers[-1] == "":
        answers.pop()
    elif hung and answers:
        answers.pop()          # a partially written line
    return answers, rc


def run_harness_serial(lines):
    """answers for every line; a request that kills the worker gets `crash rc=<n>`
    and the worker is restarted on the following request."""
    answers = []
    rest = list(lines)
    while rest:
        got, rc = _pipe([HARNESS_BIN], rest, env=env_for_cargo(), stall=stall_now())
        if len(got) >= len(rest):
            answers.extend(got[:len(rest)])
            break
        # worker died while handling request number len(got)
        k = len(got)
        # a partially written last line is possible: trust only complete lines
        answers.extend(got[:k])
        answers.append("crash rc=%s" % rc)
        rest = rest[k + 1:]
    return answers


class _Worker:
    """a harness process kept alive across calls (one request per line, one answer per line); for callers that make many
    small calls and do not need a fresh process per call"""
    def __init__(self):
        self.p = None

    def start(self):
        self.p = subprocess.Popen([HARNESS_BIN], stdin=subprocess.PIPE, stdout=subprocess.PIPE, stderr=subprocess.DEVNULL,
                                  env=env_for_cargo())

    def ask(self, line):
        if self.p is None or self.p.poll() is not None:
            self.start()
        try:
            self.p.stdin.write((line + "\n").encode("utf-8", "surrogateescape"))
            self.p.stdin.flush()
            hung = []
            proc = self.p

            def kill():
                hung.append(1)
                _HANGS[0] += 1
                proc.kill()
            timer = threading.Timer(stall_now(), kill)
            timer.start()
            try:
                ans = self.p.stdout.readline()
            finally:
                timer.cancel()
        except (BrokenPipeError, OSError):
            ans = b""
        if not ans.endswith(b"\n"):
            rc = self.p.wait()
            self.p = None
            return "crash rc=%s" % ("hang" if hung else rc)
        return ans[:-1].decode("utf-8", "replace")

    def close(self):
        if self.p is not None:
            try:
                self.p.stdin.close()
                self.p.wait(timeout=10)
            except Exception:
                self.p.kill()
            self.p = None


_POOLED = threading.local()


def run_harness_pooled(lines):
    """like run_harness_serial, through one long-lived worker per thread (restarted after a crash)"""
    w = getattr(_POOLED, "w", None)
    if w is None:
        w = _POOLED.w = _Worker()
    return [w.ask(l) for l in lines]


def run_harness(lines, workers=None):
    lines = list(lines)
    if workers is None:
        workers = NCPU
    if len(lines) < 64 or workers <= 1:
        return run_harness_serial(lines)
    n = min(workers, max(1, len(lines) // 32))
    chunk = (len(lines) + n - 1) // n
    shards = [lines[i:i + chunk] for i in range(0, len(lines), chunk)]
    results = [None] * len(shards)

    def work(i):
        results[i] = run_harness_serial(shards[i])
    ths = [threading.Thread(target=work, args=(i,)) for i in range(len(shards))]
    for t in ths:
        t.start()
    for t in ths:
        t.join()
    out = []
    for r in results:
        out.extend(r)
    return out


def run_model(lines, workers=None):
    lines = list(lines)
    if workers is None:
        workers = NCPU
    if len(lines) < 2000 or workers <= 1:
        got, rc = _pipe([MODEL_BIN], lines, big_stack=True)
        if len(got) != len(lines):
            raise RuntimeError("model driver answered %d of %d requests (rc=%s)" % (len(got), len(lines), rc))
        return got
    n = min(workers, max(1, len(lines) // 1000))
    chunk = (len(lines) + n - 1) // n
    shards = [lines[i:i + chunk] for i in range(0, len(lines), chunk)]
    results = [None] * len(shards)
    errs = []

    def work(i):
        got, rc = _pipe([MODEL_BIN], shards[i], big_stack=True)
        if len(got) != len(shards[i]):
            errs.append("model driver answered %d of %d (rc=%s)" % (len(got), len(shards[i]), rc))
        results[i] = got
    ths = [threading.Thread(target=work, args=(i,)) for i in range(len(shards))]
    for t in ths:
        t.start()
    for t in ths:
        t.join()
    if errs:
        raise RuntimeError(errs[0])
    out = []
    for r in results:
        out.extend(r)
    return out


def kv(answer):
    """parse `word k=v k=v` answers into (head, dict)"""
    parts = answer.split(" ")
    head = parts[0] if parts else ""
    d = {}
    for p in parts[1:]:
        if "=" in p:
            k, v = p.split("=", 1)
            d[k] = v
    return head, d


def codes_of(d, key="codes"):
    v = d.get(key, "")
    return sorted(int(x) for x in re.split(r"[ ,]", v) if x)


class SplitMix64:
    def __init__(self, seed):
        self.s = seed & 0xFFFFFFFFFFFFFFFF

    def next(self):
        self.s = (self.s + 0x9E3779B97F4A7C15) & 0xFFFFFFFFFFFFFFFF
        z = self.s
        z = ((z ^ (z >> 30)) * 0xBF58476D1CE4E5B9) & 0xFFFFFFFFFFFFFFFF
        z = ((z ^ (z >> 27)) * 0x94D049BB133111EB) & 0xFFFFFFFFFFFFFFFF
        return z ^ (z >> 31)

    def below(self, n):
        return self.next() % n if n > 0 else 0

    def chance(self, num, den):
        return self.below(den) < num

    def pick(self, xs):
        return xs[self.below(len(xs))]

    def fork(self, tag):
        return SplitMix64(self.next() ^ (hash_str(tag)))


def hash_str(s):
    h = 1469598103934665603
    for b in s.encode():
        h = ((h ^ b) * 1099511628211) & 0xFFFFFFFFFFFFFFFF
    return h


# --------------------------------------------------------------------------
# known findings

def load_findings():
    path = os.path.join(VERIF, "known-findings.json")
    if not os.path.exists(path):
        return []
    return json.load(open(path))["findings"]


class Reporter:
    """collects violations / known findings for one property run and writes
    the evidence file and the exit status."""

    def __init__(self, prop_id, level="proof"):
        self.prop = prop_id
        self.level = level
        self.tier = os.environ.get("VERIF_TIER", "quick")
        self.seed = int(os.environ.get("VERIF_SEED", "1"))
        self.t0 = time.time()
        self.violations = []
        self.known_hits = {}
        self.findings = [f for f in load_findings() if f["property"] == prop_id]
        # replay files of an earlier run of this property and seed would be mistaken for results of this one
        rdir = os.environ.get("VERIF_REPLAYS", os.path.join(VERIF, "replays"))
        if os.path.isdir(rdir) and "VERIF_REPLAY" not in os.environ:
            for old in os.listdir(rdir):
                if re.fullmatch(r"%s-%d-\d+\.json" % (re.escape(prop_id), self.seed), old):
                    try:
                        os.remove(os.path.join(rdir, old))
                    except OSError:
                        pass
        self.coverage = {}
        self.assumptions = []
        self.proof = None
        self.notes = []

    def match_known(self, key):
        """key: a string identifying the failing input / call site; a finding matches when its
        `match` string equals the key (or is a regex that fully matches it when match_is_regex)."""
        for f in self.findings:
            if f.get("status") != "known":
                continue
            m = f["match"]
            if (f.get("match_is_regex") and re.fullmatch(m, key, re.S)) or m == key:
                return f
        return None

    def violation(self, key, replay, no_input=False):
        """report a violation identified by `key`; `replay` is a JSON-able dict"""
        f = self.match_known(key)
        if f is not None:
            self.known_hits.setdefault(f["id"], f)
            return False
        if any(k == key for (k, _p, _n) in self.violations):
            return False
        rdir = os.environ.get("VERIF_REPLAYS", os.path.join(VERIF, "replays"))
        os.makedirs(rdir, exist_ok=True)
        path = os.path.join(rdir, "%s-%d-%d.json" % (self.prop, self.seed, len(self.violations)))
        replay = dict(replay)
        replay["property"] = self.prop
        replay["key"] = key
        with open(path, "w") as fh:
            json.dump(replay, fh, indent=1, default=str)
        self.violations.append((key, path, no_input))
        return True

    def finish(self):
        for f in self.known_hits.values():
            print("KNOWN-FINDING: property=%s %s" % (self.prop, f["what"]))
        seen = 0
        for key, path, no_input in self.violations[:20]:
            print("VIOLATION property=%s replay=%s%s" % (self.prop, path, " no-failing-input-found" if no_input else ""))
            seen += 1
        cov = dict(self.coverage)
        if self.proof is not None:
            cov.setdefault("obligations", len(self.proof["theorems"]))
            cov.setdefault("discharged", len(self.proof["theorems"]) - len(set(self.proof["failed"])))
            cov.setdefault("checker_cmd", self.proof["checker_cmd"])
            cov.setdefault("axioms", self.proof["axioms"])
            cov.setdefault("trusted_base", [
                "Lean 4.33.0 kernel",
                "axioms: subset of {propext, Classical.choice, Quot.sound} (per theorem in `axioms`)",
                "hand transcription Rust->Lean, checked by the correspondence run reported in evaluations/traces_validated_against_impl",
                "harness (Rust, in-process calls to the library built from /repo), bin/check orchestrator, S-expression codec, Lean driver I/O",
            ])
        cov.setdefault("known_findings_hit", sorted(self.known_hits.keys()))
        if self.notes:
            cov["notes"] = self.notes
        ev = {
            "property_id": self.prop,
            "tier": self.tier if self.tier in ("quick", "thorough") else "quick",
            "seed": self.seed,
            "level": self.level,
            "coverage": cov,
            "assumptions": self.assumptions,
            "wall_s": round(time.time() - self.t0, 2),
            "violations": len(self.violations),
        }
        # (a scratch run - another tree, another seed, tools/try_mutant_wt.sh - sets VERIF_NO_EVIDENCE: what it covered goes
        # next to its replays, and evidence/ keeps the last run of the registered command)
        edir = os.path.join(VERIF, "evidence")
        if os.environ.get("VERIF_NO_EVIDENCE"):
            edir = os.environ.get("VERIF_REPLAYS", os.path.join(VERIF, "replays"))
        os.makedirs(edir, exist_ok=True)
        with open(os.path.join(edir, "%s.json" % self.prop if edir.endswith("evidence") else "evidence-%s.json" % self.prop), "w") as fh:
            json.dump(ev, fh, indent=1, default=str)
        log("[%s] tier=%s seed=%d wall=%.1fs violations=%d known=%d" % (
            self.prop, self.tier, self.seed, time.time() - self.t0, len(self.violations), len(self.known_hits)))
        return 1 if self.violations else 0


def setup_common(rep, theorems, need_harness=True):
    """build both halves; on a broken proof obligation record it (the failing-input search is the
    correspondence run that follows).  Returns False when nothing can be run at all."""
    if need_harness:
        try:
            build_harness()
        except BuildError as e:
            log(str(e))
            rep.violation("harness-build", {"what": "the harness no longer builds against /repo", "log": str(e)[-3000:]}, no_input=True)
            return False
    pr = prove(rep.prop, theorems, leanchecker=(rep.tier == "thorough"))
    rep.proof = pr
    if not pr["ok"]:
        rep.proof_broken = True
        log("proof obligations failed: %s" % pr["failed"])
        log(pr.get("build_log", "")[-3000:])
    else:
        rep.proof_broken = False
    if not os.path.exists(MODEL_BIN):
        rep.violation("model-build", {"what": "model driver does not build", "log": pr.get("build_log", "")}, no_input=True)
        return False
    return True


def report_broken_proof(rep):
    """called after the correspondence run: if a proof obligation failed and no concrete failing
    input was found, still report (no-failing-input-found)."""
    if getattr(rep, "proof_broken", False):
        has_input = any(not ni for (_k, _p, ni) in rep.violations)
        rep.violation("proof:" + ",".join(sorted(set(rep.proof["failed"]))),
                      {"what": "theorem(s) no longer check", "theorems": rep.proof["failed"],
                       "axioms": rep.proof["axioms"], "forbidden": rep.proof.get("forbidden"),
                       "log": rep.proof.get("build_log", "")[-3000:]},
                      no_input=not has_input)


def replay_main(path):
    """re-run the requests stored in a replay file against the current tree and the model"""
    r = json.load(open(path))
    build_harness()
    subprocess.run(["lake", "build", "penne-model"], cwd=LEAN, stdout=subprocess.DEVNULL)
    if "harness_request" in r:
        print("implementation:", run_harness_serial([r["harness_request"]])[0])
    if "model_request" in r:
        print("model:         ", run_model([r["model_request"]])[0])
    for k in ("explanation", "expected", "source"):
        if k in r:
            print("%s: %s" % (k, r[k]))
    return 0
