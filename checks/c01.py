"""C01 — compiled programs behave as their source prescribes."""
import collections
from lib import *
import progen
import runlib

THEOREMS = ["Types.Ty.access_path_accepted", "Types.Ty.address_path_accepted", "Types.Ty.inner_path_isLike", "Types.Ty.isLike_conc", "CF.control_flow_lowering_correct", "CF.lowering_correct", "CF.sim", "CF.scoper_accepted_never_stuck", "CF.jump_visible", "Sem.arith_sound", "Sem.sdiv_sound", "Sem.udiv_sound", "Sem.bitwise_sound", "Sem.shift_sound",
            "Sem.cmp_sound", "Sem.neg_sound", "Sem.complement_sound", "Sem.trunc_sound", "Sem.sext_sound",
            "Sem.zext_sound", "Sem.read_back", "Sem.wrap_eq_wrapW"]


def main():
    rep = Reporter("C01")
    if not setup_common(rep, THEOREMS):
        return rep.finish()
    rng = SplitMix64(rep.seed).fork("C01")
    thorough = rep.tier == "thorough"
    n = 20000 if thorough else 150
    progs = [progen.Gen(rng.fork("p%d" % i)).program() for i in range(n)]
    m = runlib.model_run(progs)
    dist = collections.Counter()
    keep = []
    for i, a in enumerate(m):
        mo = runlib.model_obs(a)
        dist["model:" + mo[0]] += 1
        if mo[0] == "ok":
            keep.append(i)
    # each kept program under one random layout; every 5th additionally under a plain and a second random layout
    jobs = []
    for i in keep:
        jobs.append((i, progen.src_prog(progs[i], progen.Layout(rng.fork("l%d" % i)))))
        if i % 5 == 0:
            jobs.append((i, progen.src_prog(progs[i], progen.Layout(rng.fork("m%d" % i), plain=True))))
            jobs.append((i, progen.src_prog(progs[i], progen.Layout(rng.fork("k%d" % i)))))
    h = runlib.impl_run([src for _, src in jobs])
    agreeing = 0
    bad = []
    feats = collections.Counter()
    for (i, src), ans in zip(jobs, h):
        io = runlib.impl_obs(ans)
        mo = runlib.model_obs(m[i])
        if io[0] == "ok" and "verify=ok" not in ans:
            bad.append((i, src, ans, "emitted IR rejected by llvm-as/opt"))
        elif io[:3] == mo:
            agreeing += 1
        else:
            bad.append((i, src, ans, "output/status differs" if io[0] == "ok" else "well-formed program not accepted"))
    for i in keep:
        s = progen.sx_prog(progs[i])
        for f in ("(idx ", "(len ", "(call ", "(calls ", "(goto ", "(loop)", "(cast ", "(addr ", "(view ", "(ife ", "(neg ",
                  "(compl ", " shl ", " shr ", " div ", " mod ", " and ", " xor ", "(assignidx ", "(declarr ", "i128", "u128", "usize", "bool"):
            if f in s:
                feats[f.strip("() ")] += 1
    for i, src, ans, why in bad[:4]:
        def still_fails(q):
            a = runlib.model_run([q])[0]
            mo = runlib.model_obs(a)
            if mo[0] != "ok":
                return False
            io = runlib.impl_obs(runlib.impl_run([progen.src_prog(q, progen.Layout(rng, plain=True))])[0])
            return io[:3] != mo
        small = runlib.shrink_program(progs[i], still_fails)
        ssrc = progen.src_prog(small, progen.Layout(rng, plain=True))
        sa = runlib.impl_run([ssrc])[0]
        sm = runlib.model_run([small])[0]
        if runlib.impl_obs(sa)[:3] == runlib.model_obs(sm):
            ssrc, sa, sm, small = src, ans, m[i], progs[i]   # layout-dependent: keep the original text
        rep.violation("prog:" + progen.sx_prog(small)[:400], {
            "why": why, "source": ssrc, "harness_request": "alpha\trun\tmain.pn\t" + esc(ssrc),
            "model_request": "run\t" + progen.sx_prog(small), "implementation": sa[:2000], "model": sm[:2000],
            "explanation": "lli(IR) prints/returns something else than the documented semantics (Lean interpreter) for this "
                           "well-typed, terminating, UB-free program"})
    # structures and words are outside the Lean interpreter: programs around structure / word literals (every member order,
    # constant and variable members, nested, as constants) against the arithmetic of their members (Python oracle, reported
    # as such: an implementation-vs-oracle failure, not a model disagreement)
    import agggen
    aggs = [agggen.struct_program(rng.fork("agg%d" % i)) for i in range(2000 if rep.tier == "thorough" else 150)]
    ah = runlib.impl_run([a[0] for a in aggs])
    for (src, status, how), ans in zip(aggs, ah):
        hh, hd = kv(ans)
        dist["aggregate:" + how] += 1
        if hh == "ok" and hd.get("status") == str(status):
            agreeing += 1
        else:
            rep.violation("oracle:aggregate:%x" % hash_str(src), {
                "why": "a program reading back the members of a structure/word literal: expected exit status %d (oracle: weighted sum of "
                       "the member values), got %s" % (status, ans[:200]),
                "source": src, "harness_request": "alpha\trun\tmain.pn\t" + esc(src), "oracle": "checks/agggen.py"})
    # access paths: nested arrays, structures with array members, arrays of structures, written and read directly and
    # through every kind of parameter (pointer to a sized array, slice pointer, view, pointer to / view of a structure),
    # with the lengths of inner arrays; one printed number against a Python oracle
    accs = [agggen.access_program(rng.fork("acc%d" % i)) for i in range(4000 if rep.tier == "thorough" else 250)]
    xh = runlib.impl_run([a[0] for a in accs])
    for (src, want, tags), ans in zip(accs, xh):
        v = runlib.impl_obs(ans)
        dist["access:" + tags[0]] += 1
        if v[0] == "ok" and v[2] == want:
            agreeing += 1
        else:
            rep.violation("oracle:access:%x" % hash_str(src), {
                "why": "a program that writes and reads a nested value along access paths (%s): expected it to print %s, got %s" % (
                    ", ".join(sorted(set(tags[2:]))[:12]), want, ans[:200]),
                "source": src, "harness_request": "alpha\trun\tmain.pn\t" + esc(src), "oracle": "checks/agggen.py access_program"})
    # F51: the address of an element of an array VARIABLE (`&g[1]`; through a member, `&s.items[1]`, it is accepted)
    probe = "fn bump(r: &i32)\n{\n\tr = r + 1;\n}\nfn main() -> i32\n{\n\tvar g: [3]i32 = [1, 2, 3];\n\tbump(&g[1]);\n\treturn: g[1]\n}\n"
    pa = runlib.impl_run([probe])[0]
    pv = runlib.impl_obs(pa)
    if not (pv[0] == "ok" and pv[1] == "3"):
        rep.violation("c01:false-rejection:address-of-element-of-array-variable", {
            "why": "`bump(&g[1])` with `g: [3]i32` and `fn bump(r: &i32)` should compile and return 3: " + pa[:200], "source": probe})
    # an entry point without a return value: whatever the body does last (a print!, a call, a jump to its end), the
    # program exits with status 0 (it used to exit with whatever the last call left in the return register)
    for body in ('\tprint!("77\\n");\n', '\tvar x: i32 = 5;\n\tprint!(x, " and ", x + 1, "\\n");\n', "\thelper();\n",
                 "\tvar x: i32 = helper2();\n\tif x == 41\n\t{\n\t\tgoto end;\n\t}\n\thelper();\n\tend:\n", ""):
        vsrc = 'fn helper()\n{\n\tprint!("helping\\n");\n}\nfn helper2() -> i32\n{\n\treturn: 41\n}\nfn main()\n{\n' + body + "}\n"
        va = runlib.impl_run([vsrc])[0]
        vv = runlib.impl_obs(va)
        dist["void-main"] += 1
        if vv[0] == "ok" and vv[1] == "0":
            agreeing += 1
        else:
            rep.violation("c01:void-main-exit-status:%x" % hash_str(vsrc), {
                "why": "a program whose entry point has no return value must exit with status 0: " + va[:200], "source": vsrc})
    # long loops: a terminating loop of 2 000 000 rounds with local variables (scalars, an array, a structure) declared in
    # the looped block; the stack must not grow with the number of rounds (F54)
    for k, (n, decls, expr, want) in enumerate([
            (2000000, "\t\tvar t: i32 = i % 7;\n\t\tvar buf: [64]u8;\n\t\tbuf[0] = 1;\n", "t + (buf[0] as i32)", None),
            (1500000, "\t\tvar a: i64 = 3;\n\t\tvar b: i64 = a + 1;\n\t\tvar q: [8]i64 = [1, 2, 3, 4, 5, 6, 7, 8];\n", "(q[(i % 8) as usize] as i32) + ((b - a) as i32)", None)]):
        src = ("fn main() -> i32\n{\n\tvar i: i32 = 0;\n\tvar total: i32 = 0;\n\t{\n\t\tif i == %d\n\t\t\tgoto end;\n%s"
               "\t\ttotal = (total + %s) %% 1000;\n\t\ti = i + 1;\n\t\tloop;\n\t}\n\tend:\n\treturn: total %% 200\n}\n" % (n, decls, expr))
        tot = 0
        for i in range(n):
            tot = (tot + ((i % 7) + 1 if k == 0 else ((i % 8) + 1) + 1)) % 1000
        la = runlib.impl_run([src])[0]
        lv = runlib.impl_obs(la)
        dist["long-loop"] += 1
        if lv[0] == "ok" and lv[1] == str(tot % 200):
            agreeing += 1
        else:
            rep.violation("oracle:long-loop:%d" % k, {"why": "a loop of %d rounds with local variables should end with status %d: %s" % (n, tot % 200, la[:200]), "source": src})
    fl = ("fn main() -> i32\n{\n\tvar i: i32 = 0;\n\tvar total: usize = 0;\n\t{\n\t\tif i == 2000000\n\t\t\tgoto end;\n\t\tvar s = format!(i);\n"
          "\t\ttotal = total + |s|;\n\t\ti = i + 1;\n\t\tloop;\n\t}\n\tend:\n\treturn: 7\n}\n")
    fa = runlib.impl_run([fl])[0]
    fv = runlib.impl_obs(fa)
    if not (fv[0] == "ok" and fv[1] == "7"):
        rep.violation("c01:long-loop:format-in-loop-exhausts-the-stack", {"why": "a loop that calls format! 2 000 000 times should return 7: " + fa[:200], "source": fl})
    # control flow: skeleton programs of opaque actions and oracle-driven conditions (blocks, if / else / else-if, forward
    # gotos, labels, blocks ending in `loop`).  Three observations must coincide: the trace the real program prints, the trace
    # of the source semantics (CF.execL) and the trace of the flow graph the Lean lowering produces (CF.run); and the basic
    # blocks of the real IR must be bisimilar to that flow graph (theorem CF.lowering_correct relates the two model traces
    # for every program; this ties both ends to the compiler).
    import cfgen
    ncf = 6000 if rep.tier == "thorough" else 400
    cfcases = []
    for i in range(ncf):
        cr = rng.fork("cf%d" % i)
        g = cfgen.Gen(cr.fork("g"), max_depth=2 + cr.below(3))
        cfcases.append((g.body(), [cr.below(2) for _ in range(cr.below(14))]))
    cfsrc = [cfgen.source(b, o) for b, o in cfcases]
    cfrun = run_harness(["alpha\trun\tm.pn\t" + esc(x) for x in cfsrc])
    cfir = run_harness(["alpha\tirs\tm.pn\t" + esc(x) for x in cfsrc])
    cfreq = ["cf\t(cf (oracle %s) (body %s))" % (" ".join(map(str, o)), " ".join(cfgen.sx(x) for x in b)) for b, o in cfcases]
    cfm = run_model(cfreq)
    for (b, o), src, ha, hi, ma, mreq in zip(cfcases, cfsrc, cfrun, cfir, cfm, cfreq):
        md = cfgen.parse_answer(ma)
        hh, hd = kv(ha)
        problems = []
        if md is None:
            problems.append("the model does not answer: " + ma[:100])
        elif hh != "ok":
            problems.append("a well-formed control-flow skeleton is not accepted: " + ha[:160])
        else:
            real = cfgen.trace_of_stdout(bytes.fromhex(hd["stdout"][2:]).decode()) if hd.get("stdout", "").startswith("h:") else ""
            if md["nodup"] != "1":
                problems.append("generator produced clashing label / block ids")
            if real != md["src"]:
                problems.append("the program's printed trace differs from the source semantics: real %s / model %s" % (real[:200], md["src"][:200]))
            if md["src"] != md["cfg"]:
                problems.append("the lowered flow graph's trace differs from the source semantics (contradicts CF.lowering_correct): %s / %s"
                                % (md["cfg"][:200], md["src"][:200]))
            h2, d2 = kv(hi)
            try:
                ir = bytes.fromhex(d2["mods"].split(";")[0][2:]).decode()
                blocks, entry = cfgen.ir_blocks(ir)
                why = cfgen.bisimilar(blocks, entry, md["main"], md["defs"])
            except Exception as e:       # an IR shape the extractor does not know
                why = "IR of main could not be read: %r" % e
            if why:
                problems.append("the basic blocks of the real IR are not bisimilar to the lowered flow graph: " + why)
        dist["control-flow:" + ("agree" if not problems else "differ")] += 1
        if problems:
            rep.violation("cf:" + " ".join(cfgen.sx(x) for x in b)[:300] + ":" + "".join(map(str, o)), {
                "why": problems[:4], "source": src, "harness_request": "alpha\trun\tm.pn\t" + esc(src), "model_request": mreq,
                "implementation": ha[:600], "model": ma[:600]})
        else:
            agreeing += 1
    report_broken_proof(rep)
    rep.coverage.update({
        "evaluations": len(jobs) + len(aggs) + len(cfcases),
        "programs": len(keep),
        "distinct_nontrivial": len(set(progen.sx_prog(progs[i]) for i in keep)),
        "rule": "type-directed random programs (11 integer types + bool, constants, helper functions with value / pointer / "
                "view / slice-pointer parameters, arrays, nested blocks with forward gotos, counted loops, if/else-if, casts, "
                "all operators, prints of every variable, exit status) rendered with random layout (indentation, blank lines, "
                "comments, redundant parentheses, literal spellings); every 5th program under three layouts; programs on which "
                "the interpreter reports UB or runs out of fuel are discarded (counted in distribution); non-trivial = all kept; "
                "plus structure/word-literal programs against a Python oracle (weighted sum of the member values); plus control-flow "
                "skeletons (blocks, if/else/else-if, forward gotos, labels, looped blocks, oracle-driven conditions): printed trace = "
                "source semantics = lowered flow graph, and the real IR's basic blocks bisimilar to the lowered graph",
        "traces_validated_against_impl": agreeing,
        "distribution": dict(dist), "feature_counts": dict(feats),
        "samples": [progen.sx_prog(progs[keep[0]])[:1500]] if keep else [],
    })
    return rep.finish()


if __name__ == "__main__":
    sys.exit(main())
