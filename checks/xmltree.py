"""The second-generation parser's XML dump -> the canonical tree of checks/syngen.py.

`parse_xml(lines)` also checks well-formedness: balanced elements, no MALFORMED node."""
import re

I128_MAX = (1 << 127) - 1
VT = {"Void": "void", "Int8": "i8", "Int16": "i16", "Int32": "i32", "Int64": "i64", "Int128": "i128", "Uint8": "u8",
      "Uint16": "u16", "Uint32": "u32", "Uint64": "u64", "Uint128": "u128", "Usize": "usize", "Char8": "char8",
      "Bool": "bool"}
SIGNED = {"i8", "i16", "i32", "i64", "i128"}
TYPE_TAGS = {"SimpleValueType", "CompositeValueType", "ArrayVT", "ArrayWithNamedLengthVT", "SliceVT", "EndlessArrayVT",
             "ArraylikeVT", "PointerVT", "ViewVT", "UnresolvedStructOrWordVT"}
ATTR = re.compile(r'([\w-]+)=("(?:[^"\\]|\\.)*")')


class XmlError(Exception):
    pass


def rust_debug_unquote(q):
    """inverse of Rust's `{:?}` on a str"""
    assert q[0] == '"' and q[-1] == '"', q
    s = q[1:-1]
    out = []
    i = 0
    while i < len(s):
        c = s[i]
        if c != "\\":
            out.append(c)
            i += 1
            continue
        n = s[i + 1]
        if n == "n":
            out.append("\n")
        elif n == "t":
            out.append("\t")
        elif n == "r":
            out.append("\r")
        elif n == "0":
            out.append("\0")
        elif n in "\\\"'":
            out.append(n)
        elif n == "u":
            j = s.index("}", i)
            out.append(chr(int(s[i + 3:j], 16)))
            i = j + 1
            continue
        else:
            raise XmlError("unknown escape in Debug string: " + q)
        i += 2
    return "".join(out)


def decode_penne_string(raw):
    """bytes of a Penne string literal body (the source text between the quotes)"""
    out = bytearray()
    i = 0
    while i < len(raw):
        c = raw[i]
        if c != "\\":
            out += c.encode("utf-8")
            i += 1
            continue
        n = raw[i + 1] if i + 1 < len(raw) else ""
        if n == "n":
            out.append(10)
        elif n == "t":
            out.append(9)
        elif n == "r":
            out.append(13)
        elif n == "0":
            out.append(0)
        elif n in ("\\", "\"", "'"):
            out += n.encode()
        elif n == "x":
            out.append(int(raw[i + 2:i + 4], 16))
            i += 4
            continue
        elif n == "u":
            j = raw.index("}", i)
            out += chr(int(raw[i + 3:j], 16)).encode("utf-8")
            i = j + 1
            continue
        else:
            raise XmlError("unknown escape in string literal: " + raw)
        i += 2
    return bytes(out)


def string_pieces(span):
    """the bodies of the string literals in a source span (adjacent literals separated by layout and comments)"""
    out = []
    i = 0
    while i < len(span):
        c = span[i]
        if c == '"':
            j = i + 1
            while span[j] != '"':
                j += 2 if span[j] == "\\" else 1
            out.append(span[i + 1:j])
            i = j + 1
        elif span.startswith("//", i):
            j = span.find("\n", i)
            i = len(span) if j < 0 else j + 1
        else:
            i += 1
    return out


class Node:
    __slots__ = ("tag", "attrs", "children", "text")

    def __init__(self, tag, attrs):
        self.tag = tag
        self.attrs = attrs
        self.children = []
        self.text = None


def parse_xml(lines):
    """-> list of top-level Nodes; raises XmlError when elements are not balanced or a node is MALFORMED"""
    root = Node("#root", {})
    stack = [root]
    for line in lines:
        if not line:
            continue
        if line.startswith("</"):
            tag = line[2:-1]
            if len(stack) == 1 or stack[-1].tag != tag:
                raise XmlError("closing </%s> does not match open <%s>" % (tag, stack[-1].tag))
            stack.pop()
            continue
        if line.startswith("<"):
            m = re.match(r"<([\w]+)", line)
            if not m:
                raise XmlError("bad line " + line)
            tag = m.group(1)
            if tag == "MALFORMED":
                raise XmlError("MALFORMED node: " + line)
            attrs = {k: v for k, v in ATTR.findall(line)}
            node = Node(tag, attrs)
            stack[-1].children.append(node)
            if not line.endswith("/>"):
                if not line.endswith(">"):
                    raise XmlError("bad line " + line)
                stack.append(node)
            continue
        if line.startswith('"'):
            stack[-1].text = rust_debug_unquote(line)
            continue
        raise XmlError("bad line " + line)
    if len(stack) != 1:
        raise XmlError("unclosed <%s>" % stack[-1].tag)
    return root.children


def attr(n, k):
    v = n.attrs[k]
    return rust_debug_unquote(v)


def hexs(b):
    return "h" + bytes(b).hex()


def the_list(n, meta):
    for c in n.children:
        if c.tag == "List" and c.attrs.get("meta") == '"%s"' % meta:
            return c.children
    raise XmlError("no %s list in %s" % (meta, n.tag))


def ty(n):
    t = n.tag
    if t == "SimpleValueType":
        return ["simple", VT[attr(n, "type")]]
    if t == "CompositeValueType":
        (c,) = n.children
        if c.tag in ("SimpleValueType", "UnresolvedStructOrWordVT", "CompositeValueType"):
            raise XmlError("composite wrapper around a one-token type")
        return ty(c)
    if t == "UnresolvedStructOrWordVT":
        return ["named", attr(n, "src")]
    simple = {"PointerVT": "ptr", "ViewVT": "view", "ArraylikeVT": "arraylike", "SliceVT": "slice", "EndlessArrayVT": "endless"}
    if t in simple:
        (c,) = n.children
        return [simple[t], ty(c)]
    if t == "ArrayVT":
        (c,) = n.children
        return ["array", int(attr(n, "length")), ty(c)]
    if t == "ArrayWithNamedLengthVT":
        (c,) = n.children
        return ["arraynamed", attr(n, "identifier"), ty(c)]
    raise XmlError("not a type: " + t)


def top_ty(n):
    """a type in a position where parse_type is used: multi-token types must come wrapped"""
    if n.tag in ("SimpleValueType", "UnresolvedStructOrWordVT", "CompositeValueType"):
        return ty(n)
    raise XmlError("multi-token type without CompositeValueType wrapper: " + n.tag)


def steps(children):
    out = ["steps"]
    for s in children:
        if s.tag == "DerefStepMember":
            out.append(["member", attr(s, "identifier")])
        elif s.tag == "DerefStepElement":
            (c,) = s.children
            out.append(["elem", expr(c)])
        else:
            raise XmlError("not a step: " + s.tag)
    return out


def callname(n):
    name = attr(n, "identifier")
    b = attr(n, "is_builtin") == "true"
    if b:
        if not name.endswith("!"):
            raise XmlError("builtin without !")
        name = name[:-1]
    return name, 1 if b else 0


def int_lit(n):
    v = int(attr(n, "value"))
    t = ["simple", VT[attr(n, "type")]] if "type" in n.attrs else "_"
    return ["int", v, t]


def expr(n):
    t = n.tag
    if t == "UntypedIntegerLiteral":
        return int_lit(n)
    if t == "CharLiteral":
        return ["int", int(attr(n, "value")), ["simple", "char8"]]
    if t == "BooleanLiteral":
        return ["bool", int(attr(n, "value"))]
    if t == "SimpleStringLiteral":
        return ["str", hexs(decode_penne_string(attr(n, "src")))]
    if t == "CompositeStringLiteral":
        pieces = string_pieces(n.text)
        if len(pieces) < 2:
            raise XmlError("composite string literal with fewer than two pieces")
        return ["str", hexs(b"".join(decode_penne_string(p) for p in pieces))]
    if t == "ArrayLiteral":
        return ["array"] + [expr(c) for c in the_list(n, "elements")]
    if t == "Structural":
        fs = []
        for f in the_list(n, "initializers"):
            if f.tag != "IdentifierAndExpression":
                raise XmlError("not a field: " + f.tag)
            (c,) = f.children
            fs.append(["f", attr(f, "src"), expr(c)])
        return ["structural", ["named", attr(n, "identifier")]] + fs
    if t == "Parenthesized":
        (c,) = n.children
        return ["paren", expr(c)]
    if t == "Deref":
        return ["deref", int(attr(n, "address_depth")), attr(n, "identifier"), steps(the_list(n, "steps"))]
    if t == "FunctionCall":
        name, b = callname(n)
        return ["call", name, b] + [expr(c) for c in the_list(n, "arguments")]
    if t == "Binary":
        l, r = n.children
        return ["bin", attr(n, "op"), expr(l), expr(r)]
    if t == "Unary":
        (c,) = n.children
        op = attr(n, "op")
        e = expr(c)
        if (op == "Negative" and c.tag == "UntypedIntegerLiteral" and 0 < e[1] <= I128_MAX
                and ((e[2] == "_" and not re.match(r"0[xb]", attr(c, "src"))) or (e[2] != "_" and e[2][1] in SIGNED))):
            # the first-generation parser folds the sign into a signed literal
            return ["int", -e[1], e[2]]
        return ["un", op, e]
    if t == "BitCast":
        (c,) = n.children
        return ["bitcast", expr(c)]
    if t == "TypeCast":
        e, tt = n.children
        return ["typecast", expr(e), top_ty(tt)]
    if t == "LengthOf":
        (c,) = n.children
        d = expr(c)
        return ["lengthof"] + d[1:]
    if t == "SizeOf":
        (c,) = n.children
        return ["sizeof", top_ty(c)]
    raise XmlError("not an expression: " + t)


def stmt(n):
    t = n.tag
    if t == "VariableDeclaration":
        vt, val = "_", "_"
        for c in n.children:
            if c.tag in TYPE_TAGS:
                if vt != "_" or val != "_":
                    raise XmlError("variable declaration children out of order")
                vt = top_ty(c)
            else:
                if val != "_":
                    raise XmlError("variable declaration with two values")
                val = expr(c)
        return ["var", attr(n, "src"), vt, val]
    if t == "Assignment":
        r, e = n.children
        d = expr(r)
        if d[0] != "deref":
            raise XmlError("assignment to a non-reference")
        return ["assign", ["ref"] + d[1:], expr(e)]
    if t == "MethodCall":
        name, b = callname(n)
        return ["mcall", name, b] + [expr(c) for c in the_list(n, "arguments")]
    if t == "Loop":
        return ["loop"]
    if t == "Goto":
        return ["goto", attr(n, "label")]
    if t == "Label":
        return ["label", attr(n, "src")]
    if t == "Block":
        return ["block"] + [stmt(c) for c in the_list(n, "statements")]
    if t == "If":
        c = n.children
        if len(c) not in (2, 3) or c[0].tag != "Comparison" or c[1].tag != "Then" or (len(c) == 3 and c[2].tag != "Else"):
            raise XmlError("if with children " + ",".join(x.tag for x in c))
        l, r = c[0].children
        out = ["if", ["cmp", attr(c[0], "op"), expr(l), expr(r)]]
        (th,) = c[1].children
        out.append(stmt(th))
        if len(c) == 3:
            (el,) = c[2].children
            out.append(stmt(el))
        return out
    raise XmlError("not a statement: " + t)


def flags(n):
    f = attr(n, "flags")
    return f if f else "_"


def decl(n):
    t = n.tag
    if t == "ImportDeclaration":
        (c,) = n.children
        if c.tag != "SimpleStringLiteral":
            raise XmlError("import of " + c.tag)
        return ["import", hexs(decode_penne_string(attr(c, "src")))]
    if t == "ConstantDeclaration":
        e, tt = n.children
        return ["const", flags(n), attr(n, "identifier"), top_ty(tt), expr(e)]
    if t == "FunctionDeclaration":
        params = ["params"]
        for p in the_list(n, "parameters"):
            if p.tag != "IdentifierAndType":
                raise XmlError("not a parameter: " + p.tag)
            (c,) = p.children
            params.append(["p", attr(p, "src"), top_ty(c)])
        rest = [c for c in n.children if c.tag != "List"]
        ret = top_ty(rest[0])
        body = "_"
        if len(rest) == 2:
            b = rest[1]
            if b.tag != "FunctionBody":
                raise XmlError("function with " + b.tag)
            stmts = ["stmts"] + [stmt(c) for c in the_list(b, "statements")]
            vals = [c for c in b.children if c.tag != "List"]
            if len(vals) > 1:
                raise XmlError("function body with two return values")
            body = ["body", stmts, expr(vals[0]) if vals else "_"]
        elif len(rest) != 1:
            raise XmlError("function with %d non-list children" % len(rest))
        return ["fn", flags(n), attr(n, "identifier"), params, ret, body]
    if t == "StructureDeclaration":
        members = ["members"]
        for m in the_list(n, "members"):
            if m.tag != "IdentifierAndType":
                raise XmlError("not a member: " + m.tag)
            (c,) = m.children
            members.append(["m", attr(m, "src"), top_ty(c)])
        return ["struct", flags(n), attr(n, "identifier"), int(attr(n, "size-in-bytes")), members]
    raise XmlError("not a declaration: " + t)


def module_of_xml(text):
    return ["module"] + [decl(n) for n in parse_xml(text.split("\n"))]


# ---- normalisation of the first-generation tree printed by the harness

def norm_alpha(sexp):
    """`foo!` with no known builtin is kept by the first generation as name `foo!`; the label `return` that
    introduces the return value is a statement there"""
    s = re.sub(r"\((m?call) (\w+)! 0", r"(\1 \2 1", sexp)
    s = re.sub(r" \(label return\)\) (?!_\))", ") ", s)
    return s
