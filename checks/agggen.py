"""Programs built around structure and word literals: every member order, constant and non-constant members, nesting,
arrays of structures and structure constants.  Each returns (source, expected exit status)."""

INTS = ["i32", "i64", "u8", "u16", "u32", "usize"]


def _value(rng, t):
    if t == "bool":
        return rng.pick([0, 1])
    return 1 + rng.below(9)


def _lit(t, v):
    if t == "bool":
        return "true" if v else "false"
    return "%d%s" % (v, t)


def _add(expr, t, w=1):
    """statements adding w times the member `expr` of type t to acc (the weight makes the total order-sensitive)"""
    if t == "bool":
        return ["\tif %s == true\n\t{\n\t\tacc = acc + %d;\n\t}" % (expr, w)]
    if t == "i32":
        return ["\tacc = acc + %s * %d;" % (expr, w)]
    return ["\tacc = acc + (%s as i32) * %d;" % (expr, w)]


def struct_program(rng):
    n = 2 + rng.below(3)
    word = rng.chance(1, 4)
    if word:
        layout = rng.pick([("word32", ["u16", "u8", "u8"]), ("word64", ["i32", "u16", "u8"]), ("word64", ["u32", "bool", "u16"]),
                           ("word16", ["u8", "bool"]), ("word128", ["i64", "u32", "u16", "u8"])])
        head, types = layout
        n = len(types)
    else:
        head = "struct"
        types = [rng.pick(INTS + ["bool"]) for _ in range(n)]
        if len(set(types)) == 1 and n > 1:
            types[0] = "bool" if types[1] != "bool" else "i64"
    vals = [_value(rng, t) for t in types]
    order = list(range(n))
    for a in range(n - 1, 0, -1):
        b = rng.below(a + 1)
        order[a], order[b] = order[b], order[a]
    how = rng.pick(["const-members", "const-members", "var-members", "mixed", "constant-decl", "nested", "nested-const"])
    pre = []
    items = []
    for j in order:
        as_var = how == "var-members" or (how == "mixed" and rng.chance(1, 2))
        if as_var:
            pre.append("\tvar v%d: %s = %s;" % (j, types[j], _lit(types[j], vals[j])))
            items.append("m%d: v%d" % (j, j))
        else:
            items.append("m%d: %s" % (j, _lit(types[j], vals[j])))
    literal = "S { %s }" % ", ".join(items)
    out = ["%s S" % head, "{"] + ["\tm%d: %s," % (j, types[j]) for j in range(n)] + ["}"]
    body = ["\tvar acc: i32 = 0;"]
    expected = sum(v * (j + 1) for j, v in enumerate(vals))
    if how == "constant-decl":
        out.append("const K: S = %s;" % literal)
        for j in range(n):
            body += _add("K.m%d" % j, types[j], j + 1)
    elif how == "nested":
        out += ["struct T", "{", "\tfirst: u8,", "\tinner: S,", "\tlast: i64,", "}"]
        body += pre
        body.append("\tvar t = T { last: 3i64, inner: %s, first: 2u8 };" % literal)
        for j in range(n):
            body += _add("t.inner.m%d" % j, types[j], j + 1)
        body += _add("t.first", "u8") + _add("t.last", "i64")
        expected += 5
    elif how == "nested-const":
        out += ["struct T", "{", "\tfirst: u8,", "\tinner: S,", "\tlast: i64,", "}"]
        out.append("const KT: T = T { last: 3i64, inner: %s, first: 2u8 };" % literal)
        for j in range(n):
            body += _add("KT.inner.m%d" % j, types[j], j + 1)
        body += _add("KT.first", "u8") + _add("KT.last", "i64")
        expected += 5
    else:
        body += pre
        body.append("\tvar s = %s;" % literal)
        for j in range(n):
            body += _add("s.m%d" % j, types[j], j + 1)
    out += ["fn main() -> i32", "{"] + body + ["\treturn: acc", "}"]
    return "\n".join(out) + "\n", expected % 256, how + (":word" if word else ":struct")


def illtyped_aggregates():
    """ill-typed programs around aggregate shapes (ragged nested array / string literals, a literal against an annotation
    of another length, a pointer to an array of another length).  The compiler must reject them; whatever it accepts
    instead must still be valid IR (C03) — the generator trusts the typer to have made all elements of a literal alike."""
    def lit(shape, elem="i32"):
        if not shape:
            return "1" + elem
        return "[" + ", ".join(lit(shape[1:], elem) for _ in range(shape[0])) + "]"
    out = []
    for inner in ((3, 2), (2, 3), (1, 2), (2, 2, 3), (3, 3, 2)):
        rows = ", ".join(lit((k,)) for k in inner)
        strs = ", ".join('"' + "abcdefg"[:k] + '"' for k in inner)
        for body in ("var g = [%s];" % rows, "var g: [%d][%d]i32 = [%s];" % (len(inner), inner[0], rows),
                     "var g = [%s];" % strs, "var g: [%d][%d]char8 = [%s];" % (len(inner), inner[0], strs),
                     "var g = [%s];\n\tvar x = g[1][0];" % rows):
            out.append("fn main()\n{\n\t%s\n}\n" % body)
            out.append("fn f() -> i32\n{\n\t%s\n\treturn: 1\n}\nfn main() -> i32\n{\n\treturn: f()\n}\n" % body)
    for (a, b) in (((3,), (2,)), ((2,), (3,)), ((2, 3), (2, 2)), ((2, 2), (3, 2))):
        ta = "".join("[%d]" % k for k in a) + "i32"
        tb = "".join("[%d]" % k for k in b) + "i32"
        out.append("fn main()\n{\n\tvar x: %s = %s;\n}\n" % (ta, lit(b)))
        out.append("fn main()\n{\n\tvar a: %s = %s;\n\tvar p: &%s = &a;\n}\n" % (ta, lit(a), tb))
        out.append("fn callee(p: &%s)\n{\n}\nfn main()\n{\n\tvar a: %s = %s;\n\tcallee(&a);\n}\n" % (tb, ta, lit(a)))
        out.append("struct S\n{\n\tm: %s,\n}\nfn main()\n{\n\tvar s = S { m: %s };\n}\n" % (ta, lit(b)))
        out.append("const K: %s = %s;\nfn main()\n{\n}\n" % (ta, lit(b)))
    return out
