"""Programs built around structure and word literals: every member order, constant and non-constant members, nesting,
arrays of structures and structure constants.  Each returns (source, expected exit status)."""

INTS = ["i32", "i64", "u8", "u16", "u32", "usize"]


def _value(rng, t):
    if t == "bool":
        return rng.pick([0, 1])
    return 1 + rng.below(9)


def _lit(t, v):
    if t == "bool":
        return "true" if v else "false"
    return "%d%s" % (v, t)


def _add(expr, t, w=1):
    """statements adding w times the member `expr` of type t to acc (the weight makes the total order-sensitive)"""
    if t == "bool":
        return ["\tif %s == true\n\t{\n\t\tacc = acc + %d;\n\t}" % (expr, w)]
    if t == "i32":
        return ["\tacc = acc + %s * %d;" % (expr, w)]
    return ["\tacc = acc + (%s as i32) * %d;" % (expr, w)]


def struct_program(rng):
    n = 2 + rng.below(3)
    word = rng.chance(1, 4)
    if word:
        layout = rng.pick([("word32", ["u16", "u8", "u8"]), ("word64", ["i32", "u16", "u8"]), ("word64", ["u32", "bool", "u16"]),
                           ("word16", ["u8", "bool"]), ("word128", ["i64", "u32", "u16", "u8"])])
        head, types = layout
        n = len(types)
    else:
        head = "struct"
        types = [rng.pick(INTS + ["bool"]) for _ in range(n)]
        if len(set(types)) == 1 and n > 1:
            types[0] = "bool" if types[1] != "bool" else "i64"
    vals = [_value(rng, t) for t in types]
    order = list(range(n))
    for a in range(n - 1, 0, -1):
        b = rng.below(a + 1)
        order[a], order[b] = order[b], order[a]
    how = rng.pick(["const-members", "const-members", "var-members", "mixed", "constant-decl", "nested", "nested-const"])
    pre = []
    items = []
    for j in order:
        as_var = how == "var-members" or (how == "mixed" and rng.chance(1, 2))
        if as_var:
            pre.append("\tvar v%d: %s = %s;" % (j, types[j], _lit(types[j], vals[j])))
            items.append("m%d: v%d" % (j, j))
        else:
            items.append("m%d: %s" % (j, _lit(types[j], vals[j])))
    literal = "S { %s }" % ", ".join(items)
    out = ["%s S" % head, "{"] + ["\tm%d: %s," % (j, types[j]) for j in range(n)] + ["}"]
    body = ["\tvar acc: i32 = 0;"]
    expected = sum(v * (j + 1) for j, v in enumerate(vals))
    if how == "constant-decl":
        out.append("const K: S = %s;" % literal)
        for j in range(n):
            body += _add("K.m%d" % j, types[j], j + 1)
    elif how == "nested":
        out += ["struct T", "{", "\tfirst: u8,", "\tinner: S,", "\tlast: i64,", "}"]
        body += pre
        body.append("\tvar t = T { last: 3i64, inner: %s, first: 2u8 };" % literal)
        for j in range(n):
            body += _add("t.inner.m%d" % j, types[j], j + 1)
        body += _add("t.first", "u8") + _add("t.last", "i64")
        expected += 5
    elif how == "nested-const":
        out += ["struct T", "{", "\tfirst: u8,", "\tinner: S,", "\tlast: i64,", "}"]
        out.append("const KT: T = T { last: 3i64, inner: %s, first: 2u8 };" % literal)
        for j in range(n):
            body += _add("KT.inner.m%d" % j, types[j], j + 1)
        body += _add("KT.first", "u8") + _add("KT.last", "i64")
        expected += 5
    else:
        body += pre
        body.append("\tvar s = %s;" % literal)
        for j in range(n):
            body += _add("s.m%d" % j, types[j], j + 1)
    out += ["fn main() -> i32", "{"] + body + ["\treturn: acc", "}"]
    return "\n".join(out) + "\n", expected % 256, how + (":word" if word else ":struct")


def illtyped_aggregates():
    """ill-typed programs around aggregate shapes (ragged nested array / string literals, a literal against an annotation
    of another length, a pointer to an array of another length).  The compiler must reject them; whatever it accepts
    instead must still be valid IR (C03) — the generator trusts the typer to have made all elements of a literal alike."""
    def lit(shape, elem="i32"):
        if not shape:
            return "1" + elem
        return "[" + ", ".join(lit(shape[1:], elem) for _ in range(shape[0])) + "]"
    out = []
    for inner in ((3, 2), (2, 3), (1, 2), (2, 2, 3), (3, 3, 2)):
        rows = ", ".join(lit((k,)) for k in inner)
        strs = ", ".join('"' + "abcdefg"[:k] + '"' for k in inner)
        for body in ("var g = [%s];" % rows, "var g: [%d][%d]i32 = [%s];" % (len(inner), inner[0], rows),
                     "var g = [%s];" % strs, "var g: [%d][%d]char8 = [%s];" % (len(inner), inner[0], strs),
                     "var g = [%s];\n\tvar x = g[1][0];" % rows):
            out.append("fn main()\n{\n\t%s\n}\n" % body)
            out.append("fn f() -> i32\n{\n\t%s\n\treturn: 1\n}\nfn main() -> i32\n{\n\treturn: f()\n}\n" % body)
    for (a, b) in (((3,), (2,)), ((2,), (3,)), ((2, 3), (2, 2)), ((2, 2), (3, 2))):
        ta = "".join("[%d]" % k for k in a) + "i32"
        tb = "".join("[%d]" % k for k in b) + "i32"
        out.append("fn main()\n{\n\tvar x: %s = %s;\n}\n" % (ta, lit(b)))
        out.append("fn main()\n{\n\tvar a: %s = %s;\n\tvar p: &%s = &a;\n}\n" % (ta, lit(a), tb))
        out.append("fn callee(p: &%s)\n{\n}\nfn main()\n{\n\tvar a: %s = %s;\n\tcallee(&a);\n}\n" % (tb, ta, lit(a)))
        out.append("struct S\n{\n\tm: %s,\n}\nfn main()\n{\n\tvar s = S { m: %s };\n}\n" % (ta, lit(b)))
        out.append("const K: %s = %s;\nfn main()\n{\n}\n" % (ta, lit(b)))
    return out


# ---- access paths: nested arrays, structures with array members, arrays of structures, reached directly and through
# ---- every kind of parameter; writes, reads and lengths against a Python oracle (prints one number) ----

def access_program(rng):
    """returns (source, expected stdout, tags).  A root value of a random shape is filled with literals, changed by 3-7
    writes at random paths (directly, or through a setter that gets the root, an inner array or an inner structure by
    pointer), and then summed leaf by leaf with position weights (directly or through getters that take pointers, views or
    slice pointers); lengths of inner arrays are added too."""
    T = rng.pick(["u8", "i32", "u16", "usize", "i64"])
    U = rng.pick(["i32", "u8", "u32"])
    n = 2 + rng.below(3)
    r_, c_ = 2 + rng.below(2), 2 + rng.below(3)
    shape = rng.pick(["A1", "A2", "S1", "AS", "SS", "AP", "PS"])
    tags = [shape, T]

    def lit(t, v):
        return "%d%s" % (v, t)

    def val():
        return 1 + rng.below(9)
    decls = []
    decls.append("struct S\n{\n\tarr: [%d]%s,\n\tvalue: %s,\n}" % (n, T, U))
    decls.append("struct O\n{\n\tinner: S,\n\titems: [2]S,\n\ttail: %s,\n}" % T)
    decls.append("struct P\n{\n\ta: u8,\n\tpa: &[%d]%s,\n}" % (n, T))
    # helper functions (a menu; only some are called)
    fns = """
fn set_elem(x: &[%(n)d]%(T)s, i: usize, v: %(T)s)
{
	x[i] = v;
}
fn get_elem(x: &[%(n)d]%(T)s, i: usize) -> %(T)s
{
	return: x[i]
}
fn get_elem_view(x: []%(T)s, i: usize) -> %(T)s
{
	return: x[i]
}
fn get_elem_sp(x: &[]%(T)s, i: usize) -> %(T)s
{
	return: x[i]
}
fn set_elem_sp(x: &[]%(T)s, i: usize, v: %(T)s)
{
	x[i] = v;
}
fn set_cell(g: &[%(r)d][%(c)d]%(T)s, i: usize, j: usize, v: %(T)s)
{
	g[i][j] = v;
}
fn get_cell(g: &[%(r)d][%(c)d]%(T)s, i: usize, j: usize) -> %(T)s
{
	return: g[i][j]
}
fn row_len(g: &[%(r)d][%(c)d]%(T)s, i: usize) -> usize
{
	return: |g[i]|
}
fn rows(g: &[%(r)d][%(c)d]%(T)s) -> usize
{
	return: |g|
}
fn set_s_arr(s: &S, i: usize, v: %(T)s)
{
	s.arr[i] = v;
}
fn get_s_arr(s: &S, i: usize) -> %(T)s
{
	return: s.arr[i]
}
fn get_s_arr_view(s: S, i: usize) -> %(T)s
{
	return: s.arr[i]
}
fn set_s_value(s: &S, v: %(U)s)
{
	s.value = v;
}
fn get_s_value(s: S) -> %(U)s
{
	return: s.value
}
fn s_arr_len(s: &S) -> usize
{
	return: |s.arr|
}
fn s_arr_len_view(s: S) -> usize
{
	return: |s.arr|
}
fn p_get(os: []P, k: usize, i: usize) -> %(T)s
{
	return: os[k].pa[i]
}
fn p_get_sp(os: &[]P, k: usize, i: usize) -> %(T)s
{
	return: os[k].pa[i]
}
fn p_len(os: []P, k: usize) -> usize
{
	return: |os[k].pa|
}
fn p_set(os: &[]P, k: usize, i: usize, v: %(T)s)
{
	os[k].pa[i] = v;
}
fn p_one_len(o: P) -> usize
{
	return: |o.pa|
}
fn as_arr_len(xs: []S, k: usize) -> usize
{
	return: |xs[k].arr|
}
fn set_as(xs: &[]S, k: usize, i: usize, v: %(T)s)
{
	xs[k].arr[i] = v;
}
fn set_as_value(xs: &[]S, k: usize, v: %(U)s)
{
	xs[k].value = v;
}
fn get_as(xs: &[2]S, k: usize, i: usize) -> %(T)s
{
	return: xs[k].arr[i]
}
fn get_as_value(xs: []S, k: usize) -> %(U)s
{
	return: xs[k].value
}
""" % dict(n=n, T=T, U=U, r=r_, c=c_)

    def s_lit(sv):
        return "S { arr: [%s], value: %s }" % (", ".join(lit(T, v) for v in sv["arr"]), lit(U, sv["value"]))

    def new_s():
        return {"arr": [val() for _ in range(n)], "value": val()}
    body = []
    # the root and its oracle
    if shape == "A1":
        root = [val() for _ in range(n)]
        body.append("\tvar d: [%d]%s = [%s];" % (n, T, ", ".join(lit(T, v) for v in root)))
    elif shape == "A2":
        root = [[val() for _ in range(c_)] for _ in range(r_)]
        body.append("\tvar d: [%d][%d]%s = [%s];" % (r_, c_, T, ", ".join("[" + ", ".join(lit(T, v) for v in row) + "]" for row in root)))
    elif shape == "S1":
        root = new_s()
        body.append("\tvar d = %s;" % s_lit(root))
    elif shape == "AS":
        root = [new_s(), new_s()]
        body.append("\tvar d: [2]S = [%s, %s];" % (s_lit(root[0]), s_lit(root[1])))
    elif shape == "PS":
        # structures with a pointer member that points to an array, in an array (passed as a slice)
        rows = [[val() for _ in range(n)] for _ in range(2)]
        root = rows
        for k in range(2):
            body.append("\tvar r%d: [%d]%s = [%s];" % (k, n, T, ", ".join(lit(T, v) for v in rows[k])))
        body.append("\tvar d: [2]P = [P { a: 1, pa: &r0 }, P { a: 2, pa: &r1 }];")
    elif shape == "AP":
        # an array of pointers to structures (and one of pointers to arrays): the pointees are variables of their own
        root = [new_s(), new_s()]
        rows = [[val() for _ in range(n)] for _ in range(2)]
        body.append("\tvar s0 = %s;" % s_lit(root[0]))
        body.append("\tvar s1 = %s;" % s_lit(root[1]))
        body.append("\tvar d: [2]&S = [&s0, &s1];")
        for k in range(2):
            body.append("\tvar r%d: [%d]%s = [%s];" % (k, n, T, ", ".join(lit(T, v) for v in rows[k])))
        body.append("\tvar q: [2]&[%d]%s = [&r0, &r1];" % (n, T))
    else:
        root = {"inner": new_s(), "items": [new_s(), new_s()], "tail": val()}
        body.append("\tvar d = O { inner: %s, items: [%s, %s], tail: %s };" % (
            s_lit(root["inner"]), s_lit(root["items"][0]), s_lit(root["items"][1]), lit(T, root["tail"])))

    def us(i):
        return "%dusize" % i

    # access to an S that lives at source path `sp` with oracle object `so`
    # `addr`: may `&<path>` be written?  (Not for the elements of an array of POINTERS: there `&d[k]` is the stored pointer.)
    def write_s(sp, so, addr=True):
        if rng.chance(1, 2):
            i, v = rng.below(n), val()
            so["arr"][i] = v
            how = rng.pick(["direct", "setter", "elem-setter"] if addr else ["direct", "elem-setter"])
            tags.append("w:s.arr:" + how)
            if how == "direct":
                body.append("\t%s.arr[%s] = %s;" % (sp, us(i), lit(T, v)))
            elif how == "setter":
                body.append("\tset_s_arr(&%s, %s, %s);" % (sp, us(i), lit(T, v)))
            else:
                body.append("\tset_elem(&%s.arr, %s, %s);" % (sp, us(i), lit(T, v)))
        else:
            v = val()
            so["value"] = v
            how = rng.pick(["direct", "setter"] if addr else ["direct"])
            tags.append("w:s.value:" + how)
            body.append("\t%s.value = %s;" % (sp, lit(U, v)) if how == "direct" else "\tset_s_value(&%s, %s);" % (sp, lit(U, v)))

    def read_s(sp, so, w0, addr=True):
        out = []
        for i in range(n):
            how = rng.pick(["direct", "getter", "view-getter", "elem-getter", "elem-view", "elem-sp"] if addr else
                           ["direct", "view-getter", "elem-getter", "elem-view", "elem-sp"])
            tags.append("r:s.arr:" + how)
            e = {"direct": "%s.arr[%s]" % (sp, us(i)), "getter": "get_s_arr(&%s, %s)" % (sp, us(i)),
                 "view-getter": "get_s_arr_view(%s, %s)" % (sp, us(i)), "elem-getter": "get_elem(&%s.arr, %s)" % (sp, us(i)),
                 "elem-view": "get_elem_view(%s.arr, %s)" % (sp, us(i)), "elem-sp": "get_elem_sp(&%s.arr, %s)" % (sp, us(i))}[how]
            out.append((e, T, so["arr"][i], w0 + i))
        how = rng.pick(["direct", "getter"])
        tags.append("r:s.value:" + how)
        out.append(("%s.value" % sp if how == "direct" else "get_s_value(%s)" % sp, U, so["value"], w0 + n))
        lhow = rng.pick(["direct", "view", "pointer"] if addr else ["direct", "view"])
        tags.append("r:s.arr.len:" + lhow)
        out.append(({"direct": "|%s.arr|", "view": "s_arr_len_view(%s)", "pointer": "s_arr_len(&%s)"}[lhow] % sp, "usize", n, 1))
        return out
    for _ in range(3 + rng.below(5)):
        if shape == "A1":
            i, v = rng.below(n), val()
            root[i] = v
            how = rng.pick(["direct", "setter", "sp-setter"])
            tags.append("w:a1:" + how)
            body.append({"direct": "\td[%s] = %s;", "setter": "\tset_elem(&d, %s, %s);", "sp-setter": "\tset_elem_sp(&d, %s, %s);"}[how] % (us(i), lit(T, v)))
        elif shape == "A2":
            i, j, v = rng.below(r_), rng.below(c_), val()
            root[i][j] = v
            how = rng.pick(["direct", "setter"])
            tags.append("w:a2:" + how)
            body.append("\td[%s][%s] = %s;" % (us(i), us(j), lit(T, v)) if how == "direct" else "\tset_cell(&d, %s, %s, %s);" % (us(i), us(j), lit(T, v)))
        elif shape == "S1":
            write_s("d", root)
        elif shape == "PS":
            k, i, v = rng.below(2), rng.below(n), val()
            rows[k][i] = v
            how = rng.pick(["direct", "setter", "pointee"])
            tags.append("w:ps:" + how)
            body.append({"direct": "\td[%s].pa[%s] = %s;" % (us(k), us(i), lit(T, v)), "setter": "\tp_set(&d, %s, %s, %s);" % (us(k), us(i), lit(T, v)),
                         "pointee": "\tr%d[%s] = %s;" % (k, us(i), lit(T, v))}[how])
        elif shape == "AP":
            k = rng.below(2)
            c = rng.below(4)
            if c == 0:
                i, v = rng.below(n), val()
                rows[k][i] = v
                how = rng.pick(["through-array", "pointee"])
                tags.append("w:ap.rows:" + how)
                body.append("\tq[%s][%s] = %s;" % (us(k), us(i), lit(T, v)) if how == "through-array" else "\tr%d[%s] = %s;" % (k, us(i), lit(T, v)))
            elif c == 1:
                write_s("s%d" % k, root[k])
            else:
                write_s("d[%s]" % us(k), root[k], addr=False)
        elif shape == "AS":
            k = rng.below(2)
            if rng.chance(1, 3):
                i, v = rng.below(n), val()
                root[k]["arr"][i] = v
                tags.append("w:as:sp-setter")
                body.append("\tset_as(&d, %s, %s, %s);" % (us(k), us(i), lit(T, v)))
            elif rng.chance(1, 3):
                v = val()
                root[k]["value"] = v
                tags.append("w:as.value:sp-setter")
                body.append("\tset_as_value(&d, %s, %s);" % (us(k), lit(U, v)))
            else:
                write_s("d[%s]" % us(k), root[k])
        else:
            k = rng.below(4)
            if k == 0:
                write_s("d.inner", root["inner"])
            elif k < 3:
                write_s("d.items[%s]" % us(k - 1), root["items"][k - 1])
            else:
                v = val()
                root["tail"] = v
                tags.append("w:o.tail")
                body.append("\td.tail = %s;" % lit(T, v))
    # reads
    reads = []
    if shape == "A1":
        for i in range(n):
            how = rng.pick(["direct", "getter", "view", "sp"])
            tags.append("r:a1:" + how)
            reads.append(({"direct": "d[%s]", "getter": "get_elem(&d, %s)", "view": "get_elem_view(d, %s)", "sp": "get_elem_sp(&d, %s)"}[how] % us(i), T, root[i], i + 1))
        reads.append(("|d|", "usize", n, 1))
    elif shape == "A2":
        for i in range(r_):
            for j in range(c_):
                how = rng.pick(["direct", "getter"])
                tags.append("r:a2:" + how)
                reads.append(("d[%s][%s]" % (us(i), us(j)) if how == "direct" else "get_cell(&d, %s, %s)" % (us(i), us(j)), T, root[i][j], i * c_ + j + 1))
            reads.append(("|d[%s]|" % us(i) if rng.chance(1, 2) else "row_len(&d, %s)" % us(i), "usize", c_, 1))
        reads.append(("|d|" if rng.chance(1, 2) else "rows(&d)", "usize", r_, 1))
    elif shape == "S1":
        reads += read_s("d", root, 1)
    elif shape == "AS":
        for k in range(2):
            if rng.chance(1, 2):
                reads += read_s("d[%s]" % us(k), root[k], 1 + k * (n + 1))
            else:
                tags.append("r:as:getter")
                for i in range(n):
                    reads.append(("get_as(&d, %s, %s)" % (us(k), us(i)), T, root[k]["arr"][i], 1 + k * (n + 1) + i))
                reads.append(("get_as_value(d, %s)" % us(k), U, root[k]["value"], 1 + k * (n + 1) + n))
                reads.append(("as_arr_len(d, %s)" % us(k), "usize", n, 1))
        reads.append(("|d|", "usize", 2, 1))
    elif shape == "PS":
        for k in range(2):
            for i in range(n):
                how = rng.pick(["direct", "getter", "sp-getter", "pointee"])
                tags.append("r:ps:" + how)
                reads.append(({"direct": "d[%s].pa[%s]" % (us(k), us(i)), "getter": "p_get(d, %s, %s)" % (us(k), us(i)),
                               "sp-getter": "p_get_sp(&d, %s, %s)" % (us(k), us(i)), "pointee": "r%d[%s]" % (k, us(i))}[how], T, rows[k][i], 1 + k * n + i))
            lh = rng.pick(["direct", "getter", "one"])
            tags.append("r:ps.len:" + lh)
            reads.append(({"direct": "|d[%s].pa|" % us(k), "getter": "p_len(d, %s)" % us(k), "one": "p_one_len(d[%s])" % us(k)}[lh], "usize", n, 1))
    elif shape == "AP":
        for k in range(2):
            reads += read_s("d[%s]" % us(k) if rng.chance(2, 3) else "s%d" % k, root[k], 1 + k * (n + 1), addr=False)
            for i in range(n):
                how = rng.pick(["through-array", "pointee"])
                tags.append("r:ap.rows:" + how)
                reads.append(("q[%s][%s]" % (us(k), us(i)) if how == "through-array" else "r%d[%s]" % (k, us(i)), T, rows[k][i], 2 + k + i))
            reads.append(("|q[%s]|" % us(k), "usize", n, 1))
        reads.append(("|d|", "usize", 2, 1))
    else:
        reads += read_s("d.inner", root["inner"], 1)
        for k in range(2):
            reads += read_s("d.items[%s]" % us(k), root["items"][k], 2 + (k + 1) * (n + 1))
        reads.append(("d.tail", T, root["tail"], 3))
        reads.append(("|d.items|", "usize", 2, 1))
    body.append("\tvar acc: i64 = 0;")
    expected = 0
    for (e, t, v, w) in reads:
        expected += v * w
        body.append("\tacc = acc + %s * %di64;" % (e if t == "i64" else "(%s as i64)" % e, w))
    body.append("\tprint!(acc);")
    src = "\n".join(decls) + fns + "fn main()\n{\n" + "\n".join(body) + "\n}\n"
    return src, str(expected), tags


def usize_cast_programs():
    """casts between usize and every other integer type, of compile-time constants (a named constant, `|:T|`, `|array|`, a
    literal) and of run-time values, placed where the generator folds them into constants or builds aggregates: structure
    literal members, array literal elements, constants, arguments.  One construct per program (a program that aborts the
    compiler is C02's business and hides the others).  Meant for BOTH targets: on wasm32 `usize` is 32 bits wide, so a cast
    that is dropped as a "same representation" hint yields a mistyped constant that only llvm-as sees."""
    out = []
    ints = ["u64", "i64", "u32", "i32", "u16", "u8", "u128", "i128"]
    for t in ints:
        pre = ("const N: usize = 4;\nstruct H\n{\n\ta: %(t)s,\n\tb: %(t)s,\n}\nstruct U\n{\n\ta: usize,\n\tb: usize,\n}\n"
               "fn takes(x: %(t)s) -> %(t)s\n{\n\treturn: x\n}\nfn takes_usize(x: usize) -> usize\n{\n\treturn: x\n}\n" % dict(t=t))
        setup = "\tvar arr: [3]u8 = [1, 2, 3];\n\tvar k: usize = 2;\n\tvar v: %s = 9;\n" % t
        for srcx in ["N", "|:H|", "|arr|", "5usize", "k"]:
            for stmt in ["var h = H { a: %(s)s as %(t)s, b: 1 };", "var h = H { a: 1, b: (%(s)s as %(t)s) + 1 };",
                         "var xs: [2]%(t)s = [%(s)s as %(t)s, 1];", "var r: %(t)s = takes(%(s)s as %(t)s);",
                         "var r: %(t)s = %(s)s as %(t)s;"]:
                out.append(pre + "fn main()\n{\n" + setup + "\t" + stmt % dict(t=t, s=srcx) + "\n}\n")
            if srcx in ("N", "|:H|", "5usize"):
                out.append(pre + "const C: %s = %s as %s;\nconst HC: H = H { a: %s as %s, b: 8 };\nfn main()\n{\n}\n" % (t, srcx, t, srcx, t))
        for stmt in ["var u = U { a: v as usize, b: 1 };", "var u = U { a: 7%(t)s as usize, b: 1 };", "var ys: [2]usize = [v as usize, 1];",
                     "var q: usize = takes_usize(v as usize);", "var q: usize = takes_usize(6%(t)s as usize);"]:
            out.append(pre + "fn main()\n{\n" + setup + "\t" + stmt % dict(t=t) + "\n}\n")
        out.append(pre + "const D: usize = 6%s as usize;\nconst UC: U = U { a: 6%s as usize, b: 8 };\nfn main()\n{\n}\n" % (t, t))
    return out
