"""C20 — rebuilt source parses back to the same tree."""
import collections
from lib import *
import faultgen
import syngen
import xmltree

THEOREMS = ["Syn.parse_print_module", "Syn.parse_print_stmt", "Syn.parse_print_expr", "Syn.parse_print_ty", "Syn.parse_print_args", "Syn.parse_print_elems", "Syn.parse_print_steps", "Syn.parse_print_fields", "Syn.print_norm", "Syn.print_norm_module", "Syn.second_rebuild_identical_module", "Syn.second_rebuild_identical", "Syn.decl_rt", "Syn.all_n"]

# the rebuilder's extra-syntactical markers on structure types (known findings F27 / F28)
DECL_MARKER = re.compile(r"\b(struct|word\d+)#[A-Za-z_][A-Za-z0-9_]*(?= )")
TYPE_MARKER = re.compile(r"\b([A-Za-z_][A-Za-z0-9_]*)#\?")


def strip_markers(text):
    hits = []
    if DECL_MARKER.search(text):
        hits.append("F27")
    if TYPE_MARKER.search(text):
        hits.append("F28")
    return TYPE_MARKER.sub(r"\1", DECL_MARKER.sub(r"\1", text)), hits


def norm_literals(tree):
    """'up to the spelling and type suffix of literals': integer literals keep their value only"""
    return re.sub(r"\(int (-?\d+) (?:_|\(simple \w+\))\)", r"(int \1 _)", tree)


def tok_view(wire):
    """tokens of the wire format as comparable items: kind, and the payload that survives a rebuild"""
    out = []
    for w in wire.split(" "):
        if not w:
            continue
        k, t, v, vt = w.split(":")
        text = bytes.fromhex(t).decode("utf-8", "replace")
        if k in ("NakedDecimal", "BitInteger", "SuffixedInteger", "CharLiteral"):
            out.append(("int", int(v)))
        elif k == "BoolLiteral":
            out.append(("bool", int(v)))
        elif k == "StringLiteral":
            if out and out[-1][0] == "str":
                out[-1] = ("str", out[-1][1] + xmltree.decode_penne_string(text))
            else:
                out.append(("str", xmltree.decode_penne_string(text)))
        elif k in ("Identifier", "Builtin"):
            out.append((k, text))
        elif k == "ValueTypeKeyword":
            out.append((k, vt))
        elif k == "EndOfSource":
            continue
        else:
            out.append((k,))
    return out


def strip_optional_tokens(view):
    """the rebuilder always writes a comma after an array element, a member and a structure field and never after the
    last argument or parameter; the Lean printer does the same, so nothing to strip — kept for symmetry"""
    return view


def main():
    rep = Reporter("C20")
    if not setup_common(rep, THEOREMS):
        return rep.finish()
    rng = SplitMix64(rep.seed).fork("C20")
    thorough = rep.tier == "thorough"
    dist = collections.Counter()
    forms = collections.Counter()
    cases = []
    for i in range(20000 if thorough else 1000):
        g = syngen.Gen(rng.fork("g%d" % i), builtins=False, max_depth=3 + rng.below(3))
        m = g.module()
        for k, v in g.forms.items():
            forms[k] += v
        cases.append(("generated", syngen.render(m, rng.fork("r%d" % i))))
    for name, src in faultgen.corpus():
        if not re.search(r"[A-Za-z_][A-Za-z0-9_]*!", src):
            cases.append(("corpus", src))
    srcs = [s for _, s in cases]
    rb = run_harness(["rebuild\t" + esc(s) for s in srcs])
    work = []
    for i, a in enumerate(rb):
        h, d = kv(a)
        if h != "ok":
            dist["%s: not an error-free parse" % cases[i][0]] += 1
            continue
        r1 = bytes.fromhex(d["r1"][2:]).decode("utf-8")
        t1 = bytes.fromhex(d["t1"][2:]).decode("utf-8")
        if re.search(r"\((?:m?call) \w+!? 1", t1):
            dist["%s: has builtin calls" % cases[i][0]] += 1
            continue
        stripped, hits = strip_markers(r1)
        work.append((i, t1, r1, stripped, hits, d))
    a2 = run_harness(["alphaast\t" + esc(w[3]) for w in work])
    rb2 = run_harness(["rebuild\t" + esc(w[3]) for w in work])
    dt_src = run_harness(["dtokens\t" + esc(srcs[w[0]].encode()) for w in work])
    dt_reb = run_harness(["dtokens\t" + esc(w[3].encode()) for w in work])
    mreq = [("synprint\t" + a[3:]) if a.startswith("ok ") else "synprint\t" for a in dt_src]
    mp = run_model(mreq)
    agreeing = 0
    for (i, t1, r1, stripped, hits, d), ast2, reb2, tsrc, treb, lean in zip(work, a2, rb2, dt_src, dt_reb, mp):
        cls, src = cases[i]
        dist[cls] += 1
        problems = []
        for fid in hits:
            rep.violation("c20:marker:" + fid, {"source": src, "rebuilt": r1})
        if t1 == "(module)":
            rep.violation("c20:empty-module", {"source": src, "rebuilt": r1})
            continue
        if not hits and (d.get("reparse_lexerr") != "false" or d.get("reparse_poisoned") != "false"):
            problems.append("the rebuilt text does not lex/parse without error")
        h2, d2 = kv(ast2)
        if h2 != "ok":
            problems.append("the rebuilt text (markers removed) does not parse without error: " + ast2[:80])
        else:
            t2 = bytes.fromhex(d2["tree"][2:]).decode("utf-8")
            if norm_literals(t1) != norm_literals(t2):
                k = next((j for j in range(min(len(t1), len(t2))) if norm_literals(t1)[j:j + 1] != norm_literals(t2)[j:j + 1]), 0)
                a_, b_ = norm_literals(t1), norm_literals(t2)
                k = next((j for j in range(min(len(a_), len(b_))) if a_[j] != b_[j]), min(len(a_), len(b_)))
                problems.append("the reparsed tree differs: ...%s  <>  ...%s" % (a_[max(0, k - 70):k + 50], b_[max(0, k - 70):k + 50]))
        h3, d3 = kv(reb2)
        if h3 != "ok":
            problems.append("second rebuild impossible: " + reb2[:80])
        else:
            r2 = bytes.fromhex(d3["r1"][2:]).decode("utf-8")
            if r2 != r1:
                problems.append("the second rebuild is not byte-identical to the first")
        # model tie: the Lean printer applied to the Lean parser's tree of the source's tokens = tokens of the rebuilt text
        import c14
        if tsrc.startswith("lexerr") and c14.known_class(src) is not None:
            dist["model tie skipped: lexer divergence recorded under C14"] += 1
        elif lean == "reject" and re.search(r"\{[^{}]*\breturn\s*:", src) and not problems:
            # `return` is a keyword in the second generation (whose grammar the model follows): a `return:` label inside
            # a nested block is only a label for the first generation
            dist["model tie skipped: `return:` label in a nested block"] += 1
        elif not lean.startswith("ok ") or not treb.startswith("ok "):
            problems.append("model: %s / tokens of the rebuilt text: %s" % (lean[:60], treb[:60]))
        elif tok_view(lean[3:]) != tok_view(treb[3:]):
            va, vb = tok_view(lean[3:]), tok_view(treb[3:])
            k = next((j for j in range(min(len(va), len(vb))) if va[j] != vb[j]), min(len(va), len(vb)))
            problems.append("the rebuilt text's tokens differ from the Lean printer's at token %d: model %s, rebuilt %s"
                            % (k, va[max(0, k - 3):k + 3], vb[max(0, k - 3):k + 3]))
        if problems:
            rep.violation("module:%s" % hash_str(src), {
                "why": problems[:5], "class": cls, "source": src, "rebuilt": r1, "harness_request": "rebuild\t" + esc(src),
                "model_request": mreq[work.index((i, t1, r1, stripped, hits, d))][:20000] if False else None})
        else:
            agreeing += 1
    report_broken_proof(rep)
    rep.coverage.update({
        "evaluations": len(cases), "programs": len(work), "distinct_nontrivial": len(set(srcs)),
        "rule": "syntax-directed generated modules without builtin calls (every declaration, statement, type and expression form) "
                "and every corpus file that parses without error and has no builtin call: parse, rebuild, (strip the rebuilder's "
                "#-markers on structure types: known findings F27/F28), parse again: same tree up to the spelling and suffix of "
                "literals; rebuild again: byte-identical; and the tokens of the rebuilt text equal the Lean printer's tokens "
                "for the Lean parser's tree of the source's token stream",
        "traces_validated_against_impl": agreeing, "distribution": dict(dist), "grammar_forms_generated": dict(forms),
        "samples": [srcs[0][:600]],
    })
    return rep.finish()


if __name__ == "__main__":
    sys.exit(main())
