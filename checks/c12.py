"""C12 — imports expose exactly the public interface and modules compose."""
import collections
import itertools
from lib import *
import progen
import runlib

THEOREMS = ["Imports.export_exact", "Imports.order_irrelevant", "Imports.expand_spec", "Imports.export_export"]


def refs_of_expr(e, acc):
    k = e[0]
    if k == 'var' and e[1].startswith("C_"):
        acc.add(e[1])
    elif k == 'call':
        acc.add(e[1])
        for a in e[2]:
            if a[0] == 'val':
                refs_of_expr(a[1], acc)
    for x in e[1:]:
        if isinstance(x, tuple):
            refs_of_expr(x, acc)


def refs_of_stmt(s, acc):
    if s[0] == 'calls':
        acc.add(s[1])
        for a in s[2]:
            if a[0] == 'val':
                refs_of_expr(a[1], acc)
    for x in s[1:]:
        if isinstance(x, tuple):
            if x and isinstance(x[0], str) and x[0] in ('decl', 'declarr', 'assign', 'assignidx', 'if', 'ife', 'block', 'loop',
                                                        'goto', 'label', 'print', 'calls', 'declptr', 'setaddr'):
                refs_of_stmt(x, acc)
            else:
                refs_of_expr(x, acc)
        elif isinstance(x, list):
            for y in x:
                if isinstance(y, tuple):
                    if y and y[0] in ('decl', 'declarr', 'assign', 'assignidx', 'if', 'ife', 'block', 'loop', 'goto', 'label',
                                      'print', 'calls', 'declptr', 'setaddr'):
                        refs_of_stmt(y, acc)
                    else:
                        refs_of_expr(y, acc)


def decl_refs(p):
    """name -> set of referenced top-level names"""
    out = {}
    for c in p['consts']:
        acc = set()
        refs_of_expr(c[2], acc)
        out[c[0]] = acc
    for f in p['fns']:
        acc = set()
        for s in f['body']:
            refs_of_stmt(s, acc)
        if f['retexpr'] is not None:
            refs_of_expr(f['retexpr'], acc)
        out[f['name']] = acc - {f['name']}
    return out


def split(p, rng, k, lay, drop_pub=None, drop_import=None, force_pub=(), extra_imports=()):
    """partition the declarations over k modules; returns (files [(name, source)], model info)"""
    names = [c[0] for c in p['consts']] + [f['name'] for f in p['fns']]
    where = {n: rng.below(k) for n in names}
    refs = decl_refs(p)
    pub = set()
    imports = [set() for _ in range(k)]
    for n, rs in refs.items():
        for r in rs:
            if r in where and where[r] != where[n]:
                pub.add(r)
                imports[where[n]].add(where[r])
    pub |= set(force_pub)
    for (m_, j_) in extra_imports:
        if m_ != j_:
            imports[m_].add(j_)
    if drop_pub is not None and drop_pub in pub:
        pub.discard(drop_pub)
    files = []
    for m in range(k):
        out = []
        for j in sorted(imports[m]):
            if drop_import == (m, j):
                continue
            out.append('import "m%d.pn";' % j)
        for c in p['consts']:
            if where[c[0]] == m:
                out.extend(progen.src_const(c, lay, "pub " if c[0] in pub else ""))
        for f in p['fns']:
            if where[f['name']] == m:
                out.extend(progen.src_fn(f, lay, "pub " if f['name'] in pub else ""))
        files.append(("m%d.pn" % m, "\n".join(out) + "\n"))
    return files, where, pub, imports, refs


def model_visibility(p, where, pub, imports, refs, k, drop_import=None):
    """ask the Lean expansion model which cross-module references resolve"""
    names = [c[0] for c in p['consts']] + [f['name'] for f in p['fns']]
    num = {n: i for i, n in enumerate(names)}
    kinds = {c[0]: "const" for c in p['consts']}
    kinds.update({f['name']: "fn" for f in p['fns']})
    mods = []
    for m in range(k):
        mods.append("(m%s)" % "".join(" (d %d %s %d)" % (num[n], kinds[n], 1 if n in pub else 0) for n in names if where[n] == m))
    imps = []
    for m in range(k):
        for j in sorted(imports[m]):
            if drop_import == (m, j):
                continue
            imps.append("(%d %d)" % (m, j))
    rlist = []
    for n, rs in refs.items():
        for r in sorted(rs):
            if r in where:
                rlist.append((where[n], r))
    req = "C12\t(c12 (mods %s) (imports %s) (refs %s))" % (" ".join(mods), " ".join(imps),
                                                          " ".join("(%d %d)" % (m, num[r]) for m, r in rlist))
    ans = run_model([req])[0]
    bits = ans.split(" ") if ans and ans[0] in "01" else []
    return rlist, bits, req


def main():
    rep = Reporter("C12")
    if not setup_common(rep, THEOREMS):
        return rep.finish()
    rng = SplitMix64(rep.seed).fork("C12")
    thorough = rep.tier == "thorough"
    dist = collections.Counter()
    agreeing = total = 0
    samples = []
    nprog = 2500 if thorough else 25
    prngs = [rng.fork("prog%d" % i) for i in range(nprog)]
    nparts = 3 if thorough else 2

    def process(i):
        """one generated program: its partitions, file orders and negative variants; returns counters and violations"""
        lrng = prngs[i]
        dist = collections.Counter()
        total = agreeing = 0
        viols = []
        sample = None
        g = progen.Gen(lrng.fork("p"))
        p = g.program(size=3 + lrng.below(6))
        ma = runlib.model_run([p])[0]
        mo = runlib.model_obs(ma)
        if mo[0] != "ok":
            dist["discarded:" + mo[0]] += 1
            return dist, total, agreeing, viols, sample
        lay = progen.Layout(lrng.fork("l"), plain=True)
        single = progen.src_prog(p, lay)
        for part in range(nparts):
            k = 2 + lrng.below(3)
            sv = lrng.next()
            prng = SplitMix64(sv)
            files, where, pub, imports, refs = split(p, SplitMix64(sv), k, lay)
            orders = list(itertools.permutations(range(k)))
            if len(orders) > 6:
                orders = [orders[lrng.below(len(orders))] for _ in range(4)] + [orders[0], orders[-1]]
            reqs = []
            for o in orders:
                fields = []
                for j in o:
                    fields += [files[j][0], esc(files[j][1])]
                reqs.append("alpha\trun\t" + "\t".join(fields))
            hs = run_harness_pooled(reqs)
            for o, ha, rq in zip(orders, hs, reqs):
                total += 1
                io = runlib.impl_obs(ha)
                if io[:3] == mo:
                    agreeing += 1
                    dist["split:agree"] += 1
                else:
                    key = "split:%d:%s:%s" % (i, part, o)
                    # known finding F37: the expander splices a pub constant into the importer WITH its initialiser expression,
                    # so every constant that expression mentions (transitively) must resolve in the importer too - it does not
                    # when it is private in the exporting module, or public in a third module the importer does not import.
                    # Neutralisation: make exactly those constants pub and import their modules into the importer; if the
                    # program then behaves like the single file, this is the known finding.
                    consts = set(c[0] for c in p['consts'])
                    force = set()
                    extra = set()
                    for m_ in range(k):
                        seen_c = set()
                        todo = [n for n in pub if n in consts and where[n] != m_ and where[n] in imports[m_]]
                        while todo:
                            n = todo.pop()
                            for r_ in refs.get(n, ()):
                                if r_ in consts and r_ not in seen_c:
                                    seen_c.add(r_)
                                    todo.append(r_)
                                    if where[r_] != m_ and not (r_ in pub and where[r_] in imports[m_]):
                                        force.add(r_)
                                        extra.add((m_, where[r_]))
                    if force and 402 in (codes_of(kv(ha)[1]) if ha.startswith("err") else []):
                        files_n, _w, _p, _i, _r = split(p, SplitMix64(sv), k, lay, force_pub=force, extra_imports=extra)
                        fields = []
                        for j in o:
                            fields += [files_n[j][0], esc(files_n[j][1])]
                        ha_n = run_harness_pooled(["alpha\trun\t" + "\t".join(fields)])[0]
                        if runlib.impl_obs(ha_n)[:3] == mo:
                            key = "c12:pub-constant-initialiser-not-resolvable-in-importer"
                    viols.append((key, {
                        "why": "the program split over %d files (order %s) does not behave like the single-file program" % (k, o),
                        "files": dict(files), "order": o, "single_file": single, "harness_request": rq,
                        "model_request": "run\t" + progen.sx_prog(p), "implementation": ha[:1500], "model": ma[:800]}))
            if i == 0 and part == 0:
                sample = {"files": dict(files)}
            # negative: hide one needed item / drop one needed import: must be rejected; the expansion model says which refs break
            cross = sorted(pub)
            if cross:
                victim = prng.pick(cross)
                files2, where2, pub2, imports2, refs2 = split(p, SplitMix64(sv), k, lay, drop_pub=victim)
                rlist, bits, mreq = model_visibility(p, where2, pub2, imports2, refs2, k)
                expect_reject = "0" in bits
                fields = []
                for j in range(k):
                    fields += [files2[j][0], esc(files2[j][1])]
                rq = "alpha\tcheck\t" + "\t".join(fields)
                ha = run_harness_pooled([rq])[0]
                hh, hd = kv(ha)
                total += 1
                codes = codes_of(hd) if hh == "err" else []
                ok = (hh == "err" and any(c in (401, 402, 405) for c in codes)) if expect_reject else (hh == "ok")
                dist["private:" + ("rejected" if hh == "err" else hh)] += 1
                if ok:
                    agreeing += 1
                else:
                    viols.append(("private:%d:%s:%s" % (i, part, victim), {
                        "why": "private item %s referenced from another module: model expects %s" % (victim, "rejection (E401/E402/E405)" if expect_reject else "acceptance"),
                        "files": dict(files2), "harness_request": rq, "model_request": mreq, "implementation": ha[:600], "model_bits": bits}))
            pairs = [(m, j) for m in range(k) for j in sorted(imports[m])]
            if pairs:
                dm = prng.pick(pairs)
                files3, where3, pub3, imports3, refs3 = split(p, SplitMix64(sv), k, lay, drop_import=dm)
                rlist, bits, mreq = model_visibility(p, where3, pub3, imports3, refs3, k, drop_import=dm)
                expect_reject = "0" in bits
                fields = []
                for j in range(k):
                    fields += [files3[j][0], esc(files3[j][1])]
                rq = "alpha\tcheck\t" + "\t".join(fields)
                ha = run_harness_pooled([rq])[0]
                hh, hd = kv(ha)
                total += 1
                codes = codes_of(hd) if hh == "err" else []
                ok = (hh == "err" and any(c in (401, 402, 405) for c in codes)) if expect_reject else (hh == "ok")
                dist["noimport:" + ("rejected" if hh == "err" else hh)] += 1
                if ok:
                    agreeing += 1
                else:
                    viols.append(("noimport:%d:%s:%s" % (i, part, dm), {
                        "why": "module m%d no longer imports m%d (items reachable only transitively): model expects %s" % (dm[0], dm[1], "rejection" if expect_reject else "acceptance"),
                        "files": dict(files3), "harness_request": rq, "model_request": mreq, "implementation": ha[:600], "model_bits": bits}))
        return dist, total, agreeing, viols, sample

    import concurrent.futures
    with concurrent.futures.ThreadPoolExecutor(max_workers=NCPU) as ex:
        results = list(ex.map(process, range(nprog)))
    for d_, t_, a_, viols, sample in results:
        dist.update(d_)
        total += t_
        agreeing += a_
        if sample:
            samples.append(sample)
        for key, payload in viols:
            rep.violation(key, payload)
    # probe of known finding F37 (so that it is reported on every run, whatever the random partitions were)
    probe = [("lib.pn", "const A: i32 = 2;\npub const B: i32 = A + 1;\n"),
             ("main.pn", 'import "lib.pn";\nfn main() -> i32\n{\n\treturn: B\n}\n')]
    pa = run_harness_serial(["alpha\trun\t" + "\t".join(x for nm, src in probe for x in (nm, esc(src)))])[0]
    ph, pd = kv(pa)
    if not (ph == "ok" and pd.get("status") == "3"):
        rep.violation("c12:pub-constant-initialiser-not-resolvable-in-importer", {"files": dict(probe), "implementation": pa[:300]})
    else:
        rep.notes.append("known finding F37 no longer reproduces on its probe")
    # directories: two modules with the same file name in different directories, each imported by its sibling by bare name
    # (an import is looked up as written among the given files, then relative to the importing file); every file order
    import itertools as _it
    dfiles = [("app/main.pn", 'import "util.pn";\nimport "lib/tool.pn";\nfn main() -> i32\n{\n\tvar a = scaled(5);\n\tvar b = 7 * FACTOR;\n\treturn: a + b\n}\n'),
              ("lib/tool.pn", 'import "util.pn";\npub fn scaled(x: i32) -> i32\n{\n\treturn: x * FACTOR\n}\n'),
              ("lib/util.pn", "pub const FACTOR: i32 = 2;\n"),
              ("app/util.pn", "pub const FACTOR: i32 = 3;\n")]
    # ... and every spelling of the file names on the command line: as they are, with a leading `./` (what shell completion
    # writes), with a `./` inside; the imports name the files without
    spellings = [lambda f: f, lambda f: "./" + f, lambda f: f.replace("/", "/./"), lambda f: "./" + f if f.startswith("lib") else f,
                 lambda f: f.replace("/", "/sub/../"), lambda f: "x/../" + f]
    dorders = [(o, sp) for o in _it.permutations(range(4)) for sp in range(len(spellings))]
    dreqs = ["alpha\trun\t" + "\t".join(x for j in o for x in (spellings[sp](dfiles[j][0]), esc(dfiles[j][1]))) for o, sp in dorders]
    dres = run_harness(dreqs)
    for (o, sp), rq, da in zip(dorders, dreqs, dres):
        total += 1
        dh_, dd_ = kv(da)
        dist["directories:" + dh_] += 1
        if dh_ == "ok" and dd_.get("status") == "31":
            agreeing += 1
        else:
            rep.violation("directories:%s:spelling%d" % ("".join(map(str, o)), sp), {
                "why": "app/main.pn imports its sibling util.pn (FACTOR = 3) and lib/tool.pn, which imports ITS sibling util.pn (FACTOR = 2): "
                       "scaled(5) + 7 * FACTOR = 10 + 21 = 31 in every file order; got " + da[:160],
                "files": dict(dfiles), "order": [dfiles[j][0] for j in o], "harness_request": rq})
    # ... and through the command line itself (it gathers the compilation units: src/main.rs), with the files on disk: all 24
    # orders of the four paths
    import tempfile
    import shutil
    penne = build_penne_bin()
    cdir = tempfile.mkdtemp(prefix="c12cli", dir=CACHE)
    for nm_, src_ in dfiles:
        os.makedirs(os.path.dirname(os.path.join(cdir, nm_)), exist_ok=True)
        open(os.path.join(cdir, nm_), "w").write(src_)
    for o in itertools.permutations(range(len(dfiles))):
        pr_ = subprocess.run([penne, "run", "--color=never"] + [dfiles[j][0] for j in o], cwd=cdir, env=env_for_cargo(),
                             stdout=subprocess.PIPE, stderr=subprocess.PIPE, timeout=300)
        total += 1
        out_ = (pr_.stdout + pr_.stderr).decode("utf-8", "replace")
        dist["directories-command-line:%s" % ("ok" if "Output: 31" in out_ else "other")] += 1
        if pr_.returncode == 0 and "Output: 31" in out_:
            agreeing += 1
        else:
            rep.violation("directories:command-line:%s" % "".join(map(str, o)), {
                "why": "`penne run %s`: the same program as above through the command line, expected `Output: 31`; status %d, output ends: %s"
                       % (" ".join(dfiles[j][0] for j in o), pr_.returncode, out_[-300:]), "files": dict(dfiles)})
    shutil.rmtree(cdir, ignore_errors=True)
    # named lengths across modules: the constant in one module, a pub structure whose member type names it - directly, inside
    # an array, behind pointers - in a second module, the user in a third; every file order (the order in which the importer
    # types the two imported declarations must follow the dependency, not the command line)
    LEN_TYPES = [("[N]i32", "cells[1]", "", "[1, 20, 3]"),
                 ("[2][N]i32", "cells[1][1]", "", "[[1, 2, 3], [4, 20, 6]]"),
                 ("&[N]i32", "cells[1]", "var cells: [N]i32 = [1, 20, 3];", "&cells"),
                 ("&[2][N]i32", "cells[1][1]", "var cells: [2][N]i32 = [[1, 2, 3], [4, 20, 6]];", "&cells"),
                 ("&&[N]i32", "cells[1]", "var cells: [N]i32 = [1, 20, 3];\n\tvar pc: &[N]i32 = &cells;", "&&pc"),
                 ("[N][2]i32", "cells[1][1]", "", "[[1, 2], [3, 20], [5, 6]]"),
                 ("&[N][2]i32", "cells[1][1]", "var cells: [N][2]i32 = [[1, 2], [3, 20], [5, 6]];", "&cells"),
                 ("[2]&[N]i32", "cells[1][1]", "var row: [N]i32 = [1, 20, 3];", "[&row, &row]")]
    lreqs, lmeta = [], []
    for lt, access, setup, value in LEN_TYPES:
        lfiles = [("dims.pn", "pub const N: usize = 3;\n"),
                  ("grid.pn", 'import "dims.pn";\npub struct GridRef\n{\n\tcells: %s,\n\tweight: i32,\n}\n'
                              'pub fn pick(g: GridRef) -> i32\n{\n\treturn: g.%s + g.weight\n}\n' % (lt, access)),
                  ("main.pn", 'import "dims.pn";\nimport "grid.pn";\nfn main() -> i32\n{\n\t%s\n\tvar g = GridRef { cells: %s, weight: 22 };\n'
                              '\treturn: pick(g)\n}\n' % (setup, value))]
        for o in _it.permutations(range(3)):
            lreqs.append("alpha\trun\t" + "\t".join(x for j in o for x in (lfiles[j][0], esc(lfiles[j][1]))))
            lmeta.append((lt, o, lfiles))
    for (lt, o, lfiles), rq, la in zip(lmeta, lreqs, run_harness(lreqs)):
        total += 1
        lh_, ld_ = kv(la)
        dist["named-length-across-modules:" + lh_] += 1
        if lh_ == "ok" and ld_.get("status") == "42":
            agreeing += 1
        else:
            rep.violation("lengths-across-modules:%s:%s" % (lt, "".join(map(str, o))), {
                "why": "a pub structure with a member of type %s (N a pub constant of another module) used from a third module: 20 + 22 = 42 "
                       "in every file order; got %s" % (lt, la[:200]),
                "files": dict(lfiles), "order": [lfiles[j][0] for j in o], "harness_request": rq})
    # an import that climbs out of the importer's directory
    pfiles = [("sub/main.pn", 'import "../lib.pn";\nfn main() -> i32\n{\n\treturn: seven()\n}\n'), ("lib.pn", "pub fn seven() -> i32\n{\n\treturn: 7\n}\n")]
    for o in ((0, 1), (1, 0)):
        pa_ = run_harness_serial(["alpha\trun\t" + "\t".join(x for j in o for x in (pfiles[j][0], esc(pfiles[j][1])))])[0]
        ph_, pd_ = kv(pa_)
        total += 1
        if ph_ == "ok" and pd_.get("status") == "7":
            agreeing += 1
        else:
            rep.violation("directories:parent:%d%d" % o, {"why": 'sub/main.pn imports "../lib.pn", which is among the given files: ' + pa_[:200], "files": dict(pfiles)})
    # the silent variant: the importer has a PRIVATE constant of the same name as the private constant that the spliced
    # initialiser mentions - the pub constant then has another value in the importer than in its own module (F69)
    cap = [("lib.pn", "const X: i32 = 3;\npub const Y: i32 = X + 1;\npub fn y_at_home() -> i32\n{\n\treturn: Y\n}\n"),
           ("main.pn", 'import "lib.pn";\nconst X: i32 = 100;\nfn main() -> i32\n{\n\treturn: Y * 10 + y_at_home()\n}\n')]
    ca = run_harness_serial(["alpha\trun\t" + "\t".join(x for nm, src in cap for x in (nm, esc(src)))])[0]
    ch_, cd_ = kv(ca)
    if ch_ == "ok" and cd_.get("status") != "44":
        rep.violation("c12:pub-constant-initialiser-captures-importers-private-name", {
            "why": "Y = X + 1 with X = 3 private to lib.pn is 4 in lib.pn; the importer, which has its own private X = 100, must see 4 too "
                   "(status 44 expected), got status %s" % cd_.get("status"), "files": dict(cap), "implementation": ca[:300]})
    # ... and with structures: a pub structure with a member of a PRIVATE structure type, and an importer with its own private
    # structure of that name and another layout - the two modules then disagree about the layout of the pub structure (F69b)
    capS = [("a.pn", "struct Inner\n{\n\tv: i32,\n}\npub struct Outer\n{\n\tinner: Inner,\n\ttail: i32,\n}\npub fn tail_of(o: Outer) -> i32\n{\n\treturn: o.tail\n}\n"),
            ("main.pn", 'import "a.pn";\nstruct Inner\n{\n\ta: i64,\n\tb: i64,\n}\nfn main() -> i32\n{\n\tvar o = Outer { inner: Inner { a: 1, b: 2 }, tail: 42 };\n\treturn: tail_of(o)\n}\n')]
    csa = run_harness_serial(["alpha\trun\t" + "\t".join(x for nm, src in capS for x in (nm, esc(src)))])[0]
    csh, csd = kv(csa)
    if csh == "ok" and csd.get("status") != "42":
        rep.violation("c12:pub-structure-member-type-captures-importers-private-structure", {
            "why": "a pub structure whose member type is a private structure of its module is spliced into the importer by NAME; the importer's own "
                   "private structure of that name (another layout) is used there, the two modules disagree about the layout and tail_of(o) "
                   "returns %s instead of 42" % csd.get("status"), "files": dict(capS), "implementation": csa[:300]})
    # the same leak through the other places where a pub declaration carries an expression or a length of its own module:
    # an array length in a pub structure or in the type of a pub constant that names a private constant
    for what, lib, mainsrc in (
            ("array length of a pub structure member", "const N: usize = 2;\npub struct Q\n{\n\tp: [N]i32,\n}\n",
             "fn main() -> i32\n{\n\tvar q: Q;\n\treturn: 3\n}\n"),
            ("array length in the type of a pub constant", "const N: usize = 2;\npub const T: [N]i32 = [1, 2];\n",
             "fn main() -> i32\n{\n\treturn: T[0] + 2\n}\n")):
        probe2 = [("lib.pn", lib), ("main.pn", 'import "lib.pn";\n' + mainsrc)]
        pa2 = run_harness_serial(["alpha\trun\t" + "\t".join(x for nm, src in probe2 for x in (nm, esc(src)))])[0]
        ph2, pd2 = kv(pa2)
        if not (ph2 == "ok" and pd2.get("status") == "3"):
            rep.violation("c12:pub-declaration-names-private-constant-as-length", {"what": what, "files": dict(probe2), "implementation": pa2[:300]})
    # interface matrix: one item of every declaration kind in a leaf module c, pub or not; every acyclic import graph over
    # three modules a, b, c; a and/or b use the item; every file order.  Accepted exactly when every user imports c
    # directly and the item is pub (the Lean expansion model decides), and then it behaves like the single-file program.
    KINDS = {
        "fn": ("fn", "%sfn x() -> i32\n{\n\treturn: 7\n}\n", "x()"),
        "head": ("head", "%sextern fn abs(x: i32) -> i32;\n", "abs(-7)"),
        "const": ("const", "%sconst X: i32 = 7;\n", "X"),
        "struct": ("struct", "%sstruct X\n{\n\tv: i32,\n}\n", None),
        "word": ("struct", "%sword32 X\n{\n\tv: i32,\n}\n", None),
        # an opaque structure can only be named behind a pointer
        "opaque": ("struct", "%sstruct X;\n", "opaque"),
    }
    def user(fname, pubkw, kind):
        use = KINDS[kind][2]
        if use == "opaque":
            return "fn takes_%s(p: &X)\n{\n}\n%sfn %s() -> i32\n{\n\treturn: 7\n}\n" % (fname, pubkw, fname)
        if use is None:
            return "%sfn %s() -> i32\n{\n\tvar s = X { v: 7 };\n\treturn: s.v\n}\n" % (pubkw, fname)
        return "%sfn %s() -> i32\n{\n\treturn: %s\n}\n" % (pubkw, fname, use)
    mcases = []
    for kind in KINDS:
        for is_pub in (True, False):
            for edges in itertools.product((0, 1), repeat=3):   # a->b, a->c, b->c
                for ua in (0, 1):
                    for ub in (0, 1):
                        if not (ua or ub):
                            continue
                        a = ('import "b.pn";\n' if edges[0] else "") + ('import "c.pn";\n' if edges[1] else "")
                        a += user("main", "", kind) if ua else "fn main() -> i32\n{\n\treturn: 7\n}\n"
                        b = ('import "c.pn";\n' if edges[2] else "") + (user("fb", "pub ", kind) if ub else "pub fn fb() -> i32\n{\n\treturn: 1\n}\n")
                        c = KINDS[kind][1] % ("pub " if is_pub else "")
                        imps = [(0, 1)] * edges[0] + [(0, 2)] * edges[1] + [(1, 2)] * edges[2]
                        refs = [(0, 9)] * ua + [(1, 9)] * ub
                        mreq = "C12\t(c12 (mods (m (d 1 fn 0)) (m (d 2 fn 1)) (m (d 9 %s %d))) (imports %s) (refs %s))" % (
                            KINDS[kind][0], 1 if is_pub else 0, " ".join("(%d %d)" % e for e in imps), " ".join("(%d %d)" % r for r in refs))
                        mcases.append((kind, is_pub, edges, ua, ub, [("a.pn", a), ("b.pn", b), ("c.pn", c)], mreq))
    mm = run_model([x[6] for x in mcases])
    mreqs = []
    for (kind, is_pub, edges, ua, ub, files3, mreq) in mcases:
        for o in itertools.permutations(range(3)):
            mode = "check" if kind == "head" else "run"
            mreqs.append("alpha\t%s\t" % mode + "\t".join(x for j in o for x in (files3[j][0], esc(files3[j][1]))))
    mh = run_harness(mreqs)
    pos = 0
    for (kind, is_pub, edges, ua, ub, files3, mreq), ma3 in zip(mcases, mm):
        bits = ma3.split(" ") if ma3 and ma3[0] in "01" else None
        expect_ok = bits is not None and "0" not in bits
        for o in itertools.permutations(range(3)):
            ha = mh[pos]
            rq = mreqs[pos]
            pos += 1
            total += 1
            hh, hd = kv(ha)
            codes = codes_of(hd) if hh == "err" else []
            if bits is None:
                ok = False
            elif expect_ok:
                ok = hh == "ok" and (kind == "head" or hd.get("status") == "7")
            else:
                ok = hh == "err" and any(cd in (401, 402, 405) for cd in codes)
            dist["matrix:%s:%s" % (kind, "accepted" if expect_ok else "rejected")] += 1
            if ok:
                agreeing += 1
            else:
                rep.violation("matrix:%s:%s:%s:%d%d:%s" % (kind, is_pub, "".join(map(str, edges)), ua, ub, "".join(map(str, o))), {
                    "why": "a %s %s item of module c, imports a->b=%d a->c=%d b->c=%d, used by %s, files in order %s: the expansion model expects %s"
                           % ("pub" if is_pub else "private", kind, edges[0], edges[1], edges[2], "+".join(n for n, u in (("a", ua), ("b", ub)) if u),
                              [files3[j][0] for j in o], "acceptance (status 7)" if expect_ok else "rejection (E401/E402/E405)"),
                    "files": dict(files3), "harness_request": rq, "model_request": mreq, "implementation": ha[:400], "model_bits": bits})
    # namesakes: two leaf modules c and d that never meet each declare a pub constant of the same name; a imports b and c,
    # b imports d; every user sees the constant of the module it imports, in every file order (24)
    if os.environ.get("VERIF_C12_NAMESAKES", "1") == "1":
        nfiles = [("a.pn", 'import "b.pn";\nimport "c.pn";\nfn main() -> i32\n{\n\treturn: LIMIT + fb()\n}\n'),
                  ("b.pn", 'import "d.pn";\npub fn fb() -> i32\n{\n\treturn: LIMIT\n}\n'),
                  ("c.pn", "pub const LIMIT: i32 = 7;\n"),
                  ("d.pn", "pub const LIMIT: i32 = 9;\nconst HIDDEN: i32 = 1;\n")]
        norders = list(itertools.permutations(range(4)))
        nreqs = ["alpha\trun\t" + "\t".join(x for j in o for x in (nfiles[j][0], esc(nfiles[j][1]))) for o in norders]
        for o, ha, rq in zip(norders, run_harness(nreqs), nreqs):
            total += 1
            hh, hd = kv(ha)
            dist["namesake:" + hh[:8]] += 1
            if hh == "ok" and hd.get("status") == "16":
                agreeing += 1
            else:
                rep.violation("namesake:const:%s" % "".join(map(str, o)), {
                    "why": "two modules that never meet declare a pub constant of the same name; each importer must see its own "
                           "(expected exit status 7 + 9 = 16): " + ha[:200],
                    "files": dict(nfiles), "order": [nfiles[j][0] for j in o], "harness_request": rq, "implementation": ha[:400]})
    # history independence: a module's IR must not depend on unrelated modules compiled before it by the same Compiler
    mods = []
    for i in range(120 if thorough else 12):
        g = progen.Gen(rng.fork("h%d" % i))
        p = g.program(size=3)
        fns = [f for f in p['fns'] if f['name'] != 'main']
        if not fns:
            continue
        lay = progen.Layout(rng, plain=True)
        ren = "\n".join("\n".join(progen.src_fn(f, lay)) for f in fns).replace("f", "h%d_f" % i, 0)
        src = "\n".join("\n".join(progen.src_const(c, lay)) for c in p['consts']) + "\n" + ren + "\n"
        src = re.sub(r"\b(f\d+|C_\d+)\b", lambda mm: "h%d_%s" % (i, mm.group(1)), src)
        mods.append(("h%d.pn" % i, src))
    # an exported function named like a C library function that the builtins call (known finding F102): a module that nobody
    # imports takes `write` away from `print!` in every other module
    hp = [("main.pn", 'fn main() -> i32\n{\n\tprint!("hello\\n");\n\treturn: 5\n}\n'),
          ("unrelated.pn", "pub fn write(x: i32, y: i32, z: i32) -> i64\n{\n\treturn: 0\n}\n")]
    for o in ((0, 1), (1, 0)):
        rq = "alpha\trun\t" + "\t".join(x for j in o for x in (hp[j][0], esc(hp[j][1])))
        ha = run_harness_serial([rq])[0]
        hh, hd = kv(ha)
        total += 1
        if hh == "ok" and hd.get("status") == "5" and bytes.fromhex(hd.get("stdout", "h:")[2:]) == b"hello\n":
            agreeing += 1
        else:
            rep.violation("c12:exported-function-named-like-a-c-function-of-the-builtins", {
                "why": "main.pn prints hello and returns 5 on its own; with a module that nobody imports and that defines `pub fn write` "
                       "it prints something else: " + ha[:200], "files": dict(hp), "harness_request": rq, "implementation": ha[:400]})
    # modules that bind the same C functions themselves (the same `extern fn` heads, pub or not, in several modules of one
    # compilation: declarations, not definitions), each with a function of its own: every ordered pair and triple
    binders = [("hb0.pn", "pub extern fn toupper(x: i32) -> i32;\n\npub fn hb0_shout(c: i32) -> i32\n{\n\treturn: toupper(c)\n}\n"),
               ("hb1.pn", "pub extern fn tolower(x: i32) -> i32;\npub extern fn toupper(x: i32) -> i32;\n\n"
                          "pub fn hb1_whisper(c: i32) -> i32\n{\n\treturn: tolower(toupper(c))\n}\n"),
               ("hb2.pn", "extern fn toupper(x: i32) -> i32;\n\npub fn hb2_up(c: i32) -> i32\n{\n\tvar r: i32 = toupper(c);\n\treturn: r\n}\n")]
    mods += binders
    fixed_seqs = [list(q) for k in (2, 3) for q in itertools.permutations(binders, k)]
    alone = run_harness(["alpha\tirs\t%s\t%s" % (n, esc(s)) for n, s in mods])
    for t in range((40 if thorough else 6) + len(fixed_seqs)):
        if t < len(fixed_seqs):
            seq = fixed_seqs[t]
        else:
            seq = [mods[rng.below(len(mods))] for _ in range(2 + rng.below(3))]
        if len(set(n for n, _ in seq)) != len(seq):
            continue
        rq = "alpha\tirs\t" + "\t".join(x for n, s in seq for x in (n, esc(s)))
        ha = run_harness_serial([rq])[0]
        total += 1
        hh, hd = kv(ha)
        irs = hd.get("mods", "").split(";") if hh == "ok" else []
        good = hh == "ok" and len(irs) == len(seq)
        if good:
            for (n, s), ir in zip(seq, irs):
                a = alone[[x for x, _ in mods].index(n)]
                ah, ad = kv(a)
                if ah != "ok" or ad.get("mods") != ir:
                    good = False
        if good:
            agreeing += 1
            dist["history:agree"] += 1
        else:
            rep.violation("history:" + ",".join(n for n, _ in seq), {
                "why": "a module's IR (or verdict) depends on unrelated modules compiled before it by the same Compiler",
                "files": dict(seq), "harness_request": rq, "implementation": ha[:400]})
    report_broken_proof(rep)
    rep.coverage.update({
        "evaluations": total, "distinct_nontrivial": total,
        "rule": "generated programs (C01 class) partitioned at random over 2-4 files with exactly the needed `pub` flags and "
                "direct imports, run in every file order (<= 6 orders) and compared with the single-file program's output; the "
                "same partition with one needed `pub` removed / one needed import removed must be rejected with E401/E402/E405 "
                "exactly when the Lean expansion model says a reference no longer resolves; interface matrix: an item of every "
                "declaration kind (fn, extern head, const, struct, word, opaque struct), pub or private, in a leaf module x every acyclic import "
                "graph over three modules x users x all 6 file orders: accepted exactly when the model says every user sees it, "
                "and then exit status as in one file; two leaf modules that never meet with a pub constant of the same name, "
                "all 24 file orders; sequences of unrelated modules "
                "through one Compiler must give each module the IR it gets alone",
        "traces_validated_against_impl": agreeing, "distribution": dict(dist), "samples": samples,
    })
    return rep.finish()


if __name__ == "__main__":
    sys.exit(main())
