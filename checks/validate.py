#!/usr/bin/env python3
import json, glob, sys
import jsonschema
jsonschema.validate(json.load(open('/verif/MANIFEST.json')), json.load(open('/root/.vp/MANIFEST.schema.json')))
es = json.load(open('/root/.vp/EVIDENCE.schema.json'))
for f in sorted(glob.glob('/verif/evidence/*.json')):
    jsonschema.validate(json.load(open(f)), es)
    print("ok", f)
print("valid")
