"""C04 — goto only ever jumps forward and outward."""
import collections
from lib import *
import skel

THEOREMS = ["Labels.labels_scope_iff", "Labels.goBlock_spec", "Labels.goStmt_spec"]
X = 0  # the variable every body may use (declared first)

ATOMS = [('label', 0), ('label', 1), ('goto', 0), ('goto', 1),
         ('if', [X], ('goto', 0)), ('if', [X], ('goto', 1)), ('use', [X]),
         ('ife', [X], ('goto', 0), ('goto', 1))]


def compound(k, d, rec):
    for lst in rec(k - 1, d - 1):
        yield ('block', lst)
    if k >= 2:
        for lst in rec(k - 2, d - 1):
            yield ('if', [X], ('block', lst))


def random_body(rng, n, depth, nlabels):
    out = []
    while n > 0:
        r = rng.below(100)
        lab = rng.below(nlabels)
        if rng.chance(1, 25):
            lab = skel.RETURN
        if r < 22:
            if lab != skel.RETURN:
                out.append(('label', lab))
        elif r < 42:
            out.append(('goto', lab))
        elif r < 55:
            out.append(('if', [X], ('goto', lab)))
        elif r < 60:
            lab2 = rng.below(nlabels)
            out.append(('ife', [X], ('goto', lab), ('goto', lab2)))
        elif r < 70:
            out.append(('use', [X]))
        elif depth > 0 and n > 1:
            m = 1 + rng.below(min(n - 1, 6))
            inner = random_body(rng, m, depth - 1, nlabels)
            r2 = rng.below(10)
            if r2 < 5:
                out.append(('block', inner))
            elif r2 < 8:
                out.append(('if', [X], ('block', inner)))
            else:
                inner2 = random_body(rng, 1 + rng.below(3), depth - 1, nlabels)
                if rng.chance(1, 3):
                    out.append(('ife', [X], ('block', inner), ('if', [X], ('block', inner2))))
                else:
                    out.append(('ife', [X], ('block', inner), ('block', inner2)))
            n -= m
        else:
            out.append(('use', [X]))
        n -= 1
    return out


def uses_return(ss):
    return 'return' in skel.render_fn(ss, prelude=[('decl', X, [])]).replace("return:", "")


def requests(body):
    has_ret = uses_return(body)
    src = skel.render_fn(body, prelude=[('decl', X, [])], with_return=X if has_ret else None)
    mbody = [('decl', X, [])] + body + ([('label', skel.RETURN)] if has_ret else [])
    return "alpha\tcheck\tf.pn\t" + esc(src), "C04\t" + skel.body_sexp(mbody), src


def observe(h_ans, m_ans):
    """canonical observations: (impl, model, spec)"""
    hh, hd = kv(h_ans)
    if hh == "ok":
        impl = ("ok", [])
    elif hh == "err":
        cs = codes_of(hd)
        impl = ("err", cs)
    else:
        impl = (h_ans[:200], [])
    mh, _ = kv(m_ans)
    mm = re.match(r"codes=([0-9 ]*) spec=([0-9 ]*)$", m_ans)
    if not mm:
        return impl, None, None
    mc = sorted(int(x) for x in mm.group(1).split())
    sc = sorted(int(x) for x in mm.group(2).split())
    return impl, mc, sc


def agree(impl, codes):
    if codes is None:
        return False
    if impl[0] == "ok":
        return codes == []
    if impl[0] == "err":
        return impl[1] == codes
    return False


def main():
    rep = Reporter("C04")
    if not setup_common(rep, THEOREMS):
        return rep.finish()
    rng = SplitMix64(rep.seed).fork("C04")
    thorough = rep.tier == "thorough"
    bodies = []
    maxn = 6 if thorough else 4
    for n in range(0, maxn + 1):
        bodies.extend(skel.enum_lists(n, 2, ATOMS, compound))
    n_exh = len(bodies)
    for i in range(50000 if thorough else 3000):
        bodies.append(random_body(rng, 1 + rng.below(40 if i % 4 else 12), 3, 2 + rng.below(2)))
    reqs = [requests(b) for b in bodies]
    h = run_harness([r[0] for r in reqs])
    m = run_model([r[1] for r in reqs])
    dist = collections.Counter()
    agreeing = 0
    nontrivial = set()
    bad = []
    for i, b in enumerate(bodies):
        impl, mc, sc = observe(h[i], m[i])
        dist["verdict:" + impl[0][:8]] += 1
        for c in (mc or []):
            dist["E%d" % c] += 1
        if mc != sc:
            bad.append((i, "model-vs-spec"))
        if agree(impl, mc):
            agreeing += 1
        else:
            bad.append((i, "impl-vs-model"))
        s = reqs[i][1]
        if "goto" in s and "label" in s:
            nontrivial.add(s)
    for i, why in bad[:5]:
        b = bodies[i]

        def fails(cand):
            r = requests(cand)
            hh = run_harness_serial([r[0]])
            mm = run_model([r[1]])
            impl, mc, sc = observe(hh[0], mm[0])
            return not agree(impl, mc) or mc != sc
        small = skel.shrink(b, fails)
        r = requests(small)
        hh = run_harness_serial([r[0]])[0]
        mm = run_model([r[1]])[0]
        impl, mc, sc = observe(hh, mm)
        rep.violation("body:" + skel.body_sexp(small), {
            "why": why, "harness_request": r[0], "model_request": r[1], "source": r[2], "implementation": hh, "model": mm,
            "spec_codes": sc,
            "explanation": "the real scoper's verdict/E400/E420 multiset differs from the positional specification "
                           "(which the model provably equals): a goto/label arrangement is wrongly accepted or rejected",
            "rerun": "bin/check C04 --replay <this file>"})
    report_broken_proof(rep)
    rep.coverage.update({
        "evaluations": len(bodies),
        "distinct_nontrivial": len(nontrivial),
        "rule": "all bodies with <= %d statements over 8 atom kinds (2 labels, gotos, conditional gotos, if-else gotos, "
                "assignment) and blocks / if-blocks to depth 2 (exhaustive: %d), plus %d random bodies up to 40 statements "
                "depth 3 incl. `goto return`; non-trivial = contains a goto and a label; distinct by S-expression"
                % (maxn, n_exh, len(bodies) - n_exh),
        "exhaustive": True,
        "traces_validated_against_impl": agreeing,
        "distribution": dict(dist),
        "samples": [reqs[i][1] for i in (n_exh // 2, n_exh + 1, len(bodies) - 1)],
    })
    return rep.finish()


if __name__ == "__main__":
    sys.exit(main())
