"""C03 — every successful compilation yields valid LLVM IR."""
import collections
from lib import *
import progen
import runlib
import faultgen
import c12

THEOREMS = ["Gen.linkage_spec", "Gen.callconv_spec", "Gen.private_fast",
            "Gen.Addr.variable_access_well_typed", "Gen.Addr.parameter_access_well_typed", "Gen.Addr.steps_are_the_typers",
            "Gen.Addr.variable_access_through_pointer_well_typed", "Gen.Addr.parameter_access_through_pointer_well_typed",
            "Gen.Addr.stored_path_k", "Gen.Addr.trailing_run", "Gen.StructTypes.every_module_keeps_its_structures",
            "Gen.StructTypes.prefix_unchanged",
            "Gen.Addr.stored_path", "Gen.Addr.peel_run", "Gen.Addr.runT_snd"]


def address_correspondence(rep, rng, thorough, dist):
    """`Gen.Addr.runT` against the instructions the real `generate_storage_address` emits, on single-access programs"""
    import addrgen
    n = 8000 if thorough else 500
    cases = [addrgen.program(rng.fork("addr%d" % i)) for i in range(n)]
    reqs = ["alpha\tverify+mods\tm.pn\t%s" % esc(src) for src, _, _ in cases]
    got = run_harness(reqs)
    model = run_model([mreq for _, mreq, _ in cases])
    agreeing = accepted = 0
    for (src, mreq, (kind, read, depth, trailing)), rq, a, mo in zip(cases, reqs, got, model):
        hh, hd = kv(a)
        tag = "address:%s:%s:%s" % (kind, "read" if read else "write", hh[:8])
        dist[tag] += 1
        dist["address-depth:%d" % min(depth, 8)] += 1
        dist["address-trailing-dereferences:%d" % trailing] += 1
        if hh != "ok":
            if hh.startswith("internal") or hh.startswith("panic"):
                continue    # C02's business
            # every generated access is legal Penne: the typer accepts it (Types.Ty.access_path_accepted)
            rep.violation("addr-rejected:" + rq[:300], {"why": ("the compiler crashes on a legal access path (LLVM aborts on an ill-typed instruction): " if hh.startswith("crash")
                                                                  else "a legal access path is rejected: ") + a[:300], "source": src,
                                                          "model": mo, "harness_request": rq})
            continue
        accepted += 1
        problems = []
        if hd.get("verify") != "ok":
            problems.append("LLVM tools reject the IR: " + hd.get("verify", "?"))
        ir = bytes.fromhex(hd["mods"].split(";")[0][2:]).decode("utf-8", "replace") if hd.get("mods", "").startswith("h:") else ""
        kept, final = addrgen.ir_trace(ir)
        mm = re.match(r"^(.*?) ?=> (.*) leaf=(.*)$", mo)
        if mo.startswith("illtyped") or mo == "noelab" or not mm:
            problems.append("the model has no well-typed address for this access: " + mo)
        elif kept is None:
            problems.append("cannot read the instructions of probe back: " + final)
        else:
            want = [x for x in mm.group(1).split("; ") if x]
            real = [t for _, t in kept]
            if read:
                want = want + ["load " + mm.group(2)]
            elif final[1] != mm.group(2):
                problems.append("the store goes through a %s, the model's address is a %s" % (final[1], mm.group(2)))
            if mm.group(2) != mm.group(3) + "*":
                problems.append("the model's address %s is not a pointer to the lowered leaf %s" % (mm.group(2), mm.group(3)))
            if want != real:
                problems.append("instructions differ: model [%s], implementation [%s]" % ("; ".join(want), "; ".join(real)))
        if problems:
            rep.violation("addr:" + rq[:300], {"why": problems[:4], "source": src, "model_request": mreq, "model": mo,
                                               "implementation_instructions": [t for _, t in kept] if kept else None,
                                               "harness_request": rq,
                                               "note": "model-vs-implementation disagreement on generate_storage_address (or invalid IR)"})
        else:
            agreeing += 1
    return n, accepted, agreeing


PRIM_LLVM = {"i8": "i8", "u8": "i8", "char8": "i8", "i16": "i16", "u16": "i16", "i32": "i32", "u32": "i32", "i64": "i64",
             "u64": "i64", "usize": "i64", "i128": "i128", "u128": "i128", "bool": "i1"}


def member_pattern(t):
    """regex for the LLVM type of a member written as `t` (None: not modelled here)"""
    t = t.strip()
    if t == "usize":
        return "(i64|i32)"          # 32 bits for the wasm target
    if t in PRIM_LLVM:
        return re.escape(PRIM_LLVM[t])
    m = re.fullmatch(r"\[(\d+)\](.*)", t)
    if m:
        inner = member_pattern(m.group(2))
        return None if inner is None else r"\[%s x %s\]" % (m.group(1), inner)
    if t.startswith("&") and not t.startswith("&["):
        inner = member_pattern(t[1:])
        return None if inner is None else inner + r"\*"
    if re.fullmatch(r"[A-Z][A-Za-z0-9_]*", t):
        return r"%" + re.escape(t) + r"(\.\d+)?"
    return None


def own_structure_types(src, ir):
    """every structure / word that the module declares ITSELF and that its IR defines has the members it was declared with
    (Gen.StructTypes.types_are_the_declarations); returns a list of problems"""
    problems = []
    defs = {}
    for nm, body in re.findall(r"^%([A-Za-z_][A-Za-z0-9_]*)(?:\.\d+)? = type \{ ?(.*?) ?\}$", ir, re.M):
        defs.setdefault(nm, []).append(body)
    for _pub, kw, nm, body in re.findall(r"^(pub\s+)?(struct|word\d+)\s+([A-Za-z_][A-Za-z0-9_]*)\s*\{([^}]*)\}", src, re.M):
        if nm not in defs:
            continue
        pats = [member_pattern(m.split(":", 1)[1]) for m in body.split(",") if ":" in m]
        if any(p_ is None for p_ in pats):
            continue
        want = ", ".join(pats)
        if not any(re.fullmatch(want, d) for d in defs[nm]):
            problems.append("the module declares `%s %s {%s}` but its IR defines %%%s as { %s }" % (
                kw, nm, " ".join(body.split()), nm, " } / { ".join(defs[nm])))
    return problems


def source_functions(src):
    """(name, pub) of every function *defined* (with a body) in a source text"""
    out = []
    for m in re.finditer(r"^[ \t]*((?:pub[ \t]+|extern[ \t]+)*)fn[ \t]+([A-Za-z_][A-Za-z0-9_]*)[^;{]*\{", src, re.M):
        out.append((m.group(2), "pub" in m.group(1), "extern" in m.group(1)))
    return out


def main():
    rep = Reporter("C03")
    if not setup_common(rep, THEOREMS):
        return rep.finish()
    rng = SplitMix64(rep.seed).fork("C03")
    thorough = rep.tier == "thorough"
    dist = collections.Counter()
    jobs = []   # (tag, mode, units)
    n = 4000 if thorough else 120
    for i in range(n):
        r = rng.fork("p%d" % i)
        p = progen.Gen(r).program(size=3 + r.below(7))
        lay = progen.Layout(r)
        k = r.below(10)
        if k < 4:
            jobs.append(("valid", "verify", [("m.pn", progen.src_prog(p, lay))]))
        elif k < 5:
            q = dict(p)
            q['fns'] = [f for f in p['fns'] if f['name'] != 'main']
            jobs.append(("no-main", "verify", [("m.pn", progen.src_prog(q, lay))]))
        elif k < 6:
            jobs.append(("wasm", "wasm", [("m.pn", progen.src_prog(p, lay))]))
        elif k < 7:
            # undefined behaviour / non-termination at run time: must still be valid IR
            src = progen.src_prog(p, progen.Layout(r, plain=True))
            src = src.replace("fn main() -> i32\n{\n", "fn main() -> i32\n{\n\tvar zero_: i32 = 0i32;\n\tvar ub_: i32 = 7i32 / zero_;\n"
                              "\tvar sh_: u8 = 1u8 << 9u8;\n\t{\n\t\tub_ = ub_ + 1i32;\n\t\tloop;\n\t}\n", 1)
            jobs.append(("ub-nonterminating", "verify", [("m.pn", src)]))
        else:
            kk = 2 + r.below(3)
            files, where, pub, imports, refs = c12.split(p, r, kk, progen.Layout(r, plain=True))
            order = list(range(kk))
            for a in range(kk - 1, 0, -1):
                b = r.below(a + 1)
                order[a], order[b] = order[b], order[a]
            jobs.append(("multi-module", "verify+mods", [files[j] for j in order]))
    # structure / word literals in every member order, with constant and non-constant members, nested and as constants
    import agggen
    expected_status = {}
    for i in range(3000 if thorough else 150):
        src, status, how = agggen.struct_program(rng.fork("agg%d" % i))
        expected_status[len(jobs)] = status
        jobs.append(("aggregate-literal:" + how.split(":")[0], "run", [("m.pn", src)]))
    for i in range(1500 if thorough else 120):
        jobs.append(("access-paths", "verify", [("m.pn", agggen.access_program(rng.fork("acc%d" % i))[0])]))
    # a constant or a structure named like a function (different namespaces): the FUNCTION must keep the symbol
    for fname, fpub in (("main", ""), ("helper", "pub "), ("helper", "")):
        for other in ("const %s: i32 = 4;\n", "struct %s\n{\n\ta: i32,\n}\n", "const %s: [2]i32 = [1, 2];\n"):
            for first in (True, False):
                o = other % fname
                fn = "%sfn %s() -> i32\n{\n\treturn: 3\n}\n" % (fpub, fname)
                mainfn = "" if fname == "main" else "fn main() -> i32\n{\n\treturn: helper()\n}\n"
                expected_status[len(jobs)] = 3
                jobs.append(("namesake", "run", [("m.pn", (o + fn if first else fn + o) + mainfn)]))
    # private functions named like the C library functions that print!, format! and panic! call: the program's functions give
    # way (a user function `write` used to push the library call to `write.1`, which nothing defines)
    for names in (("write",), ("snprintf",), ("abort",), ("write", "snprintf", "abort")):
        fns = "".join("fn %s(x: i32) -> i32\n{\n\treturn: x + %d\n}\n" % (nm, k + 1) for k, nm in enumerate(names))
        calls = " + ".join("%s(10)" % nm for nm in names)
        expected_status[len(jobs)] = sum(10 + k + 1 for k in range(len(names)))
        jobs.append(("intrinsic-namesake", "run", [("m.pn", fns + "fn main() -> i32\n{\n\tvar n: i32 = %s;\n\tprint!(\"n = \", n, \"\\n\");\n"
                                                      "\tif n == 0\n\t{\n\t\tpanic!(\"zero\\n\");\n\t}\n\treturn: n\n}\n" % calls)]))
    # ... and private constants of those names
    for names in (("write",), ("snprintf",), ("abort",), ("write", "snprintf", "abort")):
        consts = "".join("const %s: i32 = %d;\n" % (nm, k + 5) for k, nm in enumerate(names))
        expected_status[len(jobs)] = sum(k + 5 for k in range(len(names)))
        jobs.append(("intrinsic-namesake-constant", "run", [("m.pn", consts + "fn main() -> i32\n{\n\tvar n: i32 = %s;\n\tprint!(\"n = \", n, \"\\n\");\n"
                                                               "\tif n == 0\n\t{\n\t\tpanic!(\"zero\\n\");\n\t}\n\treturn: n\n}\n" % " + ".join(names))]))
    # literals of every integer type, suffixed and not, decimal and 0x, as the constant member of a structure literal that also
    # has a member only known at run time (the builder then folds the constant part; what it folds is checked by nobody but
    # the assembler), for the host and for wasm32
    for t_ in ("u8", "u16", "u32", "u64", "u128", "usize", "i8", "i16", "i32", "i64", "i128"):
        for lit_ in ("16%s" % t_, "0x10%s" % t_, "16", "0x10"):
            src_ = ("struct Mask\n{\n\tbits: %s,\n\tshift: i32,\n}\nfn pick(extra: i32) -> i32\n{\n\tvar mask = Mask { bits: %s, shift: extra };\n"
                    "\tvar arr: [2]%s = [%s, mask.bits];\n\treturn: mask.shift + (arr[0] as i32)\n}\nfn main() -> i32\n{\n\tvar n: i32 = 32;\n\treturn: pick(n) - n\n}\n"
                    % (t_, lit_, t_, lit_))
            jobs.append(("literal-in-mixed-structure", "verify", [("m.pn", src_)]))
            jobs.append(("literal-in-mixed-structure-wasm", "wasm", [("m.pn", src_)]))
    # pointers to an opaque structure (nothing is known about it, in particular not its size): held in a constant, a
    # variable, a parameter; advanced with `..`, indexed, compared, passed on - whatever is accepted has to be valid IR
    opaque_head = "struct Owner;\nconst P: &Owner = 0x10;\nfn take(o: &Owner)\n{\n}\n"
    for body in ("\tvar q: &Owner = &P .. 1usize;\n", "\tvar q: &Owner = &P;\n\t&q = &q .. 2usize;\n", "\ttake(&P .. 1usize);\n",
                 "\tvar q: &Owner = &P;\n\ttake(&q);\n", "\tvar q: &Owner = &P;\n\ttake(&q .. 1usize);\n",
                 "\tvar q: &Owner = &P;\n\tvar r: &Owner = &P;\n\tif &q == &r\n\t{\n\t\ttake(&q);\n\t}\n"):
        jobs.append(("opaque-pointer", "verify", [("m.pn", opaque_head + "pub fn foo()\n{\n" + body + "}\n")]))
    jobs.append(("opaque-pointer", "verify", [("m.pn", opaque_head + "const Q: &Owner = &P .. 1usize;\npub fn foo()\n{\n\ttake(&Q);\n}\n")]))
    jobs.append(("opaque-pointer", "verify", [("m.pn", opaque_head + "pub fn foo(o: &Owner)\n{\n\ttake(&o .. 1usize);\n}\n")]))
    # every combination of `pub` / `extern` on the entry point and on a helper it calls: the entry point is externally
    # visible and uses the C convention whatever else it is declared as (Gen.linkage_spec, Gen.callconv_spec)
    for mflags in ("", "pub ", "extern ", "pub extern "):
        for hflags in ("", "pub ", "extern ", "pub extern "):
            expected_status[len(jobs)] = 42
            jobs.append(("entry-point-flags", "run", [("m.pn", "%sfn helper(x: i32) -> i32\n{\n\treturn: x + 2\n}\n%sfn main() -> i32\n{\n\treturn: helper(40)\n}\n" % (hflags, mflags))]))
    # casts between usize and the other integers in constants and aggregates, on the host and on wasm32 (usize is 32 bits)
    for src in agggen.usize_cast_programs():
        jobs.append(("usize-casts", "verify", [("m.pn", src)]))
        jobs.append(("usize-casts-wasm", "wasm", [("m.pn", src)]))
    # ill-typed programs: rejected on the unchanged tree; whatever a changed typer lets through must still be valid IR
    for src in agggen.illtyped_aggregates():
        jobs.append(("ill-typed-aggregate", "verify", [("m.pn", src)]))
    for i in range(3000 if thorough else 200):
        jobs.append(("faulted", "verify", [("m.pn", faultgen.faulted_program(rng.fork("fault%d" % i)))]))
    # (run, too: every module must use ITS structure / word / helper / constant - Gen.StructTypes.types_are_the_declarations)
    for i in range(600 if thorough else 60):
        cm, cstatus = faultgen.clash_modules_with_status(rng.fork("clash%d" % i))
        expected_status[len(jobs)] = cstatus
        jobs.append(("private-name-clash", "run+mods", cm))
    for name, src in faultgen.corpus():
        if name.startswith("tests/samples/valid") or name.startswith("examples"):
            jobs.append(("corpus", "verify", [(os.path.basename(name), src)]))
            if thorough or rng.chance(1, 3):
                jobs.append(("corpus-mutated", "verify", [(os.path.basename(name), faultgen.mutate(rng, src))]))
    # multi-module sets for the wasm target as well (every module's own IR must be for that target)
    for i in range(200 if thorough else 20):
        r = rng.fork("wasm-multi%d" % i)
        p = progen.Gen(r).program(size=3 + r.below(5))
        kk = 2 + r.below(2)
        files, where, pub, imports, refs = c12.split(p, r, kk, progen.Layout(r, plain=True))
        jobs.append(("wasm-multi-module", "wasm", [files[j] for j in range(kk)]))
    reqs = ["alpha\t%s\t%s" % (mode + "+mods" if mode == "wasm" else mode, "\t".join(x for nm, s in u for x in (nm, esc(s)))) for _, mode, u in jobs]
    h = run_harness(reqs)
    accepted = agreeing = 0
    for ji, ((tag, mode, u), rq, a) in enumerate(zip(jobs, reqs, h)):
        hh, hd = kv(a)
        dist[tag + ":" + hh[:8]] += 1
        if hh != "ok":
            continue        # rejections and crashes are C02's business
        accepted += 1
        problems = []
        if ji in expected_status and hd.get("status") != str(expected_status[ji]):
            problems.append("the program exits with status %s, the members of its literals add up to %d" % (hd.get("status"), expected_status[ji]))
        if "NO-VERDICT" in hd.get("verify", ""):
            # llvm-as / opt were killed or timed out three times in a row (a loaded machine): no statement about the IR
            dist["llvm-tool-without-verdict"] += 1
            rep.notes.append("an LLVM checker ended three times without a verdict on one input: " + rq[:120])
        elif hd.get("verify") != "ok":
            problems.append("LLVM tools reject the IR: " + hd.get("verify", "?"))
        if hd.get("mods", "").startswith("h:") and len(hd["mods"].split(";")) == len(u):
            for (unit_name, unit_src), mod_hex in zip(u, hd["mods"].split(";")):
                problems.extend(own_structure_types(unit_src, bytes.fromhex(mod_hex[2:]).decode("utf-8", "replace")))
        if mode == "wasm" and hd.get("mods", "").startswith("h:"):
            for k, mod_hex in enumerate(hd["mods"].split(";")):
                mod_ir = bytes.fromhex(mod_hex[2:]).decode("utf-8", "replace")
                tm = re.search(r'^target triple = "([^"]*)"', mod_ir, re.M)
                if not tm or not tm.group(1).startswith("wasm32"):
                    problems.append("module %d of a --wasm compilation is generated for the target %s" % (k, tm.group(1) if tm else None))
                    break
        # calling conventions: every direct call uses the convention of its callee (a mismatch is undefined behaviour that
        # neither llvm-as nor the verifier reports); `main` and `extern` functions use the C convention, all others fastcc
        if hd.get("callcc", "ok") != "ok":
            problems.append("a call does not use the calling convention of its callee: " + hd["callcc"])
        ccs = dict(x.rsplit(":", 1) for x in hd.get("ccs", "").split(",") if ":" in x)
        for _, src in u:
            for (fname, is_pub, is_ext) in source_functions(src):
                want_cc = "c" if (is_ext or fname == "main") else "fast"
                if fname in ccs and ccs[fname] != want_cc and list(ccs).count(fname) == 1:
                    problems.append("function %s is defined with the %s calling convention, the model (Gen.callconv) says %s" % (fname, ccs[fname], want_cc))
        defs = dict(x.rsplit(":", 1) for x in hd.get("defs", "").split(",") if ":" in x)
        linked = dict(x.rsplit(":", 1) for x in hd.get("linkeddefs", "").split(",") if ":" in x)
        seen_private = collections.Counter()
        for _, src in u:
            for (fname, is_pub, is_ext) in source_functions(src):
                want_external = is_pub or fname == "main"
                cands = [k for k in defs if k == fname or re.fullmatch(re.escape(fname) + r"\.(\d+|fn)", k)]
                if not cands:
                    problems.append("function %s is not defined in its module's IR" % fname)
                elif want_external and (defs.get(fname) != "external" or linked.get(fname) != "external"):
                    problems.append("function %s should be externally visible, linkage is %s / %s in the linked IR" % (fname, defs.get(fname), linked.get(fname)))
        key = "ir:" + rq[:300]
        if problems and len(u) > 1 and hd.get("verify") != "ok":
            # caused by same-named private structures / words in several modules?  (rename all but the first and see)
            def layouts(src):
                out = {}
                for kw, nm, body in re.findall(r"^(?:pub\s+)?(struct|word)\d*\s+([A-Za-z_][A-Za-z0-9_]*)\s*\{([^}]*)\}", src, re.M):
                    out[nm] = (kw, [m.split(":")[1].strip() for m in body.split(",") if ":" in m])
                return out
            decls = [layouts(src) for _, src in u]
            shared = set()
            for i in range(len(u)):
                for j in range(i + 1, len(u)):
                    shared |= set(decls[i]) & set(decls[j])
            if shared:
                renamed = []
                first_seen = set()
                for idx, (n2, s2) in enumerate(u):
                    for nm in shared:
                        if nm in decls[idx]:
                            if nm in first_seen:
                                s2 = re.sub(r"\b%s\b" % re.escape(nm), "%s_renamed%d_" % (nm, idx), s2)
                            first_seen.add(nm)
                    renamed.append((n2, s2))
                rq2 = "alpha\tverify\t" + "\t".join(x for n2, s2 in renamed for x in (n2, esc(s2)))
                a2 = run_harness_serial([rq2])[0]
                if a2.startswith("ok") and kv(a2)[1].get("verify") == "ok":
                    kinds = sorted(set(decls[i][nm][0] for i in range(len(u)) for nm in shared if nm in decls[i]))
                    counts = set(len(decls[i][nm][1]) for i in range(len(u)) for nm in shared if nm in decls[i])
                    # what LLVM's assembler objects to (the in-process verifier does not check constant struct initialisers
                    # against the member types, which is how these get through)
                    msg = re.sub(r"[0-9]+", "N", hd.get("verify", "")).split("error:_")[-1].rstrip("]")
                    # second experiment: the known defect (F33) is that ONLY constant structure initialisers escape the
                    # in-process verification of the linked module.  Give every literal of a shared structure non-constant
                    # members: the program must then either produce valid IR or not be accepted (on the unchanged tree
                    # LLVM's verifier stops it, F32).  If it is still accepted with invalid IR, instructions escape the
                    # verification of the linked module too - that is not the known finding.
                    nonconst = []
                    for idx, (n2, s2) in enumerate(u):
                        def deconst(mm, idx=idx):
                            var, nm, inner = mm.group(1), mm.group(2), mm.group(3)
                            if nm not in shared or nm not in decls[idx]:
                                return mm.group(0)
                            types = decls[idx][nm][1]
                            fields = [f.strip().split(":") for f in inner.split(",") if ":" in f]
                            if len(fields) != len(types):
                                return mm.group(0)
                            pre = "".join("\tvar nc_%s_%s: %s = %s;\n" % (var, f.strip(), t, v.strip()) for (f, v), t in zip(fields, types))
                            return pre + "\tvar %s = %s { %s };" % (var, nm, ", ".join("%s: nc_%s_%s" % (f.strip(), var, f.strip()) for f, v in fields))
                        nonconst.append((n2, re.sub(r"^\tvar (\w+) = (\w+) \{ ([^{}]*) \};$", deconst, s2, flags=re.M)))
                    rq3 = "alpha\tverify\t" + "\t".join(x for n2, s2 in nonconst for x in (n2, esc(s2)))
                    a3 = run_harness_serial([rq3])[0]
                    if nonconst != list(u) and not (a3.startswith("ok") and kv(a3)[1].get("verify") != "ok"):
                        key = "c03:invalid-linked-ir:same-named-structure-in-two-modules:%s" % msg
                    else:
                        key = "c03:invalid-linked-ir:same-named-structure-in-two-modules:not-only-constant-initialisers:%s" % msg
                        problems.append("with non-constant members in every literal of the shared structure the program is still accepted with invalid linked IR: "
                                        + a3[:200])
        if problems:
            rep.violation(key, {"why": problems[:5], "files": dict(u), "harness_request": rq, "implementation": a[:800],
                                             "note": "implementation-vs-oracle failure (LLVM's assembler/verifier or the symbol table), not a model disagreement"})
        else:
            agreeing += 1
    addr_n, addr_accepted, addr_agreeing = address_correspondence(rep, rng.fork("addr"), thorough, dist)
    report_broken_proof(rep)
    rep.coverage.update({
        "address_computation": {"programs": addr_n, "accepted": addr_accepted, "instruction_sequences_agreeing": addr_agreeing,
                                "rule": "single-access programs (a path of 1..n steps through arrays, endless arrays, slices, slice pointers, "
                                        "structures, words, pointers and views, on a local variable or an immediate parameter, read or written): "
                                        "the getelementptr / load / extractvalue instructions of the real IR, with their operand types and "
                                        "constant indices, equal the ones Gen.Addr.runT records, and the address is a pointer to the lowered leaf"},
        "evaluations": len(jobs) + addr_n, "programs": accepted, "distinct_nontrivial": len(set(reqs)),
        "rule": "generated programs (valid; without main; for the wasm target; with run-time UB and a non-terminating loop; split "
                "over 2-4 modules in random file order; module sets whose private structures, words, helpers and constants share "
                "names), the valid corpus (tests/samples/valid, examples) and single-fault "
                "mutants of it; programs around structure/word literals (every member order, constant / variable members, nested, as constants: IR valid and exit status = sum of the members); every ACCEPTED input: llvm-as and opt -passes=verify accept every module's IR and the linked "
                "IR, every function defined in the sources is defined in the linked IR, main and pub functions have "
                "external linkage",
        "traces_validated_against_impl": agreeing, "distribution": dict(dist), "samples": [reqs[0][:300]],
    })
    return rep.finish()


if __name__ == "__main__":
    sys.exit(main())
