"""Type-directed generator of valid, terminating, UB-free Penne programs (the C01 class) with two
renderings: Penne source text (with random layout) and the S-expression the Lean interpreter reads.

Expressions  ('lit',T,v) ('blit',b) ('var',x) ('idx',x,e) ('len',x) ('mem',x,k,fname) ('bin',T,op,a,b)
             ('cmp',T,op,a,b) ('neg',T,a) ('compl',T,a) ('cast',S,D,a) ('call',f,args) ('sizeof',src,bytes)
Args         ('val',e) ('addr',x) ('view',x)
Statements   ('decl',x,T,e) ('declarr',x,T,n,[e]) ('declstruct',x,S,[(fname,e)]) ('declptr',x,T,y)
             ('assign',x,e) ('assignidx',x,i,e) ('assignmem',x,k,fname,e) ('setaddr',x,y)
             ('if',c,t) ('ife',c,t,e) ('block',[s]) ('loop',) ('goto',l) ('label',l) ('print',e,kind)
             ('calls',f,args)
"""

INTS = ["i8", "i16", "i32", "i64", "i128", "u8", "u16", "u32", "u64", "u128", "usize"]
WIDTH = {"i8": 8, "i16": 16, "i32": 32, "i64": 64, "i128": 128, "u8": 8, "u16": 16, "u32": 32, "u64": 64,
         "u128": 128, "usize": 64, "bool": 1}
BITWISE = ["u8", "u16", "u32", "u64", "u128"]
BINSYM = {"add": "+", "sub": "-", "mul": "*", "div": "/", "mod": "%", "and": "&", "or": "|", "xor": "^",
          "shl": "<<", "shr": ">>"}
ARITH_LEVEL = {"add": 1, "sub": 1, "mul": 2, "div": 2, "mod": 2}
CMPSYM = {"eq": "==", "ne": "!=", "lt": "<", "le": "<=", "gt": ">", "ge": ">="}


def signed(t):
    return t.startswith("i")


def trange(t):
    w = WIDTH[t]
    if signed(t):
        return -(1 << (w - 1)), (1 << (w - 1)) - 1
    return 0, (1 << w) - 1


# --------------------------------------------------------------------------
# S-expression rendering

def sx(e):
    k = e[0]
    if k == 'lit':
        return "(lit %s %d)" % (e[1], e[2])
    if k == 'blit':
        return "(blit %d)" % (1 if e[1] else 0)
    if k == 'var':
        return "(var %s)" % e[1]
    if k == 'idx':
        return "(idx %s %s)" % (e[1], sx(e[2]))
    if k == 'len':
        return "(len %s)" % e[1]
    if k == 'mem':
        return "(mem %s %d)" % (e[1], e[2])
    if k == 'bin':
        return "(bin %s %s %s %s)" % (e[1], e[2], sx(e[3]), sx(e[4]))
    if k == 'cmp':
        return "(cmp %s %s %s %s)" % (e[1], e[2], sx(e[3]), sx(e[4]))
    if k == 'neg':
        return "(neg %s %s)" % (e[1], sx(e[2]))
    if k == 'compl':
        return "(compl %s %s)" % (e[1], sx(e[2]))
    if k == 'cast':
        return "(cast %s %s %s)" % (e[1], e[2], sx(e[3]))
    if k == 'call':
        return "(call %s%s)" % (e[1], "".join(" " + sx_arg(a) for a in e[2]))
    if k == 'sizeof':
        return "(sizeof %d)" % e[2]
    raise ValueError(k)


def sx_arg(a):
    if a[0] == 'val':
        return "(val %s)" % sx(a[1])
    return "(%s %s)" % (a[0], a[1])


def sx_stmt(s):
    k = s[0]
    if k == 'decl':
        return "(decl %s %s)" % (s[1], sx(s[3]))
    if k == 'declarr':
        return "(declarr %s%s)" % (s[1], "".join(" " + sx(x) for x in s[4]))
    if k == 'declstruct':
        return "(declstruct %s%s)" % (s[1], "".join(" " + sx(x) for _, x in s[3]))
    if k == 'declptr':
        return "(declptr %s %s)" % (s[1], s[3])
    if k == 'assign':
        return "(assign %s %s)" % (s[1], sx(s[2]))
    if k == 'assignidx':
        return "(assignidx %s %s %s)" % (s[1], sx(s[2]), sx(s[3]))
    if k == 'assignmem':
        return "(assignmem %s %d %s)" % (s[1], s[2], sx(s[4]))
    if k == 'setaddr':
        return "(setaddr %s %s)" % (s[1], s[2])
    if k == 'if':
        return "(if %s %s)" % (sx(s[1]), sx_stmt(s[2]))
    if k == 'ife':
        return "(ife %s %s %s)" % (sx(s[1]), sx_stmt(s[2]), sx_stmt(s[3]))
    if k == 'block':
        return "(block%s)" % "".join(" " + sx_stmt(x) for x in s[1])
    if k in ('loop',):
        return "(loop)"
    if k == 'goto':
        return "(goto %s)" % s[1]
    if k == 'label':
        return "(label %s)" % s[1]
    if k == 'print':
        return "(print %s %d)" % (sx(s[1]), s[2])
    if k == 'calls':
        return "(calls %s%s)" % (s[1], "".join(" " + sx_arg(a) for a in s[2]))
    raise ValueError(k)


def sx_fn(f):
    body = list(f['body'])
    if f['ret'] is not None:
        body = body + [('label', 'return')]
    r = "(ret %s)" % sx(f['retexpr']) if f['ret'] is not None else "(noret)"
    return "(fn %s (%s) (body%s) %s)" % (f['name'], " ".join(p[0] for p in f['params']),
                                         "".join(" " + sx_stmt(s) for s in body), r)


def sx_prog(p, fn_order=None, const_order=None):
    consts = p['consts']            # always in dependency order for the model
    fns = p['fns']
    return "(prog (consts%s) (fns%s))" % ("".join(" (%s %s)" % (c[0], sx(c[2])) for c in consts),
                                          "".join(" " + sx_fn(f) for f in fns))


# --------------------------------------------------------------------------
# source rendering

class Layout:
    """random formatting: indentation, blank lines, comments, redundant parentheses, literal spelling"""

    def __init__(self, rng, plain=False):
        self.rng = rng
        self.plain = plain
        self.indent_unit = "\t" if plain else rng.pick(["\t", "    ", "  ", "\t"])
        # print arithmetic with only the parentheses the grammar needs (`a / b * c - d`): precedence and associativity of
        # the real parser then decide the value
        self.minimal = (not plain) and rng.chance(1, 2)

    def chance(self, a, b):
        return (not self.plain) and self.rng.chance(a, b)

    def lit(self, t, v):
        mag = -v if v < 0 else v
        s = str(mag)
        if not self.plain and v >= 0 and not signed(t) and self.rng.chance(1, 4):
            s = ("0x%x" % mag) if self.rng.chance(1, 2) else ("0b" + bin(mag)[2:])
        elif not self.plain and len(s) > 3 and self.rng.chance(1, 3):
            s = s[:-3] + "_" + s[-3:]
        return ("-" if v < 0 else "") + s + t

    def trail(self):
        if self.chance(1, 12):
            return " // " + self.rng.pick(["note", "x = 1;", "goto end;", "{", "\"", "}"])
        return ""


def src_expr(e, lay, top=False):
    k = e[0]
    if k == 'lit':
        return lay.lit(e[1], e[2])
    if k == 'blit':
        return "true" if e[1] else "false"
    if k == 'var':
        s = e[1]
    elif k == 'idx':
        s = "%s[%s]" % (e[1], src_expr(e[2], lay, True))
    elif k == 'len':
        s = "|%s|" % e[1]
    elif k == 'mem':
        s = "%s.%s" % (e[1], e[3])
    elif k == 'bin':
        op = e[2]
        if getattr(lay, "minimal", False) and op in ARITH_LEVEL:
            # only the parentheses the grammar needs: `+ -` and `* / %` chains associate to the left, `* / %` bind tighter
            def operand(c, right):
                if c[0] == 'bin' and c[2] in ARITH_LEVEL:
                    need = ARITH_LEVEL[c[2]] < ARITH_LEVEL[op] or (right and ARITH_LEVEL[c[2]] == ARITH_LEVEL[op])
                    inner = src_expr(c, lay, True)
                    return "(" + inner + ")" if need else inner
                return src_expr(c, lay)
            s = "%s %s %s" % (operand(e[3], False), BINSYM[op], operand(e[4], True))
            return s if top else "(" + s + ")"
        s = "%s %s %s" % (src_expr(e[3], lay), BINSYM[e[2]], src_expr(e[4], lay))
        return s if top and not lay.chance(1, 5) else "(" + s + ")"
    elif k == 'cmp':
        return "%s %s %s" % (src_expr(e[3], lay), CMPSYM[e[2]], src_expr(e[4], lay))
    elif k == 'neg':
        return "-(%s)" % src_expr(e[2], lay, True)
    elif k == 'compl':
        return "!(%s)" % src_expr(e[2], lay, True)
    elif k == 'cast':
        s = "%s as %s" % (src_expr(e[3], lay), e[2])
        return s if top and not lay.chance(1, 5) else "(" + s + ")"
    elif k == 'call':
        s = "%s(%s)" % (e[1], ", ".join(src_arg(a, lay) for a in e[2]))
    elif k == 'sizeof':
        s = "|:%s|" % e[1]
    else:
        raise ValueError(k)
    if lay.chance(1, 10):
        return "(" + s + ")"
    return s


def src_arg(a, lay):
    if a[0] == 'val':
        return src_expr(a[1], lay, True)
    if a[0] == 'addr':
        return "&" + a[1]
    return a[1]


def src_type(t):
    if isinstance(t, str):
        return t
    if t[0] == 'arr':
        return "[%s]%s" % (t[1], src_type(t[2]))
    if t[0] == 'ptr':
        return "&" + src_type(t[1])
    if t[0] == 'view':
        return "[]" + src_type(t[1])
    raise ValueError(t)


def src_stmt(s, lay, ind, out):
    pad = lay.indent_unit * ind
    k = s[0]

    def emit(line):
        out.append(pad + line + lay.trail())
        if lay.chance(1, 15):
            out.append("")
    if k == 'decl':
        emit("var %s: %s = %s;" % (s[1], src_type(s[2]), src_expr(s[3], lay, True)))
    elif k == 'declarr':
        emit("var %s: [%s]%s = [%s];" % (s[1], s[3], src_type(s[2]), ", ".join(src_expr(x, lay, True) for x in s[4])))
    elif k == 'declstruct':
        emit("var %s = %s { %s };" % (s[1], s[2], ", ".join("%s: %s" % (fn, src_expr(x, lay, True)) for fn, x in s[3])))
    elif k == 'declptr':
        emit("var %s: &%s = &%s;" % (s[1], src_type(s[2]), s[3]))
    elif k == 'assign':
        emit("%s = %s;" % (s[1], src_expr(s[2], lay, True)))
    elif k == 'assignidx':
        emit("%s[%s] = %s;" % (s[1], src_expr(s[2], lay, True), src_expr(s[3], lay, True)))
    elif k == 'assignmem':
        emit("%s.%s = %s;" % (s[1], s[3], src_expr(s[4], lay, True)))
    elif k == 'setaddr':
        emit("&%s = &%s;" % (s[1], s[2]))
    elif k in ('if', 'ife'):
        out.append(pad + "if " + src_expr(s[1], lay, True))
        src_branch(s[2], lay, ind, out)
        if k == 'ife':
            if s[3][0] in ('if', 'ife'):
                sub = []
                src_stmt(s[3], lay, ind, sub)
                out.append(pad + "else " + sub[0].lstrip())
                out.extend(sub[1:])
            else:
                out.append(pad + "else")
                src_branch(s[3], lay, ind, out)
    elif k == 'block':
        out.append(pad + "{")
        for x in s[1]:
            src_stmt(x, lay, ind + 1, out)
        out.append(pad + "}")
    elif k == 'loop':
        emit("loop;")
    elif k == 'goto':
        emit("goto %s;" % s[1])
    elif k == 'label':
        out.append(pad + s[1] + ":")
    elif k == 'print':
        emit('print!(%s, "\\n");' % src_expr(s[1], lay, True))
    elif k == 'calls':
        emit("%s(%s);" % (s[1], ", ".join(src_arg(a, lay) for a in s[2])))
    else:
        raise ValueError(k)


def src_branch(b, lay, ind, out):
    if b[0] == 'block':
        src_stmt(b, lay, ind, out)
    else:
        src_stmt(b, lay, ind + 1, out)


def src_param(p):
    name, kind, t = p
    if kind == 'val':
        return "%s: %s" % (name, src_type(t))
    if kind == 'ptr':
        return "%s: &%s" % (name, src_type(t))
    if kind == 'view':
        return "%s: []%s" % (name, src_type(t))
    if kind == 'sliceptr':
        return "%s: &[]%s" % (name, src_type(t))
    if kind == 'arrptr':
        return "%s: &%s" % (name, src_type(t))
    if kind == 'structview':
        return "%s: %s" % (name, t)
    if kind == 'structptr':
        return "%s: &%s" % (name, t)
    raise ValueError(kind)


def src_fn(f, lay, flags=""):
    out = []
    sig = "%sfn %s(%s)" % (flags, f['name'], ", ".join(src_param(p) for p in f['params']))
    if f['ret'] is not None:
        sig += " -> " + f['ret']
    out.append(sig)
    out.append("{")
    for s in f['body']:
        src_stmt(s, lay, 1, out)
    if f['ret'] is not None:
        out.append(lay.indent_unit + "return: " + src_expr(f['retexpr'], lay, True))
    out.append("}")
    return out


def src_struct(sd):
    out = ["%s %s" % (sd['kind'], sd['name']), "{"]
    for fname, t in sd['members']:
        out.append("\t%s: %s," % (fname, src_type(t)))
    out.append("}")
    return out


def src_const(c, lay, flags=""):
    return ["%sconst %s: %s = %s;" % (flags, c[0], src_type(c[1]), src_expr(c[2], lay, True))]


def src_prog(p, lay, order=None):
    """order: a permutation of the top-level declarations (list of ('const',i)|('fn',i)|('struct',i)) or None"""
    decls = [('const', i) for i in range(len(p['consts']))] + [('struct', i) for i in range(len(p.get('structs', [])))] + \
            [('fn', i) for i in range(len(p['fns']))]
    if order is not None:
        decls = order
    out = []
    for kind, i in decls:
        if kind == 'const':
            out.extend(src_const(p['consts'][i], lay))
        elif kind == 'struct':
            out.extend(src_struct(p['structs'][i]))
        else:
            out.extend(src_fn(p['fns'][i], lay))
        if lay.chance(1, 2):
            out.append("")
    return "\n".join(out) + "\n"


# --------------------------------------------------------------------------
# generation

class Gen:
    def __init__(self, rng, features=None):
        self.rng = rng
        self.n = 0
        self.labels = 0
        self.features = features or {"arrays", "pointers", "calls", "consts", "loops", "casts", "structs"}

    def fresh(self, p="v"):
        self.n += 1
        return "%s%d" % (p, self.n)

    def label(self):
        self.labels += 1
        return "l%d" % self.labels

    def lit(self, t, small=False):
        lo, hi = trange(t)
        r = self.rng
        c = r.below(10)
        if small or c < 5:
            v = r.below(min(hi, 50) + 1)
            if lo < 0 and r.chance(1, 4):
                v = -v
        elif c < 6:
            v = r.pick([lo, hi, lo + 1, hi - 1, 0, 1])
        elif c < 8:
            # neighbourhood of a power of two (word boundaries of the code generator)
            k = r.pick([7, 8, 15, 16, 31, 32, 63, 64, 127])
            v = (1 << k) + r.pick([-1, 0, 1, r.below(1 << min(k, 20))])
            if lo < 0 and r.chance(1, 3):
                v = -v
            if not (lo <= v <= hi):
                v = r.pick([lo, hi])
        else:
            v = lo + r.below(hi - lo + 1)
        return ('lit', t, v)

    def readable(self, scope, t):
        return [s for s in scope if s['t'] == t and s['kind'] in ('var', 'const', 'val', 'ptr')]

    def arrays(self, scope, t=None):
        return [s for s in scope if s['kind'] in ('arr', 'view', 'sliceptr') and (t is None or s['t'] == t)]

    def expr(self, t, scope, depth, fns=()):
        r = self.rng
        if t == "bool":
            vs = self.readable(scope, "bool")
            c = r.below(10)
            if vs and c < 5:
                return ('var', r.pick(vs)['name'])
            if depth > 0 and c < 7:
                return ('compl', 'bool', self.expr("bool", scope, depth - 1, fns))
            return ('blit', r.chance(1, 2))
        c = r.below(100)
        vs = self.readable(scope, t)
        if depth <= 0 or c < 18:
            if vs and r.chance(2, 3):
                return ('var', r.pick(vs)['name'])
            return self.lit(t)
        if c < 55:
            op = r.pick(["add", "sub", "mul", "add", "sub"])
            return ('bin', t, op, self.expr(t, scope, depth - 1, fns), self.expr(t, scope, depth - 1, fns))
        if c < 63:
            op = r.pick(["div", "mod"])
            lo, hi = trange(t)
            d = 1 + r.below(min(hi, 9))
            return ('bin', t, op, self.expr(t, scope, depth - 1, fns), ('lit', t, d))
        if c < 72 and t in BITWISE:
            op = r.pick(["and", "or", "xor"])
            return ('bin', t, op, self.expr(t, scope, depth - 1, fns), self.expr(t, scope, depth - 1, fns))
        if c < 78 and t in BITWISE:
            op = r.pick(["shl", "shr"])
            return ('bin', t, op, self.expr(t, scope, depth - 1, fns), ('lit', t, r.below(WIDTH[t])))
        if c < 82 and signed(t):
            return ('neg', t, self.expr(t, scope, depth - 1, fns))
        if c < 85 and t in BITWISE:
            return ('compl', t, self.expr(t, scope, depth - 1, fns))
        if c < 92 and "casts" in self.features:
            s = r.pick([x for x in INTS + ["bool"] if x != t])
            return ('cast', s, t, self.expr(s, scope, depth - 1, fns))
        if c < 95 and "arrays" in self.features:
            arrs = [a for a in self.arrays(scope, t) if a.get('n')]
            if arrs:
                a = r.pick(arrs)
                return ('idx', a['name'], ('lit', 'usize', r.below(a['n'])))
        if c < 97 and "arrays" in self.features and t == "usize":
            arrs = self.arrays(scope)
            if arrs:
                return ('len', r.pick(arrs)['name'])
        if "calls" in self.features:
            cands = [f for f in fns if f['ret'] == t and f.get('pure_args')]
            if cands:
                f = r.pick(cands)
                args = self.args_for(f, scope, depth - 1, fns)
                if args is not None:
                    return ('call', f['name'], args)
        if vs:
            return ('var', r.pick(vs)['name'])
        return self.lit(t)

    def args_for(self, f, scope, depth, fns):
        r = self.rng
        args = []
        for (pn, kind, t) in f['params']:
            if kind == 'val':
                args.append(('val', self.expr(t, scope, max(depth, 0), ())))
            elif kind == 'ptr':
                cands = [s for s in scope if s['t'] == t and s['kind'] in ('var', 'ptr')]
                if not cands:
                    return None
                args.append(('addr', r.pick(cands)['name']))
            elif kind == 'view':
                cands = [s for s in scope if s['t'] == t and s['kind'] in ('arr', 'view', 'sliceptr')]
                if not cands:
                    return None
                args.append(('view', r.pick(cands)['name']))
            elif kind == 'sliceptr':
                cands = [s for s in scope if s['t'] == t and s['kind'] in ('arr', 'sliceptr')]
                if not cands:
                    return None
                args.append(('addr', r.pick(cands)['name']))
            else:
                return None
        return args

    def cond(self, scope, fns=()):
        r = self.rng
        t = r.pick(INTS + ["bool"]) if r.chance(1, 3) else r.pick([s['t'] for s in scope if s['kind'] in ('var', 'val', 'ptr', 'const')] or ["i32"])
        if t == "bool":
            op = r.pick(["eq", "ne"])
        else:
            op = r.pick(["eq", "ne", "lt", "le", "gt", "ge"])
        return ('cmp', t, op, self.expr(t, scope, 1, fns), self.expr(t, scope, 1, fns))

    def stmts(self, scope, n, depth, fns, can_goto_return=False):
        """a list of statements; declarations extend `scope` (a list, copied per block)"""
        r = self.rng
        out = []
        scope = list(scope)
        while n > 0:
            n -= 1
            c = r.below(100)
            if c < 20:
                t = r.pick(INTS + (["bool"] if r.chance(1, 4) else []))
                x = self.fresh()
                out.append(('decl', x, t, self.expr(t, scope, 2, fns)))
                scope.append(dict(name=x, t=t, kind='var'))
            elif c < 27 and "arrays" in self.features:
                t = r.pick(INTS)
                x = self.fresh("a")
                k = 1 + r.below(5)
                out.append(('declarr', x, t, k, [self.expr(t, scope, 1, fns) for _ in range(k)]))
                scope.append(dict(name=x, t=t, kind='arr', n=k))
            elif c < 45:
                vs = [s for s in scope if s['kind'] in ('var', 'ptr')]
                if vs:
                    v = r.pick(vs)
                    out.append(('assign', v['name'], self.expr(v['t'], scope, 2, fns)))
            elif c < 52 and "arrays" in self.features:
                arrs = [a for a in scope if a['kind'] in ('arr', 'sliceptr') and a.get('n')]
                if arrs:
                    a = r.pick(arrs)
                    out.append(('assignidx', a['name'], ('lit', 'usize', r.below(a['n'])), self.expr(a['t'], scope, 2, fns)))
            elif c < 62:
                vs = [s for s in scope if s['kind'] in ('var', 'val', 'ptr', 'const')]
                if vs:
                    v = r.pick(vs)
                    out.append(('print', ('var', v['name']), 1 if v['t'] == 'bool' else 0))
                    # an expression printed directly (the formatter picks its conversion from the type of the expression):
                    # arithmetic, and a cast of the variable to the integer of the same width and the other signedness
                    if v['t'] in INTS and r.chance(1, 2):
                        if "casts" in self.features and v['t'] != "usize" and r.chance(1, 2):
                            other = ("u" + v['t'][1:]) if v['t'][0] == "i" else ("i" + v['t'][1:])
                            out.append(('print', ('cast', v['t'], other, ('var', v['name'])), 0))
                        else:
                            out.append(('print', self.expr(v['t'], scope, 2, fns), 0))
            elif c < 72 and depth > 0:
                inner = self.stmts(scope, 1 + r.below(3), depth - 1, fns, can_goto_return)
                if r.chance(1, 2):
                    out.append(('if', self.cond(scope, fns), ('block', inner)))
                else:
                    inner2 = self.stmts(scope, 1 + r.below(3), depth - 1, fns, can_goto_return)
                    if r.chance(1, 4):
                        inner3 = self.stmts(scope, 1 + r.below(2), depth - 1, fns, can_goto_return)
                        out.append(('ife', self.cond(scope, fns), ('block', inner),
                                    ('ife', self.cond(scope, fns), ('block', inner2), ('block', inner3))))
                    else:
                        out.append(('ife', self.cond(scope, fns), ('block', inner), ('block', inner2)))
            elif c < 78 and depth > 0:
                # forward jump over a block
                lab = self.label()
                inner = self.stmts(scope, 1 + r.below(3), depth - 1, fns, can_goto_return)
                g = ('goto', lab)
                if r.chance(3, 4):
                    g = ('if', self.cond(scope, fns), g)
                out.append(g)
                out.append(('block', inner))
                out.append(('label', lab))
            elif c < 86 and depth > 0 and "loops" in self.features:
                # counted loop
                t = r.pick(["i32", "u8", "usize", "i64", "u16"])
                i = self.fresh("n")
                lab = self.label()
                bound = 1 + r.below(4)
                out.append(('decl', i, t, ('lit', t, 0)))
                scope.append(dict(name=i, t=t, kind='counter'))
                body_scope = scope
                inner = self.stmts(body_scope, 1 + r.below(3), depth - 1, fns, can_goto_return)
                out.append(('block', [('if', ('cmp', t, 'ge', ('var', i), ('lit', t, bound)), ('goto', lab))] + inner +
                            [('assign', i, ('bin', t, 'add', ('var', i), ('lit', t, 1))), ('loop',)]))
                out.append(('label', lab))
            elif c < 99 and "calls" in self.features and fns:
                f = r.pick(fns)
                args = self.args_for(f, scope, 1, fns)
                if args is not None:
                    if f['ret'] is None:
                        out.append(('calls', f['name'], args))
                    else:
                        x = self.fresh()
                        out.append(('decl', x, f['ret'], ('call', f['name'], args)))
                        scope.append(dict(name=x, t=f['ret'], kind='var'))
            elif can_goto_return and r.chance(1, 3):
                out.append(('if', self.cond(scope, fns), ('goto', 'return')))
        return out

    # helper function templates -------------------------------------------------
    def helper(self, fns):
        r = self.rng
        t = r.pick(INTS)
        k = r.below(7)
        name = self.fresh("f")
        if k == 0 and "arrays" in self.features:
            i, tot, lab = self.fresh("n"), self.fresh("t"), self.label()
            body = [('decl', tot, t, ('lit', t, 0)), ('decl', i, 'usize', ('lit', 'usize', 0)),
                    ('block', [('if', ('cmp', 'usize', 'eq', ('var', i), ('len', 'x')), ('goto', 'return')),
                               ('assign', tot, ('bin', t, r.pick(['add', 'sub', 'mul']), ('var', tot), ('idx', 'x', ('var', i)))),
                               ('assign', i, ('bin', 'usize', 'add', ('var', i), ('lit', 'usize', 1))), ('loop',)])]
            return dict(name=name, params=[('x', 'view', t)], ret=t, body=body, retexpr=('var', tot), pure_args=True)
        if k == 1 and "arrays" in self.features and "pointers" in self.features:
            i, lab = self.fresh("n"), self.label()
            body = [('decl', i, 'usize', ('lit', 'usize', 0)),
                    ('block', [('if', ('cmp', 'usize', 'eq', ('var', i), ('len', 'x')), ('goto', lab)),
                               ('assignidx', 'x', ('var', i), ('bin', t, 'add', ('var', 'v'), ('cast', 'usize', t, ('var', i)))
                                if t != 'usize' else ('bin', t, 'add', ('var', 'v'), ('var', i))),
                               ('assign', i, ('bin', 'usize', 'add', ('var', i), ('lit', 'usize', 1))), ('loop',)]),
                    ('label', lab)]
            return dict(name=name, params=[('x', 'sliceptr', t), ('v', 'val', t)], ret=None, body=body, retexpr=None)
        if k == 2 and "pointers" in self.features:
            scope = [dict(name='p', t=t, kind='ptr'), dict(name='d', t=t, kind='val')]
            body = [('assign', 'p', self.expr(t, scope, 2))]
            if r.chance(1, 2):
                body.append(('print', ('var', 'p'), 0))
            return dict(name=name, params=[('p', 'ptr', t), ('d', 'val', t)], ret=None, body=body, retexpr=None)
        if k == 3 and "arrays" in self.features:
            kind = r.pick(['view', 'sliceptr']) if "pointers" in self.features else 'view'
            return dict(name=name, params=[('x', kind, t)], ret='usize', body=[], retexpr=('len', 'x'), pure_args=(kind == 'view'))
        if k == 4 and "pointers" in self.features:
            # reads and writes through two pointers (aliasing allowed)
            scope = [dict(name='p', t=t, kind='ptr'), dict(name='q', t=t, kind='ptr')]
            body = [('assign', 'p', self.expr(t, scope, 1)), ('assign', 'q', self.expr(t, scope, 1))]
            return dict(name=name, params=[('p', 'ptr', t), ('q', 'ptr', t)], ret=t, body=body,
                        retexpr=('bin', t, 'add', ('var', 'p'), ('var', 'q')))
        # pure function of values with control flow
        np = 1 + r.below(3)
        params = [(self.fresh("p"), 'val', r.pick([t, t, r.pick(INTS), 'bool'])) for _ in range(np)]
        scope = [dict(name=p[0], t=p[2], kind='val') for p in params]
        res = self.fresh("r")
        body = [('decl', res, t, self.expr(t, scope, 2))]
        scope.append(dict(name=res, t=t, kind='var'))
        body += self.stmts(scope, 1 + r.below(4), 2, [f for f in fns if f.get('pure_args')], can_goto_return=True)
        body = [s for s in body if s[0] != 'print'] if r.chance(1, 2) else body
        return dict(name=name, params=params, ret=t, body=body, retexpr=('var', res), pure_args=True)

    def program(self, size=None):
        r = self.rng
        consts = []
        cscope = []
        if "consts" in self.features:
            for _ in range(r.below(4)):
                t = r.pick(INTS)
                name = self.fresh("C_")
                e = self.expr(t, cscope, 2)
                consts.append((name, t, e))
                cscope.append(dict(name=name, t=t, kind='const'))
        fns = []
        for _ in range(r.below(5) if "calls" in self.features else 0):
            fns.append(self.helper(fns))
        res = self.fresh("s")
        scope = list(cscope)
        body = [('decl', res, 'i32', self.expr('i32', scope, 1))]
        scope.append(dict(name=res, t='i32', kind='var'))
        # make sure every helper can be called: a variable / array of each parameter type
        for f in fns:
            for (pn, kind, t) in f['params']:
                if kind == 'ptr' and not [x for x in scope if x['t'] == t and x['kind'] == 'var']:
                    x = self.fresh()
                    body.append(('decl', x, t, self.expr(t, scope, 1)))
                    scope.append(dict(name=x, t=t, kind='var'))
                if kind in ('view', 'sliceptr') and not [x for x in scope if x['t'] == t and x['kind'] == 'arr']:
                    x = self.fresh("a")
                    k = 1 + r.below(5)
                    body.append(('declarr', x, t, k, [self.expr(t, scope, 1) for _ in range(k)]))
                    scope.append(dict(name=x, t=t, kind='arr', n=k))
        body += self.stmts(scope, size or (4 + r.below(10)), 3, fns, can_goto_return=True)
        # print every array element and every top-level scalar at the end
        for s in list(body):
            if s[0] == 'declarr':
                for j in range(s[3]):
                    body.append(('print', ('idx', s[1], ('lit', 'usize', j)), 0))
        seen = set()
        for s in body:
            if s[0] == 'decl' and s[2] != 'bool':
                seen.add((s[1], s[2]))
        tail = [('print', ('var', x), 0) for (x, t) in sorted(seen)]
        main = dict(name='main', params=[], ret='i32', body=body + tail, retexpr=('var', res))
        return dict(consts=consts, fns=fns + [main], structs=[])
