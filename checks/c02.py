"""C02 — the compiler never crashes and never fails silently."""
import time
import collections
import itertools
from lib import *
import faultgen
import progen

THEOREMS = ["Poison.no_silent_failure", "Poison.silent_failure_iff", "Poison.collect_nonempty_of_error",
            "Poison.all_error_visible", "Poison.collect_facts"]


def classify(ans):
    if ans.startswith("crash"):
        return "crash"
    if ans.startswith("panic"):
        return "panic"
    if ans.startswith("internal"):
        return "internal"
    if ans.startswith("ok"):
        return "ok"
    if ans.startswith("err"):
        _, d = kv(ans)
        return "err" if codes_of(d) else "err-empty"
    return "other:" + ans[:30]


def external_symbols(src):
    out = set()
    for m in re.finditer(r"^\s*((?:pub\s+|extern\s+)*)fn\s+([A-Za-z_][A-Za-z0-9_]*)", src, re.M):
        if "pub" in m.group(1) or "extern" in m.group(1) or m.group(2) == "main":
            out.add(m.group(2))
    return out


def finding_class(units, ans):
    """the call-site / input class a failure belongs to (keys of known-findings.json)"""
    if ans.startswith("panic"):
        m = re.match(r"panic at=([^: ]+):(\d+)", ans)
        if not m:
            return "panic:?"
        # the call site, identified by its source text (stable when lines move)
        rel = m.group(1)
        if rel.startswith(REPO + "/"):
            rel = rel[len(REPO) + 1:]      # a scratch copy (tools/try_mutant_wt.sh) reports absolute paths
        try:
            lines = open(os.path.join(REPO, rel)).read().split("\n")
            text = lines[int(m.group(2)) - 1].strip()
            if text.endswith("(") or text.endswith("{"):
                text += " " + lines[int(m.group(2))].strip()
            # ... and the function it is in (`unreachable!()` is written in many places)
            fn = "?"
            for j in range(int(m.group(2)) - 1, -1, -1):
                mm = re.match(r"\s*(?:pub(?:\([a-z]+\))?\s+)?fn\s+(\w+)", lines[j])
                if mm:
                    fn = mm.group(1)
                    break
        except Exception:
            text, fn = "line %s" % m.group(2), "?"
        return "panic:%s:%s:%s" % (rel, fn, text)
    if ans.startswith("crash") and "rc=hang" in ans:
        return None         # (no class: a hang is reported with its input)
    if ans.startswith("crash"):
        if len(units) > 1:
            seen = set()
            for _, src in units:
                ext = external_symbols(src)
                if seen & ext:
                    break       # (F15 repaired: reported as E421 before anything is linked; a crash has another cause)
                seen |= ext
            # same-named structures / words in several modules (they are private to their modules)?
            decls = [set(re.findall(r"^(?:pub\s+)?(?:struct|word\d+)\s+([A-Za-z_][A-Za-z0-9_]*)", src, re.M)) for _, src in units]
            shared = set()
            for i in range(len(units)):
                for j in range(i + 1, len(units)):
                    shared |= decls[i] & decls[j]
            if shared:
                renamed = []
                first_seen = set()
                for idx, (n2, s2) in enumerate(units):
                    for nm in shared:
                        if nm in decls[idx]:
                            if nm in first_seen:
                                s2 = re.sub(r"\b%s\b" % re.escape(nm), "%s_renamed%d_" % (nm, idx), s2)
                            first_seen.add(nm)
                    renamed.append((n2, s2))
                rq2 = "alpha\tir\t" + "\t".join(x for n2, s2 in renamed for x in (n2, esc(s2)))
                if not run_harness_serial([rq2])[0].startswith("crash"):
                    return "crash:same-named-structure-in-two-modules"
        # what LLVM said before it aborted the process
        rq = "alpha\tir\t" + "\t".join(x for nm, s in units for x in (nm, esc(s)))
        p = subprocess.run([HARNESS_BIN], input=(rq + "\n").encode(), stdout=subprocess.PIPE, stderr=subprocess.PIPE,
                           env=env_for_cargo())
        first = p.stderr.decode("utf8", "replace").strip().split("\n")[0] if p.stderr else ""
        # is the crash caused by formatting an aggregate (print!/format! of an array, slice or structure)?
        # (the array itself replaced by its length: if the program then compiles, formatting the array was the cause)
        ra = re.compile(r"(\b(?:print|format|eprint|panic)!\([^\n]*?[(,]\s*)([A-Za-z_][A-Za-z0-9_.]*)(\s*[,)])")
        if any(ra.search(src) for _, src in units):
            rq2 = "alpha\tir\t" + "\t".join(x for nm, src in units for x in (nm, esc(ra.sub(r"\1|\2|\3", src))))
            a2 = run_harness_serial([rq2])[0]
            if a2.startswith("ok"):
                return "crash:format-of-aggregate"
        rx = re.compile(r"^[^\n]*\b(?:print|format|eprint|panic)!\(\s*[A-Za-z_][A-Za-z0-9_.]*\s*[,)][^\n]*$", re.M)
        if any(rx.search(src) for _, src in units):
            rq2 = "alpha\tir\t" + "\t".join(x for nm, src in units for x in (nm, esc(rx.sub("", src))))
            a2 = run_harness_serial([rq2])[0]
            if not a2.startswith("crash"):
                return "crash:format-of-aggregate"
        # ... or by `panic!` / `abort!` (which do not return) used where a value is needed?  (make it a statement of its own)
        rv = re.compile(r"^([ \t]*)(?:var\s+[A-Za-z_][A-Za-z0-9_]*(?:\s*:[^=\n]*)?|[A-Za-z_][A-Za-z0-9_.\[\]]*)\s*=\s*((?:panic|abort)!\([^\n]*\));", re.M)
        if any(rv.search(src) for _, src in units):
            rq2 = "alpha\tir\t" + "\t".join(x for nm, src in units for x in (nm, esc(rv.sub(r"\1\2;", src))))
            a2 = run_harness_serial([rq2])[0]
            if not a2.startswith("crash"):
                return "crash:panic-or-abort-builtin-used-as-a-value"
        # ... or by a view of views (`[][]T`, which docs/errors.md calls invalid and the compiler accepts as a parameter type)?
        # (give the inner arrays a length)
        rvv = re.compile(r"\[\]\s*\[\]")
        if any(rvv.search(src) for _, src in units):
            rq2 = "alpha\tir\t" + "\t".join(x for nm, src in units for x in (nm, esc(rvv.sub("[][1]", src))))
            a2 = run_harness_serial([rq2])[0]
            if not a2.startswith("crash"):
                return "crash:view-of-views"
        return "crash:" + re.sub(r"[0-9]+", "N", first)[:100]
    if ans.startswith("internal"):
        m = re.search(r"msg=(.*)$", ans)
        return "internal:" + re.sub(r"[0-9]+", "N", m.group(1) if m else ans)[:90]
    if classify(ans) == "err-empty":
        # failure with an empty error list: is it caused by an array literal with elements of different types?  (equalise
        # the elements of one literal at a time, in any of the modules, and see whether diagnostics or success come back)
        for ui, (name, src) in enumerate(units):
            for mm in re.finditer(r"\[([^\[\]]*),([^\[\]]*)\]", src):
                first = mm.group(1).split(",")[0]
                n = mm.group(0).count(",") + 1
                cand = src[:mm.start()] + "[" + ", ".join([first] * n) + "]" + src[mm.end():]
                units2 = [(nm, (cand if j == ui else sj)) for j, (nm, sj) in enumerate(units)]
                a2 = run_harness_serial(["alpha\tir\t" + "\t".join(x for nm, sj in units2 for x in (nm, esc(sj)))])[0]
                if classify(a2) != "err-empty":
                    return "err-empty:array-literal-element-type-mismatch"
        # ... or by the unfinished `dbg!` builtin, which drops the error of its argument?  (replace each `dbg!(e)` by `e`)
        if any("dbg!(" in src for _, src in units):
            units2 = [(nm, re.sub(r"dbg!\(([^()]*)\)", r"\1", sj)) for nm, sj in units]
            a2 = run_harness_serial(["alpha\tir\t" + "\t".join(x for nm, sj in units2 for x in (nm, esc(sj)))])[0]
            if classify(a2) != "err-empty":
                return "err-empty:dbg-builtin-drops-the-error-of-its-argument"
    return None


def main():
    rep = Reporter("C02")
    if not setup_common(rep, THEOREMS):
        return rep.finish()
    rng = SplitMix64(rep.seed).fork("C02")
    thorough = rep.tier == "thorough"
    dist = collections.Counter()
    corpus = faultgen.corpus()
    inputs = []
    # exhaustive short token sequences
    for s in faultgen.token_sequences(2 if not thorough else 3):
        inputs.append([("m.pn", s)])
    n_exh = len(inputs)
    if thorough:
        for s in faultgen.token_sequences(4, faultgen.SMALL_ALPHABET):
            inputs.append([("m.pn", s)])
        n_exh = len(inputs)
    else:
        for _ in range(1500):
            k = 3
            s = " ".join(rng.pick(faultgen.TOKENS) for _ in range(k))
            inputs.append([("m.pn", s if rng.chance(1, 2) else "fn main()\n{\n\t" + s + "\n}\n")])
    for i in range(60000 if thorough else 2500):
        r = rng.fork("i%d" % i)
        k = r.below(12)
        if k < 5:
            name, src = r.pick(corpus)
            for _ in range(r.below(4)):
                src = faultgen.mutate(r, src)
            inputs.append([(name.replace("/", "_"), src)])
        elif k < 8:
            inputs.append([("m.pn", faultgen.faulted_program(r))])
        elif k < 9:
            inputs.append([("m.pn", faultgen.token_soup(r, 1 + r.below(60)))])
        elif k < 10:
            inputs.append([("m.pn", faultgen.nested(r, r.pick([1, 2, 8, 32, 64, 128, 200, 256])))])
        else:
            # 2-3 module sets
            mods = []
            for j in range(2 + r.below(2)):
                name, src = r.pick(corpus)
                if r.chance(1, 2):
                    src = faultgen.mutate(r, src)
                mods.append(("m%d.pn" % j, src))
            if r.chance(1, 2):
                mods[0] = (mods[0][0], 'import "m1.pn";\n' + mods[0][1])
            inputs.append(mods)
    for i in range(400 if thorough else 40):
        inputs.append(faultgen.clash_modules(rng.fork("clash%d" % i)))
    for src in faultgen.cast_programs():
        inputs.append([("c.pn", src)])
    for src in faultgen.constant_hazards():
        inputs.append([("k.pn", src)])
    # one fault (24 kinds) in every expression position (35 kinds: operands of unary and binary operators, casts, indices,
    # arguments, literals, both sides of assignments, conditions, return values, builtin arguments, constants): the fault
    # must be REPORTED from wherever it sits (a poisoned operand once made the resolver return early with no error at all)
    for _tag, src in faultgen.fault_context_matrix():
        inputs.append([("f.pn", src)])
    # one faulty statement (ill-typed assignees, variables declared without type or value and then used in every way) or
    # one faulty constant (cycles through structure and array literals, unknown names, ill-typed values), used and unused
    for _tag, src in faultgen.statement_fault_programs():
        inputs.append([("s.pn", src)])
    # every kind of argument, plain and in one or two pairs of parentheses, for every kind of parameter
    PK = [("x: []i32", ["a", "[1, 2]", "[1i32, 2]", "sl"]), ("x: &[]i32", ["&a"]), ("x: &[3]i32", ["&a"]), ("x: &i32", ["&v"]), ("x: i32", ["v", "1", "a[0]"]),
          ("x: S", ["st", "S { m: 1 }"]), ("x: &S", ["&st"]), ("x: [][2]i32", ["g", "[[1, 2], [3, 4]]"]), ("x: []S", ["ss", "[S { m: 1 }]"]),
          ("x: []char8", ['"abc"', 'format!("a", v)', "file!()", "chars"]), ("x: []u8", ['"abc"', "[1u8, 2u8]"])]
    for (param, args) in PK:
        for arg in args:
            for wrap in ("%s", "(%s)", "((%s))"):
                for ext in ("", "extern "):
                    inputs.append([("q.pn", "struct S\n{\n\tm: i32,\n}\n%sfn callee(%s)\n{\n}\nfn outer(sl: []i32)\n{\n\tvar a: [3]i32 = [1, 2, 3];\n\tvar v: i32 = 1;\n"
                                    "\tvar st = S { m: 1 };\n\tvar g: [2][2]i32 = [[1, 2], [3, 4]];\n\tvar ss: [2]S = [S { m: 1 }, S { m: 2 }];\n\tvar chars: [2]char8 = \"ab\";\n\tcallee(%s);\n}\nfn main()\n{\n}\n"
                                    % (ext, param, wrap % arg))])
    # print! of every kind of parameter, its address and its length, in ordinary and extern functions
    for ext in ("", "extern "):
        for k in ("i32", "&i32", "[]i32", "&[]i32", "&[3]i32", "S", "&S", "(S)", "[]char8", "&[]char8", "&&[]i32", "[][2]i32", "&[..]u8",
                  "[]S", "bool", "char8", "&&S", "W", "&W"):
            for arg in ("x", "&x", "|x|", '"{}", x'):
                inputs.append([("pr.pn", "struct S\n{\n\tm: i32,\n}\nword16 W\n{\n\ta: u8,\n\tb: u8,\n}\n%sfn f(x: %s)\n{\n\tprint!(%s);\n}\nfn main()\n{\n}\n" % (ext, k, arg))])
    # the pointer-advancing operator `..` (tests/samples/valid/pointer_arithmetic.pn) with every kind of right operand
    for off in ("1", "1usize", "1i8", "true", "'a'", "&p", "p", "a", "x", "st", "-1", "1 + x", "f()"):
        inputs.append([("p.pn", "struct S\n{\n\tm: i32,\n}\nfn f() -> usize\n{\n\treturn: 1\n}\nfn main() -> i32\n{\n\tvar a: [4]i32 = [1, 2, 3, 4];\n"
                        "\tvar x: usize = 1;\n\tvar st = S { m: 1 };\n\tvar p: &[..]i32 = cast &a;\n\tvar q: &[..]i32 = &p .. %s;\n\treturn: q[0]\n}\n" % off)])
    # every builtin with 0..2 arguments that are defined, undefined, skipped by a goto, or of an odd type
    for b in ("print", "eprint", "format", "panic", "dbg", "file", "line", "abort", "include_bytes", "nosuchbuiltin"):
        for args in ("", "x", "u", "y", "x, x", '"a.txt"', "x, \"s\"", "arr", "st", "&x", "1", "-1i8", "true"):
            for form in ("\t%s!(%s);\n", "\tvar r = %s!(%s);\n", "\tx = %s!(%s);\n"):
                inputs.append([("b.pn", "struct S\n{\n\ta: i32,\n}\nfn main()\n{\n\tvar x: i32 = 1;\n\tvar arr: [2]i32 = [1, 2];\n"
                                "\tvar st = S { a: 1 };\n\tgoto skip;\n\tvar y: i32 = 2;\n\tskip:\n" + form % (b, args) + "}\n")])
    # the forwarding and address matrices of C08 (writes through every kind of parameter, `&` in every expression position)
    import c08
    for _what, src in c08.forwarding_matrix() + c08.address_matrix():
        inputs.append([("w.pn", src)])
    # dependency graphs of constants and structures in shuffled declaration order, with and without cycles (the
    # compiler orders and partially generates these before anything else: a place where failures went unreported)
    import c11
    for i in range(6000 if thorough else 500):
        src, _ids, _edges = c11.graph_case(rng.fork("graph%d" % i))
        inputs.append([("g.pn", src + ("fn main()\n{\n}\n" if i % 2 else ""))])
    for src, _ids, _edges in c11.ring_cases(rng.fork("rings"), thorough):
        inputs.append([("g.pn", src)])
    # calls with every number of arguments against every number of parameters (typed variables and literals)
    for nparams in range(0, 4):
        for nargs in range(0, 5):
            for stmt in (False, True):
                for argkind in ("var", "lit"):
                    params = ", ".join("p%d: i32" % k for k in range(nparams))
                    args = ", ".join(("a" if argkind == "var" else "%di32" % (k + 1)) for k in range(nargs))
                    if stmt:
                        f = "fn callee(%s)\n{\n}\n" % params
                        use = "\tcallee(%s);\n" % args
                    else:
                        f = "fn callee(%s) -> i32\n{\n\treturn: 7\n}\n" % params
                        use = "\tvar r: i32 = callee(%s);\n" % args
                    inputs.append([("c.pn", f + "fn main()\n{\n\tvar a: i32 = 1;\n" + use + "}\n")])
    # every small statement structure (blocks, ifs, else branches, loops, gotos, labels in every arrangement: the
    # skeletons of C06 and C05), valid or not, through the whole pipeline including code generation
    import c06
    import c05
    structured = c06.enum_trees(5 if thorough else 4)
    for i in range(5000 if thorough else 600):
        structured.append(c06.random_list(rng.fork("s%d" % i), 1 + rng.below(8), 4))
    for body in structured:
        inputs.append([("f.pn", c06.requests(body)[2])])
    # bodies with declarations, uses, gotos and labels (the skeletons of C05), with and without anything else in scope:
    # whatever the scoper lets through must survive code generation (a use that is not dominated by its declaration
    # aborts in LLVM)
    for i in range(8000 if thorough else 600):
        vr = rng.fork("v%d" % i)
        body = c05.multi_goto_body(vr, [10, 10]) if i % 2 else c05.random_body(vr, 1 + vr.below(12), 3, 2 + vr.below(2), 1 + vr.below(3))
        inputs.append([("v.pn", c05.requests(body, 3 if i % 3 == 0 else i % 3)[2])])
    # probes: the minimal inputs of the known findings, so that each is exercised on every run
    two_mains = "fn main() -> i32\n{\n\treturn: 1\n}\n"
    for name, src in corpus:
        if name.endswith("missing_address_slice_pointer.pn") or name.endswith("valid/builtin_format_array.pn"):
            inputs.append([(os.path.basename(name), src)])
    inputs.append([("a.pn", two_mains), ("b.pn", two_mains)])
    # integer literals around the limits of the lexers' arithmetic (2^64, 2^127, 2^128: the last value that fits and the first
    # ten that do not), in every base, bare and with a suffix, as a statement and as a lone token
    for base_v in (1 << 64, 1 << 127, 1 << 128):
        for v in range(base_v - 2, base_v + 11):
            for sp in (str(v), "0x%x" % v, "0b" + bin(v)[2:]):
                for sfx in ("", "u128", "i8"):
                    inputs.append([("n.pn", "fn main()\n{\n\tvar x: u128 = %s%s;\n}\n" % (sp, sfx))])
                inputs.append([("n.pn", sp)])
    # values of an opaque structure (there are none): a literal as argument, initialiser, return value, member
    for use in ("fn bar(o: Owner);\npub fn foo()\n{\n\tbar(Owner {});\n}\n", "pub fn foo()\n{\n\tvar o = Owner {};\n}\n",
                "fn bar(o: &Owner);\npub fn foo()\n{\n\tvar o = Owner {};\n\tbar(&o);\n}\n",
                "struct T\n{\n\tp: &Owner,\n}\npub fn foo()\n{\n\tvar o = Owner {};\n\tvar t = T { p: &o };\n}\n"):
        inputs.append([("o.pn", "struct Owner;\n" + use)])
    # a view of views (`[][]u8`: docs/errors.md calls the type invalid, the compiler accepts it as a parameter type): indexed
    inputs.append([("v.pn", "pub fn foo(x: [][]u8) -> u8\n{\n\treturn: x[0][1]\n}\n")])
    # two modules that both define a function for the program as a whole (E421), with calls to it from either module, from
    # both, from a third module that imports one of them; every file order
    for ca in (False, True):
        for cb in (False, True):
            for third in (None, "a.pn", "b.pn"):
                ma = "pub fn foo() -> i32\n{\n\treturn: 1\n}\n" + ("pub fn fa() -> i32\n{\n\treturn: foo()\n}\n" if ca else "")
                mb = "pub fn foo() -> i32\n{\n\treturn: 2\n}\n" + ("pub fn fb() -> i32\n{\n\tvar x: i32 = foo();\n\treturn: x + foo()\n}\n" if cb else "")
                mods = [("a.pn", ma), ("b.pn", mb)]
                if third:
                    mods.append(("m.pn", 'import "%s";\nfn main() -> i32\n{\n\treturn: foo()\n}\n' % third))
                for o in itertools.permutations(range(len(mods))):
                    inputs.append([mods[j] for j in o])
    inputs.append([("m.pn", "fn main()\n{\n\tvar i: (i32) = 0;\n\tvar x: &i32 = &i;\n}\n")])
    inputs.append([("m.pn", "fn main()\n{\n\tvar a: void = 10;\n\tvar b: &u8 = &a;\n}\n")])
    inputs.append([("m.pn", "fn main()\n{\n\tvar x: [5000000000]u8;\n}\n")])
    inputs.append([("m.pn", "fn main()\n{\n\tvar a: [2]i64 = [1i64, 2i8];\n}\n")])
    inputs.append([("m.pn", "fn f(ps: []&i32)\n{\n\tps[0] = 9;\n}\nfn main()\n{\n}\n")])
    reqs = ["alpha\tir\t" + "\t".join(x for nm, s in u for x in (nm, esc(s))) for u in inputs]
    h = run_harness(reqs)
    bad = collections.OrderedDict()
    for u, rq, a in zip(inputs, reqs, h):
        c = classify(a)
        dist[c] += 1
        if c not in ("ok", "err"):
            if a.startswith("panic at="):
                sig = re.match(r"panic at=\S+", a).group(0)
            elif c == "crash" and "rc=hang" in a:
                sig = "hang"
            elif c == "crash":
                # a dead worker says nothing about the cause: classify every case (the classes differ in their inputs)
                sig = "crash:" + str(finding_class(u, a))
            elif c == "err-empty":
                # failures without diagnostics have different causes too: classify every case
                sig = "err-empty:" + str(finding_class(u, a)) + ":" + re.sub(r"[0-9]+", "N", a[:80])
            else:
                sig = c + ":" + re.sub(r"[0-9]+", "N", a[:80])
            bad.setdefault(sig, []).append((u, rq, a))
    for sig, cases in bad.items():
        u, rq, a = min(cases, key=lambda x: sum(len(s) for _, s in x[0]))
        # shrink single-file inputs by deleting lines (not the ones that hang: every candidate would be waited for)
        if len(u) == 1 and "rc=hang" not in a:
            name, src = u[0]
            lines = src.split("\n")
            changed = True
            budget = 200
            while changed and budget > 0:
                changed = False
                for i in range(len(lines)):
                    budget -= 1
                    cand = lines[:i] + lines[i + 1:]
                    ans = run_harness_serial(["alpha\tir\t%s\t%s" % (name, esc("\n".join(cand)))])[0]
                    if classify(ans) == classify(a) and finding_class([(name, "\n".join(cand))], ans) == finding_class(u, a):
                        lines = cand
                        changed = True
                        break
            src = "\n".join(lines)
            u = [(name, src)]
            rq = "alpha\tir\t%s\t%s" % (name, esc(src))
            a = run_harness_serial([rq])[0]
        known_key = finding_class(u, a)
        rep.violation(("c02:" + known_key) if known_key else ("c02:" + sig + ":" + "|".join(s for _, s in u)[:400]), {
            "why": "compilation ended as `%s` (%d such inputs in this run)" % (classify(a), len(cases)),
            "files": dict(u), "harness_request": rq, "implementation": a[:600]})
    # the diagnostics of every rejected input are rendered as the command line renders them (all colour / charset
    # configurations): a failure must END in diagnostics, so a panic or failure while rendering them breaks the property too
    rej = [i for i, a in enumerate(h) if classify(a) == "err"]
    if not thorough:
        # quick: every distinct error-code set once, plus a sample
        seen_codes = set()
        keep = []
        for i in rej:
            cs = kv(h[i])[1].get("codes", "")
            if cs not in seen_codes or i % 7 == 0:
                seen_codes.add(cs)
                keep.append(i)
        rej = keep
    dreqs = ["diag\t" + "\t".join(x for nm, s_ in inputs[i] for x in (nm, esc(s_))) for i in rej]
    dh = run_harness(dreqs)
    rendered_bad = collections.OrderedDict()
    for i, rq, a in zip(rej, dreqs, dh):
        if a.startswith("panic") or a.startswith("crash"):
            sig = re.sub(r"[0-9]+", "N", a[:120])
        else:
            mm = re.search(r"render=(\S+)", a)
            if mm and mm.group(1).startswith("ok"):
                dist["rendered"] += 1
                continue
            sig = "render:" + re.sub(r"[0-9]+", "N", (mm.group(1) if mm else a[:80]))[:120]
        rendered_bad.setdefault(sig, []).append((inputs[i], rq, a))
    for sig, cases in rendered_bad.items():
        u, rq, a = min(cases, key=lambda x: sum(len(s_) for _, s_ in x[0]))
        rep.violation("c02:rendering:" + sig, {
            "why": "the diagnostics of a rejected input cannot be rendered (%d such inputs in this run)" % len(cases),
            "files": dict(u), "harness_request": rq, "implementation": a[:600]})
    # the repository's own dev-profile binary with the default 8 MiB main-thread stack: nesting up to the property's bound
    # of 256.  (The harness links the library at opt-level 1, whose frames are several times smaller, so the in-process
    # runs above do not show what an unoptimised `cargo build` does.)
    penne = build_penne_bin()
    work = os.path.join(CACHE, "c02work")
    os.makedirs(work, exist_ok=True)
    NEST = {
        "blocks": lambda d: "fn main()\n{\n" + "{" * d + "}" * d + "\n}\n",
        "parentheses": lambda d: "fn main() -> i32\n{\n\treturn: " + "(" * d + "1" + ")" * d + "\n}\n",
        "pointer-type": lambda d: "fn f(x: " + "&" * d + "i32)\n{\n}\n",
        "array-type": lambda d: "fn main()\n{\n\tvar x: " + "[1]" * d + "u8;\n}\n",
        "if": lambda d: "fn main()\n{\n\tvar c: bool = true;\n" + "\tif c\n\t{\n" * d + "\t}\n" * d + "}\n",
        "array-literal": lambda d: "fn main()\n{\n\tvar x = " + "[" * d + "1u8" + "]" * d + ";\n}\n",
        "unary": lambda d: "fn main() -> i32\n{\n\tvar a: i32 = 1;\n\treturn: " + "-" * d + "a\n}\n",
    }
    env = env_for_cargo()
    nest_jobs = [(kind, d) for kind in NEST for d in (8, 16, 32, 48, 64, 128, 256)]

    def run_nest(job):
        kind, d = job
        f = os.path.join(work, "nest_%s_%d.pn" % (kind, d))
        with open(f, "w") as fh:
            fh.write(NEST[kind](d))
        try:
            pr = subprocess.run([penne, "emit", f], stdout=subprocess.DEVNULL, stderr=subprocess.PIPE, env=env, timeout=120)
            return pr.returncode, pr.stderr.decode("utf8", "replace")[-400:]
        except subprocess.TimeoutExpired:
            return "timeout", ""
    from concurrent.futures import ThreadPoolExecutor
    with ThreadPoolExecutor(max_workers=8) as ex:
        nest_res = list(ex.map(run_nest, nest_jobs))
    overflow_from = {}
    for (kind, d), (rc, err) in zip(nest_jobs, nest_res):
        dist["dev-binary-nesting:%s:%s" % (kind, "ok" if rc in (0, 1) else "crash")] += 1
        if rc in (0, 1):
            continue
        if "overflowed its stack" in err and d >= 48:
            overflow_from.setdefault(kind, d)
            continue
        rep.violation("c02:dev-binary:%s:%d:%s" % (kind, d, rc), {
            "why": "the compiler binary built with the repository's own dev profile ends with status %s on %s nested %d deep" % (rc, kind, d),
            "source": NEST[kind](d), "stderr": err})
    # flat chains: nesting depth 1, but the parser builds a tree as deep as the chain is long and the later passes recurse
    FLAT = {
        "addition-chain": lambda n: "fn main() -> i32\n{\n\treturn: " + " + ".join(["1"] * n) + "\n}\n",
        "cast-chain": lambda n: "fn main() -> i32\n{\n\treturn: 1" + " as i32" * n + "\n}\n",
        "else-if-chain": lambda n: "fn main()\n{\n\tvar a: i32 = 1;\n\tif a == 1\n\t{\n\t}\n" + "\telse if a == 1\n\t{\n\t}\n" * n + "}\n",
        "statements": lambda n: "fn main()\n{\n\tvar a: i32 = 1;\n" + "\ta = a + 1;\n" * n + "}\n",
        "array-elements": lambda n: "fn main()\n{\n\tvar a = [" + ", ".join(["1u8"] * n) + "];\n}\n",
        "arguments": lambda n: "fn f(" + ", ".join("p%d: i32" % i for i in range(n)) + ")\n{\n}\nfn main()\n{\n\tf(" + ", ".join(["1"] * n) + ");\n}\n",
    }
    flat_jobs = [(kind, n) for kind in FLAT for n in (100, 400, 1000, 2000, 4000) if len(FLAT[kind](n)) <= 65536]
    NEST.update(FLAT)
    with ThreadPoolExecutor(max_workers=8) as ex:
        flat_res = list(ex.map(run_nest, flat_jobs))
    flat_overflow = {}
    for (kind, n), (rc, err) in zip(flat_jobs, flat_res):
        dist["dev-binary-flat:%s:%s" % (kind, "ok" if rc in (0, 1) else "crash")] += 1
        if rc in (0, 1):
            continue
        if "overflowed its stack" in err and n >= 1000 and kind in ("addition-chain", "cast-chain", "else-if-chain"):
            flat_overflow.setdefault(kind, n)
            continue
        rep.violation("c02:dev-binary-flat:%s:%d:%s" % (kind, n, rc), {
            "why": "the compiler binary built with the repository's own dev profile ends with status %s on a flat %s of %d links" % (rc, kind, n),
            "source": FLAT[kind](n)[:2000], "stderr": err})
    if flat_overflow:
        rep.violation("c02:crash:stack-overflow-of-the-dev-profile-binary-on-a-flat-chain", {
            "why": "the unoptimised binary overflows its stack on a chain of nesting depth 1 within 64 KiB; first failing length per kind: %s" % flat_overflow,
            "source": FLAT[sorted(flat_overflow)[0]](flat_overflow[sorted(flat_overflow)[0]])[:4000]})
    # growth of the running time on inputs that are long but not deep (the property says: never hangs)
    def timed(src, tag):
        f = os.path.join(work, "time_%s.pn" % tag)
        with open(f, "w") as fh:
            fh.write(src)
        t = time.time()
        try:
            subprocess.run([penne, "emit", f], stdout=subprocess.DEVNULL, stderr=subprocess.DEVNULL, env=env, timeout=300)
        except subprocess.TimeoutExpired:
            return 300.0
        return time.time() - t
    chain = lambda n: "const c0: u8 = 1;\n" + "".join("const c%d: u8 = c%d;\n" % (i, i - 1) for i in range(1, n)) + "fn main()\n{\n}\n"
    oneline = lambda n: "fn main()\n{\n\t" + " ".join("var x%d = y%d;" % (i, i) for i in range(n)) + "\n}\n"
    GROWTH = [("constant-chain", chain, 150, 300, "c02:slow:cubic-time-on-a-chain-of-constants"),
              ("errors-on-one-line", oneline, 120, 240, "c02:slow:quadratic-time-rendering-many-diagnostics-on-one-line")]
    with ThreadPoolExecutor(max_workers=4) as ex:
        times = list(ex.map(lambda a: timed(a[0](a[1]), a[2]), [(g[1], n, "%s_%d" % (g[0], n)) for g in GROWTH for n in (g[2], g[3])]))
    for gi, (name, gen, n1, n2, key) in enumerate(GROWTH):
        t1, t2 = times[2 * gi], times[2 * gi + 1]
        dist["growth:%s:t(%d)=%.1fs:t(%d)=%.1fs" % (name, n1, t1, n2, t2)] += 1
        # doubling the input more than triples the time, and the projection to the 64 KiB bound is minutes: super-linear
        if t2 > 1.0 and t2 > 3.2 * t1:
            rep.violation(key, {"why": "doubling the length of a %s from %d to %d multiplies the running time by %.1f (%.1fs -> %.1fs); an input "
                                       "of this kind within the 64 KiB bound of the property takes many minutes" % (name, n1, n2, t2 / max(t1, 0.01), t1, t2),
                                "source": gen(n1)[:1500]})
    if overflow_from:
        rep.violation("c02:crash:stack-overflow-of-the-dev-profile-binary-at-nesting-depth<=256", {
            "why": "the unoptimised binary overflows its 8 MiB stack within the nesting bound of the property; first failing depth per kind: %s" % overflow_from,
            "source": NEST[sorted(overflow_from)[0]](overflow_from[sorted(overflow_from)[0]])})
    report_broken_proof(rep)
    rep.coverage.update({
        "evaluations": len(inputs), "distinct_nontrivial": len(set(reqs)),
        "rule": "all token sequences of length <= %s over %d token spellings, at top level and inside a function body "
                "(exhaustive: %d); corpus files (tests/samples valid+invalid, examples, core, vendor) with 0-3 textual faults; "
                "generated programs with 1-3 faults; token soup; nesting depth up to 256 (blocks, parentheses, pointer and array "
                "types); 2-3 module sets; each through lex .. generate_ir/link in a worker process (panics caught per case, a "
                "dead worker is detected and restarted); outcome must be ok or err with a non-empty code list; the diagnostics of rejected inputs are rendered in every colour / charset configuration; "
                "the dev-profile command line binary with its default stack on 7 kinds of nesting at depths 8..256"
                % ("3 (4 over a 24-token sub-alphabet)" if thorough else "2", len(faultgen.TOKENS), n_exh),
        "exhaustive": True,
        "traces_validated_against_impl": dist["ok"] + dist["err"], "distribution": dict(dist),
        "samples": [reqs[n_exh + 5][:300]],
    })
    return rep.finish()


if __name__ == "__main__":
    sys.exit(main())
