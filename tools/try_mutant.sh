#!/bin/bash
# tools/try_mutant.sh <patch> <check-id>...   apply a seeded change to /repo, run the checks, undo it
patch=$1; shift
cd /repo || exit 2
if [ -n "$(git status --porcelain)" ]; then echo "/repo not clean"; exit 2; fi
git apply "$patch" || { echo "patch does not apply"; exit 2; }
for id in "$@"; do
  echo "--- $id against $(basename $(dirname $patch))"
  (cd /verif && VERIF_NO_EVIDENCE=1 bin/check $id 2>&1 | grep -E "VIOLATION|KNOWN-FINDING|violations=|Traceback|Error" | head -8)
done
git -C /repo checkout -- .
rm -f /verif/replays/*-mut-* 2>/dev/null
git -C /repo status --porcelain | head -3
# leave a harness built from the clean tree behind
(cd /verif/checks && python3 -c "from lib import *; build_harness()" >/dev/null 2>&1)
