#!/bin/bash
# tools/try_mutant_wt.sh <worktree-with-the-change-applied> <check-id>...
# Runs the checks against a scratch copy of the repository (a seeded change), with its own cargo target directories
# and replay directory, so that /repo is never touched (a thorough run may be reading it).
wt=$(readlink -f "$1"); shift
name=$(basename "$wt")
export VERIF_REPO="$wt" VERIF_CACHE="/tmp/vcache_$name" VERIF_REPLAYS="/tmp/vreplays_$name" VERIF_NO_EVIDENCE=1
mkdir -p "$VERIF_CACHE"
for id in "$@"; do
  echo "--- $id against $name"
  (cd /verif && bin/check $id 2>&1 | grep -E "VIOLATION|violations=|Traceback|Error" | cut -c1-200 | awk 'NR<=3{print} {n++; last=$0} END{if(n>3) print "   ... " n " lines; " last}')
done
