import json, sys
pid = sys.argv[1]
props = {json.loads(l)['id']: json.loads(l) for l in open('/verif/properties.jsonl')}
p = props[pid]
print(f"""You are testing how robust a compiler's behaviour is against subtle regressions. You work ONLY inside the git worktree /tmp/wt_{pid} (a checkout of the Rust project "penne", a compiler for a goto-centric language, with a first-generation compiler under src/alpha/ and a second-generation front end under src/delta/). Do not touch /repo, do not look at or use anything under /verif, and do not read other /tmp/wt_* directories.

THE PROPERTY (this text is all you get about it):
Title: {p['title']}
Statement: {p['statement']}
It is meant to hold over: {p['quantifier']['text']}

YOUR TASK: write a small, realistic source change to the project (the kind of slip a maintainer could make in a refactor or "optimisation") that BREAKS this property, while
 (1) the project still compiles (both `cargo build --offline` and, with the LLVM wrapper below, `cargo build --offline --features alpha,llvm-sys`),
 (2) the existing test-suite result is unchanged: run `cargo test --workspace --no-fail-fast --offline` in the worktree; on the unmodified tree exactly the 75 tests listed under "stable_pass" in /root/.vp/BASELINE.json pass (the many other tests fail already, because they need the alpha feature) — after your change those same 75 must still pass,
 (3) the breakage needs something SPECIFIC to manifest — an unusual input, a particular multi-step combination, two cooperating sites that each look fine alone, a boundary value, a particular nesting — NOT something that ordinary use (e.g. compiling any hello-world or any of the sample programs in examples/ or tests/samples/valid) would expose at once.

Then write a DEMONSTRATION: a small self-contained script `demo.sh` (plus any input files it needs, in a directory /tmp/wt_{pid}/demo/) that exits 0 on the unmodified tree and exits non-zero with your change applied, by driving the real compiler/library on a concrete input and checking the observable behaviour the property talks about (error codes, printed output of the compiled program, tokens, etc.). Verify BOTH directions yourself (use `git diff > demo/patch.diff; git checkout -- src; ...; git apply demo/patch.diff`; do NOT use `git stash`: the stash is shared by all worktrees of the repository and other people work in sibling worktrees).

How to build and run the first-generation compiler in this sandbox (no network): put the wrapper first on PATH and enable the features:
    export PATH=/tmp/llvmwrap/bin:$PATH
    cd /tmp/wt_{pid} && cargo build --offline --features alpha,llvm-sys
    ./target/debug/penne run some_file.pn        # compiles and runs through lli; prints the program's stdout and "Output: <exit status>"
    ./target/debug/penne emit some_file.pn       # prints diagnostics on error
The library API can also be used from a small Rust test/example inside the worktree (e.g. penne::alpha::lexer::lex, penne::delta::lexer::lex, penne::alpha::compile_source). `lli`, `llvm-as`, `opt` (LLVM 14) are on PATH. A plain `cargo build --offline` (no features) builds the second-generation CLI only.

DELIVERABLES, all inside /tmp/wt_{pid}/demo/ :
  - patch.diff   : `git diff` of your change (source files only, not the demo directory)
  - demo.sh      : the demonstration (run from the worktree root as `bash demo/demo.sh`; it may build the project itself)
  - any input files
  - NOTES.md     : 5-10 lines: what the change is, why it breaks the property, what specific circumstances are needed, and what you ran to confirm (1), (2), (3) and both directions of the demo.
Leave the worktree WITH your change applied when you finish. Keep the change small (a few lines). Do not weaken or edit any existing test. Report back a short summary (the patch, the trigger, the commands you ran and their results).""")
