#!/bin/bash
# confirm each agent-made change: baseline tests unchanged, demo fails with the change and passes without
export PATH=/tmp/llvmwrap/bin:$PATH
for id in "$@"; do
  wt=/tmp/wt_$id
  cd $wt || continue
  echo "=== $id"
  git status --short | grep -v '^??' | head -5
  BASELINE_REPO=$wt /verif/bin/baseline | head -3
  bash demo/demo.sh > /tmp/confirm_$id.with.log 2>&1; echo "demo with change: rc=$?"
  git diff -- src core vendor Cargo.toml > /tmp/confirm_$id.patch
  cmp -s /tmp/confirm_$id.patch demo/patch.diff || echo "note: worktree diff differs from demo/patch.diff (using the worktree diff)"
  git checkout -q -- src core vendor Cargo.toml 2>/dev/null
  bash demo/demo.sh > /tmp/confirm_$id.without.log 2>&1; echo "demo without change: rc=$?"
  git apply /tmp/confirm_$id.patch
done
