#!/bin/bash
# confirm each agent-made change: baseline tests unchanged, demo fails with the change and passes without
export PATH=/tmp/llvmwrap/bin:$PATH
for id in "$@"; do
  wt=/tmp/wt_$id
  cd $wt || continue
  echo "=== $id"
  git status --short | grep -v '^??' | head -5
  BASELINE_REPO=$wt /verif/bin/baseline | head -3
  bash demo/demo.sh > /tmp/confirm_$id.with.log 2>&1; echo "demo with change: rc=$?"
  git stash -q
  bash demo/demo.sh > /tmp/confirm_$id.without.log 2>&1; echo "demo without change: rc=$?"
  git stash pop -q
done
