/-
  S-expressions: the wire format between the orchestrator and the model driver.
  Atoms are maximal runs of characters other than whitespace, parentheses and `"`;
  strings are written `"..."` with `\\`, `\"`, `\n`, `\t`, `\r` and `\xHH` escapes.
  No imports: this file is part of the natively compiled driver.
-/

inductive Sexp where
  | atom (s : String)
  | str (s : List Char)
  | list (xs : List Sexp)
  deriving Repr, Inhabited

namespace Sexp

def hexVal (c : Char) : Nat :=
  if '0' ≤ c ∧ c ≤ '9' then c.toNat - '0'.toNat
  else if 'a' ≤ c ∧ c ≤ 'f' then c.toNat - 'a'.toNat + 10
  else if 'A' ≤ c ∧ c ≤ 'F' then c.toNat - 'A'.toNat + 10
  else 0

def isAtomChar (c : Char) : Bool :=
  !(c == ' ' || c == '\n' || c == '\t' || c == '\r' || c == '(' || c == ')' || c == '"')

/-- read a string body after the opening quote -/
def readStr : List Char → List Char → Option (List Char × List Char)
  | [], _ => none
  | '"' :: rest, acc => some (acc.reverse, rest)
  | '\\' :: 'n' :: rest, acc => readStr rest ('\n' :: acc)
  | '\\' :: 't' :: rest, acc => readStr rest ('\t' :: acc)
  | '\\' :: 'r' :: rest, acc => readStr rest ('\r' :: acc)
  | '\\' :: '\\' :: rest, acc => readStr rest ('\\' :: acc)
  | '\\' :: '"' :: rest, acc => readStr rest ('"' :: acc)
  | '\\' :: 'x' :: a :: b :: rest, acc =>
      readStr rest (Char.ofNat (hexVal a * 16 + hexVal b) :: acc)
  | c :: rest, acc => readStr rest (c :: acc)

def readAtom : List Char → List Char → (List Char × List Char)
  | [], acc => (acc.reverse, [])
  | c :: rest, acc => if isAtomChar c then readAtom rest (c :: acc) else (acc.reverse, c :: rest)

/-- Tokenised parse with an explicit stack; fuel = input length. -/
def parseAux : Nat → List Char → List (List Sexp) → Option Sexp
  | 0, _, _ => none
  | fuel+1, cs, stack =>
    match cs with
    | [] => none
    | c :: rest =>
      if c == ' ' || c == '\n' || c == '\t' || c == '\r' then parseAux fuel rest stack
      else if c == '(' then parseAux fuel rest ([] :: stack)
      else if c == ')' then
        match stack with
        | [] => none
        | top :: [] => some (.list top.reverse)
        | top :: parent :: more => parseAux fuel rest ((.list top.reverse :: parent) :: more)
      else if c == '"' then
        match readStr rest [] with
        | none => none
        | some (s, rest') =>
          match stack with
          | [] => some (.str s)
          | top :: more => parseAux fuel rest' ((.str s :: top) :: more)
      else
        let (a, rest') := readAtom (c :: rest) []
        match stack with
        | [] => some (.atom (String.ofList a))
        | top :: more => parseAux fuel rest' ((.atom (String.ofList a) :: top) :: more)

def parse (s : String) : Option Sexp :=
  let cs := s.toList
  parseAux (cs.length + 1) cs []

def toNat? : Sexp → Option Nat
  | .atom s => s.toNat?
  | _ => none

def toInt? : Sexp → Option Int
  | .atom s => s.toInt?
  | _ => none

end Sexp
