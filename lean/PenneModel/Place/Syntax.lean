import PenneModel.Skel
/-
  C06 — model of `src/alpha/analyzer/syntax.rs` (placement of `loop` and of if-branches) and of the
  L1800 part of `src/alpha/linter.rs`, with independent context-based specifications.
-/

namespace Place

/-- the three mutable flags of `analyzer::syntax::Analyzer` -/
structure Flags where
  nakedThen : Bool := false
  nakedElse : Bool := false
  inBlock : Bool := false
  deriving Repr, DecidableEq

/-- result of analysing one statement: flags afterwards, codes raised (source order),
    and whether the returned statement is still `Statement::Loop` -/
structure Res where
  flags : Flags
  codes : List Code
  isLoop : Bool := false

def isGoto : Stmt → Bool | .goto _ => true | _ => false
def isBlock : Stmt → Bool | .block _ => true | _ => false
def isIf : Stmt → Bool | .ifThen .. => true | .ifElse .. => true | _ => false
def isLoop : Stmt → Bool | .loop => true | _ => false

mutual
/-- `impl Analyzable for Statement` -/
def chkStmt (f : Flags) (s : Stmt) : Res :=
  -- the naked-branch guard at the top of the function
  if (f.nakedThen || f.nakedElse) && !(isGoto s || isBlock s || (isIf s && f.nakedElse)) then
    { flags := f, codes := [840] }
  else
    match s with
    | .decl _ _ => { flags := f, codes := [] }
    | .use _ => { flags := f, codes := [] }
    | .label _ => { flags := f, codes := [] }
    | .goto _ => { flags := f, codes := [] }
    | .loop => if f.inBlock then { flags := f, codes := [], isLoop := true } else { flags := f, codes := [801] }
    | .ifThen _ t =>
        -- is_in_block = false; (fix) is_naked_else_branch = false; is_naked_then_branch = true; ..; = false
        let f1 := { f with inBlock := false, nakedElse := false, nakedThen := true }
        let r := chkStmt f1 t
        { flags := { r.flags with nakedThen := false }, codes := r.codes }
    | .ifElse _ t e =>
        let f1 := { f with inBlock := false, nakedElse := false, nakedThen := true }
        let r1 := chkStmt f1 t
        let f2 := { r1.flags with nakedThen := false, nakedElse := true }
        let r2 := chkStmt f2 e
        { flags := { r2.flags with nakedElse := false }, codes := r1.codes ++ r2.codes }
    | .block ss =>
        let r := chkBlock { f with nakedThen := false, nakedElse := false } ss
        { flags := r.flags, codes := r.codes }
/-- `impl Analyzable for Block`: every statement but the last is analysed with `is_in_block = true` and a
    surviving `Loop` is turned into E800; the last one is analysed with `is_in_block = true`, then the flag
    is cleared.  An empty block touches no flag. -/
def chkBlock (f : Flags) : Stmts → Res
  | .nil => { flags := f, codes := [] }
  | .cons s .nil =>
      let r := chkStmt { f with inBlock := true } s
      { flags := { r.flags with inBlock := false }, codes := r.codes }
  | .cons s (.cons s' ss) =>
      let r := chkStmt { f with inBlock := true } s
      let cs := if r.isLoop then [800] else r.codes
      let r' := chkBlock r.flags (.cons s' ss)
      { flags := r'.flags, codes := cs ++ r'.codes }
end

/-- `impl Analyzable for FunctionBody`: `is_in_block = false`, then every statement in order. -/
def chkList (f : Flags) : Stmts → Res
  | .nil => { flags := f, codes := [] }
  | .cons s ss =>
      let r := chkStmt f s
      let r' := chkList r.flags ss
      { flags := r'.flags, codes := r.codes ++ r'.codes }

def chkBody (ss : Stmts) : List Code := (chkList {} ss).codes

/-! ### Specification: where may a statement stand? -/

inductive Ctx where
  | fnBody      -- directly in a function body
  | blockInner  -- in a braced block, not its last statement
  | blockLast   -- last statement of a braced block
  | thenBr      -- the statement is the branch after `if <cond>`
  | elseBr      -- the statement is the branch after `else`
  deriving DecidableEq, Repr

mutual
def specStmt : Ctx → Stmt → List Code
  | .thenBr, .goto _ => []
  | .thenBr, .block ss => specBlock ss
  | .thenBr, _ => [840]
  | .elseBr, .goto _ => []
  | .elseBr, .block ss => specBlock ss
  | .elseBr, .ifThen _ t => specStmt .thenBr t
  | .elseBr, .ifElse _ t e => specStmt .thenBr t ++ specStmt .elseBr e
  | .elseBr, _ => [840]
  | .fnBody, .loop => [801]
  | .blockInner, .loop => [800]
  | .blockLast, .loop => []
  | _, .ifThen _ t => specStmt .thenBr t
  | _, .ifElse _ t e => specStmt .thenBr t ++ specStmt .elseBr e
  | _, .block ss => specBlock ss
  | _, _ => []
def specBlock : Stmts → List Code
  | .nil => []
  | .cons s .nil => specStmt .blockLast s
  | .cons s (.cons s' ss) => specStmt .blockInner s ++ specBlock (.cons s' ss)
end

def specList : Stmts → List Code
  | .nil => []
  | .cons s ss => specStmt .fnBody s ++ specList ss

def specBody (ss : Stmts) : List Code := specList ss

/-! ### L1800 (linter.rs) -/

/-- `is_naked_branch.is_some()`, `is_first_statement_of_branch.is_some()` -/
structure LFlags where
  naked : Bool := false
  first : Bool := false
  deriving Repr, DecidableEq

mutual
def lintStmt (f : LFlags) : Stmt → LFlags × List Code
  | .loop => if f.first then ({ f with first := false }, [1800]) else (f, [])
  | .ifThen _ t =>
      let r := lintStmt { f with first := false, naked := true } t
      ({ r.1 with naked := false }, r.2)
  | .ifElse _ t e =>
      let r1 := lintStmt { f with first := false, naked := true } t
      let r2 := lintStmt { r1.1 with naked := true } e
      ({ r2.1 with naked := false }, r1.2 ++ r2.2)
  | .block ss => lintBlock f ss
  | _ => (f, [])
/-- `impl Lintable for Block` -/
def lintBlock (f : LFlags) : Stmts → LFlags × List Code
  | .nil => (f, [])
  | .cons s ss =>
      -- is_first_statement_of_branch = is_naked_branch.take().map(..)
      let r := lintStmt { naked := false, first := f.naked } s
      let r' := lintList { r.1 with first := false } ss
      (r'.1, r.2 ++ r'.2)
def lintList (f : LFlags) : Stmts → LFlags × List Code
  | .nil => (f, [])
  | .cons s ss =>
      let r := lintStmt f s
      let r' := lintList r.1 ss
      (r'.1, r.2 ++ r'.2)
end

def lintBody (ss : Stmts) : List Code := (lintList {} ss).2

/-- specification: a braced branch whose first statement is `loop` -/
def branchLint : Stmt → List Code
  | .block (.cons .loop _) => [1800]
  | _ => []

mutual
def specLintStmt : Stmt → List Code
  | .ifThen _ t => branchLint t ++ specLintStmt t
  | .ifElse _ t e => branchLint t ++ specLintStmt t ++ (branchLint e ++ specLintStmt e)
  | .block ss => specLintList ss
  | _ => []
def specLintList : Stmts → List Code
  | .nil => []
  | .cons s ss => specLintStmt s ++ specLintList ss
end

def specLintBody (ss : Stmts) : List Code := specLintList ss

end Place
