import PenneModel.Place.Syntax
/-
  C06 — loop and if-branches only appear where the language allows them.  Property theorems.
-/
namespace Place

/-- what the flags mean at the point where a statement is analysed -/
def ctxOf (f : Flags) : Ctx :=
  if f.nakedThen then .thenBr else if f.nakedElse then .elseBr
  else if f.inBlock then .blockLast else .fnBody

theorem specStmt_inner (s : Stmt) :
    specStmt .blockInner s = if isLoop s then [800] else specStmt .blockLast s := by
  cases s <;> simp [specStmt, isLoop]

mutual
/-- One statement: codes are those of the specification in the context the flags encode; afterwards no
    naked flag is set that was not set before, and `isLoop` reports a surviving loop. -/
theorem chkStmt_spec (s : Stmt) (f : Flags) (h : ¬ (f.nakedThen = true ∧ f.nakedElse = true)) :
    (chkStmt f s).codes = specStmt (ctxOf f) s ∧
    ((chkStmt f s).isLoop = (isLoop s && f.inBlock && !f.nakedThen && !f.nakedElse)) ∧
    ((chkStmt f s).flags.nakedElse = true → f.nakedElse = true) ∧
    ((chkStmt f s).flags.nakedThen = true → f.nakedThen = true) ∧
    (f.inBlock = false → (chkStmt f s).flags.inBlock = false) := by
  cases s with
  | label n => rcases f with ⟨a, b, c⟩; cases a <;> cases b <;> cases c <;> simp_all [chkStmt, specStmt, ctxOf, isGoto, isBlock, isIf, isLoop]
  | goto n => rcases f with ⟨a, b, c⟩; cases a <;> cases b <;> cases c <;> simp_all [chkStmt, specStmt, ctxOf, isGoto, isBlock, isIf, isLoop]
  | loop => rcases f with ⟨a, b, c⟩; cases a <;> cases b <;> cases c <;> simp_all [chkStmt, specStmt, ctxOf, isGoto, isBlock, isIf, isLoop]
  | decl v us => rcases f with ⟨a, b, c⟩; cases a <;> cases b <;> cases c <;> simp_all [chkStmt, specStmt, ctxOf, isGoto, isBlock, isIf, isLoop]
  | use vs => rcases f with ⟨a, b, c⟩; cases a <;> cases b <;> cases c <;> simp_all [chkStmt, specStmt, ctxOf, isGoto, isBlock, isIf, isLoop]
  | ifThen c t =>
    have ih := chkStmt_spec t { f with inBlock := false, nakedElse := false, nakedThen := true } (by simp)
    rcases f with ⟨a, b, d⟩
    cases a <;> cases b <;> cases d <;>
      simp_all [chkStmt, specStmt, ctxOf, isGoto, isBlock, isIf, isLoop]
  | ifElse c t e =>
    have ih1 := chkStmt_spec t { f with inBlock := false, nakedElse := false, nakedThen := true } (by simp)
    have ih2 := chkStmt_spec e
      { (chkStmt { f with inBlock := false, nakedElse := false, nakedThen := true } t).flags with
          nakedThen := false, nakedElse := true } (by simp)
    rcases f with ⟨a, b, d⟩
    cases a <;> cases b <;> cases d <;>
      simp_all [chkStmt, specStmt, ctxOf, isGoto, isBlock, isIf, isLoop]
  | block ss =>
    have ih := chkBlock_spec ss { f with nakedThen := false, nakedElse := false } rfl rfl
    rcases f with ⟨a, b, d⟩
    cases a <;> cases b <;> cases d <;>
      simp_all [chkStmt, specStmt, ctxOf, isGoto, isBlock, isIf, isLoop]
theorem chkBlock_spec (ss : Stmts) (f : Flags) (h1 : f.nakedThen = false) (h2 : f.nakedElse = false) :
    (chkBlock f ss).codes = specBlock ss ∧
    (chkBlock f ss).flags.nakedThen = false ∧ (chkBlock f ss).flags.nakedElse = false ∧
    (f.inBlock = false ∨ ss ≠ .nil → (chkBlock f ss).flags.inBlock = false) := by
  cases ss with
  | nil => simp [chkBlock, specBlock, h1, h2]
  | cons s rest =>
    cases rest with
    | nil =>
      have ih := chkStmt_spec s { f with inBlock := true } (by simp [h1])
      simp only [chkBlock, specBlock]
      refine ⟨?_, ?_, ?_, by simp⟩
      · rw [ih.1]; simp [ctxOf, h1, h2]
      · have := ih.2.2.2.1; simp only [h1] at this
        cases hh : (chkStmt { f with inBlock := true } s).flags.nakedThen <;> simp_all
      · have := ih.2.2.1; simp only [h2] at this
        cases hh : (chkStmt { f with inBlock := true } s).flags.nakedElse <;> simp_all
    | cons s' ss =>
      have ih := chkStmt_spec s { f with inBlock := true } (by simp [h1])
      have g1 : (chkStmt { f with inBlock := true } s).flags.nakedThen = false := by
        have := ih.2.2.2.1; simp only [h1] at this
        cases hh : (chkStmt { f with inBlock := true } s).flags.nakedThen <;> simp_all
      have g2 : (chkStmt { f with inBlock := true } s).flags.nakedElse = false := by
        have := ih.2.2.1; simp only [h2] at this
        cases hh : (chkStmt { f with inBlock := true } s).flags.nakedElse <;> simp_all
      have ih' := chkBlock_spec (.cons s' ss) (chkStmt { f with inBlock := true } s).flags g1 g2
      simp only [chkBlock, specBlock]
      refine ⟨?_, ih'.2.1, ih'.2.2.1, fun _ => ih'.2.2.2 (Or.inr (by simp))⟩
      rw [ih'.1, ih.2.1, ih.1, specStmt_inner]
      simp only [ctxOf, h1, h2]
      cases hl : isLoop s <;> simp [hl]
end

theorem chkList_spec (ss : Stmts) (f : Flags)
    (h1 : f.nakedThen = false) (h2 : f.nakedElse = false) (h3 : f.inBlock = false) :
    (chkList f ss).codes = specList ss := by
  cases ss with
  | nil => simp [chkList, specList]
  | cons s ss =>
    have ih := chkStmt_spec s f (by simp [h1])
    have g1 : (chkStmt f s).flags.nakedThen = false := by
      have := ih.2.2.2.1; simp only [h1] at this
      cases hh : (chkStmt f s).flags.nakedThen <;> simp_all
    have g2 : (chkStmt f s).flags.nakedElse = false := by
      have := ih.2.2.1; simp only [h2] at this
      cases hh : (chkStmt f s).flags.nakedElse <;> simp_all
    have g3 := ih.2.2.2.2 h3
    have ih' := chkList_spec ss (chkStmt f s).flags g1 g2 g3
    simp only [chkList, specList, ih', ih.1]
    simp [ctxOf, h1, h2, h3]

/-- **C06, placement.**  For every function body the E800/E801/E840 codes raised by the model of
    `analyzer/syntax.rs` are exactly those of the context-based specification. -/
theorem placement_iff (body : Stmts) : chkBody body = specBody body := by
  simp [chkBody, specBody, chkList_spec body {} rfl rfl rfl]

/-! ### L1800 -/

mutual
theorem lintStmt_spec (s : Stmt) (f : LFlags) :
    (lintStmt f s).2 = (if f.first && isLoop s then [1800] else []) ++
        (if f.naked then branchLint s else []) ++ specLintStmt s ∧
    (f.naked = false → (lintStmt f s).1.naked = false) ∧
    (f.first = false → (lintStmt f s).1.first = false) := by
  cases s with
  | label n => simp [lintStmt, isLoop, branchLint, specLintStmt]
  | goto n => simp [lintStmt, isLoop, branchLint, specLintStmt]
  | decl v us => simp [lintStmt, isLoop, branchLint, specLintStmt]
  | use vs => simp [lintStmt, isLoop, branchLint, specLintStmt]
  | loop => cases h : f.first <;> simp [lintStmt, isLoop, branchLint, specLintStmt, h]
  | ifThen c t =>
    have ih := lintStmt_spec t { f with first := false, naked := true }
    simp [lintStmt, isLoop, branchLint, specLintStmt, ih.1, ih.2.2]
  | ifElse c t e =>
    have ih1 := lintStmt_spec t { f with first := false, naked := true }
    have ih2 := lintStmt_spec e { naked := true, first := false }
    have hf : (lintStmt { f with first := false, naked := true } t).1.first = false := ih1.2.2 rfl
    simp only [lintStmt, hf]
    simp [isLoop, branchLint, specLintStmt, ih1.1, ih2.1, ih2.2.2]
  | block ss =>
    have ih := lintBlock_spec ss f
    simp only [lintStmt]
    refine ⟨?_, ih.2.1, ih.2.2⟩
    rw [ih.1]; simp [isLoop, specLintStmt]
theorem lintBlock_spec (ss : Stmts) (f : LFlags) :
    (lintBlock f ss).2 = (if f.naked then branchLint (.block ss) else []) ++ specLintList ss ∧
    (f.naked = false → (lintBlock f ss).1.naked = false) ∧
    (f.first = false → (lintBlock f ss).1.first = false) := by
  cases ss with
  | nil => simp [lintBlock, branchLint, specLintList]
  | cons s ss =>
    have ih := lintStmt_spec s { naked := false, first := f.naked }
    have hn : (lintStmt { naked := false, first := f.naked } s).1.naked = false := ih.2.1 rfl
    have ih' := lintList_spec ss { (lintStmt { naked := false, first := f.naked } s).1 with first := false } hn rfl
    simp only [lintBlock]
    refine ⟨?_, fun _ => ih'.2.1, fun _ => ih'.2.2⟩
    rw [ih.1, ih'.1]
    cases s <;> cases hf : f.naked <;> simp [isLoop, branchLint, specLintList]
theorem lintList_spec (ss : Stmts) (f : LFlags) (h1 : f.naked = false) (h2 : f.first = false) :
    (lintList f ss).2 = specLintList ss ∧ (lintList f ss).1.naked = false ∧ (lintList f ss).1.first = false := by
  cases ss with
  | nil => simp [lintList, specLintList, h1, h2]
  | cons s ss =>
    have ih := lintStmt_spec s f
    have ih' := lintList_spec ss (lintStmt f s).1 (ih.2.1 h1) (ih.2.2 h2)
    simp only [lintList]
    refine ⟨?_, ih'.2.1, ih'.2.2⟩
    rw [ih.1, ih'.1]; simp [h1, h2, specLintList]
end

/-- **C06, lint.**  L1800 is raised exactly once per braced branch whose first statement is `loop`,
    and by nothing else. -/
theorem lint_iff (body : Stmts) : lintBody body = specLintBody body := by
  simp [lintBody, specLintBody, (lintList_spec body {} rfl rfl).1]

/-! ### Readable corollaries and non-vacuity -/

/-- non-vacuity: a body that exercises every context, with its expected codes computed by `decide` -/
example : chkBody (.cons (.block (.cons .loop (.cons (.use []) (.cons .loop .nil))))
            (.cons .loop (.cons (.ifElse [] (.use []) (.ifThen [] (.ifThen [] (.goto 0)))) .nil)))
          = [800, 801, 840, 840] := by decide

example : lintBody (.cons (.ifElse [] (.block (.cons .loop .nil)) (.block (.cons (.block (.cons .loop .nil)) .nil))) .nil)
          = [1800] := by decide

end Place
