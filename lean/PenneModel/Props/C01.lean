import PenneModel.Sem.Int
import PenneModel.Types.Paths
import PenneModel.CF.Correct
import PenneModel.CF.Scoped
/-
  C01 — compiled programs behave as their source prescribes.  Property theorems (operator level).

  The source interpreter (`Sem/Interp.lean`, validated against `lli` on thousands of generated programs per run)
  gives operators their *documented* meaning on mathematical integers wrapped into the type's range.  The theorems
  here show that the LLVM instruction the generator selects for each operator (`Sem.machineBin`, `machineCmp`,
  `trunc`/`sext`/`zext`) computes exactly that meaning — for every bit width at once, signedness following the
  operand type.

  Control flow (`CF/Defs.lean`, `CF/Correct.lean`): the structured control constructs (blocks, `if`/`else`, forward `goto`,
  labels, blocks ending in `loop`) over opaque actions and oracle-driven conditions; `CF.execL` is the control part of the
  source interpreter, `CF.compBody` the lowering to a flow graph of named code blocks, `CF.run` its execution.
  `control_flow_lowering_correct`: whenever the source semantics runs a body to its end, the lowered graph produces exactly
  the same trace — any nesting, any number of jumps and loop iterations.  checks/c01.py ties both ends to the compiler on
  every run: the trace the real program prints equals `execL`'s, and the basic blocks of the real IR are bisimilar to the
  lowered graph.  Not proved: expression evaluation order and address computation (end-to-end correspondence only).
-/
namespace CF

/-- **control-flow lowering preserves behaviour** (statement in CF/Correct.lean) -/
theorem control_flow_lowering_correct (ss : Stmts) (hnd : ((compBody ss).2.map (·.1)).Nodup) (f : Nat) (o : List Bool)
    (tr : List Ev) (o' : List Bool) (h : execL f ss ss false o = some (tr, o', .next)) :
    ∃ f', run (compBody ss).2 f' (compBody ss).1 o = some (tr, o') :=
  lowering_correct ss hnd f o tr o' h

/-- **accepted bodies never get stuck on a jump** (C04 meets C01; statement in CF/Scoped.lean): together with the theorem
    above — a body the label scoper accepts either runs for ever or both semantics produce the same trace -/
theorem scoper_accepted_never_stuck (ss : Stmts) (hb : branchesOKL ss = true) (hacc : NoE400 (Labels.goBody (toSkelL ss false)))
    (f : Nat) (o : List Bool) (tr : List Ev) (o' : List Bool) (fl : Flow) (h : execL f ss ss false o = some (tr, o', fl)) :
    fl = .next :=
  accepted_never_stuck ss hb hacc f o tr o' fl h

/-- the hypotheses are satisfiable by a body with a conditional, a looped block left by a forward `goto`, and a label -/
example :
    let body : Stmts := .cons (.act 1) (.cons (.ifThen 5 (.block 1 (.cons (.act 2) .nil) false))
      (.cons (.block 2 (.cons (.ifThen 6 (.goto 9)) (.cons (.act 3) .nil)) true) (.cons (.label 9) (.cons (.act 4) .nil))))
    ((compBody body).2.map (·.1)).Nodup ∧
      execL 50 body body false [true, false, true] =
        some ([.act 1, .cond 5 true, .act 2, .cond 6 false, .act 3, .cond 6 true, .act 4], [], .next) := by
  decide

end CF

namespace Sem
open Lex Lit

/-- reading an integer into the value range of a `w`-bit type -/
def wrapW (signed : Bool) (w : Nat) (v : Int) : Int := if signed then v.bmod (2 ^ w) else v % (2 ^ w)

/-- the interpreter's `wrap` is `wrapW` at the type's width and signedness -/
theorem wrap_eq_wrapW (t : Ty) (ht : 0 < width t) (v : Int) : wrap t v = wrapW (isSigned t) (width t) v := by
  cases t <;> simp [width] at ht <;> simp [wrap, wrapW, isSigned, width, Int.bmod] <;> omega

/-- a value written into `w` bits and read back with the type's signedness is the wrapped value -/
theorem read_back (signed : Bool) (w : Nat) (v : Int) : ofBV signed (toBV w v) = wrapW signed w v := by
  cases signed
  · simp only [ofBV, toBV, wrapW, Bool.false_eq_true, if_false, BitVec.toNat_ofInt]
    have : (0 : Int) < 2 ^ w := Int.pow_pos (by decide)
    have h2 : ((2 ^ w : Nat) : Int) = (2 : Int) ^ w := by simp
    rw [h2]
    have := Int.emod_nonneg v (Int.ne_of_gt this)
    omega
  · simp [ofBV, toBV, wrapW]

/-! ### add, sub, mul: wrapping, the same instruction for signed and unsigned -/

theorem add_machine (s : Bool) (w : Nat) (a b : Int) :
    machineBin s .add (toBV w a) (toBV w b) = toBV w (a + b) := by
  simp [machineBin, toBV, BitVec.ofInt_add]

theorem mul_machine (s : Bool) (w : Nat) (a b : Int) :
    machineBin s .mul (toBV w a) (toBV w b) = toBV w (a * b) := by
  simp [machineBin, toBV, BitVec.ofInt_mul]

theorem sub_machine (s : Bool) (w : Nat) (a b : Int) :
    machineBin s .sub (toBV w a) (toBV w b) = toBV w (a - b) := by
  simp only [machineBin, toBV]
  rw [Int.sub_eq_add_neg, BitVec.ofInt_add, BitVec.ofInt_neg, BitVec.sub_eq_add_neg]

/-- **add/sub/mul are sound for every width and signedness**: the emitted instruction computes the
    mathematical result wrapped into the type -/
theorem arith_sound (s : Bool) (w : Nat) (a b : Int) :
    ofBV s (machineBin s .add (toBV w a) (toBV w b)) = wrapW s w (a + b) ∧
    ofBV s (machineBin s .sub (toBV w a) (toBV w b)) = wrapW s w (a - b) ∧
    ofBV s (machineBin s .mul (toBV w a) (toBV w b)) = wrapW s w (a * b) := by
  rw [add_machine, sub_machine, mul_machine]
  exact ⟨read_back _ _ _, read_back _ _ _, read_back _ _ _⟩

/-! ### division and remainder: signedness follows the operand type -/

/-- signed types get `sdiv`/`srem`: truncating division on the signed values -/
theorem sdiv_sound (w : Nat) (x y : BitVec w) :
    ofBV true (machineBin true .div x y) = wrapW true w (tdiv (ofBV true x) (ofBV true y)) ∧
    ofBV true (machineBin true .mod x y) = tmod (ofBV true x) (ofBV true y) := by
  simp [ofBV, machineBin, wrapW, tdiv, tmod, BitVec.toInt_sdiv, BitVec.toInt_srem]

/-- unsigned types get `udiv`/`urem`: division on the unsigned values -/
theorem udiv_sound (w : Nat) (x y : BitVec w) :
    ofBV false (machineBin false .div x y) = ofBV false x / ofBV false y ∧
    ofBV false (machineBin false .mod x y) = ofBV false x % ofBV false y := by
  simp [ofBV, machineBin, BitVec.toNat_udiv, BitVec.toNat_umod]

/-! ### bitwise and shifts (unsigned types only: resolver.rs `VALID_TYPES_FOR_BITWISE/BITSHIFT`) -/

theorem bitwise_sound (w : Nat) (x y : BitVec w) :
    (machineBin false .and x y).toNat = x.toNat &&& y.toNat ∧
    (machineBin false .or x y).toNat = x.toNat ||| y.toNat ∧
    (machineBin false .xor x y).toNat = x.toNat ^^^ y.toNat := by
  simp [machineBin]

theorem shift_sound (w : Nat) (x y : BitVec w) :
    (machineBin false .shl x y).toNat = (x.toNat * 2 ^ y.toNat) % 2 ^ w ∧
    (machineBin false .shr x y).toNat = x.toNat / 2 ^ y.toNat := by
  simp [machineBin, Nat.shiftLeft_eq, Nat.shiftRight_eq_div_pow]

/-! ### comparisons: signed predicates for signed types, unsigned predicates otherwise -/

theorem beq_toNat (w : Nat) (x y : BitVec w) : (x == y) = (((x.toNat : Nat) : Int) == ((y.toNat : Nat) : Int)) := by
  rw [Bool.eq_iff_iff]; simp only [beq_iff_eq]
  constructor
  · intro h; rw [h]
  · intro h; exact BitVec.eq_of_toNat_eq (by omega)

theorem beq_toInt (w : Nat) (x y : BitVec w) : (x == y) = (x.toInt == y.toInt) := by
  rw [Bool.eq_iff_iff]; simp [BitVec.toInt_inj]

/-- **comparisons are sound for every width**: `icmp s*` on signed operand types, `icmp u*` otherwise, compute the
    comparison of the values -/
theorem cmp_sound (s : Bool) (w : Nat) (op : CmpOp) (x y : BitVec w) :
    machineCmp s op x y = cmp op (ofBV s x) (ofBV s y) := by
  cases s <;> cases op <;>
    simp only [machineCmp, cmp, ofBV, BitVec.slt_eq_decide, BitVec.sle_eq_decide, BitVec.ult_eq_decide,
      BitVec.ule_eq_decide, bne, ← beq_toNat, ← beq_toInt, Bool.false_eq_true, if_false, if_true] <;>
    simp

/-! ### unary operators -/

theorem neg_sound (w : Nat) (x : BitVec w) : ofBV true (-x) = wrapW true w (-(ofBV true x)) := by
  simp [ofBV, wrapW, BitVec.toInt_neg]

theorem complement_sound (w : Nat) (x : BitVec w) : ((~~~x).toNat : Int) = (2 ^ w : Int) - 1 - x.toNat := by
  have := x.isLt
  rw [BitVec.toNat_not]
  have e : ((2 ^ w - 1 - x.toNat : Nat) : Int) = ((2 ^ w : Nat) : Int) - 1 - (x.toNat : Int) := by omega
  rw [e]; simp

/-! ### casts: `trunc` when narrowing, `sext` from signed, `zext` from unsigned -/

theorem trunc_sound (w w' : Nat) (x : BitVec w) : (x.setWidth w').toNat = x.toNat % 2 ^ w' := by
  simp [BitVec.toNat_setWidth]

theorem sext_sound (w w' : Nat) (h : w ≤ w') (x : BitVec w) : (x.signExtend w').toInt = x.toInt :=
  BitVec.toInt_signExtend_of_le h

theorem zext_sound (w w' : Nat) (h : w ≤ w') (x : BitVec w) : (x.setWidth w').toNat = x.toNat :=
  BitVec.toNat_setWidth_of_le h

/-! ### non-vacuity -/
example : ofBV true (machineBin true .div (toBV 8 (-7)) (toBV 8 2)) = -3 := by decide
example : ofBV false (machineBin false .div (toBV 8 (-7)) (toBV 8 2)) = 124 := by decide
example : machineCmp true .lt (toBV 8 (-1)) (toBV 8 1) = true ∧ machineCmp false .lt (toBV 8 (-1)) (toBV 8 1) = false := by
  decide

end Sem
