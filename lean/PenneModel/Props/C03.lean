import PenneModel.Gen.Linkage
/-
  C03 — every successful compilation yields valid LLVM IR.  Property theorems (symbol visibility only; the validity
  of the instruction stream is decided by LLVM's own assembler and verifier in the correspondence run).
-/
namespace Gen

/-- `main` and `pub` functions are externally visible; a function is private exactly when it is neither public,
    nor `main`, nor forward declared -/
theorem linkage_spec (f : Flags) :
    (linkage f = .external ↔ (f.pub = true ∨ f.main = true ∨ f.forward = true)) ∧
    (f.pub = true → linkage f = .external) ∧ (f.main = true → linkage f = .external) := by
  rcases f with ⟨p, m, fw, e⟩
  cases p <;> cases m <;> cases fw <;> simp [linkage]

/-- the C calling convention is used exactly for `extern` functions -/
theorem callconv_spec (f : Flags) : callconv f = .c ↔ f.ext = true := by
  rcases f with ⟨p, m, fw, e⟩
  cases e <;> simp [callconv]

end Gen
