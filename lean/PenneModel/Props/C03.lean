import PenneModel.Gen.Linkage
/-
  C03 — every successful compilation yields valid LLVM IR.  Property theorems (symbol visibility only; the validity
  of the instruction stream is decided by LLVM's own assembler and verifier in the correspondence run).
-/
namespace Gen

/-- `main` and `pub` functions are externally visible; a function is private exactly when it is neither public,
    nor `main`, nor forward declared -/
theorem linkage_spec (f : Flags) :
    (linkage f = .external ↔ (f.pub = true ∨ f.main = true ∨ f.forward = true)) ∧
    (f.pub = true → linkage f = .external) ∧ (f.main = true → linkage f = .external) := by
  rcases f with ⟨p, m, fw, e⟩
  cases p <;> cases m <;> cases fw <;> simp [linkage]

/-- the C calling convention is used exactly for `extern` functions and the entry point — the functions that code outside
    the program calls; in particular whatever uses the C convention is externally visible or a declared foreign function -/
theorem callconv_spec (f : Flags) : callconv f = .c ↔ (f.ext = true ∨ f.main = true) := by
  rcases f with ⟨p, m, fw, e⟩
  cases e <;> cases m <;> simp [callconv]

/-- a private function always uses the fast convention unless it is `extern` -/
theorem private_fast (f : Flags) (h : linkage f = .privateL) (he : f.ext = false) : callconv f = .fast := by
  rcases f with ⟨p, m, fw, e⟩
  cases p <;> cases m <;> cases fw <;> simp_all [linkage, callconv]

end Gen
