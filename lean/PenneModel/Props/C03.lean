import PenneModel.Gen.Linkage
import PenneModel.Gen.AddressSound
import PenneModel.Gen.AddressTrail
import PenneModel.Gen.StructTypes
/-
  C03 — every successful compilation yields valid LLVM IR.  Property theorems: symbol visibility and calling
  conventions, and the well-typedness of every address computation (`generate_storage_address`: the getelementptr / load /
  extractvalue instructions of an access path).  The validity of the rest of the instruction stream is decided by LLVM's own
  assembler and verifier in the correspondence run.
-/
namespace Gen

/-- `main` and `pub` functions are externally visible; a function is private exactly when it is neither public,
    nor `main`, nor forward declared -/
theorem linkage_spec (f : Flags) :
    (linkage f = .external ↔ (f.pub = true ∨ f.main = true ∨ f.forward = true)) ∧
    (f.pub = true → linkage f = .external) ∧ (f.main = true → linkage f = .external) := by
  rcases f with ⟨p, m, fw, e⟩
  cases p <;> cases m <;> cases fw <;> simp [linkage]

/-- the C calling convention is used exactly for `extern` functions and the entry point — the functions that code outside
    the program calls; in particular whatever uses the C convention is externally visible or a declared foreign function -/
theorem callconv_spec (f : Flags) : callconv f = .c ↔ (f.ext = true ∨ f.main = true) := by
  rcases f with ⟨p, m, fw, e⟩
  cases e <;> cases m <;> simp [callconv]

/-- a private function always uses the fast convention unless it is `extern` -/
theorem private_fast (f : Flags) (h : linkage f = .privateL) (he : f.ext = false) : callconv f = .fast := by
  rcases f with ⟨p, m, fw, e⟩
  cases p <;> cases m <;> cases fw <;> simp_all [linkage, callconv]

end Gen

namespace Gen.Addr
open Types Types.Ty

theorem typed_of_run {fs : Fields} {ty : LTy} {idx : List Idx} {imm : Bool} {steps : List GStep} {a : LTy}
    (h : run fs ty idx imm steps = some a) : ∃ ops, runT fs ty idx imm steps = some (ops, a) := by
  rw [← runT_snd] at h
  cases hr : runT fs ty idx imm steps with
  | none => rw [hr] at h; simp at h
  | some x =>
    obtain ⟨ops, b⟩ := x
    rw [hr] at h
    simp only [Option.map_some, Option.some.injEq] at h
    exact ⟨ops, by rw [h]⟩

/-- **every access to a variable or global is addressed by well-typed instructions**: for a variable of any well-formed
    type and any path of `[index]` and `.member` steps the typer elaborates on it — through arrays, structures, words,
    pointers (to arrays, endless arrays, structures, pointers…), nested to any depth — the instructions that
    `generate_storage_address` builds are all accepted by LLVM's typing of getelementptr / load / extractvalue, and the
    address they end in is a pointer to the lowering of the accessed type -/
theorem variable_access_well_typed (ms : Members) (hms : ∀ i m mt, ms i m = some mt → WF false mt = true)
    (t : Ty) (ht : VarTy t = true) (p : List UStep) (steps : List GStep) (leaf : Ty)
    (h : elaborateG ms t p = some (steps, leaf)) :
    ∃ ops, runT (lowerFields ms) (.ptr (lower t)) [some 0] false steps = some (ops, .ptr (lower leaf)) :=
  typed_of_run (local_address_typed ms hms t ht p steps leaf h)

/-- **and so is every access through a parameter** that is passed as an address or as a slice (a pointer, a view, `[]T`,
    `&[]T`): the base is the LLVM parameter itself, and the loop treats it as "not really a pointer" (F49, F70) -/
theorem parameter_access_well_typed (ms : Members) (hms : ∀ i m mt, ms i m = some mt → WF false mt = true)
    (t : Ty) (ht : ParamTy t = true) (u : UStep) (rest : List UStep) (steps : List GStep) (leaf : Ty)
    (h : elaborateG ms t (u :: rest) = some (steps, leaf)) :
    ∃ ops, runT (lowerFields ms) (lower t) [] true steps = some (ops, .ptr (lower leaf)) :=
  typed_of_run (param_address_typed ms hms t ht u rest steps leaf h)

/-- **an access through a pointer leaf** (`x.p = 5` with `p: &i32`, `var r: i32 = q[1]` with `q: [2]&&i32`): the typer
    appends one Autoderef per pointer level between the leaf of the path and the accessed value; the instructions stay
    well typed and end at a pointer to that value — on a variable … -/
theorem variable_access_through_pointer_well_typed (ms : Members) (hms : ∀ i m mt, ms i m = some mt → WF false mt = true)
    (t : Ty) (ht : WF false t = true) (p : List UStep) (steps : List GStep) (leaf leaf' : Ty) (j : Nat)
    (h : elaborateG ms t p = some (steps, leaf)) (hu : unptrN j leaf = some leaf') :
    ∃ ops, runT (lowerFields ms) (.ptr (lower t)) [some 0] false (steps ++ List.replicate j (.auto false))
      = some (ops, .ptr (lower leaf')) :=
  typed_of_run (local_assign_typed ms hms t ht p steps leaf leaf' j h hu)

/-- … and on a pointer parameter (`p = 5` with `p: &i32` is the case of the empty path and one dereference) -/
theorem parameter_access_through_pointer_well_typed (ms : Members) (hms : ∀ i m mt, ms i m = some mt → WF false mt = true)
    (d : Ty) (hd : WF true d = true) (p : List UStep) (steps : List GStep) (leaf leaf' : Ty) (j : Nat)
    (h : elaborateG ms (.pointer d) p = some (steps, leaf)) (hu : unptrN j leaf = some leaf') (hne : p ≠ [] ∨ 0 < j) :
    ∃ ops, runT (lowerFields ms) (.ptr (lower d)) [] true (steps ++ List.replicate j (.auto false))
      = some (ops, .ptr (lower leaf')) :=
  typed_of_run (param_assign_typed ms hms d hd p steps leaf leaf' j h hu hne)

/-- the steps are the ones of the typer's elaboration, about which C01 proves that the typer accepts them -/
theorem steps_are_the_typers (ms : Members) (p : List UStep) (t : Ty) :
    (elaborateG ms t p).map (fun r => (r.1.map erase, r.2)) = elaborate ms t p :=
  elaborateG_erase ms p t

end Gen.Addr

namespace Gen.StructTypes

/-- **the modules of a compilation do not touch each other's structure types**: with a table of types per module the
    type objects in the shared LLVM context are exactly the modules' declarations, each with the body it was declared
    with — whatever names the modules share and in whatever order they are compiled (F32, F33, F90 were the former
    lookup by name) -/
theorem every_module_keeps_its_structures (ms : List (List Decl)) :
    compileNew [] ms = (ms.flatten).map (fun d => ({ name := d.name, body := d.body } : TyObj)) :=
  types_are_the_declarations ms

end Gen.StructTypes
