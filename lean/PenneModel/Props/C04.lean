import PenneModel.Scope.Labels
/-
  C04 — goto only ever jumps forward and outward.  Property theorems only.
-/
namespace Labels

theorem pushLast_eq_addLast (stk : Stack) (n : Name) : pushLast stk n = addLast stk [n] := by
  induction stk with
  | nil => rfl
  | cons sc rest ih =>
    cases rest with
    | nil => rfl
    | cons sc' rest' => simp only [pushLast, addLast, ih]

theorem addLast_nil (stk : Stack) (h : stk ≠ []) : addLast stk [] = stk := by
  induction stk with
  | nil => exact absurd rfl h
  | cons sc rest ih =>
    cases rest with
    | nil => simp [addLast]
    | cons sc' rest' => simp only [addLast]; rw [ih (by simp)]

theorem addLast_addLast (stk : Stack) (h : stk ≠ []) (a b : List Name) :
    addLast (addLast stk a) b = addLast stk (a ++ b) := by
  induction stk with
  | nil => exact absurd rfl h
  | cons sc rest ih =>
    cases rest with
    | nil => simp [addLast]
    | cons sc' rest' =>
      simp only [addLast]
      have := ih (by simp)
      cases h' : addLast (sc' :: rest') a with
      | nil => cases rest' <;> simp [addLast] at h'
      | cons x xs => rw [h'] at this; simp only [addLast]; rw [this]

theorem addLast_ne_nil (stk : Stack) (a : List Name) : addLast stk a ≠ [] := by
  cases stk with
  | nil => simp [addLast]
  | cons sc rest => cases rest <;> simp [addLast]

theorem dropLast_addLast_snoc (stk : Stack) (a : List Name) :
    popScope (addLast (stk ++ [[]]) a) = stk := by
  induction stk with
  | nil => simp [addLast, popScope]
  | cons sc rest ih =>
    cases rest with
    | nil => simp [addLast, popScope]
    | cons sc' rest' =>
      simp only [List.cons_append, addLast, popScope] at ih ⊢
      cases h' : addLast (sc' :: (rest' ++ [[]])) a with
      | nil => exact absurd h' (addLast_ne_nil _ _)
      | cons x xs => rw [h'] at ih; simp [List.dropLast, ih]

mutual
theorem goStmt_spec (s : Stmt) (stk : Stack) (h : stk ≠ []) :
    goStmt stk s = (addLast stk (declared s), specStmt stk s) := by
  cases s with
  | label n => simp [goStmt, declareLabel, declared, specStmt, pushLast_eq_addLast]
  | goto n => simp [goStmt, useLabel, declared, specStmt, addLast_nil stk h]
  | loop => simp [goStmt, declared, specStmt, addLast_nil stk h]
  | decl v us => simp [goStmt, declared, specStmt, addLast_nil stk h]
  | use vs => simp [goStmt, declared, specStmt, addLast_nil stk h]
  | ifThen c t => simp [goStmt, declared, specStmt, goStmt_spec t stk h]
  | ifElse c t e =>
    simp only [goStmt, declared, specStmt]
    rw [goStmt_spec t stk h, goStmt_spec e _ (addLast_ne_nil _ _), addLast_addLast stk h]
  | block ss =>
    simp only [goStmt, declared, specStmt]
    rw [goBlock_spec ss (stk ++ [[]]) (by simp), dropLast_addLast_snoc, addLast_nil stk h]
theorem goBlock_spec (ss : Stmts) (stk : Stack) (h : stk ≠ []) :
    goBlock stk ss = (addLast stk (declaredS ss), specBlock stk ss) := by
  cases ss with
  | nil => simp [goBlock, declaredS, specBlock, addLast_nil stk h]
  | cons s ss =>
    simp only [goBlock, declaredS, specBlock]
    rw [goBlock_spec ss stk h, goStmt_spec s _ (addLast_ne_nil _ _), addLast_addLast stk h]
end

/-- **C04, main theorem.**  For every function body — any length, any nesting — the codes the
    scoper model raises (in source order) are exactly those of the positional specification. -/
theorem labels_scope_iff (body : Stmts) : goBody body = specBody body := by
  simp [goBody, specBody, goBlock_spec body [[]] (by simp)]

end Labels
