import PenneModel.Diag.Generated
import PenneModel.Diag.Sort
/-
  C13 — diagnostics are well-located, documented and deterministic.  Property theorems.
-/
namespace Diag

/-- **every code the compiler can emit is in the published catalogue** — checked against the tables regenerated from
    the current `error.rs` and `docs/errors.md` on every run (the eight codes of finding F8 have been documented) -/
theorem codes_documented : ∀ c ∈ emittedCodes, c ∈ catalogue := by decide

/-- the exceptions are real: none of them is documented (if one gets documented this theorem breaks and the
    finding must be retired) -/
theorem known_undocumented_are_undocumented : ∀ c ∈ knownUndocumented, c ∈ emittedCodes ∧ c ∉ catalogue := by decide

theorem keyLe_trans (a b c : Diagnostic) (h1 : keyLe a b = true) (h2 : keyLe b c = true) : keyLe a c = true := by
  simp only [keyLe, Bool.or_eq_true, Bool.and_eq_true, decide_eq_true_eq, beq_iff_eq] at *
  omega

theorem keyLe_total (a b : Diagnostic) : (keyLe a b || keyLe b a) = true := by
  simp only [keyLe, Bool.or_eq_true, Bool.and_eq_true, decide_eq_true_eq, beq_iff_eq]
  omega

/-- the sorted list is a permutation of the input, in key order -/
theorem sorted_perm (ds : List Diagnostic) : (sorted ds).Perm ds := List.mergeSort_perm ds keyLe

theorem sorted_ordered (ds : List Diagnostic) : (sorted ds).Pairwise (fun a b => keyLe a b = true) :=
  List.pairwise_mergeSort keyLe_trans keyLe_total ds

/-- **the reported order does not depend on the order in which stages produced the diagnostics**: if no two
    diagnostics share a location key, any two arrival orders give the same sorted list -/
theorem sorted_perm_invariant (ds es : List Diagnostic) (hp : ds.Perm es)
    (hdistinct : ∀ a ∈ ds, ∀ b ∈ ds, keyLe a b = true → keyLe b a = true → a = b) : sorted ds = sorted es := by
  apply List.Perm.eq_of_pairwise (le := fun a b => keyLe a b = true)
  · intro a b ha hb hab hba
    have ha' : a ∈ ds := (sorted_perm ds).mem_iff.mp ha
    have hb' : b ∈ ds := hp.mem_iff.mpr ((sorted_perm es).mem_iff.mp hb)
    exact hdistinct a ha' b hb' hab hba
  · exact sorted_ordered ds
  · exact sorted_ordered es
  · exact (sorted_perm ds).trans (hp.trans (sorted_perm es).symm)

/-- and with equal keys the earlier diagnostic stays first (stability): the sorted list preserves the relative order of
    any sub-list that is already in key order -/
theorem sorted_stable (ds sub : List Diagnostic) (hsub : sub.Sublist ds) (hord : sub.Pairwise (fun a b => keyLe a b = true)) :
    sub.Sublist (sorted ds) :=
  List.sublist_mergeSort keyLe_trans keyLe_total hord hsub

end Diag
