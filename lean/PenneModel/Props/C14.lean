import PenneModel.Lex.Lemmas
import PenneModel.Lex.Lexemes
import PenneModel.Lex.Quote
import PenneModel.Lex.Total
/-
  C14 — both lexers implement the same lexical grammar, with exact spans.  Property theorems about the
  reference lexer model (`Lex/Model.lean`), which the correspondence run compares with both real lexers.

  Shape of the statements: a legal spelling of a token, followed by anything that cannot extend it
  (`Stops`), is cut off as exactly that token with exactly its characters as span, whatever line/column/offset
  it stands at — for every value, every placement of `_` separators, every suffix.
-/
namespace Lex

/-! ### Punctuation, keywords, type names: the complete table -/

def fixedSpellings : List (List Char × Tok) :=
  (("(){}[]<>|&^!+*%:;.,=-/".toList.map fun c => ([c], Tok.sym [c])) ++
   [("<<".toList, .sym "<<".toList), ("<=".toList, .sym "<=".toList), (">>".toList, .sym ">>".toList),
    (">=".toList, .sym ">=".toList), ("|:".toList, .sym "|:".toList), ("!=".toList, .sym "!=".toList),
    ("..".toList, .sym "..".toList), ("==".toList, .sym "==".toList), ("->".toList, .sym "->".toList)] ++ keywords)

/-- every fixed spelling lexes to exactly its token, spanning exactly its characters -/
theorem fixed_spellings_lex :
    fixedSpellings.all (fun p => lex p.1 == [{ tok := p.2, start := 0, stop := p.1.length, line := 1, col := 0 }]) = true := by
  decide +kernel

/-! ### Integer literals: every value, every separator placement, every suffix -/

private theorem nonzero_digit_facts (c : Char) (hc : c ∈ ['1','2','3','4','5','6','7','8','9']) :
    (c == ' ' || c == '\t') = false ∧ (c == '/') = false ∧ isSym1 c = false ∧ isIdentStart c = false
      ∧ (c == '0') = false ∧ isDigit c = true := by
  simp only [List.mem_cons, List.mem_nil_iff, or_false] at hc
  rcases hc with rfl | rfl | rfl | rfl | rfl | rfl | rfl | rfl | rfl <;> decide

/-- decimal literal without suffix -/
theorem lexStep_decimal (ln col off : Nat) (c : Char) (ds cs tail : List Char)
    (hc : c ∈ ['1','2','3','4','5','6','7','8','9']) (h : WithSep ds cs)
    (hds : ∀ d ∈ ds, isDigit d = true) (ht : Stops tail) (hv : valueOf 10 (c :: ds) < max128) :
    lexStep ln col off (c :: (cs ++ tail)) =
      some ([{ tok := .dec (valueOf 10 (c :: ds)), start := off, stop := off + (1 + cs.length), line := ln, col := col }], tail) := by
  have e := lexNumberNonzero_dec c ds cs tail h hds ht hv
  obtain ⟨h1, h2, h3, h4, h5, h6⟩ := nonzero_digit_facts c hc
  unfold lexStep
  simp only [h1, h2, h3, h4, h5, h6, e]
  simp

/-- decimal literal with a type suffix -/
theorem lexStep_decimal_suffix (ln col off : Nat) (c : Char) (ds cs sfx tail : List Char) (t : Ty)
    (hc : c ∈ ['1','2','3','4','5','6','7','8','9']) (h : WithSep ds cs)
    (hds : ∀ d ∈ ds, isDigit d = true) (hs : (sfx, t) ∈ suffixes) (ht : Stops tail)
    (hv : valueOf 10 (c :: ds) < max128) :
    lexStep ln col off (c :: (cs ++ (sfx ++ tail))) =
      some ([{ tok := .suf (valueOf 10 (c :: ds)) t, start := off, stop := off + (1 + (cs.length + sfx.length)),
               line := ln, col := col }], tail) := by
  have e := lexNumberNonzero_suf c ds cs sfx tail t h hds hs ht hv
  obtain ⟨h1, h2, h3, h4, h5, h6⟩ := nonzero_digit_facts c hc
  unfold lexStep
  simp only [h1, h2, h3, h4, h5, h6, e]
  simp [drop_len2_append]

/-- a decimal literal of 129 bits or more is E140, never a silently different value -/
theorem lexStep_decimal_overflow (ln col off : Nat) (c : Char) (ds cs tail : List Char)
    (hc : c ∈ ['1','2','3','4','5','6','7','8','9']) (h : WithSep ds cs)
    (hds : ∀ d ∈ ds, isDigit d = true) (ht : Stops tail) (hv : max128 ≤ valueOf 10 (c :: ds)) :
    ∃ n rest, lexStep ln col off (c :: (cs ++ tail)) =
      some ([{ tok := .err 140, start := off, stop := off + n, line := ln, col := col }], rest) := by
  have e := lexNumberNonzero_overflow c ds cs tail h hds ht hv
  obtain ⟨h1, h2, h3, h4, h5, h6⟩ := nonzero_digit_facts c hc
  unfold lexStep
  simp only [h1, h2, h3, h4, h5, h6]
  simp only [Bool.false_eq_true, if_false, if_true, e]
  exact ⟨_, _, rfl⟩

private theorem zero_facts :
    ('0' == ' ' || '0' == '\t') = false ∧ ('0' == '/') = false ∧ isSym1 '0' = false ∧ isIdentStart '0' = false
      ∧ ('0' == '0') = true := by
  decide

/-- `0x…` literal -/
theorem lexStep_hex (ln col off : Nat) (ds cs tail : List Char) (h : WithSep ds cs) (hne : ds ≠ [])
    (hds : ∀ d ∈ ds, isHex d = true) (ht : Stops tail) (hv : valueOf 16 ds < max128) :
    lexStep ln col off ('0' :: 'x' :: (cs ++ tail)) =
      some ([{ tok := .bit (valueOf 16 ds), start := off, stop := off + (1 + (1 + cs.length)), line := ln, col := col }], tail) := by
  have e := lexNumberZero_hex ds cs tail h hne hds ht hv
  obtain ⟨h1, h2, h3, h4, h5⟩ := zero_facts
  unfold lexStep
  simp only [h1, h2, h3, h4, h5, e]
  simp [drop_one_add, drop_len_append]

/-- `0b…` literal -/
theorem lexStep_bin (ln col off : Nat) (ds cs tail : List Char) (h : WithSep ds cs) (hne : ds ≠ [])
    (hds : ∀ d ∈ ds, isBin d = true) (ht : Stops tail) (hv : valueOf 2 ds < max128) :
    lexStep ln col off ('0' :: 'b' :: (cs ++ tail)) =
      some ([{ tok := .bit (valueOf 2 ds), start := off, stop := off + (1 + (1 + cs.length)), line := ln, col := col }], tail) := by
  have e := lexNumberZero_bin ds cs tail h hne hds ht hv
  obtain ⟨h1, h2, h3, h4, h5⟩ := zero_facts
  unfold lexStep
  simp only [h1, h2, h3, h4, h5, e]
  simp [drop_one_add, drop_len_append]

/-- `0x…<suffix>` literal -/
theorem lexStep_hex_suffix (ln col off : Nat) (ds cs sfx tail : List Char) (t : Ty) (h : WithSep ds cs)
    (hne : ds ≠ []) (hds : ∀ d ∈ ds, isHex d = true) (hs : (sfx, t) ∈ suffixes) (ht : Stops tail)
    (hv : valueOf 16 ds < max128) :
    lexStep ln col off ('0' :: 'x' :: (cs ++ (sfx ++ tail))) =
      some ([{ tok := .suf (valueOf 16 ds) t, start := off, stop := off + (1 + (1 + cs.length + sfx.length)),
               line := ln, col := col }], tail) := by
  have e := lexNumberZero_hex_suf ds cs sfx tail t h hne hds hs ht hv
  obtain ⟨h1, h2, h3, h4, h5⟩ := zero_facts
  unfold lexStep
  simp only [h1, h2, h3, h4, h5, e]
  simp [Nat.add_assoc, drop_one_add, drop_len2_append]

/-- `0b…<suffix>` literal -/
theorem lexStep_bin_suffix (ln col off : Nat) (ds cs sfx tail : List Char) (t : Ty) (h : WithSep ds cs)
    (hne : ds ≠ []) (hds : ∀ d ∈ ds, isBin d = true) (hs : (sfx, t) ∈ suffixes) (ht : Stops tail)
    (hv : valueOf 2 ds < max128) :
    lexStep ln col off ('0' :: 'b' :: (cs ++ (sfx ++ tail))) =
      some ([{ tok := .suf (valueOf 2 ds) t, start := off, stop := off + (1 + (1 + cs.length + sfx.length)),
               line := ln, col := col }], tail) := by
  have e := lexNumberZero_bin_suf ds cs sfx tail t h hne hds hs ht hv
  obtain ⟨h1, h2, h3, h4, h5⟩ := zero_facts
  unfold lexStep
  simp only [h1, h2, h3, h4, h5, e]
  simp [Nat.add_assoc, drop_one_add, drop_len2_append]

/-- a hexadecimal literal of 129 bits or more is E140 -/
theorem lexStep_hex_overflow (ln col off : Nat) (ds cs tail : List Char) (h : WithSep ds cs) (hne : ds ≠ [])
    (hds : ∀ d ∈ ds, isHex d = true) (ht : Stops tail) (hv : max128 ≤ valueOf 16 ds) :
    ∃ n rest, lexStep ln col off ('0' :: 'x' :: (cs ++ tail)) =
      some ([{ tok := .err 140, start := off, stop := off + n, line := ln, col := col }], rest) := by
  have e := lexNumberZero_hex_overflow ds cs tail h hne hds ht hv
  obtain ⟨h1, h2, h3, h4, h5⟩ := zero_facts
  unfold lexStep
  simp only [h1, h2, h3, h4, h5]
  simp only [Bool.false_eq_true, if_false, if_true, e]
  exact ⟨_, _, rfl⟩

/-! ### The statement as a whole: any sequence of tokens in any legal spelling

`Lexeme s t` (Lex/Sequence.lean): the spelling `s`, followed by the end of the line or a blank, is cut off as exactly `t`
spanning exactly `s`.  Every spelling of the integer literals is a lexeme (below), and so are identifiers, builtins,
keywords / type names / `true` / `false` / `_`, punctuation and plain string / character literals (Lex/Lexemes.lean). -/

theorem lexemeP_decimal (c : Char) (ds cs : List Char) (hc : c ∈ ['1','2','3','4','5','6','7','8','9']) (h : WithSep ds cs)
    (hds : ∀ d ∈ ds, isDigit d = true) (hv : valueOf 10 (c :: ds) < max128) :
    LexemeP Stops (c :: cs) (.dec (valueOf 10 (c :: ds))) := by
  refine ⟨by simp, ?_⟩
  intro ln col off tail ht
  rw [List.cons_append, lexStep_decimal ln col off c ds cs tail hc h hds ht hv]
  simp [Nat.add_comm]

theorem lexeme_decimal (c : Char) (ds cs : List Char) (hc : c ∈ ['1','2','3','4','5','6','7','8','9']) (h : WithSep ds cs)
    (hds : ∀ d ∈ ds, isDigit d = true) (hv : valueOf 10 (c :: ds) < max128) :
    Lexeme (c :: cs) (.dec (valueOf 10 (c :: ds))) :=
  (lexemeP_decimal c ds cs hc h hds hv).weaken (fun _ ht => ht.stops)

theorem lexemeP_decimal_suffix (c : Char) (ds cs sfx : List Char) (t : Ty) (hc : c ∈ ['1','2','3','4','5','6','7','8','9'])
    (h : WithSep ds cs) (hds : ∀ d ∈ ds, isDigit d = true) (hs : (sfx, t) ∈ suffixes) (hv : valueOf 10 (c :: ds) < max128) :
    LexemeP Stops (c :: (cs ++ sfx)) (.suf (valueOf 10 (c :: ds)) t) := by
  refine ⟨by simp, ?_⟩
  intro ln col off tail ht
  rw [List.cons_append, List.append_assoc, lexStep_decimal_suffix ln col off c ds cs sfx tail t hc h hds hs ht hv]
  simp [Nat.add_comm]

theorem lexeme_decimal_suffix (c : Char) (ds cs sfx : List Char) (t : Ty) (hc : c ∈ ['1','2','3','4','5','6','7','8','9'])
    (h : WithSep ds cs) (hds : ∀ d ∈ ds, isDigit d = true) (hs : (sfx, t) ∈ suffixes) (hv : valueOf 10 (c :: ds) < max128) :
    Lexeme (c :: (cs ++ sfx)) (.suf (valueOf 10 (c :: ds)) t) :=
  (lexemeP_decimal_suffix c ds cs sfx t hc h hds hs hv).weaken (fun _ ht => ht.stops)

theorem lexeme_zero : Lexeme ['0'] (.dec 0) := by
  refine ⟨by simp, ?_⟩
  intro ln col off tail ht
  cases tail with
  | nil => rfl
  | cons c rest => rcases blank_cases c (ht c rfl) with rfl | rfl <;> rfl

/-- `0` followed by anything that is not `x`, `b` or an identifier character -/
theorem lexemeP_zero : LexemeP Stops ['0'] (.dec 0) := by
  refine ⟨by simp, ?_⟩
  intro ln col off tail ht
  obtain ⟨h1, h2, h3, h4, h5⟩ := zero_facts
  have hsp : spanIdent tail = ([], tail) := by simpa using spanIdent_append [] tail (by simp) ht
  simp only [List.cons_append, List.nil_append]
  unfold lexStep
  simp only [h1, h2, h3, h4, h5, Bool.false_eq_true, if_false, if_true, Bool.false_and]
  cases tail with
  | nil => rfl
  | cons c rest =>
    have hc : isIdentCont c = false := ht c rfl
    have hx : c ≠ 'x' := fun he => by subst he; exact absurd hc (by decide)
    have hb : c ≠ 'b' := fun he => by subst he; exact absurd hc (by decide)
    simp [lexNumberZero, hx, hb, hsp]

theorem lexemeP_hex (ds cs : List Char) (h : WithSep ds cs) (hne : ds ≠ []) (hds : ∀ d ∈ ds, isHex d = true)
    (hv : valueOf 16 ds < max128) :
    LexemeP Stops ('0' :: 'x' :: cs) (.bit (valueOf 16 ds)) := by
  refine ⟨by simp, ?_⟩
  intro ln col off tail ht
  rw [List.cons_append, List.cons_append, lexStep_hex ln col off ds cs tail h hne hds ht hv]
  simp [Nat.add_comm]

theorem lexeme_hex (ds cs : List Char) (h : WithSep ds cs) (hne : ds ≠ []) (hds : ∀ d ∈ ds, isHex d = true)
    (hv : valueOf 16 ds < max128) :
    Lexeme ('0' :: 'x' :: cs) (.bit (valueOf 16 ds)) :=
  (lexemeP_hex ds cs h hne hds hv).weaken (fun _ ht => ht.stops)

theorem lexemeP_bin (ds cs : List Char) (h : WithSep ds cs) (hne : ds ≠ []) (hds : ∀ d ∈ ds, isBin d = true)
    (hv : valueOf 2 ds < max128) :
    LexemeP Stops ('0' :: 'b' :: cs) (.bit (valueOf 2 ds)) := by
  refine ⟨by simp, ?_⟩
  intro ln col off tail ht
  rw [List.cons_append, List.cons_append, lexStep_bin ln col off ds cs tail h hne hds ht hv]
  simp [Nat.add_comm]

theorem lexeme_bin (ds cs : List Char) (h : WithSep ds cs) (hne : ds ≠ []) (hds : ∀ d ∈ ds, isBin d = true)
    (hv : valueOf 2 ds < max128) :
    Lexeme ('0' :: 'b' :: cs) (.bit (valueOf 2 ds)) :=
  (lexemeP_bin ds cs h hne hds hv).weaken (fun _ ht => ht.stops)

theorem lexemeP_hex_suffix (ds cs sfx : List Char) (t : Ty) (h : WithSep ds cs) (hne : ds ≠ []) (hds : ∀ d ∈ ds, isHex d = true)
    (hs : (sfx, t) ∈ suffixes) (hv : valueOf 16 ds < max128) :
    LexemeP Stops ('0' :: 'x' :: (cs ++ sfx)) (.suf (valueOf 16 ds) t) := by
  refine ⟨by simp, ?_⟩
  intro ln col off tail ht
  rw [List.cons_append, List.cons_append, List.append_assoc, lexStep_hex_suffix ln col off ds cs sfx tail t h hne hds hs ht hv]
  simp [Nat.add_comm, Nat.add_left_comm]
  try omega

theorem lexeme_hex_suffix (ds cs sfx : List Char) (t : Ty) (h : WithSep ds cs) (hne : ds ≠ []) (hds : ∀ d ∈ ds, isHex d = true)
    (hs : (sfx, t) ∈ suffixes) (hv : valueOf 16 ds < max128) :
    Lexeme ('0' :: 'x' :: (cs ++ sfx)) (.suf (valueOf 16 ds) t) :=
  (lexemeP_hex_suffix ds cs sfx t h hne hds hs hv).weaken (fun _ ht => ht.stops)

theorem lexemeP_bin_suffix (ds cs sfx : List Char) (t : Ty) (h : WithSep ds cs) (hne : ds ≠ []) (hds : ∀ d ∈ ds, isBin d = true)
    (hs : (sfx, t) ∈ suffixes) (hv : valueOf 2 ds < max128) :
    LexemeP Stops ('0' :: 'b' :: (cs ++ sfx)) (.suf (valueOf 2 ds) t) := by
  refine ⟨by simp, ?_⟩
  intro ln col off tail ht
  rw [List.cons_append, List.cons_append, List.append_assoc, lexStep_bin_suffix ln col off ds cs sfx tail t h hne hds hs ht hv]
  simp [Nat.add_comm, Nat.add_left_comm]
  try omega

theorem lexeme_bin_suffix (ds cs sfx : List Char) (t : Ty) (h : WithSep ds cs) (hne : ds ≠ []) (hds : ∀ d ∈ ds, isBin d = true)
    (hs : (sfx, t) ∈ suffixes) (hv : valueOf 2 ds < max128) :
    Lexeme ('0' :: 'b' :: (cs ++ sfx)) (.suf (valueOf 2 ds) t) :=
  (lexemeP_bin_suffix ds cs sfx t h hne hds hs hv).weaken (fun _ ht => ht.stops)

/-- string literals with escapes: any run of printable characters, simple escapes (`\\n \\r \\t \\\\ \\' \\" \\0`), `\\xHH`,
    `\\u{…}` (1–8 hex digits, a scalar value) and raw non-ASCII characters between the quotes is the string token holding exactly
    the bytes those items stand for (`QItem`: the specification of what each escape means), spanning exactly its characters -/
theorem string_literal_exact {sps : List Char} {bs : List Nat} {n : Nat} (h : QItems '"' sps bs n) :
    LexemeP AfterAny ('"' :: (sps ++ ['"'])) (.str bs) :=
  lexemeP_string_items h

/-- character literals: one item standing for one byte -/
theorem char_literal_exact {sp : List Char} {b : Nat} (h : QItem '\'' sp [b]) :
    LexemeP AfterAny ('\'' :: (sp ++ ['\''])) (.chr b) :=
  lexemeP_char_item h

/-- **the lexer model is total**: on every line, of any content, the fuel `lex_line` supplies is never exhausted — any larger
    fuel gives the same tokens (each step consumes at least one character or ends the line: `lexStep_progress`) -/
theorem lexer_total (ln off : Nat) (line : List Char) (fuel : Nat) (hf : line.length < fuel) :
    lexLineAux ln fuel 0 off line = lexLine ln off line :=
  lexLine_total ln off line fuel hf

/-- **C14, one line**: a line made of tokens in any legal spellings (`Good`: each item a `Lexeme`), indented by any blanks,
    separated by any non-empty runs of blanks and optionally ended by a `//` comment, is split into exactly those tokens, each
    spanning exactly its characters, at the right column and source offset -/
theorem lex_line_of_tokens (ln off : Nat) (indent : List Char) (items : List Item) (trailer : List Char)
    (htr : IsTrailer trailer) (hi : ∀ c ∈ indent, isBlank c = true) (hg : Good trailer items) :
    lexLine ln off (indent ++ (render items ++ trailer)) = expected ln indent.length (off + indent.length) items :=
  lexLine_sequence ln off indent items trailer htr hi hg

/-- **C14, a whole source**: any number of lines (ended by `\n` or `\r\n`), each made of tokens in legal spellings with any
    indentation and any non-empty blanks between them and an optional `//` comment: the lexer yields exactly those tokens, on
    the right lines, each spanning exactly its characters (byte offsets into the source) -/
theorem lex_source_of_tokens (ls : List LineSpec) (hne : ls ≠ []) (h : ∀ l ∈ ls, l.OK) :
    lex (sourceOf ls) = expectedLines 1 0 ls :=
  lex_source ls hne h

/-! ### Non-vacuity: the hypotheses are met by non-trivial spellings -/

example : lexStep 3 7 40 "1_000_u16;".toList =
    some ([{ tok := .suf 1000 .u16, start := 40, stop := 49, line := 3, col := 7 }], [';']) := by decide +kernel
example : lexStep 1 0 0 "0xdead_BEEF ".toList =
    some ([{ tok := .bit 3735928559, start := 0, stop := 11, line := 1, col := 0 }], [' ']) := by decide +kernel
example : WithSep "1000".toList "1_0__00".toList := by
  repeat (first | exact .nil | apply WithSep.digit | apply WithSep.sep)

/-- **formatting never changes the tokens** (also the last clause of C01): sources that spell the same tokens, whatever their
    indentation, blanks, comments, line breaks and line distribution, lex to the same token sequence -/
theorem layout_does_not_matter (ls ls' : List LineSpec) (hne : ls ≠ []) (hne' : ls' ≠ []) (h : ∀ l ∈ ls, l.OK) (h' : ∀ l ∈ ls', l.OK)
    (hsame : (ls.map (fun l => l.items.map (·.tok))).flatten = (ls'.map (fun l => l.items.map (·.tok))).flatten) :
    (lex (sourceOf ls)).map (·.tok) = (lex (sourceOf ls')).map (·.tok) :=
  layout_irrelevant ls ls' hne hne' h h' hsame

/-- a concrete two-line source meeting the hypotheses of `lex_source_of_tokens`: `\tvar x_1 = 0x1F_u8 + 1_000 ; // c\r\n"a b" 'c' print! 0\n` -/
def sampleLines : List LineSpec := [
  { indent := ['\t'], crlf := true, trailer := "// c".toList, items := [
      { spelling := "var".toList, tok := .kw "var".toList, blanks := [' '] },
      { spelling := "x_1".toList, tok := .ident "x_1".toList, blanks := [' ', ' '] },
      { spelling := ['='], tok := .sym ['='], blanks := [' '] },
      { spelling := "0x1F_u8".toList, tok := .suf 31 .u8, blanks := ['\t'] },
      { spelling := ['+'], tok := .sym ['+'], blanks := [' '] },
      { spelling := "1_000".toList, tok := .dec 1000, blanks := [' '] },
      { spelling := [';'], tok := .sym [';'], blanks := [' '] }] },
  { indent := [], crlf := false, trailer := [], items := [
      { spelling := "\"a b\"".toList, tok := .str [97, 32, 98], blanks := [' '] },
      { spelling := "'c'".toList, tok := .chr 99, blanks := [' '] },
      { spelling := "print!".toList, tok := .builtin "print".toList, blanks := [' '] },
      { spelling := ['0'], tok := .dec 0, blanks := [] }] }]

example : sourceOf sampleLines = "\tvar x_1  = 0x1F_u8\t+ 1_000 ; // c\r\n\"a b\" 'c' print! 0\n".toList := by decide +kernel

example : ∀ l ∈ sampleLines, l.OK := by
  have wsd : ∀ (ds : List Char), WithSep ds ds := by
    intro ds; induction ds with
    | nil => exact .nil
    | cons d ds ih => exact .digit d ih
  intro l hl
  simp only [sampleLines, List.mem_cons, List.mem_nil_iff, or_false] at hl
  rcases hl with rfl | rfl
  · refine ⟨Or.inr ⟨" c".toList, by decide⟩, by decide, ?_, by decide +kernel, by intro h; cases h⟩
    refine ⟨lexeme_keyword _ _ (by decide), by decide, (by first | exact blankStart_cons _ _ (by decide) | exact blankStart_nil), ?_⟩
    refine ⟨lexeme_ident 'x' "_1".toList (by decide) (by decide) (by decide), by decide, (by first | exact blankStart_cons _ _ (by decide) | exact blankStart_nil), ?_⟩
    refine ⟨lexeme_symbol _ _ (by decide), by decide, (by first | exact blankStart_cons _ _ (by decide) | exact blankStart_nil), ?_⟩
    refine ⟨lexeme_hex_suffix "1F".toList "1F_".toList "u8".toList .u8 (.digit _ (.digit _ (.sep .nil))) (by decide) (by decide) (by decide) (by decide),
      by decide, (by first | exact blankStart_cons _ _ (by decide) | exact blankStart_nil), ?_⟩
    refine ⟨lexeme_symbol _ _ (by decide), by decide, (by first | exact blankStart_cons _ _ (by decide) | exact blankStart_nil), ?_⟩
    refine ⟨lexeme_decimal '1' "000".toList "_000".toList (by decide) (.sep (wsd _)) (by decide) (by decide), by decide, (by first | exact blankStart_cons _ _ (by decide) | exact blankStart_nil), ?_⟩
    exact ⟨lexeme_symbol _ _ (by decide), by decide, (by first | exact blankStart_cons _ _ (by decide) | exact blankStart_nil), trivial⟩
  · refine ⟨Or.inl rfl, by decide, ?_, by decide +kernel, by decide +kernel⟩
    refine ⟨lexeme_string "a b".toList (by decide), by decide, (by first | exact blankStart_cons _ _ (by decide) | exact blankStart_nil), ?_⟩
    refine ⟨lexeme_char 'c' (by decide), by decide, (by first | exact blankStart_cons _ _ (by decide) | exact blankStart_nil), ?_⟩
    refine ⟨lexeme_builtin 'p' "rint".toList (by decide) (by decide) (by decide), by decide, (by first | exact blankStart_cons _ _ (by decide) | exact blankStart_nil), ?_⟩
    exact ⟨lexeme_zero, by decide, (by first | exact blankStart_cons _ _ (by decide) | exact blankStart_nil), trivial⟩

/-! tokens need not be separated by blanks: each spelling only constrains what follows it (`Item.after`) -/

theorem stops_cons (c : Char) (rest : List Char) (h : isIdentCont c = false) : Stops (c :: rest) := by
  intro c' h'; simp only [List.head?_cons, Option.some.injEq] at h'; subst h'; exact h
theorem afterIdent_cons (c : Char) (rest : List Char) (h : isIdentCont c = false) (hb : c ≠ '!') : AfterIdent (c :: rest) :=
  ⟨stops_cons c rest h, fun r he => hb (by injection he)⟩
theorem noGlue_cons (a c : Char) (rest : List Char) (h : sym2 a c = none) (hn : ¬(a = '/' ∧ c = '/')) : NoGlue a (c :: rest) := by
  intro y hy; simp only [List.head?_cons, Option.some.injEq] at hy; subst hy; exact ⟨h, hn⟩

/-- `f(x_1,0x1F)!=12;//c` : no blank anywhere -/
def denseLine : LineSpec :=
  { indent := [], crlf := false, trailer := "//c".toList, items := [
      { spelling := ['f'], tok := .ident ['f'], blanks := [], after := AfterIdent },
      { spelling := ['('], tok := .sym ['('], blanks := [], after := NoGlue '(' },
      { spelling := "x_1".toList, tok := .ident "x_1".toList, blanks := [], after := AfterIdent },
      { spelling := [','], tok := .sym [','], blanks := [], after := NoGlue ',' },
      { spelling := "0x1F".toList, tok := .bit 31, blanks := [], after := Stops },
      { spelling := [')'], tok := .sym [')'], blanks := [], after := NoGlue ')' },
      { spelling := ['!', '='], tok := .sym ['!', '='], blanks := [], after := AfterAny },
      { spelling := "12".toList, tok := .dec 12, blanks := [], after := Stops },
      { spelling := [';'], tok := .sym [';'], blanks := [], after := NoGlue ';' }] }

example : denseLine.text = "f(x_1,0x1F)!=12;//c".toList := by decide +kernel

example : denseLine.OK := by
  refine ⟨Or.inr ⟨['c'], by decide⟩, by decide, ?_, by decide +kernel, by decide +kernel⟩
  refine ⟨lexemeP_ident 'f' [] (by decide) (by decide) (by decide), by decide, afterIdent_cons _ _ (by decide) (by decide), ?_⟩
  refine ⟨lexemeP_sym1 '(' (by decide), by decide, noGlue_cons _ _ _ (by decide) (by decide), ?_⟩
  refine ⟨lexemeP_ident 'x' "_1".toList (by decide) (by decide) (by decide), by decide, afterIdent_cons _ _ (by decide) (by decide), ?_⟩
  refine ⟨lexemeP_sym1 ',' (by decide), by decide, noGlue_cons _ _ _ (by decide) (by decide), ?_⟩
  refine ⟨lexemeP_hex "1F".toList "1F".toList (.digit _ (.digit _ .nil)) (by decide) (by decide) (by decide), by decide,
    stops_cons _ _ (by decide), ?_⟩
  refine ⟨lexemeP_sym1 ')' (by decide), by decide, noGlue_cons _ _ _ (by decide) (by decide), ?_⟩
  refine ⟨lexemeP_sym2 _ _ (by decide), by decide, trivial, ?_⟩
  refine ⟨lexemeP_decimal '1' ['2'] ['2'] (by decide) (.digit _ .nil) (by decide) (by decide), by decide, stops_cons _ _ (by decide), ?_⟩
  exact ⟨lexemeP_sym1 ';' (by decide), by decide, noGlue_cons _ _ _ (by decide) (by decide), trivial⟩

end Lex
