import PenneModel.Lex.Lemmas
/-
  C14 — both lexers implement the same lexical grammar, with exact spans.  Property theorems about the
  reference lexer model (`Lex/Model.lean`), which the correspondence run compares with both real lexers.

  Shape of the statements: a legal spelling of a token, followed by anything that cannot extend it
  (`Stops`), is cut off as exactly that token with exactly its characters as span, whatever line/column/offset
  it stands at — for every value, every placement of `_` separators, every suffix.
-/
namespace Lex

/-! ### Punctuation, keywords, type names: the complete table -/

def fixedSpellings : List (List Char × Tok) :=
  (("(){}[]<>|&^!+*%:;.,=-/".toList.map fun c => ([c], Tok.sym [c])) ++
   [("<<".toList, .sym "<<".toList), ("<=".toList, .sym "<=".toList), (">>".toList, .sym ">>".toList),
    (">=".toList, .sym ">=".toList), ("|:".toList, .sym "|:".toList), ("!=".toList, .sym "!=".toList),
    ("..".toList, .sym "..".toList), ("==".toList, .sym "==".toList), ("->".toList, .sym "->".toList)] ++ keywords)

/-- every fixed spelling lexes to exactly its token, spanning exactly its characters -/
theorem fixed_spellings_lex :
    fixedSpellings.all (fun p => lex p.1 == [{ tok := p.2, start := 0, stop := p.1.length, line := 1, col := 0 }]) = true := by
  decide +kernel

/-! ### Integer literals: every value, every separator placement, every suffix -/

private theorem nonzero_digit_facts (c : Char) (hc : c ∈ ['1','2','3','4','5','6','7','8','9']) :
    (c == ' ' || c == '\t') = false ∧ (c == '/') = false ∧ isSym1 c = false ∧ isIdentStart c = false
      ∧ (c == '0') = false ∧ isDigit c = true := by
  simp only [List.mem_cons, List.mem_nil_iff, or_false] at hc
  rcases hc with rfl | rfl | rfl | rfl | rfl | rfl | rfl | rfl | rfl <;> decide

/-- decimal literal without suffix -/
theorem lexStep_decimal (ln col off : Nat) (c : Char) (ds cs tail : List Char)
    (hc : c ∈ ['1','2','3','4','5','6','7','8','9']) (h : WithSep ds cs)
    (hds : ∀ d ∈ ds, isDigit d = true) (ht : Stops tail) (hv : valueOf 10 (c :: ds) < max128) :
    lexStep ln col off (c :: (cs ++ tail)) =
      some ([{ tok := .dec (valueOf 10 (c :: ds)), start := off, stop := off + (1 + cs.length), line := ln, col := col }], tail) := by
  have e := lexNumberNonzero_dec c ds cs tail h hds ht hv
  obtain ⟨h1, h2, h3, h4, h5, h6⟩ := nonzero_digit_facts c hc
  unfold lexStep
  simp only [h1, h2, h3, h4, h5, h6, e]
  simp

/-- decimal literal with a type suffix -/
theorem lexStep_decimal_suffix (ln col off : Nat) (c : Char) (ds cs sfx tail : List Char) (t : Ty)
    (hc : c ∈ ['1','2','3','4','5','6','7','8','9']) (h : WithSep ds cs)
    (hds : ∀ d ∈ ds, isDigit d = true) (hs : (sfx, t) ∈ suffixes) (ht : Stops tail)
    (hv : valueOf 10 (c :: ds) < max128) :
    lexStep ln col off (c :: (cs ++ (sfx ++ tail))) =
      some ([{ tok := .suf (valueOf 10 (c :: ds)) t, start := off, stop := off + (1 + (cs.length + sfx.length)),
               line := ln, col := col }], tail) := by
  have e := lexNumberNonzero_suf c ds cs sfx tail t h hds hs ht hv
  obtain ⟨h1, h2, h3, h4, h5, h6⟩ := nonzero_digit_facts c hc
  unfold lexStep
  simp only [h1, h2, h3, h4, h5, h6, e]
  simp [drop_len2_append]

/-- a decimal literal of 129 bits or more is E140, never a silently different value -/
theorem lexStep_decimal_overflow (ln col off : Nat) (c : Char) (ds cs tail : List Char)
    (hc : c ∈ ['1','2','3','4','5','6','7','8','9']) (h : WithSep ds cs)
    (hds : ∀ d ∈ ds, isDigit d = true) (ht : Stops tail) (hv : max128 ≤ valueOf 10 (c :: ds)) :
    ∃ n rest, lexStep ln col off (c :: (cs ++ tail)) =
      some ([{ tok := .err 140, start := off, stop := off + n, line := ln, col := col }], rest) := by
  have e := lexNumberNonzero_overflow c ds cs tail h hds ht hv
  obtain ⟨h1, h2, h3, h4, h5, h6⟩ := nonzero_digit_facts c hc
  unfold lexStep
  simp only [h1, h2, h3, h4, h5, h6]
  simp only [Bool.false_eq_true, if_false, if_true, e]
  exact ⟨_, _, rfl⟩

private theorem zero_facts :
    ('0' == ' ' || '0' == '\t') = false ∧ ('0' == '/') = false ∧ isSym1 '0' = false ∧ isIdentStart '0' = false
      ∧ ('0' == '0') = true := by
  decide

/-- `0x…` literal -/
theorem lexStep_hex (ln col off : Nat) (ds cs tail : List Char) (h : WithSep ds cs) (hne : ds ≠ [])
    (hds : ∀ d ∈ ds, isHex d = true) (ht : Stops tail) (hv : valueOf 16 ds < max128) :
    lexStep ln col off ('0' :: 'x' :: (cs ++ tail)) =
      some ([{ tok := .bit (valueOf 16 ds), start := off, stop := off + (1 + (1 + cs.length)), line := ln, col := col }], tail) := by
  have e := lexNumberZero_hex ds cs tail h hne hds ht hv
  obtain ⟨h1, h2, h3, h4, h5⟩ := zero_facts
  unfold lexStep
  simp only [h1, h2, h3, h4, h5, e]
  simp [drop_one_add, drop_len_append]

/-- `0b…` literal -/
theorem lexStep_bin (ln col off : Nat) (ds cs tail : List Char) (h : WithSep ds cs) (hne : ds ≠ [])
    (hds : ∀ d ∈ ds, isBin d = true) (ht : Stops tail) (hv : valueOf 2 ds < max128) :
    lexStep ln col off ('0' :: 'b' :: (cs ++ tail)) =
      some ([{ tok := .bit (valueOf 2 ds), start := off, stop := off + (1 + (1 + cs.length)), line := ln, col := col }], tail) := by
  have e := lexNumberZero_bin ds cs tail h hne hds ht hv
  obtain ⟨h1, h2, h3, h4, h5⟩ := zero_facts
  unfold lexStep
  simp only [h1, h2, h3, h4, h5, e]
  simp [drop_one_add, drop_len_append]

/-- `0x…<suffix>` literal -/
theorem lexStep_hex_suffix (ln col off : Nat) (ds cs sfx tail : List Char) (t : Ty) (h : WithSep ds cs)
    (hne : ds ≠ []) (hds : ∀ d ∈ ds, isHex d = true) (hs : (sfx, t) ∈ suffixes) (ht : Stops tail)
    (hv : valueOf 16 ds < max128) :
    lexStep ln col off ('0' :: 'x' :: (cs ++ (sfx ++ tail))) =
      some ([{ tok := .suf (valueOf 16 ds) t, start := off, stop := off + (1 + (1 + cs.length + sfx.length)),
               line := ln, col := col }], tail) := by
  have e := lexNumberZero_hex_suf ds cs sfx tail t h hne hds hs ht hv
  obtain ⟨h1, h2, h3, h4, h5⟩ := zero_facts
  unfold lexStep
  simp only [h1, h2, h3, h4, h5, e]
  simp [Nat.add_assoc, drop_one_add, drop_len2_append]

/-- `0b…<suffix>` literal -/
theorem lexStep_bin_suffix (ln col off : Nat) (ds cs sfx tail : List Char) (t : Ty) (h : WithSep ds cs)
    (hne : ds ≠ []) (hds : ∀ d ∈ ds, isBin d = true) (hs : (sfx, t) ∈ suffixes) (ht : Stops tail)
    (hv : valueOf 2 ds < max128) :
    lexStep ln col off ('0' :: 'b' :: (cs ++ (sfx ++ tail))) =
      some ([{ tok := .suf (valueOf 2 ds) t, start := off, stop := off + (1 + (1 + cs.length + sfx.length)),
               line := ln, col := col }], tail) := by
  have e := lexNumberZero_bin_suf ds cs sfx tail t h hne hds hs ht hv
  obtain ⟨h1, h2, h3, h4, h5⟩ := zero_facts
  unfold lexStep
  simp only [h1, h2, h3, h4, h5, e]
  simp [Nat.add_assoc, drop_one_add, drop_len2_append]

/-- a hexadecimal literal of 129 bits or more is E140 -/
theorem lexStep_hex_overflow (ln col off : Nat) (ds cs tail : List Char) (h : WithSep ds cs) (hne : ds ≠ [])
    (hds : ∀ d ∈ ds, isHex d = true) (ht : Stops tail) (hv : max128 ≤ valueOf 16 ds) :
    ∃ n rest, lexStep ln col off ('0' :: 'x' :: (cs ++ tail)) =
      some ([{ tok := .err 140, start := off, stop := off + n, line := ln, col := col }], rest) := by
  have e := lexNumberZero_hex_overflow ds cs tail h hne hds ht hv
  obtain ⟨h1, h2, h3, h4, h5⟩ := zero_facts
  unfold lexStep
  simp only [h1, h2, h3, h4, h5]
  simp only [Bool.false_eq_true, if_false, if_true, e]
  exact ⟨_, _, rfl⟩

/-! ### Non-vacuity: the hypotheses are met by non-trivial spellings -/

example : lexStep 3 7 40 "1_000_u16;".toList =
    some ([{ tok := .suf 1000 .u16, start := 40, stop := 49, line := 3, col := 7 }], [';']) := by decide +kernel
example : lexStep 1 0 0 "0xdead_BEEF ".toList =
    some ([{ tok := .bit 3735928559, start := 0, stop := 11, line := 1, col := 0 }], [' ']) := by decide +kernel
example : WithSep "1000".toList "1_0__00".toList := by
  repeat (first | exact .nil | apply WithSep.digit | apply WithSep.sep)

end Lex
