/-
  C15 — the second-generation front end is total and memory-safe on any bytes.

  Proved here, for every list of token kinds (well-formed or not) and every amount of model fuel:
  * `node_bound`: the parser pushes at most 4·tokens + 6 nodes, so a buffer of that capacity is never
    exceeded (the pinned capacity 5 + 2·tokens is: `pinned_capacity_too_small`);
  The table of the parser is tied to src/delta/parser.rs by the correspondence run of checks/c15.py, which
  compares the exact sequence of node variants on every input the lexer accepts.
-/
import PenneModel.Flat.Term

namespace Flat

/-- declared debts (normal end, abnormal end) of the nonterminals of `table`, in units of the potential -/
def debtList : List (Int × Int) :=
  [ (0, 0),    -- 0 decl
    (0, 0),    -- 1 declRest
    (0, 0),    -- 2 structMembers
    (0, 0),    -- 3 membersLoop
    (0, 0),    -- 4 fnDecl
    (-2, 0),   -- 5 signature
    (-3, 0),   -- 6 paramsLoop
    (-3, 0),   -- 7 type
    (-3, 0),   -- 8 innerType
    (0, 1),    -- 9 fnBodyLoop
    (-3, 1),   -- 10 blockLoop
    (-4, 1),   -- 11 stmt
    (-1, 2),   -- 12 argsLoop
    (0, 3),    -- 13 structuralLoop
    (-3, 1),   -- 14 then
    (1, 1),    -- 15 comparison
    (1, 1),    -- 16 expr
    (0, 0),    -- 17 addLoop
    (0, 0),    -- 18 bitwiseRest
    (4, 4),    -- 19 bwAmp
    (4, 4),    -- 20 bwPipe
    (4, 4),    -- 21 bwCaret
    (0, 0),    -- 22 shiftRest
    (1, 1),    -- 23 mult
    (0, 0),    -- 24 multLoop
    (1, 1),    -- 25 singular
    (0, 0),    -- 26 asLoop
    (1, 1),    -- 27 unary
    (1, 1),    -- 28 primary
    (1, 1),    -- 29 reference
    (1, 0),    -- 30 stepsLoop
    (0, 0),    -- 31 ampLoop
    (0, 0),    -- 32 strLoop
    (-1, 2),   -- 33 arrayLoop
    (-5, 0) ]  -- 34 assignRest

def debts (nt : Nat) : Int × Int := debtList.getD nt (0, 0)

theorem table_checked_small : ∀ nt, nt < numNT → checkNT debts table nt = true := by decide +kernel

theorem table_default (nt : Nat) (h : numNT ≤ nt) : table nt = .fail .unexpectedToken 0 := by
  unfold numNT at h
  unfold table
  split <;> first | omega | rfl

theorem debts_default (nt : Nat) (h : numNT ≤ nt) : debts nt = (0, 0) := by
  unfold numNT at h
  unfold debts
  rw [List.getD_eq_getElem?_getD, List.getElem?_eq_none (by simpa [debtList] using h)]
  rfl

/-- every nonterminal of the parser table passes the potential check -/
theorem table_checked : ∀ nt, checkNT debts table nt = true := by
  intro nt
  by_cases h : nt < numNT
  · exact table_checked_small nt h
  · have h' : numNT ≤ nt := by omega
    simp [checkNT, table_default nt h', debts_default nt h', bd, ole]

/-- every run of every nonterminal, on every token list, from every state, with every fuel, changes the
    potential by at most its declared debt -/
theorem node_bound_nt (ts : List Kind) (fuel : Nat) : CalleeOK ts debts (runNT ts table fuel) :=
  runNT_sound ts debts table table_checked fuel

theorem findNextFrom_ge (ts : List Kind) (p : Kind → Bool) : ∀ fuel i, i ≤ findNextFrom ts p fuel i := by
  intro fuel
  induction fuel with
  | zero => intro i; simp [findNextFrom]
  | succ n ih =>
    intro i
    simp only [findNextFrom]
    split
    · split
      · omega
      · have := ih (i + 1); omega
    · omega

theorem parseLoop_phi (ts : List Kind) (fuel : Nat) :
    ∀ budget s d es oof, phi ts (parseLoop ts fuel budget s d es oof).1 ≤ phi ts s := by
  intro budget
  induction budget with
  | zero => intro s d es oof; simp [parseLoop]
  | succ n ih =>
    intro s d es oof
    simp only [parseLoop]
    split
    · simp [phi]
    · have hnt := node_bound_nt ts fuel nDecl 0 { s with lim := ts.length } (by simp)
      cases hr : runNT ts table fuel nDecl 0 { s with lim := ts.length } with
      | mk r s' =>
        rw [hr] at hnt
        obtain ⟨_, hok, herr⟩ := hnt
        have hge := findNextFrom_ge ts startsDeclaration (ts.length - s'.cur) s'.cur
        have hle : phi ts { s' with cur := findNext ts startsDeclaration s'.cur, lim := ts.length } ≤ phi ts s' := by
          simp only [phi, findNext]
          have : ts.length - findNextFrom ts startsDeclaration (ts.length - s'.cur) s'.cur ≤ ts.length - s'.cur := by omega
          omega
        have hs : phi ts { s with lim := ts.length } = phi ts s := by simp [phi]
        cases r with
        | ok =>
          obtain ⟨d0, hd0, hle0⟩ := hok rfl
          have : d0 = 0 := by simpa [debts, debtList, nDecl] using hd0.symm
          have := ih { s' with cur := findNext ts startsDeclaration s'.cur, lim := ts.length } (d + 1) es oof
          simp only at hle0 ⊢
          omega
        | err e pos =>
          obtain ⟨d0, hd0, hle0⟩ := herr (by simp)
          have : d0 = 0 := by simpa [debts, debtList, nDecl] using hd0.symm
          have := ih { s' with cur := findNext ts startsDeclaration s'.cur, lim := ts.length } d (es ++ [(e, pos)]) oof
          simp only at hle0 ⊢
          omega
        | fuel =>
          obtain ⟨d0, hd0, hle0⟩ := herr (by simp)
          have : d0 = 0 := by simpa [debts, debtList, nDecl] using hd0.symm
          have := ih { s' with cur := findNext ts startsDeclaration s'.cur, lim := ts.length } d es true
          simp only at hle0 ⊢
          omega

/-- **C15, node capacity.**  For every list of token kinds — a well-formed module or not — the parser leaves
    at most `4 · tokens + 6` nodes in its buffer (whatever the model's fuel). -/
theorem node_bound (ts : List Kind) (fuel : Nat) : (parseAllWith ts fuel).nodes.length ≤ 4 * ts.length + 6 := by
  unfold parseAllWith
  have h := parseLoop_phi ts fuel ((ts.filter startsDeclaration).length + 2) (initState ts) 0 [] false
  have h0 : phi ts (initState ts) = 4 * (ts.length : Int) + 6 := by
    simp [phi, initState, zoneTerm]; omega
  have h1 : ∀ s : PS, (s.out.length : Int) ≤ phi ts s := by
    intro s
    simp only [phi]
    have : 0 ≤ zoneTerm s.zone := by cases s.zone <;> simp [zoneTerm]
    omega
  have h2 := h1 (parseLoop ts fuel ((ts.filter startsDeclaration).length + 2) (initState ts) 0 [] false).1
  simp only [List.length_reverse]
  omega

/-- the lexer's limit on the number of tokens (`MAX_NUM_TOKENS` of src/delta/lexer/tokens.rs; read from the source by
    checks/c15.py and compared with this constant) and the number of nodes a 24-bit `NodeId` can tell apart -/
def maxNumTokens : Nat := 2 ^ 22 - 2
def maxNumNodes : Nat := 2 ^ 24

/-- **C15, node numbers.**  Whatever the lexer lets through gets distinct 24-bit node numbers: every index the parser
    hands to `U24::new` is below `MAX_NUM_NODES`.  (With the former limit of `2 ^ 24` tokens a module of 4.9 million
    tokens made 17 million nodes: `debug_assert!` failed in a debug build and the numbers wrapped in a release build.) -/
theorem node_ids_fit (ts : List Kind) (fuel : Nat) (h : ts.length ≤ maxNumTokens) :
    (parseAllWith ts fuel).nodes.length ≤ maxNumNodes := by
  have := node_bound ts fuel
  simp only [maxNumTokens, maxNumNodes] at *
  omega

/-- the former limit does not give this: the bound `4 · tokens + 6` is reached (`pinned_capacity_too_small` shows the
    parser needing more than two nodes per token, `a + a + ...` needs four) and `4 · 2 ^ 24 + 6 > 2 ^ 24` -/
example : ¬ (4 * 2 ^ 24 + 6 ≤ maxNumNodes) := by decide

/-- `fn f(){x=a+a+a;}`: a well-formed module on which the pinned capacity `5 + 2·tokens` is exceeded -/
def denseModule : List Kind :=
  [.Fn, .Identifier, .ParenLeft, .ParenRight, .BraceLeft, .Identifier, .Assignment, .Identifier, .Plus, .Identifier,
   .Plus, .Identifier, .Semicolon, .BraceRight, .EndOfSource, .EndOfSource]

/-- the capacity `MAX_PARSE_NODE_CONTEXT + 2 * tokens` of the pinned revision is not a bound -/
theorem pinned_capacity_too_small :
    (parseAll denseModule).errors = [] ∧ (parseAll denseModule).decls = 1 ∧
    5 + 2 * denseModule.length < (parseAll denseModule).nodes.length := by decide +kernel

/-! ### the cursor stays inside the token array -/

theorem cursor_checked_small : ∀ nt, nt < numNT → curOK (table nt) = true := by decide +kernel

/-- in every action of the table a taken `EndOfSource` fails at once and no optional token is `EndOfSource` -/
theorem cursor_checked : ∀ nt, curOK (table nt) = true := by
  intro nt
  by_cases h : nt < numNT
  · exact cursor_checked_small nt h
  · rw [table_default nt (by omega)]; rfl

theorem findNextFrom_le_eos (ts : List Kind) (p : Kind → Bool) (j : Nat) (hj : j < ts.length)
    (he : ts.getD j .EndOfSource = .EndOfSource) :
    ∀ fuel i, i ≤ j → j - i < fuel → findNextFrom ts p fuel i ≤ j := by
  intro fuel
  induction fuel with
  | zero => intro i _ h; omega
  | succ n ih =>
    intro i hij hf
    simp only [findNextFrom]
    have hi : i < ts.length := by omega
    simp only [hi, if_true]
    split
    · exact hij
    · rename_i hstop
      have hne : i ≠ j := by
        intro h
        subst h
        apply hstop
        rw [he]; simp
      exact ih (i + 1) (by omega) (by omega)

theorem parseLoop_cursor (body : List Kind) (fuel : Nat) :
    ∀ budget s d es oof, s.cur ≤ body.length + 1 →
      (parseLoop (body ++ [.EndOfSource, .EndOfSource]) fuel budget s d es oof).1.cur ≤ body.length + 1 := by
  have hE : (body ++ [Kind.EndOfSource, Kind.EndOfSource]).getD body.length .EndOfSource = .EndOfSource := by
    simp [List.getD_eq_getElem?_getD]
  have hE1 : (body ++ [Kind.EndOfSource, Kind.EndOfSource]).getD (body.length + 1) .EndOfSource = .EndOfSource := by
    simp [List.getD_eq_getElem?_getD]
  have hlen : (body ++ [Kind.EndOfSource, Kind.EndOfSource]).length = body.length + 2 := by simp
  intro budget
  induction budget with
  | zero => intro s d es oof hs; simpa [parseLoop] using hs
  | succ n ih =>
    intro s d es oof hs
    simp only [parseLoop]
    split
    · simpa using hs
    · rename_i hpeek
      have hp : peek (body ++ [Kind.EndOfSource, Kind.EndOfSource])
          { s with lim := (body ++ [Kind.EndOfSource, Kind.EndOfSource]).length } ≠ .EndOfSource := by
        simpa using hpeek
      have hlt := peek_lt _ hE1 (s := { s with lim := (body ++ [Kind.EndOfSource, Kind.EndOfSource]).length }) hs hp
      have hnt := runNT_cursor _ body.length hE table cursor_checked fuel nDecl 0
        { s with lim := (body ++ [Kind.EndOfSource, Kind.EndOfSource]).length } (by simp only at hlt ⊢; omega)
      cases hr : runNT (body ++ [Kind.EndOfSource, Kind.EndOfSource]) table fuel nDecl 0
          { s with lim := (body ++ [Kind.EndOfSource, Kind.EndOfSource]).length } with
      | mk r s' =>
        rw [hr] at hnt
        have hc : s'.cur ≤ body.length + 1 := hnt.2
        have hnext : findNext (body ++ [Kind.EndOfSource, Kind.EndOfSource]) startsDeclaration s'.cur ≤ body.length + 1 := by
          unfold findNext
          exact findNextFrom_le_eos _ _ (body.length + 1) (by omega) hE1 _ _ hc (by omega)
        cases r with
        | ok => exact ih _ _ _ _ hnext
        | err e pos => exact ih _ _ _ _ hnext
        | fuel => exact ih _ _ _ _ hnext

/-- **C15, cursor.**  On the token array of any lexed source (`body` without `EndOfSource`, then the two
    `EndOfSource` the lexer appends) the cursor ends strictly inside the array; by `runNT_cursor` the same
    holds after every nonterminal, which is where `base_tokens_from` and `skip_until` are called. -/
theorem cursor_bound (body : List Kind) (fuel budget : Nat) :
    (parseLoop (body ++ [.EndOfSource, .EndOfSource]) fuel budget
      (initState (body ++ [.EndOfSource, .EndOfSource])) 0 [] false).1.cur
      < (body ++ [Kind.EndOfSource, Kind.EndOfSource]).length := by
  have := parseLoop_cursor body fuel budget (initState (body ++ [.EndOfSource, .EndOfSource])) 0 [] false
    (by simp [initState])
  simp only [List.length_append, List.length_cons, List.length_nil]
  omega

/-! ### termination -/

/-- rank of each nonterminal: a call that is not preceded by consumption goes to a smaller rank -/
def rankList : List Nat :=
  [1, 0, 0, 0, 0, 0, 0, 0, 0, 1,      -- decl .. fnBodyLoop
   1, 0, 5, 0, 1, 5, 4, 1, 0, 2,      -- blockLoop stmt argsLoop structuralLoop then comparison expr addLoop bitwiseRest bwAmp
   2, 2, 0, 3, 0, 2, 0, 1, 0, 1,      -- bwPipe bwCaret shiftRest mult multLoop singular asLoop unary primary reference
   0, 0, 0, 5, 0]                     -- stepsLoop ampLoop strLoop arrayLoop assignRest

/-- nonterminals that consume at least one token whenever they end normally -/
def dcList : List Bool :=
  [true, true, false, false, false, false, false, true, true, false,
   false, true, false, false, true, true, true, false, false, false,
   false, false, false, true, false, true, false, true, true, false,
   false, false, false, false, false]

def rankOf (nt : Nat) : Nat := rankList.getD nt 0
def dcOf (nt : Nat) : Bool := dcList.getD nt false

theorem term_checked_small : ∀ nt, nt < numNT → checkTerm rankOf dcOf table nt = true := by decide +kernel

theorem rankOf_lt (nt : Nat) : rankOf nt < 6 := by
  unfold rankOf
  by_cases h : nt < numNT
  · revert nt; decide
  · unfold numNT at h
    rw [List.getD_eq_getElem?_getD, List.getElem?_eq_none (by simpa [rankList] using h)]
    decide

/-- every nonterminal of the parser table is ranked: each call happens after a token was consumed, or goes to a
    smaller rank -/
theorem term_checked : ∀ nt, checkTerm rankOf dcOf table nt = true := by
  intro nt
  by_cases h : nt < numNT
  · exact term_checked_small nt h
  · have h' : numNT ≤ nt := by omega
    have hd : dcOf nt = false := by
      unfold dcOf numNT at *
      rw [List.getD_eq_getElem?_getD, List.getElem?_eq_none (by simpa [dcList] using h')]
      rfl
    simp [checkTerm, table_default nt h', walk, hd]

theorem getD_len_eos (ts : List Kind) : ts.getD ts.length .EndOfSource = .EndOfSource := by
  rw [List.getD_eq_getElem?_getD, List.getElem?_eq_none (Nat.le_refl _)]
  rfl

/-- **no nonterminal runs out of fuel** given six frames per remaining token position -/
theorem nt_total (ts : List Kind) (fuel : Nat) :
    CalleeT ts.length 6 rankOf dcOf fuel (runNT ts table fuel) :=
  runNT_total ts ts.length 6 (getD_len_eos ts) rankOf dcOf rankOf_lt table cursor_checked term_checked fuel

theorem findNextFrom_le (ts : List Kind) (p : Kind → Bool) : ∀ fuel i, findNextFrom ts p fuel i ≤ i + fuel := by
  intro fuel
  induction fuel with
  | zero => intro i; simp [findNextFrom]
  | succ n ih =>
    intro i
    simp only [findNextFrom]
    split
    · split
      · omega
      · have := ih (i + 1); omega
    · omega

theorem parseLoop_total (ts : List Kind) (fuel : Nat) (hf : 6 * ts.length + 2 ≤ fuel) :
    ∀ budget s d es, s.cur ≤ ts.length + 1 → (parseLoop ts fuel budget s d es false).2.2.2.2 = false := by
  intro budget
  induction budget with
  | zero => intro s d es _; simp [parseLoop]
  | succ n ih =>
    intro s d es hs
    simp only [parseLoop]
    split
    · rfl
    · rename_i hpeek
      have hp : peek ts { s with lim := ts.length } ≠ .EndOfSource := by simpa using hpeek
      have hlt : s.cur < ts.length := by
        have := peek_lt ts (E := ts.length) (getD_len_eos ts) (s := { s with lim := ts.length })
        by_cases hle : s.cur ≤ ts.length
        · exact this hle hp
        · exfalso; apply hp; unfold peek; simp only; split
          · omega
          · rfl
      have hnt := nt_total ts fuel nDecl 0 { s with lim := ts.length } (by simp only; omega)
        (by
          have h1 : ts.length - s.cur ≤ ts.length := by omega
          have h2 : 6 * (ts.length - s.cur) ≤ 6 * ts.length := Nat.mul_le_mul_left 6 h1
          have h3 : rankOf nDecl = 1 := by decide
          simp only [h3]; omega)
      cases hr : runNT ts table fuel nDecl 0 { s with lim := ts.length } with
      | mk r s' =>
        rw [hr] at hnt
        obtain ⟨hnf, _, hup, _⟩ := hnt
        have hnext : findNext ts startsDeclaration s'.cur ≤ ts.length + 1 := by
          unfold findNext
          have := findNextFrom_le ts startsDeclaration (ts.length - s'.cur) s'.cur
          simp only at hup
          omega
        cases r with
        | ok => exact ih _ _ _ hnext
        | err e pos => exact ih _ _ _ hnext
        | fuel => exact absurd rfl hnf

/-- **C15, termination.**  On every list of token kinds the parser model finishes every declaration within its
    fuel: the recursion always consumes input. -/
theorem parse_total (ts : List Kind) : (parseAll ts).outOfFuel = false := by
  unfold parseAll parseAllWith
  have := parseLoop_total ts (6 * ts.length + 8) (by omega) ((ts.filter startsDeclaration).length + 2) (initState ts) 0 []
    (by simp [initState])
  simpa using this

end Flat
