import PenneModel.Decls.Imports
/-
  C12 — imports expose exactly the public interface and modules compose.  Property theorems (expansion).
-/
namespace Imports

/-- an exported declaration is never exported again: imports are not re-exported -/
theorem export_export (d d' : Decl) (h : exportDecl d = some d') : exportDecl d' = none := by
  unfold exportDecl at h
  split at h
  · cases h; simp [exportDecl]
  · cases h

theorem filterMap_export_exported (ds : List Decl) : (ds.filterMap exportDecl).filterMap exportDecl = [] := by
  induction ds with
  | nil => rfl
  | cons d ds ih =>
    simp only [List.filterMap_cons]
    cases h : exportDecl d with
    | none => exact ih
    | some d' => simp [List.filterMap_cons, export_export d d' h, ih]

/-- what module `i` looks like after any processing order: the exports of its direct imports (latest splice first)
    in front of its own declarations -/
def spec (own : Mods) (order : List (Nat × Nat)) (i : Nat) : List Decl :=
  ((order.reverse.filter (fun p => p.1 = i)).flatMap (fun p => (own p.2).filterMap exportDecl)) ++ own i

/-- generalised over the starting state: as long as every module's exports are those of its own source, -/
theorem foldl_spec (own : Mods) (order : List (Nat × Nat)) (hne : ∀ p ∈ order, p.1 ≠ p.2) (σ : Mods)
    (hσ : ∀ k, (σ k).filterMap exportDecl = (own k).filterMap exportDecl) :
    ∀ i, order.foldl splice σ i =
           ((order.reverse.filter (fun p => p.1 = i)).flatMap (fun p => (own p.2).filterMap exportDecl)) ++ σ i ∧
         (order.foldl splice σ i).filterMap exportDecl = (own i).filterMap exportDecl := by
  induction order generalizing σ with
  | nil => intro i; simp [hσ i]
  | cons p rest ih =>
    have hne' : ∀ q ∈ rest, q.1 ≠ q.2 := fun q hq => hne q (List.mem_cons_of_mem _ hq)
    have hσ' : ∀ k, (splice σ p k).filterMap exportDecl = (own k).filterMap exportDecl := by
      intro k
      by_cases hk : k = p.1
      · simp only [splice, hk, if_true, List.filterMap_append, hσ p.2, filterMap_export_exported, List.nil_append, hσ p.1]
      · simp only [splice, hk, if_false, hσ k]
    intro i
    have := ih hne' (splice σ p) hσ' i
    simp only [List.foldl_cons]
    refine ⟨?_, this.2⟩
    rw [this.1]
    by_cases hi : i = p.1
    · subst hi
      simp [splice, hσ p.2, List.filter_append, List.flatMap_append]
    · have : ¬ (p.1 = i) := fun h => hi h.symm
      simp [splice, hi, this, List.filter_append]

/-- invariant: every module is `imported ++ own`, where `imported` consists of exported (hence private) declarations -/
theorem expand_spec (own : Mods) (order : List (Nat × Nat)) (hne : ∀ p ∈ order, p.1 ≠ p.2) :
    ∀ i, expand own order i = spec own order i ∧
         (expand own order i).filterMap exportDecl = (own i).filterMap exportDecl := by
  intro i
  exact foldl_spec own order hne own (fun _ => rfl) i

/-- **exactly the public interface, never re-exported, whatever the processing order**: the declarations module `i`
    gains are the exports of the modules it imports directly — a declaration of module `j` is visible in `i` only if
    it is `pub` in `j`'s own source and `i` imports `j` -/
theorem export_exact (own : Mods) (order : List (Nat × Nat)) (hne : ∀ p ∈ order, p.1 ≠ p.2) (i : Nat) (d : Decl) :
    d ∈ expand own order i ↔
      d ∈ own i ∨ ∃ j, (i, j) ∈ order ∧ ∃ d0 ∈ own j, d0.pub = true ∧ exportDecl d0 = some d := by
  rw [(expand_spec own order hne i).1, spec]
  simp only [List.mem_append, List.mem_flatMap, List.mem_filter, List.mem_reverse, List.mem_filterMap,
    decide_eq_true_eq]
  constructor
  · rintro (⟨p, ⟨hp, hpi⟩, d0, hd0, he⟩ | h)
    · right
      refine ⟨p.2, ?_, d0, hd0, ?_, he⟩
      · have : p = (i, p.2) := by cases p; simp_all
        rw [← this]; exact hp
      · unfold exportDecl at he; split at he <;> simp_all
    · left; exact h
  · rintro (h | ⟨j, hj, d0, hd0, _, he⟩)
    · right; exact h
    · left; exact ⟨(i, j), ⟨hj, rfl⟩, d0, hd0, he⟩

/-- **order independence**: two processing orders of the same set of import pairs give every module the same
    declarations (as a multiset: only the order of the spliced block differs) -/
theorem order_irrelevant (own : Mods) (o1 o2 : List (Nat × Nat)) (hperm : o1.Perm o2)
    (hne : ∀ p ∈ o1, p.1 ≠ p.2) (i : Nat) : (expand own o1 i).Perm (expand own o2 i) := by
  have hne2 : ∀ p ∈ o2, p.1 ≠ p.2 := fun p hp => hne p (hperm.mem_iff.mpr hp)
  rw [(expand_spec own o1 hne i).1, (expand_spec own o2 hne2 i).1, spec, spec]
  apply List.Perm.append_right
  apply List.Perm.flatMap_right
  apply List.Perm.filter
  exact (List.reverse_perm o1).trans (hperm.trans (List.reverse_perm o2).symm)

/-! non-vacuity: A imports B, B imports C; A sees B's public function as a head, not C's items, not B's private ones -/
example :
    let own : Mods := fun k =>
      if k = 0 then [⟨10, .function, false⟩]
      else if k = 1 then [⟨20, .function, true⟩, ⟨21, .constant, false⟩]
      else if k = 2 then [⟨30, .constant, true⟩] else []
    expand own [(1, 2), (0, 1)] 0 = [⟨20, .functionHead, false⟩, ⟨10, .function, false⟩] ∧
    expand own [(0, 1), (1, 2)] 0 = [⟨20, .functionHead, false⟩, ⟨10, .function, false⟩] := by decide

end Imports
