import PenneModel.Props.C09
import PenneModel.Lex.Quote
/-
  C19 — the token fuzzer emits only valid lexemes.  Property theorems (partial).

  `src/delta/fuzzer.rs` draws a piece per iteration.  For the pieces with unbounded payloads the theorems
  below show, for every payload, that the spelling the fuzzer formats is cut off by the reference lexer as a proper
  (non-error) token when followed by something that cannot extend it (the fuzzer's `add_space_if_necessary`
  rule): `value.to_string()`, `{value:x}`, `{value:X}`, `{value:b}` for every `u128`, each with every one of the
  eleven suffixes, and every identifier over [A-Za-z0-9_].  Fixed spellings are the complete table of
  `Lex.fixed_spellings_lex` (C14).  Not proved: string/char pieces and the composition over whole outputs; those are
  covered by the correspondence run (thousands of real outputs through both real lexers and the model).
-/
namespace Lex

/-- the requested size is reached: the generator loops until 100·len ≥ 95·capacity, capacity ≥ 1096·kb -/
theorem fuzz_size (len cap kb : Nat) (hloop : 95 * cap ≤ 100 * len) (hcap : kb * 1096 ≤ cap) : 1024 * kb ≤ len := by
  omega

theorem zero_alone (ln col off : Nat) (tail : List Char) (ht : Stops tail) :
    lexStep ln col off ('0' :: tail) =
      some ([{ tok := .dec 0, start := off, stop := off + 1, line := ln, col := col }], tail) := by
  have e2 : spanIdent tail = ([], tail) := by simpa using spanIdent_append [] tail (by simp) ht
  have hz : lexNumberZero tail = (.dec 0, 0) := by
    unfold lexNumberZero
    cases tail with
    | nil => simp [spanIdent]
    | cons c cs =>
      have hc := ht c rfl
      have hx : c ≠ 'x' := by intro h; subst h; simp [isIdentCont, isIdentStart] at hc
      have hb : c ≠ 'b' := by intro h; subst h; simp [isIdentCont, isIdentStart] at hc
      split
      · next h => simp at h; exact absurd h.1 hx
      · next h => simp at h; exact absurd h.1 hb
      · simp [e2]
  unfold lexStep
  simp [hz, isSym1, isIdentStart]

/-- `value.to_string()` for every u128 -/
theorem fuzz_decimal (ln col off n : Nat) (hlt : n < 2 ^ 128) (tail : List Char) (ht : Stops tail) :
    lexStep ln col off (Nat.toDigits 10 n ++ tail) =
      some ([{ tok := .dec n, start := off, stop := off + (Nat.toDigits 10 n).length, line := ln, col := col }], tail) := by
  cases n with
  | zero => simpa using zero_alone ln col off tail ht
  | succ k => exact decimal_roundtrip ln col off (k + 1) (by omega) hlt tail ht

/-- upper-case hexadecimal digits (`{value:X}`) -/
def upperHex (c : Char) : Char := if 'a' ≤ c ∧ c ≤ 'f' then Char.ofNat (c.toNat - 32) else c

theorem upperHex_digitChar : ∀ d, d < 16 →
    hexVal (upperHex (Nat.digitChar d)) = d ∧ isHex (upperHex (Nat.digitChar d)) = true := by decide

theorem valueOf_upper (n : Nat) : valueOf 16 ((Nat.toDigits 16 n).map upperHex) = n := by
  induction n using Nat.strongRecOn with
  | _ n ih =>
    rw [Nat.toDigits_eq_if (by decide)]
    split
    · next h => simp [valueOf, (upperHex_digitChar n h).1]
    · next h =>
      rw [List.map_append, valueOf_append, ih _ (Nat.div_lt_self (by omega) (by decide))]
      simp only [List.map_cons, List.map_nil, List.foldl_cons, List.foldl_nil]
      rw [(upperHex_digitChar _ (Nat.mod_lt n (by decide))).1]
      omega

theorem upper_class (n : Nat) : ∀ c ∈ (Nat.toDigits 16 n).map upperHex, isHex c = true := by
  intro c hc
  simp only [List.mem_map] at hc
  obtain ⟨d, hd, rfl⟩ := hc
  induction n using Nat.strongRecOn generalizing d with
  | _ n ih =>
    rw [Nat.toDigits_eq_if (by decide)] at hd
    split at hd
    · next h => simp at hd; subst hd; exact (upperHex_digitChar n h).2
    · next h =>
      simp only [List.mem_append, List.mem_singleton] at hd
      rcases hd with hd | hd
      · exact ih _ (Nat.div_lt_self (by omega) (by decide)) d hd
      · subst hd; exact (upperHex_digitChar _ (Nat.mod_lt n (by decide))).2

/-- `0x{value:X}` for every u128 -/
theorem fuzz_hex_upper (ln col off n : Nat) (hlt : n < 2 ^ 128) (tail : List Char) (ht : Stops tail) :
    lexStep ln col off ('0' :: 'x' :: ((Nat.toDigits 16 n).map upperHex ++ tail)) =
      some ([{ tok := .bit n, start := off, stop := off + (1 + (1 + (Nat.toDigits 16 n).length)), line := ln, col := col }], tail) := by
  have hne : (Nat.toDigits 16 n).map upperHex ≠ [] := by simp [Nat.toDigits_ne_nil]
  have := lexStep_hex ln col off _ _ tail (withSep_refl _) hne (upper_class n) ht (by rw [valueOf_upper]; exact hlt)
  rw [valueOf_upper] at this
  simpa using this

/-- suffixed pieces: every value, every suffix, decimal spelling -/
theorem fuzz_decimal_suffixed (ln col off n : Nat) (hn : 0 < n) (hlt : n < 2 ^ 128) (sfx tail : List Char) (t : Ty)
    (hs : (sfx, t) ∈ suffixes) (ht : Stops tail) :
    lexStep ln col off (Nat.toDigits 10 n ++ (sfx ++ tail)) =
      some ([{ tok := .suf n t, start := off, stop := off + ((Nat.toDigits 10 n).length + sfx.length), line := ln, col := col }], tail) := by
  obtain ⟨c, ds, e, hc⟩ := toDigits_head n hn
  have hcls := toDigits_class 10 (by decide) isDigit (fun d hd => isDigit_digitChar d hd) n
  have hv := valueOf_toDigits 10 (by decide) (by decide) n
  rw [e] at hcls hv ⊢
  have hds : ∀ d ∈ ds, isDigit d = true := fun d hd => hcls d (List.mem_cons_of_mem _ hd)
  have := lexStep_decimal_suffix ln col off c ds ds sfx tail t hc (withSep_refl ds) hds hs ht (by rw [hv]; exact hlt)
  rw [hv] at this
  simpa [Nat.add_comm, Nat.add_assoc, Nat.add_left_comm] using this

/-- suffixed pieces, hexadecimal and binary spellings -/
theorem fuzz_hex_suffixed (ln col off n : Nat) (hlt : n < 2 ^ 128) (sfx tail : List Char) (t : Ty)
    (hs : (sfx, t) ∈ suffixes) (ht : Stops tail) :
    ∃ stop, lexStep ln col off ('0' :: 'x' :: (Nat.toDigits 16 n ++ (sfx ++ tail))) =
      some ([{ tok := .suf n t, start := off, stop := stop, line := ln, col := col }], tail) := by
  have hcls := toDigits_class 16 (by decide) isHex (fun d hd => isHex_digitChar d hd) n
  have hv := valueOf_toDigits 16 (by decide) (by decide) n
  have := lexStep_hex_suffix ln col off _ _ sfx tail t (withSep_refl (Nat.toDigits 16 n)) Nat.toDigits_ne_nil hcls hs ht
    (by rw [hv]; exact hlt)
  rw [hv] at this
  exact ⟨_, this⟩

theorem fuzz_bin_suffixed (ln col off n : Nat) (hlt : n < 2 ^ 128) (sfx tail : List Char) (t : Ty)
    (hs : (sfx, t) ∈ suffixes) (ht : Stops tail) :
    ∃ stop, lexStep ln col off ('0' :: 'b' :: (Nat.toDigits 2 n ++ (sfx ++ tail))) =
      some ([{ tok := .suf n t, start := off, stop := stop, line := ln, col := col }], tail) := by
  have hcls := toDigits_class 2 (by decide) isBin (fun d hd => isBin_digitChar d hd) n
  have hv := valueOf_toDigits 2 (by decide) (by decide) n
  have := lexStep_bin_suffix ln col off _ _ sfx tail t (withSep_refl (Nat.toDigits 2 n)) Nat.toDigits_ne_nil hcls hs ht
    (by rw [hv]; exact hlt)
  rw [hv] at this
  exact ⟨_, this⟩

/-! ### Composition: whole outputs

`Lex/Safe.lean` models how `fill_to_capacity_with_tokens` assembles its output (`emit`: blanks, the extra space of
`add_space_if_necessary`, the piece; a line may end in a `//` comment) and proves that every line it can assemble lexes
without error tokens, whatever is drawn and however symbols end up glued (`emit_safe2`, `safe_noErr`).  Below: every piece
the fuzzer can draw is a `PieceOK` piece — for every payload — and the theorem for whole outputs. -/

theorem keywords_notErr : keywords.all (fun p => !p.2.isErr) = true := by decide +kernel

theorem lookupKw_notErr (s : List Char) (t : Tok) (h : lookupKw s = some t) : t.isErr = false := by
  unfold lookupKw at h
  cases hf : keywords.find? (fun p => p.1 == s) with
  | none => rw [hf] at h; cases h
  | some p =>
    rw [hf] at h
    simp only [Option.map_some, Option.some.injEq] at h
    have := List.all_eq_true.1 keywords_notErr p (List.mem_of_find?_eq_some hf)
    rw [h] at this
    simpa using this

/-- anything shaped like an identifier is a word: an identifier, a keyword, a type name, `true`/`false`, `_` — or, followed
    by `!`, a builtin -/
theorem wordLex_ident (x : Char) (xs : List Char) (hx : isIdentStart x = true) (hxs : ∀ c ∈ xs, isIdentCont c = true) :
    WordLex (x :: xs) := by
  intro tail ht
  obtain ⟨h1, h2, h3⟩ := identStart_facts x hx
  have hs := spanIdent_append xs tail hxs ht
  cases hk : lookupKw (x :: xs) with
  | some t =>
    left
    intro ln col off
    refine ⟨{ tok := t, start := off, stop := off + (x :: xs).length, line := ln, col := col }, lookupKw_notErr _ t hk, ?_⟩
    simp only [List.cons_append]
    unfold lexStep
    simp only [h1, h2, h3, hx, hs, hk, Bool.false_eq_true, if_false, if_true, Bool.false_and]
  | none =>
    by_cases hb : ∃ tail', tail = '!' :: tail'
    · obtain ⟨tail', rfl⟩ := hb
      right
      refine ⟨tail', rfl, ?_⟩
      intro ln col off
      refine ⟨{ tok := .builtin (x :: xs), start := off, stop := off + ((x :: xs).length + 1), line := ln, col := col }, rfl, ?_⟩
      simp only [List.cons_append]
      unfold lexStep
      simp only [h1, h2, h3, hx, hs, hk, Bool.false_eq_true, if_false, if_true, Bool.false_and]
    · left
      intro ln col off
      refine ⟨{ tok := .ident (x :: xs), start := off, stop := off + (x :: xs).length, line := ln, col := col }, rfl, ?_⟩
      have hb' : ∀ rest, tail ≠ '!' :: rest := fun rest he => hb ⟨rest, he⟩
      simp only [List.cons_append]
      unfold lexStep
      simp only [h1, h2, h3, hx, hs, hk, Bool.false_eq_true, if_false, if_true, Bool.false_and]

theorem wordLex_of_step (w : List Char)
    (h : ∀ tail, Stops tail → ∀ ln col off, ∃ t : LTok, t.tok.isErr = false ∧ lexStep ln col off (w ++ tail) = some ([t], tail)) :
    WordLex w := fun tail ht => Or.inl (h tail ht)

theorem pieceOK_word (bl w : List Char) (hbl : ∀ c ∈ bl, isBlank c = true) (hw : WordLex w) (hne : w ≠ [])
    (hall : ∀ c ∈ w, isIdentCont c = true) : PieceOK ⟨bl, w, true⟩ := by
  cases hw' : w with
  | nil => exact absurd hw' hne
  | cons x xs =>
    rw [← hw']
    refine PieceOK.word bl w x xs hbl hw hw' (hall x (by rw [hw']; exact List.mem_cons_self)) ?_
    intro c hc
    exact hall c (List.mem_of_getLast? hc)

/-- `Identifier`, `ValueTypeKeyword`, `BoolLiteral`, and every keyword or `_` of the default arm -/
theorem piece_identifier (bl : List Char) (x : Char) (xs : List Char) (hbl : ∀ c ∈ bl, isBlank c = true)
    (hx : isIdentStart x = true) (hxs : ∀ c ∈ xs, isIdentCont c = true) : PieceOK ⟨bl, x :: xs, true⟩ := by
  refine pieceOK_word bl _ hbl (wordLex_ident x xs hx hxs) (by simp) ?_
  intro c hc
  simp only [List.mem_cons] at hc
  rcases hc with rfl | hc
  · unfold isIdentCont; simp [hx]
  · exact hxs c hc

/-- `Builtin` -/
theorem piece_builtin (bl : List Char) (x : Char) (xs : List Char) (hbl : ∀ c ∈ bl, isBlank c = true)
    (hx : isIdentStart x = true) (hxs : ∀ c ∈ xs, isIdentCont c = true) (hk : lookupKw (x :: xs) = none) :
    PieceOK ⟨bl, x :: xs ++ ['!'], true⟩ := by
  refine PieceOK.closed bl _ x (xs ++ ['!']) true hbl ?_ rfl (identStart_facts x hx).2.2 (by intro h; cases h)
  intro tail ln col off
  have := (lexemeP_builtin x xs hx hxs hk).2 ln col off tail trivial
  exact ⟨_, rfl, this⟩

theorem digits_identCont (b : Nat) (hb : 1 < b) (hb16 : b ≤ 16) (n : Nat) : ∀ c ∈ Nat.toDigits b n, isIdentCont c = true := by
  intro c hc
  exact isHex_identCont c (toDigits_class b hb isHex (fun d hd => isHex_digitChar d (by omega)) n c hc)

/-- `NakedDecimal`: `value.to_string()` for every u128 -/
theorem piece_decimal (bl : List Char) (n : Nat) (hbl : ∀ c ∈ bl, isBlank c = true) (hlt : n < 2 ^ 128) :
    PieceOK ⟨bl, Nat.toDigits 10 n, true⟩ :=
  pieceOK_word bl _ hbl (wordLex_of_step _ (fun tail ht ln col off => ⟨_, rfl, fuzz_decimal ln col off n hlt tail ht⟩))
    Nat.toDigits_ne_nil (digits_identCont 10 (by decide) (by decide) n)

/-- `BitInteger`: `0x{value:x}`, `0x{value:X}`, `0b{value:b}` -/
theorem piece_hex_lower (bl : List Char) (n : Nat) (hbl : ∀ c ∈ bl, isBlank c = true) (hlt : n < 2 ^ 128) :
    PieceOK ⟨bl, '0' :: 'x' :: Nat.toDigits 16 n, true⟩ := by
  refine pieceOK_word bl _ hbl (wordLex_of_step _ (fun tail ht ln col off => ⟨_, rfl, hex_roundtrip ln col off n hlt tail ht⟩)) (by simp) ?_
  intro c hc
  simp only [List.mem_cons] at hc
  rcases hc with rfl | rfl | hc
  · decide
  · decide
  · exact digits_identCont 16 (by decide) (by decide) n c hc

theorem piece_hex_upper (bl : List Char) (n : Nat) (hbl : ∀ c ∈ bl, isBlank c = true) (hlt : n < 2 ^ 128) :
    PieceOK ⟨bl, '0' :: 'x' :: (Nat.toDigits 16 n).map upperHex, true⟩ := by
  refine pieceOK_word bl _ hbl (wordLex_of_step _ (fun tail ht ln col off => ⟨_, rfl, fuzz_hex_upper ln col off n hlt tail ht⟩)) (by simp) ?_
  intro c hc
  simp only [List.mem_cons] at hc
  rcases hc with rfl | rfl | hc
  · decide
  · decide
  · exact isHex_identCont c (upper_class n c hc)

theorem piece_bin (bl : List Char) (n : Nat) (hbl : ∀ c ∈ bl, isBlank c = true) (hlt : n < 2 ^ 128) :
    PieceOK ⟨bl, '0' :: 'b' :: Nat.toDigits 2 n, true⟩ := by
  refine pieceOK_word bl _ hbl (wordLex_of_step _ (fun tail ht ln col off => ⟨_, rfl, bin_roundtrip ln col off n hlt tail ht⟩)) (by simp) ?_
  intro c hc
  simp only [List.mem_cons] at hc
  rcases hc with rfl | rfl | hc
  · decide
  · decide
  · exact digits_identCont 2 (by decide) (by decide) n c hc

theorem suffix_identCont (sfx : List Char) (t : Ty) (hs : (sfx, t) ∈ suffixes) : ∀ c ∈ sfx, isIdentCont c = true :=
  suffix_table_ident (sfx, t) hs

theorem suffix_head_not_xb : ∀ p ∈ suffixes, p.1.head? ≠ some 'x' ∧ p.1.head? ≠ some 'b' := by decide

/-- `0` with a suffix (`0u8`): the fuzzer draws the value 0 one time in five -/
theorem fuzz_zero_suffixed (ln col off : Nat) (sfx tail : List Char) (t : Ty) (hs : (sfx, t) ∈ suffixes) (ht : Stops tail) :
    lexStep ln col off ('0' :: (sfx ++ tail)) =
      some ([{ tok := .suf 0 t, start := off, stop := off + (1 + sfx.length), line := ln, col := col }], tail) := by
  have hsp := spanIdent_append sfx tail (suffix_identCont sfx t hs) ht
  have hps := suffix_table_sound (sfx, t) hs
  have hne := suffix_table_nonempty (sfx, t) hs
  have hxb := suffix_head_not_xb (sfx, t) hs
  simp only at hps hne hxb
  have hz : lexNumberZero (sfx ++ tail) = (.suf 0 t, sfx.length) := by
    cases hsf : sfx with
    | nil => exact absurd hsf hne
    | cons c cs =>
      rw [hsf] at hsp hps hxb
      have hcx : c ≠ 'x' := fun he => hxb.1 (by rw [he]; rfl)
      have hcb : c ≠ 'b' := fun he => hxb.2 (by rw [he]; rfl)
      simp only [List.cons_append] at hsp ⊢
      unfold lexNumberZero
      split
      · next h => simp at h; exact absurd h.1 hcx
      · next h => simp at h; exact absurd h.1 hcb
      · simp [hsp, hps]
  unfold lexStep
  simp [hz, isSym1, isIdentStart, drop_len_append]

theorem fuzz_hex_upper_suffixed (ln col off n : Nat) (hlt : n < 2 ^ 128) (sfx tail : List Char) (t : Ty)
    (hs : (sfx, t) ∈ suffixes) (ht : Stops tail) :
    ∃ stop, lexStep ln col off ('0' :: 'x' :: ((Nat.toDigits 16 n).map upperHex ++ (sfx ++ tail))) =
      some ([{ tok := .suf n t, start := off, stop := stop, line := ln, col := col }], tail) := by
  have hne : (Nat.toDigits 16 n).map upperHex ≠ [] := by simp [Nat.toDigits_ne_nil]
  have := lexStep_hex_suffix ln col off _ _ sfx tail t (withSep_refl _) hne (upper_class n) hs ht (by rw [valueOf_upper]; exact hlt)
  rw [valueOf_upper] at this
  exact ⟨_, this⟩

/-- `SuffixedInteger`: every value in decimal / `0x…` (either case) / `0b…`, with every one of the eleven suffixes -/
theorem piece_decimal_suffixed (bl : List Char) (n : Nat) (sfx : List Char) (t : Ty) (hbl : ∀ c ∈ bl, isBlank c = true)
    (hlt : n < 2 ^ 128) (hs : (sfx, t) ∈ suffixes) : PieceOK ⟨bl, Nat.toDigits 10 n ++ sfx, true⟩ := by
  refine pieceOK_word bl _ hbl (wordLex_of_step _ ?_) (by simp [Nat.toDigits_ne_nil]) ?_
  · intro tail ht ln col off
    rw [List.append_assoc]
    cases n with
    | zero => exact ⟨_, rfl, by simpa using fuzz_zero_suffixed ln col off sfx tail t hs ht⟩
    | succ k => exact ⟨_, rfl, fuzz_decimal_suffixed ln col off (k + 1) (by omega) hlt sfx tail t hs ht⟩
  · intro c hc
    rcases List.mem_append.1 hc with hc | hc
    · exact digits_identCont 10 (by decide) (by decide) n c hc
    · exact suffix_identCont sfx t hs c hc

theorem piece_hex_lower_suffixed (bl : List Char) (n : Nat) (sfx : List Char) (t : Ty) (hbl : ∀ c ∈ bl, isBlank c = true)
    (hlt : n < 2 ^ 128) (hs : (sfx, t) ∈ suffixes) : PieceOK ⟨bl, '0' :: 'x' :: (Nat.toDigits 16 n ++ sfx), true⟩ := by
  refine pieceOK_word bl _ hbl (wordLex_of_step _ ?_) (by simp) ?_
  · intro tail ht ln col off
    obtain ⟨stop, h⟩ := fuzz_hex_suffixed ln col off n hlt sfx tail t hs ht
    exact ⟨_, rfl, by simpa [List.append_assoc] using h⟩
  · intro c hc
    simp only [List.mem_cons, List.mem_append] at hc
    rcases hc with rfl | rfl | hc | hc
    · decide
    · decide
    · exact digits_identCont 16 (by decide) (by decide) n c hc
    · exact suffix_identCont sfx t hs c hc

theorem piece_hex_upper_suffixed (bl : List Char) (n : Nat) (sfx : List Char) (t : Ty) (hbl : ∀ c ∈ bl, isBlank c = true)
    (hlt : n < 2 ^ 128) (hs : (sfx, t) ∈ suffixes) : PieceOK ⟨bl, '0' :: 'x' :: ((Nat.toDigits 16 n).map upperHex ++ sfx), true⟩ := by
  refine pieceOK_word bl _ hbl (wordLex_of_step _ ?_) (by simp) ?_
  · intro tail ht ln col off
    obtain ⟨stop, h⟩ := fuzz_hex_upper_suffixed ln col off n hlt sfx tail t hs ht
    exact ⟨_, rfl, by simpa [List.append_assoc] using h⟩
  · intro c hc
    simp only [List.mem_cons, List.mem_append] at hc
    rcases hc with rfl | rfl | hc | hc
    · decide
    · decide
    · exact isHex_identCont c (upper_class n c hc)
    · exact suffix_identCont sfx t hs c hc

theorem piece_bin_suffixed (bl : List Char) (n : Nat) (sfx : List Char) (t : Ty) (hbl : ∀ c ∈ bl, isBlank c = true)
    (hlt : n < 2 ^ 128) (hs : (sfx, t) ∈ suffixes) : PieceOK ⟨bl, '0' :: 'b' :: (Nat.toDigits 2 n ++ sfx), true⟩ := by
  refine pieceOK_word bl _ hbl (wordLex_of_step _ ?_) (by simp) ?_
  · intro tail ht ln col off
    obtain ⟨stop, h⟩ := fuzz_bin_suffixed ln col off n hlt sfx tail t hs ht
    exact ⟨_, rfl, by simpa [List.append_assoc] using h⟩
  · intro c hc
    simp only [List.mem_cons, List.mem_append] at hc
    rcases hc with rfl | rfl | hc | hc
    · decide
    · decide
    · exact digits_identCont 2 (by decide) (by decide) n c hc
    · exact suffix_identCont sfx t hs c hc

/-- punctuation of the default arm, `{` and `}` -/
theorem piece_symbol (bl s : List Char) (x : Char) (xs : List Char) (hbl : ∀ c ∈ bl, isBlank c = true) (hs : s = x :: xs)
    (hall : ∀ c ∈ s, isSym1 c = true) : PieceOK ⟨bl, s, false⟩ :=
  PieceOK.sym bl s x xs hbl hs hall

/-- `StringLiteral`: any run of printable characters, simple escapes, `\xHH`, `\u{…}` and raw non-ASCII characters -/
theorem piece_string (bl : List Char) {sps : List Char} {bs : List Nat} {n : Nat} (hbl : ∀ c ∈ bl, isBlank c = true)
    (h : QItems '"' sps bs n) : PieceOK ⟨bl, '"' :: (sps ++ ['"']), false⟩ :=
  PieceOK.closed bl _ '"' (sps ++ ['"']) false hbl (closedLex_string h) rfl (by decide) (fun _ => by decide)

/-- `CharLiteral`: one item standing for one byte -/
theorem piece_char (bl : List Char) {sp : List Char} {b : Nat} (hbl : ∀ c ∈ bl, isBlank c = true) (h : QItem '\'' sp [b]) :
    PieceOK ⟨bl, '\'' :: (sp ++ ['\'']), false⟩ :=
  PieceOK.closed bl _ '\'' (sp ++ ['\'']) false hbl (closedLex_char h) rfl (by decide) (fun _ => by decide)

/-- one line of fuzzer output, and whether it ends with `\r\n` -/
structure FuzzLine where
  pieces : List Piece
  trailer : List Char
  crlf : Bool

def FuzzLine.toText (l : FuzzLine) : TextLine := { text := emit l.trailer none l.pieces, crlf := l.crlf }

/-- **C19, composition**: text assembled from any pieces the fuzzer can draw (`PieceOK`), with its spacing rule, line by
    line, with optional trailing comments, lexes without a single error token -/
theorem fuzz_output_no_lexical_error (ls : List FuzzLine) (hne : ls ≠ [])
    (hp : ∀ l ∈ ls, (∀ p ∈ l.pieces, PieceOK p) ∧ IsTrailer l.trailer ∧ l.toText.Plain) :
    errFree (lex (textOf (ls.map FuzzLine.toText))) := by
  apply lex_errFree
  · intro h; exact hne (List.map_eq_nil_iff.1 h)
  · intro t ht
    simp only [List.mem_map] at ht
    obtain ⟨l, hl, rfl⟩ := ht
    exact (hp l hl).2.2
  · intro t ht
    simp only [List.mem_map] at ht
    obtain ⟨l, hl, rfl⟩ := ht
    exact (emit_safe2 l.trailer (hp l hl).2.1 l.pieces (hp l hl).1 none).1.1

/-- the hypotheses are satisfiable by a line with glued symbols, escapes and a comment: `aB!=12 <<"a\n\x41"'\''//x` -/
def sampleFuzzLine : FuzzLine :=
  { crlf := false, trailer := "//x".toList, pieces := [
      ⟨[], "aB".toList, true⟩, ⟨[], "!=".toList, false⟩, ⟨[], Nat.toDigits 10 12, true⟩, ⟨[' '], ['<'], false⟩, ⟨[], ['<'], false⟩,
      ⟨[], '"' :: ("a\\n\\x41".toList ++ ['"']), false⟩, ⟨[], '\'' :: (['\\', '\''] ++ ['\'']), false⟩] }

example : sampleFuzzLine.toText.text = "aB!=12 <<\"a\\n\\x41\"'\\''//x".toList := by decide +kernel

example : (∀ p ∈ sampleFuzzLine.pieces, PieceOK p) ∧ IsTrailer sampleFuzzLine.trailer ∧ sampleFuzzLine.toText.Plain := by
  refine ⟨?_, Or.inr ⟨['x'], by decide⟩, ⟨by decide +kernel, by decide +kernel⟩⟩
  intro p hp
  simp only [sampleFuzzLine, List.mem_cons, List.mem_nil_iff, or_false] at hp
  rcases hp with rfl | rfl | rfl | rfl | rfl | rfl | rfl
  · exact piece_identifier [] 'a' ['B'] (by decide) (by decide) (by decide)
  · exact piece_symbol [] _ '!' ['='] (by decide) (by decide) (by decide)
  · exact piece_decimal [] 12 (by decide) (by decide)
  · exact piece_symbol [' '] _ '<' [] (by decide) rfl (by decide)
  · exact piece_symbol [] _ '<' [] (by decide) rfl (by decide)
  · have h : QItems '"' (['a'] ++ (['\\', 'n'] ++ (['\\', 'x', '4', '1'] ++ []))) ([('a').toNat] ++ ([10] ++ ([valueOf 16 ['4', '1']] ++ []))) 3 :=
      .cons (.plain 'a' (by decide)) (.cons (.esc 'n' 10 (by decide)) (.cons (.hex2 '4' '1' (by decide) (by decide)) .nil))
    exact piece_string [] (by decide) h
  · exact piece_char [] (by decide) (QItem.esc '\'' 39 (by decide))

end Lex
