import PenneModel.Props.C09
/-
  C19 — the token fuzzer emits only valid lexemes.  Property theorems (partial).

  `src/delta/fuzzer.rs` draws a piece per iteration.  For the pieces with unbounded payloads the theorems
  below show, for every payload, that the spelling the fuzzer formats is cut off by the reference lexer as a proper
  (non-error) token when followed by something that cannot extend it (the fuzzer's `add_space_if_necessary`
  rule): `value.to_string()`, `{value:x}`, `{value:X}`, `{value:b}` for every `u128`, each with every one of the
  eleven suffixes, and every identifier over [A-Za-z0-9_].  Fixed spellings are the complete table of
  `Lex.fixed_spellings_lex` (C14).  Not proved: string/char pieces and the composition over whole outputs; those are
  covered by the correspondence run (thousands of real outputs through both real lexers and the model).
-/
namespace Lex

/-- the requested size is reached: the generator loops until 100·len ≥ 95·capacity, capacity ≥ 1096·kb -/
theorem fuzz_size (len cap kb : Nat) (hloop : 95 * cap ≤ 100 * len) (hcap : kb * 1096 ≤ cap) : 1024 * kb ≤ len := by
  omega

theorem zero_alone (ln col off : Nat) (tail : List Char) (ht : Stops tail) :
    lexStep ln col off ('0' :: tail) =
      some ([{ tok := .dec 0, start := off, stop := off + 1, line := ln, col := col }], tail) := by
  have e2 : spanIdent tail = ([], tail) := by simpa using spanIdent_append [] tail (by simp) ht
  have hz : lexNumberZero tail = (.dec 0, 0) := by
    unfold lexNumberZero
    cases tail with
    | nil => simp [spanIdent]
    | cons c cs =>
      have hc := ht c rfl
      have hx : c ≠ 'x' := by intro h; subst h; simp [isIdentCont, isIdentStart] at hc
      have hb : c ≠ 'b' := by intro h; subst h; simp [isIdentCont, isIdentStart] at hc
      split
      · next h => simp at h; exact absurd h.1 hx
      · next h => simp at h; exact absurd h.1 hb
      · simp [e2]
  unfold lexStep
  simp [hz, isSym1, isIdentStart]

/-- `value.to_string()` for every u128 -/
theorem fuzz_decimal (ln col off n : Nat) (hlt : n < 2 ^ 128) (tail : List Char) (ht : Stops tail) :
    lexStep ln col off (Nat.toDigits 10 n ++ tail) =
      some ([{ tok := .dec n, start := off, stop := off + (Nat.toDigits 10 n).length, line := ln, col := col }], tail) := by
  cases n with
  | zero => simpa using zero_alone ln col off tail ht
  | succ k => exact decimal_roundtrip ln col off (k + 1) (by omega) hlt tail ht

/-- upper-case hexadecimal digits (`{value:X}`) -/
def upperHex (c : Char) : Char := if 'a' ≤ c ∧ c ≤ 'f' then Char.ofNat (c.toNat - 32) else c

theorem upperHex_digitChar : ∀ d, d < 16 →
    hexVal (upperHex (Nat.digitChar d)) = d ∧ isHex (upperHex (Nat.digitChar d)) = true := by decide

theorem valueOf_upper (n : Nat) : valueOf 16 ((Nat.toDigits 16 n).map upperHex) = n := by
  induction n using Nat.strongRecOn with
  | _ n ih =>
    rw [Nat.toDigits_eq_if (by decide)]
    split
    · next h => simp [valueOf, (upperHex_digitChar n h).1]
    · next h =>
      rw [List.map_append, valueOf_append, ih _ (Nat.div_lt_self (by omega) (by decide))]
      simp only [List.map_cons, List.map_nil, List.foldl_cons, List.foldl_nil]
      rw [(upperHex_digitChar _ (Nat.mod_lt n (by decide))).1]
      omega

theorem upper_class (n : Nat) : ∀ c ∈ (Nat.toDigits 16 n).map upperHex, isHex c = true := by
  intro c hc
  simp only [List.mem_map] at hc
  obtain ⟨d, hd, rfl⟩ := hc
  induction n using Nat.strongRecOn generalizing d with
  | _ n ih =>
    rw [Nat.toDigits_eq_if (by decide)] at hd
    split at hd
    · next h => simp at hd; subst hd; exact (upperHex_digitChar n h).2
    · next h =>
      simp only [List.mem_append, List.mem_singleton] at hd
      rcases hd with hd | hd
      · exact ih _ (Nat.div_lt_self (by omega) (by decide)) d hd
      · subst hd; exact (upperHex_digitChar _ (Nat.mod_lt n (by decide))).2

/-- `0x{value:X}` for every u128 -/
theorem fuzz_hex_upper (ln col off n : Nat) (hlt : n < 2 ^ 128) (tail : List Char) (ht : Stops tail) :
    lexStep ln col off ('0' :: 'x' :: ((Nat.toDigits 16 n).map upperHex ++ tail)) =
      some ([{ tok := .bit n, start := off, stop := off + (1 + (1 + (Nat.toDigits 16 n).length)), line := ln, col := col }], tail) := by
  have hne : (Nat.toDigits 16 n).map upperHex ≠ [] := by simp [Nat.toDigits_ne_nil]
  have := lexStep_hex ln col off _ _ tail (withSep_refl _) hne (upper_class n) ht (by rw [valueOf_upper]; exact hlt)
  rw [valueOf_upper] at this
  simpa using this

/-- suffixed pieces: every value, every suffix, decimal spelling -/
theorem fuzz_decimal_suffixed (ln col off n : Nat) (hn : 0 < n) (hlt : n < 2 ^ 128) (sfx tail : List Char) (t : Ty)
    (hs : (sfx, t) ∈ suffixes) (ht : Stops tail) :
    lexStep ln col off (Nat.toDigits 10 n ++ (sfx ++ tail)) =
      some ([{ tok := .suf n t, start := off, stop := off + ((Nat.toDigits 10 n).length + sfx.length), line := ln, col := col }], tail) := by
  obtain ⟨c, ds, e, hc⟩ := toDigits_head n hn
  have hcls := toDigits_class 10 (by decide) isDigit (fun d hd => isDigit_digitChar d hd) n
  have hv := valueOf_toDigits 10 (by decide) (by decide) n
  rw [e] at hcls hv ⊢
  have hds : ∀ d ∈ ds, isDigit d = true := fun d hd => hcls d (List.mem_cons_of_mem _ hd)
  have := lexStep_decimal_suffix ln col off c ds ds sfx tail t hc (withSep_refl ds) hds hs ht (by rw [hv]; exact hlt)
  rw [hv] at this
  simpa [Nat.add_comm, Nat.add_assoc, Nat.add_left_comm] using this

/-- suffixed pieces, hexadecimal and binary spellings -/
theorem fuzz_hex_suffixed (ln col off n : Nat) (hlt : n < 2 ^ 128) (sfx tail : List Char) (t : Ty)
    (hs : (sfx, t) ∈ suffixes) (ht : Stops tail) :
    ∃ stop, lexStep ln col off ('0' :: 'x' :: (Nat.toDigits 16 n ++ (sfx ++ tail))) =
      some ([{ tok := .suf n t, start := off, stop := stop, line := ln, col := col }], tail) := by
  have hcls := toDigits_class 16 (by decide) isHex (fun d hd => isHex_digitChar d hd) n
  have hv := valueOf_toDigits 16 (by decide) (by decide) n
  have := lexStep_hex_suffix ln col off _ _ sfx tail t (withSep_refl (Nat.toDigits 16 n)) Nat.toDigits_ne_nil hcls hs ht
    (by rw [hv]; exact hlt)
  rw [hv] at this
  exact ⟨_, this⟩

theorem fuzz_bin_suffixed (ln col off n : Nat) (hlt : n < 2 ^ 128) (sfx tail : List Char) (t : Ty)
    (hs : (sfx, t) ∈ suffixes) (ht : Stops tail) :
    ∃ stop, lexStep ln col off ('0' :: 'b' :: (Nat.toDigits 2 n ++ (sfx ++ tail))) =
      some ([{ tok := .suf n t, start := off, stop := stop, line := ln, col := col }], tail) := by
  have hcls := toDigits_class 2 (by decide) isBin (fun d hd => isBin_digitChar d hd) n
  have hv := valueOf_toDigits 2 (by decide) (by decide) n
  have := lexStep_bin_suffix ln col off _ _ sfx tail t (withSep_refl (Nat.toDigits 2 n)) Nat.toDigits_ne_nil hcls hs ht
    (by rw [hv]; exact hlt)
  rw [hv] at this
  exact ⟨_, this⟩

end Lex
