import PenneModel.Types.Ops
import PenneModel.Types.AgreeLemmas
/-
  C07 — no implicit conversions: ill-typed programs are rejected.  Property theorems over the complete operator ×
  type tables (every operator, every operand type: thirteen primitives, pointers, everything else).
-/
namespace Types

/-- **both operands must have the identical type**: a binary operator or comparison is accepted only if its two
    operand types are equal — there is no implicit conversion between any two distinct types -/
theorem no_implicit_conversion (op : Op) (l r : OT) (h : binaryVerdict op l r = 0) : l = r := by
  unfold binaryVerdict at h
  by_cases hlr : l = r
  · exact hlr
  · simp [hlr] at h

/-- differing operand types are always E551, whatever the operator -/
theorem mismatch_is_E551 (op : Op) (l r : OT) (h : l ≠ r) : binaryVerdict op l r = 551 := by
  simp [binaryVerdict, h]

/-- the operand is a primitive satisfying `pred` -/
def primWith (pred : Prim → Bool) : OT → Bool
  | .prim p => pred p
  | _ => false

theorem allPrims_complete (p : Prim) : p ∈ allPrims := by cases p <;> decide

/-- no operator other than `==` / `!=` accepts a pointer, and none accepts an aggregate -/
theorem pointer_only_equality (op : Op) (t : OT) (h : validFor op (.pointer t) = true) : op = .eq ∨ op = .ne := by
  cases op <;> simp [validFor] at h ⊢

theorem other_never (op : Op) : validFor op .other = false := by
  cases op <;> simp [validFor]

theorem op_classes_prim :
    (∀ op ∈ [Op.add, .sub, .mul, .div, .mod], ∀ p ∈ allPrims, validFor op (.prim p) = true →
        (isIntegral p || p == .char8) = true) ∧
    (∀ op ∈ [Op.band, .bor, .bxor, .shl, .shr], ∀ p ∈ allPrims, validFor op (.prim p) = true → isFixedUnsigned p = true) ∧
    (∀ p ∈ allPrims, validFor .neg (.prim p) = true → isSignedP p = true) ∧
    (∀ p ∈ allPrims, validFor .compl (.prim p) = true → (isFixedUnsigned p || p == .bool) = true) := by
  refine ⟨?_, ?_, ?_, ?_⟩ <;> decide

/-- **operator classes**, for every operand type: arithmetic only on integers and char8; bitwise and shift only on
    the fixed-width unsigned integers; negation only on signed integers; complement on fixed-width unsigned integers
    and bool; ordering never on pointers; nothing at all on aggregates -/
theorem op_classes :
    (∀ op ∈ [Op.add, .sub, .mul, .div, .mod], ∀ t, validFor op t = true →
        primWith (fun p => isIntegral p || p == .char8) t = true) ∧
    (∀ op ∈ [Op.band, .bor, .bxor, .shl, .shr], ∀ t, validFor op t = true → primWith isFixedUnsigned t = true) ∧
    (∀ t, validFor .neg t = true → primWith isSignedP t = true) ∧
    (∀ t, validFor .compl t = true → primWith (fun p => isFixedUnsigned p || p == .bool) t = true) ∧
    (∀ op ∈ [Op.lt, .le, .gt, .ge], ∀ t, validFor op (.pointer t) = false) ∧
    (∀ op, validFor op .other = false) := by
  obtain ⟨h1, h2, h3, h4⟩ := op_classes_prim
  refine ⟨?_, ?_, ?_, ?_, ?_, other_never⟩
  · intro op hop t h
    cases t with
    | prim p => exact h1 op hop p (allPrims_complete p) h
    | pointer t => have := pointer_only_equality op t h; rcases this with rfl | rfl <;> simp at hop
    | other => simp [other_never] at h
  · intro op hop t h
    cases t with
    | prim p => exact h2 op hop p (allPrims_complete p) h
    | pointer t => have := pointer_only_equality op t h; rcases this with rfl | rfl <;> simp at hop
    | other => simp [other_never] at h
  · intro t h
    cases t with
    | prim p => exact h3 p (allPrims_complete p) h
    | pointer t => have := pointer_only_equality _ t h; simp at this
    | other => simp [other_never] at h
  · intro t h
    cases t with
    | prim p => exact h4 p (allPrims_complete p) h
    | pointer t => have := pointer_only_equality _ t h; simp at this
    | other => simp [other_never] at h
  · intro op hop t
    cases h : validFor op (.pointer t) with
    | false => rfl
    | true => have := pointer_only_equality op t h; rcases this with rfl | rfl <;> simp at hop

/-- pointers to different types are different types: `&a == &b` with `a: i32, b: u32` is E551 -/
theorem pointer_mismatch (op : Op) (s t : OT) (h : s ≠ t) : binaryVerdict op (.pointer s) (.pointer t) = 551 := by
  apply mismatch_is_E551
  intro he
  injection he with he
  exact h he

/-- **`as` only between primitive types, never into bool, never the identity**: complete 13 × 13 table -/
theorem cast_classes :
    ∀ s ∈ allPrims, ∀ d ∈ allPrims, validCast s d = true →
      s ≠ d ∧ d ≠ .bool ∧ (isIntegral d = true ∨ (s = .u8 ∧ d = .char8)) := by decide

/-- a violating operator application is always rejected with a 55x code -/
theorem violation_rejected (op : Op) (l r : OT) (h : l ≠ r ∨ validFor op l = false) :
    binaryVerdict op l r = 551 ∨ binaryVerdict op l r = 550 := by
  unfold binaryVerdict
  by_cases hlr : l = r
  · rcases h with h | h
    · exact absurd hlr h
    · simp [hlr] at h ⊢; simp [h]
  · simp [hlr]

end Types
