import PenneModel.Types.Ops
/-
  C07 — no implicit conversions: ill-typed programs are rejected.  Property theorems over the complete operator ×
  type tables (every operator, every operand type: thirteen primitives, pointers, everything else).
-/
namespace Types

/-- **both operands must have the identical type**: a binary operator or comparison is accepted only if its two
    operand types are equal — there is no implicit conversion between any two distinct types -/
theorem no_implicit_conversion (op : Op) (l r : OT) (h : binaryVerdict op l r = 0) : l = r := by
  unfold binaryVerdict at h
  by_cases hlr : l = r
  · exact hlr
  · simp [hlr] at h

/-- differing operand types are always E551, whatever the operator -/
theorem mismatch_is_E551 (op : Op) (l r : OT) (h : l ≠ r) : binaryVerdict op l r = 551 := by
  simp [binaryVerdict, h]

/-- the operand is a primitive satisfying `pred` -/
def primWith (pred : Prim → Bool) : OT → Bool
  | .prim p => pred p
  | _ => false

/-- **operator classes** (kernel-checked over the complete table): arithmetic only on integers and char8; bitwise and
    shift only on the fixed-width unsigned integers; negation only on signed integers; complement on fixed-width
    unsigned integers and bool; ordering never on pointers; nothing at all on aggregates -/
theorem op_classes :
    (∀ op ∈ [Op.add, .sub, .mul, .div, .mod], ∀ t ∈ allOTs, validFor op t = true →
        primWith (fun p => isIntegral p || p == .char8) t = true) ∧
    (∀ op ∈ [Op.band, .bor, .bxor, .shl, .shr], ∀ t ∈ allOTs, validFor op t = true →
        primWith isFixedUnsigned t = true) ∧
    (∀ t ∈ allOTs, validFor .neg t = true → primWith isSignedP t = true) ∧
    (∀ t ∈ allOTs, validFor .compl t = true → primWith (fun p => isFixedUnsigned p || p == .bool) t = true) ∧
    (∀ op ∈ [Op.lt, .le, .gt, .ge], validFor op .pointer = false) ∧
    (∀ op ∈ allOps, validFor op .other = false) := by
  refine ⟨?_, ?_, ?_, ?_, ?_, ?_⟩ <;> decide

/-- the table is complete: `allOTs` lists every operand type -/
theorem allOTs_complete (t : OT) : t ∈ allOTs := by
  cases t with
  | prim p => cases p <;> decide
  | pointer => decide
  | other => decide

/-- **`as` only between primitive types, never into bool, never the identity**: complete 13 × 13 table -/
theorem cast_classes :
    ∀ s ∈ allPrims, ∀ d ∈ allPrims, validCast s d = true →
      s ≠ d ∧ d ≠ .bool ∧ (isIntegral d = true ∨ (s = .u8 ∧ d = .char8)) := by decide

/-- a violating operator application is always rejected with a 55x code -/
theorem violation_rejected (op : Op) (l r : OT) (h : l ≠ r ∨ validFor op l = false) :
    binaryVerdict op l r = 551 ∨ binaryVerdict op l r = 550 := by
  unfold binaryVerdict
  by_cases hlr : l = r
  · rcases h with h | h
    · exact absurd hlr h
    · simp [hlr] at h ⊢; simp [h]
  · simp [hlr]

end Types
