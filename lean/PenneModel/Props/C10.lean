import PenneModel.Sem.Layout
/-
  C10 — compile-time evaluation agrees with run time.  Property theorems (layout part).
-/
namespace Layout

theorem roundUp_ge (n a : Nat) (ha : 0 < a) : n ≤ roundUp n a := by
  unfold roundUp
  have h1 := Nat.div_add_mod (n + a - 1) a
  have h2 := Nat.mod_lt (n + a - 1) ha
  have : a * ((n + a - 1) / a) = (n + a - 1) - (n + a - 1) % a := by omega
  omega

theorem roundUp_dvd (n a : Nat) : a ∣ roundUp n a := ⟨_, rfl⟩

theorem roundUp_lt (n a : Nat) (ha : 0 < a) : roundUp n a < n + a := by
  unfold roundUp
  have h1 := Nat.div_add_mod (n + a - 1) a
  have h2 := Nat.mod_lt (n + a - 1) ha
  omega

/-- `|:[N]T|` = N * `|:T|`, for every element type and every length -/
theorem sizeof_array (n : Nat) (t : LTy) : sizeOf (.arr n t) = n * sizeOf t := by
  simp [sizeOf]

mutual
/-- the types the compiler can produce: integers of 1, 2, 4, 8 or 16 bytes -/
def WF : LTy → Prop
  | .int b => b = 1 ∨ b = 2 ∨ b = 4 ∨ b = 8 ∨ b = 16
  | .bool => True
  | .ptr => True
  | .ptr32 => True
  | .arr _ t => WF t
  | .struct ms => WFs ms
def WFs : LTys → Prop
  | .nil => True
  | .cons t ts => WF t ∧ WFs ts
end

mutual
theorem alignOf_pos (t : LTy) (h : WF t) : 0 < alignOf t := by
  cases t with
  | int b => simp only [alignOf]; simp only [WF] at h; omega
  | bool => simp [alignOf]
  | ptr => simp [alignOf]
  | ptr32 => simp [alignOf]
  | arr n t => simp only [alignOf]; exact alignOf_pos t (by simpa [WF] using h)
  | struct ms => simp only [alignOf]; exact alignMax_pos ms
theorem alignMax_pos (ms : LTys) : 0 < alignMax ms := by
  cases ms with
  | nil => simp [alignMax]
  | cons t ts => simp only [alignMax]; have := alignMax_pos ts; omega
end

/-- **the stride of an array is the size of its element**: every type's size is a multiple of its alignment, so
    consecutive elements need no padding and `|:[N]T|` = N * `|:T|` is also the storage the array occupies -/
theorem align_dvd_size (t : LTy) (h : WF t) : alignOf t ∣ sizeOf t := by
  cases t with
  | int b =>
    simp only [WF] at h
    rcases h with rfl | rfl | rfl | rfl | rfl <;> simp [alignOf, sizeOf] <;> decide
  | bool => simp [alignOf, sizeOf]
  | ptr => simp [alignOf, sizeOf]
  | ptr32 => simp [alignOf, sizeOf]
  | arr n t =>
    simp only [alignOf, sizeOf]
    exact Nat.dvd_trans (align_dvd_size t (by simpa [WF] using h)) (Nat.dvd_mul_left _ _)
  | struct ms => simp only [alignOf, sizeOf]; exact roundUp_dvd _ _

/-- members never overlap and nothing is lost: the end offset is at least the start plus the member sizes -/
def sumSizes : LTys → Nat
  | .nil => 0
  | .cons t ts => sizeOf t + sumSizes ts

theorem layoutEnd_ge (ms : LTys) (h : WFs ms) (off : Nat) : off + sumSizes ms ≤ layoutEnd off ms := by
  cases ms with
  | nil => simp [layoutEnd, sumSizes]
  | cons t ts =>
    simp only [WFs] at h
    simp only [layoutEnd, sumSizes]
    have h1 := roundUp_ge off (alignOf t) (alignOf_pos t h.1)
    have h2 := layoutEnd_ge ts h.2 (roundUp off (alignOf t) + sizeOf t)
    omega

/-- **structure sizes follow member sizes and alignment**: at least the sum of the members, padded to the
    structure's alignment -/
theorem struct_size_bounds (ms : LTys) (h : WFs ms) :
    sumSizes ms ≤ sizeOf (.struct ms) ∧ alignMax ms ∣ sizeOf (.struct ms) ∧
    sizeOf (.struct ms) < layoutEnd 0 ms + alignMax ms := by
  simp only [sizeOf]
  have h0 := layoutEnd_ge ms h 0
  have h1 := roundUp_ge (layoutEnd 0 ms) (alignMax ms) (alignMax_pos ms)
  exact ⟨by omega, roundUp_dvd _ _, roundUp_lt _ _ (alignMax_pos ms)⟩

/-! ### the typer's word size equals the generated layout (members of primitive word-member types) -/

/-- a primitive word member: an integer of 1..16 bytes (bool and char8 are 1-byte members) -/
def prim : List Nat → LTys
  | [] => .nil
  | s :: ss => .cons (.int s) (prim ss)

def PrimSizes (sizes : List Nat) : Prop := ∀ s ∈ sizes, s = 1 ∨ s = 2 ∨ s = 4 ∨ s = 8 ∨ s = 16

theorem typerAlign_eq (s : Nat) (h : s = 1 ∨ s = 2 ∨ s = 4 ∨ s = 8 ∨ s = 16) : typerAlign s = alignOf (.int s) := by
  rcases h with rfl | rfl | rfl | rfl | rfl <;> decide

theorem typerEnd_eq (sizes : List Nat) (h : PrimSizes sizes) (off : Nat) :
    typerEnd off sizes = layoutEnd off (prim sizes) := by
  induction sizes generalizing off with
  | nil => rfl
  | cons s ss ih =>
    have hs := h s (List.mem_cons_self)
    have hss : PrimSizes ss := fun x hx => h x (List.mem_cons_of_mem _ hx)
    simp only [typerEnd, prim, layoutEnd, typerAlign_eq s hs, sizeOf]
    exact ih hss _

theorem typerMaxAlign_eq (sizes : List Nat) (h : PrimSizes sizes) : typerMaxAlign sizes = alignMax (prim sizes) := by
  induction sizes with
  | nil => rfl
  | cons s ss ih =>
    have hs := h s (List.mem_cons_self)
    have hss : PrimSizes ss := fun x hx => h x (List.mem_cons_of_mem _ hx)
    simp only [typerMaxAlign, prim, alignMax, typerAlign_eq s hs, ih hss]

/-- **two algorithms, one answer**: for every list of primitive word members the size the typer checks against the
    declared word size is exactly the size of the structure the generator lays out -/
theorem word_layout_agree (sizes : List Nat) (h : PrimSizes sizes) :
    typerWordSize sizes = sizeOf (.struct (prim sizes)) := by
  simp only [typerWordSize, sizeOf, typerEnd_eq sizes h, typerMaxAlign_eq sizes h]

/-- hence an accepted word (typer size ≤ declared size) really fits its declared size -/
theorem word_fits (sizes : List Nat) (h : PrimSizes sizes) (declared : Nat) (hacc : typerWordSize sizes ≤ declared) :
    sizeOf (.struct (prim sizes)) ≤ declared := by
  rw [← word_layout_agree sizes h]; exact hacc

/-! non-vacuity: the sizes observed on the real compiler -/
example : sizeOf (.struct (.cons (.int 1) (.cons (.int 16) .nil))) = 24 := by decide
example : sizeOf (.arr 3 (.struct (.cons (.int 1) (.cons (.int 8) (.cons (.int 1) .nil))))) = 72 := by decide
example : typerWordSize [1, 2] = 4 ∧ PrimSizes [1, 2] := by
  refine ⟨by decide, ?_⟩; intro s hs; simp at hs; omega

end Layout
