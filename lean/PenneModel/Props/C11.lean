import PenneModel.Types.ValueType
import PenneModel.Decls.Order
import PenneModel.Sem.Order
/-
  C11 — top-level declarations are order-independent and must be well-formed.  Property theorems.
-/
namespace Types

/-- immediate sub-term relation on types -/
inductive Child : VT → VT → Prop
  | array (t) : Child t (.array t)
  | slice (t) : Child t (.slice t)
  | slicePtr (t) : Child t (.slicePtr t)
  | endless (t) : Child t (.endless t)
  | arraylike (t) : Child t (.arraylike t)
  | pointer (t) : Child t (.pointer t)
  | view (t) : Child t (.view t)

/-- proper sub-term, any depth -/
inductive Inside : VT → VT → Prop
  | child {s t} : Child s t → Inside s t
  | step {s t u} : Inside s t → Child t u → Inside s u

theorem inner_of_child (s t : VT) (h : Child s t) (hw : isWellformed t = true ∨ isWellformedInner t = true) :
    isWellformedInner s = true := by
  cases h <;> rcases hw with hw | hw <;> simp_all [isWellformed, isWellformedInner]

theorem inside_inner (s t : VT) (h : Inside s t) (hw : isWellformed t = true ∨ isWellformedInner t = true) :
    isWellformedInner s = true := by
  induction h with
  | child hc => exact inner_of_child _ _ hc hw
  | step _ hc ih => exact ih (Or.inr (inner_of_child _ _ hc hw))

/-- **no illegal type hides at any depth**: in a well-formed type every proper sub-term — however deeply nested —
    is itself inner-well-formed: it is not `void`, not a slice, not a slice pointer and not a view (those may only be
    the outermost constructor) -/
theorem wellformed_inside (s t : VT) (hw : isWellformed t = true) (h : Inside s t) :
    isWellformedInner s = true ∧ s ≠ .void ∧ (∀ e, s ≠ .slice e) ∧ (∀ e, s ≠ .slicePtr e) ∧ (∀ e, s ≠ .view e) := by
  have key : isWellformedInner s = true := inside_inner s t h (Or.inl hw)
  refine ⟨key, ?_, ?_, ?_, ?_⟩
  · intro he; subst he; simp [isWellformedInner] at key
  · intro e he; subst he; simp [isWellformedInner] at key
  · intro e he; subst he; simp [isWellformedInner] at key
  · intro e he; subst he; simp [isWellformedInner] at key

/-- whatever the position, an accepted type is well-formed (E350 is raised first) -/
theorem accepted_positions_wellformed (pos : Position) (t : VT) (h : legality pos t = 0) : isWellformed t = true := by
  unfold legality at h
  cases hw : isWellformed t
  · simp [hw] at h
  · rfl

/-- variables: never `void`, never a slice pointer / endless array / bare array-like / view -/
theorem variable_types (t : VT) (h : legality .variable t = 0) :
    t ≠ .void ∧ (∀ e, t ≠ .slicePtr e) ∧ (∀ e, t ≠ .endless e) ∧ (∀ e, t ≠ .arraylike e) ∧ (∀ e, t ≠ .view e) := by
  have hw := accepted_positions_wellformed _ _ h
  simp only [legality, hw, Bool.not_true, Bool.false_eq_true, if_false] at h
  have hv : canBeVariable t = true := by
    cases hc : canBeVariable t
    · simp [hc] at h
    · rfl
  refine ⟨?_, ?_, ?_, ?_, ?_⟩ <;> (first | (intro he; subst he; simp [canBeVariable] at hv) | (intro e he; subst he; simp [canBeVariable] at hv))

/-- the primitive types of the C ABI (README: i8..i64, u8..u64, usize; char8 is an alias of u8) -/
def abiPrim : Prim → Bool
  | .i128 | .u128 | .bool => false
  | _ => true

/-- the types `externalize_type` lets through -/
inductive ExternOk : VT → Prop
  | prim (p) : abiPrim p = true → ExternOk (.prim p)
  | pointer {t} : ExternOk t → ExternOk (.pointer t)
  | view {t} : ExternOk t → ExternOk (.view t)
  | endless {t} : ExternOk t → ExternOk (.endless t)

/-- **only ABI types in `extern` signatures**: whatever `extern` signature type is not rejected with E358 consists,
    at every depth, of pointers, views and array views of the listed primitive types -/
theorem extern_abi (t t' : VT) (h : externalize t = some t') : ExternOk t' := by
  induction t generalizing t' with
  | prim p =>
    cases p <;> simp [externalize] at h <;> (subst h; exact .prim _ rfl)
  | arraylike e ih =>
    simp only [externalize, Option.map_eq_some_iff] at h
    obtain ⟨e', he, rfl⟩ := h
    exact .endless (ih e' he)
  | pointer e ih =>
    simp only [externalize, Option.map_eq_some_iff] at h
    obtain ⟨e', he, rfl⟩ := h
    exact .pointer (ih e' he)
  | view e ih =>
    simp only [externalize, Option.map_eq_some_iff] at h
    obtain ⟨e', he, rfl⟩ := h
    exact .view (ih e' he)
  | _ => simp [externalize] at h

end Types

namespace Order

/-- reachability along the edges (one or more steps) -/
inductive Reach (E : List (Nat × Nat)) : Nat → Nat → Prop
  | edge {a b} : (a, b) ∈ E → Reach E a b
  | trans {a b c} : Reach E a b → Reach E b c → Reach E a c

theorem Reach.mono {E F : List (Nat × Nat)} (h : ∀ e ∈ E, e ∈ F) {x y : Nat} (r : Reach E x y) : Reach F x y := by
  induction r with
  | edge he => exact .edge (h _ he)
  | trans _ _ ih1 ih2 => exact .trans ih1 ih2

/-- adding one edge (a, b): the new paths are the old ones and those that go through the new edge -/
theorem reach_snoc (P : List (Nat × Nat)) (a b x y : Nat) :
    Reach (P ++ [(a, b)]) x y ↔
      Reach P x y ∨ ((x = a ∨ Reach P x a) ∧ (y = b ∨ Reach P b y)) := by
  constructor
  · intro r
    induction r with
    | edge he =>
      rename_i u v
      simp only [List.mem_append, List.mem_singleton, Prod.mk.injEq] at he
      rcases he with he | ⟨rfl, rfl⟩
      · exact Or.inl (.edge he)
      · exact Or.inr ⟨Or.inl rfl, Or.inl rfl⟩
    | trans _ _ ih1 ih2 =>
      rcases ih1 with l1 | ⟨xa, mb⟩ <;> rcases ih2 with l2 | ⟨ma, yb⟩
      · exact Or.inl (.trans l1 l2)
      · refine Or.inr ⟨Or.inr ?_, yb⟩
        rcases ma with rfl | ma
        · exact l1
        · exact .trans l1 ma
      · refine Or.inr ⟨xa, Or.inr ?_⟩
        rcases mb with rfl | mb
        · exact l2
        · exact .trans mb l2
      · exact Or.inr ⟨xa, yb⟩
  · rintro (l | ⟨xa, yb⟩)
    · exact l.mono (fun e he => List.mem_append_left _ he)
    · have hedge : Reach (P ++ [(a, b)]) a b := .edge (by simp)
      have mono : ∀ {u v}, Reach P u v → Reach (P ++ [(a, b)]) u v :=
        fun r => r.mono (fun e he => List.mem_append_left _ he)
      have h1 : Reach (P ++ [(a, b)]) x b := by
        rcases xa with rfl | xa
        · exact hedge
        · exact .trans (mono xa) hedge
      rcases yb with rfl | yb
      · exact h1
      · exact .trans h1 (mono yb)

/-- the bookkeeping invariant: `contained_ids` is exactly reachability along the edges seen so far -/
def Inv (σ : State) (P : List (Nat × Nat)) : Prop := ∀ x y, y ∈ σ x ↔ Reach P x y

def Acyclic (P : List (Nat × Nat)) : Prop := ∀ x, ¬ Reach P x x

/-- one call of `found_container_1` on a consistent, cycle-free state -/
theorem foundContainer_step (σ : State) (P : List (Nat × Nat)) (a b : Nat) (hinv : Inv σ P) (hac : Acyclic P) :
    ((foundContainer σ a b).2 = .cycle ∧ Reach (P ++ [(a, b)]) a a) ∨
    ((foundContainer σ a b).2 = .ok ∧ Inv (foundContainer σ a b).1 (P ++ [(a, b)]) ∧ Acyclic (P ++ [(a, b)])) := by
  have hna : ¬ a ∈ σ a := fun h => hac a ((hinv a a).mp h)
  unfold foundContainer
  simp only [List.contains_iff_mem, hna, if_false, if_true]
  by_cases hc : a ∈ σ a ++ b :: σ b
  · left
    simp only [hc, if_true, true_and]
    simp only [List.mem_append, List.mem_cons] at hc
    have hedge : Reach (P ++ [(a, b)]) a b := .edge (by simp)
    rcases hc with h | rfl | h
    · exact absurd h hna
    · exact hedge
    · exact .trans hedge (((hinv b a).mp h).mono (fun e he => List.mem_append_left _ he))
  · right
    simp only [hc, if_false, true_and]
    have hnb : a ≠ b ∧ ¬ Reach P b a := by
      simp only [List.mem_append, List.mem_cons, not_or] at hc
      exact ⟨hc.2.1, fun r => hc.2.2 ((hinv b a).mpr r)⟩
    constructor
    · intro x y
      rw [reach_snoc]
      by_cases hx : x = a
      · subst hx
        simp only [if_true, hc, if_false, List.mem_append, List.mem_cons, hinv x y, hinv b y]
        constructor
        · rintro (h | rfl | h)
          · exact Or.inl h
          · exact Or.inr ⟨by simp, Or.inl rfl⟩
          · exact Or.inr ⟨by simp, Or.inr h⟩
        · rintro (h | ⟨_, rfl | h⟩)
          · exact Or.inl h
          · exact Or.inr (Or.inl rfl)
          · exact Or.inr (Or.inr h)
      · simp only [hx, if_false]
        by_cases hxa : a ∈ σ x
        · simp only [hxa, if_true, List.mem_append, List.mem_cons, hinv x y, hinv b y]
          have rxa := (hinv x a).mp hxa
          constructor
          · rintro (h | rfl | h)
            · exact Or.inl h
            · exact Or.inr ⟨Or.inr rxa, Or.inl rfl⟩
            · exact Or.inr ⟨Or.inr rxa, Or.inr h⟩
          · rintro (h | ⟨_, rfl | h⟩)
            · exact Or.inl h
            · exact Or.inr (Or.inl rfl)
            · exact Or.inr (Or.inr h)
        · simp only [hxa, if_false, hinv x y]
          have nrxa : ¬ Reach P x a := fun r => hxa ((hinv x a).mpr r)
          constructor
          · exact Or.inl
          · rintro (h | ⟨h1 | h1, _⟩)
            · exact h
            · exact h1.elim
            · exact absurd h1 nrxa
    · intro x r
      rw [reach_snoc] at r
      rcases r with r | ⟨xa, xb⟩
      · exact hac x r
      · rcases xa with rfl | xa <;> rcases xb with rfl | xb
        · exact hnb.1 rfl
        · exact hnb.2 xb
        · exact hnb.2 xa
        · exact hnb.2 (.trans xb xa)

theorem run_spec (E : List (Nat × Nat)) (σ : State) (P : List (Nat × Nat)) (hinv : Inv σ P) (hac : Acyclic P) :
    run σ E ≠ [] ↔ ∃ x, Reach (P ++ E) x x := by
  induction E generalizing σ P with
  | nil => simp [run]; exact hac
  | cons e E ih =>
    obtain ⟨a, b⟩ := e
    simp only [run]
    rcases foundContainer_step σ P a b hinv hac with ⟨hc, hr⟩ | ⟨hok, hinv', hac'⟩
    · simp only [hc, if_true]
      constructor
      · intro _
        exact ⟨a, hr.mono (fun e he => by
          simp only [List.mem_append, List.mem_singleton] at he
          rcases he with he | rfl
          · exact List.mem_append_left _ he
          · exact List.mem_append_right _ (List.mem_cons_self))⟩
      · intro _; simp
    · have := ih (foundContainer σ a b).1 (P ++ [(a, b)]) hinv' hac'
      simp only [hok, List.append_assoc, List.singleton_append] at this ⊢
      simpa using this

/-- **any cycle is reported, and nothing else**: for every edge list — any number of constants and structures, any
    order of declarations — the scoper reports a cyclical container exactly when the "contains by value / uses in its
    initialiser" graph has a cycle -/
theorem cycle_detected (E : List (Nat × Nat)) : cyclical E ≠ [] ↔ ∃ x, Reach E x x := by
  have hnil : ∀ x y, ¬ Reach [] x y := by
    intro x y r
    induction r with
    | edge he => simp at he
    | trans _ _ ih1 _ => exact ih1
  have := run_spec E (fun _ => []) [] (by intro x y; simp; exact hnil x y) (fun x => hnil x x)
  simpa [cyclical] using this

/-- consequently the verdict does not depend on the order in which the declarations (edges) arrive -/
theorem cycle_perm_invariant (E F : List (Nat × Nat)) (h : E.Perm F) : (cyclical E ≠ [] ↔ cyclical F ≠ []) := by
  rw [cycle_detected, cycle_detected]
  constructor
  · rintro ⟨x, r⟩; exact ⟨x, r.mono (fun e he => h.mem_iff.mp he)⟩
  · rintro ⟨x, r⟩; exact ⟨x, r.mono (fun e he => h.mem_iff.mpr he)⟩

example : cyclical [(1, 2), (2, 3), (3, 1)] = [3] ∧ cyclical [(1, 2), (2, 3), (1, 3)] = [] := by decide

end Order


namespace Sem

/-- **behaviour does not depend on the order of the function declarations**: permuting the functions of a program (distinct
    names, as E421 guarantees) leaves the interpreter's result unchanged — output, exit status, undefined behaviour and fuel
    exhaustion alike, at every fuel (the interpreter consults the list only through lookups by name: `interp_congr`) -/
theorem function_order_irrelevant (consts : List (String × Expr)) (fns fns' : List Fn) (hp : fns.Perm fns')
    (hnd : (fns.map (·.name)).Nodup) (fuel : Nat) :
    run { consts := consts, fns := fns } fuel = run { consts := consts, fns := fns' } fuel :=
  run_perm consts fns fns' hp hnd fuel

end Sem
