/-
  C05 — no variable is used out of scope, shadowed, or with its declaration skipped.

  The property theorems live next to their lemmas:
  * Scope/VarsLemmas.lean — decision logic of one use / one declaration (`use_undefined_iff`,
    `use_skipped_iff`, `use_ok_iff`, `declare_clash_iff`) and block scoping for all bodies
    (`goStmt_stack`, `block_scoped`);
  * Scope/VarsSkip.lean — `skip_detected`: from any state with a pending `goto l`, through any
    statements, a variable declared before `l:` and used after it is always rejected.
  partial: the converse of `skip_detected` is checked by the three-way correspondence only.
-/
import PenneModel.Scope.VarsSkip
