/-
  C05 — no variable is used out of scope, shadowed, or with its declaration skipped.

  The property theorems live next to their lemmas:
  * Scope/VarsLemmas.lean — decision logic of one use / one declaration (`use_undefined_iff`,
    `use_skipped_iff`, `use_ok_iff`, `declare_clash_iff`) and block scoping for all bodies
    (`goStmt_stack`, `block_scoped`);
  * Scope/VarsSkip.lean — `skip_detected`: from any state with a pending `goto l`, through any
    statements, a variable declared before `l:` and used after it is always rejected;
  * Scope/VarsTrace.lean — the converse, `no_false_e482`: whenever the analysis of a function reports
    E482, the body contains, in textual order, a `goto l`, the declaration of the used variable, the
    label `l:` (with no other `l:` between that goto and that label) and the use — the jump skips the
    declaration and the use follows its target (history invariant `TInv`, `step_inv`).
-/
import PenneModel.Scope.VarsSkip
import PenneModel.Scope.VarsTrace

namespace Vars

/-- the premise of `no_false_e482` is satisfiable, and its conclusion is what one expects on the smallest case -/
example : 482 ∈ goFunction [] [] (.cons (.goto 1) (.cons (.decl 5 []) (.cons (.label 1) (.cons (.use [5]) .nil)))) := by
  decide

/-- and a body without the pattern is not rejected on these grounds -/
example : 482 ∉ goFunction [] [] (.cons (.decl 5 []) (.cons (.goto 1) (.cons (.label 1) (.cons (.use [5]) .nil)))) := by
  decide

end Vars
