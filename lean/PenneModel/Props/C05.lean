/-
  C05 — no variable is used out of scope, shadowed, or with its declaration skipped.

  The property theorems live next to their lemmas:
  * Scope/VarsLemmas.lean — decision logic of one use / one declaration (`use_undefined_iff`,
    `use_skipped_iff`, `use_ok_iff`, `declare_clash_iff`) and block scoping for all bodies
    (`goStmt_stack`, `block_scoped`);
  * Scope/VarsSkip.lean — `skip_detected`: from any state with a pending `goto l`, through any
    statements, a variable declared before `l:` and used after it is always rejected;
  * Scope/VarsTrace.lean — the converse, `no_false_e482`: whenever the analysis of a function reports
    E482, the body contains, in textual order, a `goto l`, the declaration of the used variable, the
    label `l:` (with no other `l:` between that goto and that label) and the use — the jump skips the
    declaration and the use follows its target (history invariant `TInv`, `step_inv`).
  * Scope/VarsDyn.lean, VarsSound.lean, VarsAccept.lean — what acceptance means for executions:
    `accepted_runs_initialised`: a function on which the variable scoper, the label scoper and the placement
    analyzer raise nothing never reaches, in any run (any outcomes of its conditions, any number of loop rounds),
    a statement that mentions a variable whose declaration has not been executed in the current activation of
    its block (`sound`: the state of the one static pass at a program point is `Good` for every run that is at
    that point; `SkipInv` for the statements a jump goes over).
-/
import PenneModel.Scope.VarsSkip
import PenneModel.Scope.VarsTrace
import PenneModel.Scope.VarsAccept
import PenneModel.Scope.VarsDynCF

namespace Vars

/-- the premise of `no_false_e482` is satisfiable, and its conclusion is what one expects on the smallest case -/
example : 482 ∈ goFunction [] [] (.cons (.goto 1) (.cons (.decl 5 []) (.cons (.label 1) (.cons (.use [5]) .nil)))) := by
  decide

/-- and a body without the pattern is not rejected on these grounds -/
example : 482 ∉ goFunction [] [] (.cons (.decl 5 []) (.cons (.goto 1) (.cons (.label 1) (.cons (.use [5]) .nil)))) := by
  decide


/-- the premises of `accepted_runs_initialised` are satisfiable by a body with a conditional forward jump over a
    declaration that is not used afterwards, a looped block left by a jump, and uses after both labels:
    `var 1; if 1 goto 9; var 2 = 1; use 2; 9: use 1; { var 3 = 1; if 3 goto 8; use 3; loop } 8: use 1` -/
def soundExample : Stmts :=
  .cons (.decl 1 []) (.cons (.ifThen [1] (.goto 9)) (.cons (.decl 2 [1]) (.cons (.use [2]) (.cons (.label 9) (.cons (.use [1])
  (.cons (.block (.cons (.decl 3 [1]) (.cons (.ifThen [3] (.goto 8)) (.cons (.use [3]) (.cons .loop .nil)))))
  (.cons (.label 8) (.cons (.use [1, 4]) .nil))))))))

example : goFunction [] [4] soundExample = [] ∧ Labels.goBody soundExample = [] ∧ Place.chkBody soundExample = [] := by
  decide

/-- and the conclusion is about real runs: this one goes round the loop twice and leaves it by the jump -/
example : Dyn.execFunction 40 [] [4] soundExample [false, false, false, true] = some (.ok [1, 2] [] .next) := by
  decide

/-- using variable 2 after the label instead is rejected (E482), and the run that jumps is indeed bad -/
example : goFunction [] [4] (.cons (.decl 1 []) (.cons (.ifThen [1] (.goto 9)) (.cons (.decl 2 [1]) (.cons (.label 9) (.cons (.use [2]) .nil))))) = [482]
    ∧ Dyn.execFunction 40 [] [4] (.cons (.decl 1 []) (.cons (.ifThen [1] (.goto 9)) (.cons (.decl 2 [1]) (.cons (.label 9) (.cons (.use [2]) .nil))))) [true] = some .bad := by
  decide

end Vars
