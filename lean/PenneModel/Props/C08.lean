import PenneModel.Mut.Model
import PenneModel.Types.AgreeLemmas
/-
  C08 — only vars and explicitly passed pointers can be mutated.  Property theorems.
-/
namespace Mut

/-- **decision logic**: a write or address-of escapes the mutability requirement on its base exactly when the
    reference passes through a pointer (an auto-dereference, or indexing an array by slice pointer) -/
theorem needs_outer_iff (steps : List Step) :
    needsOuterMutability steps = false ↔ ∃ s ∈ steps, s = .autoderef ∨ s = .desliceByPointer := by
  induction steps with
  | nil => simp [needsOuterMutability]
  | cons s rest ih =>
    cases s <;> simp [needsOuterMutability, ih]

/-- writes to constants, parameters and view-typed variables are E530 unless they go through a pointer -/
theorem write_rejected_iff (b : Base) (steps : List Step) :
    writeVerdict b steps = 530 ↔ (b ≠ .variable ∧ ∀ s ∈ steps, s ≠ .autoderef ∧ s ≠ .desliceByPointer) := by
  have h := needs_outer_iff steps
  cases hn : needsOuterMutability steps <;> cases b <;> simp [writeVerdict, isMutable, hn]
  all_goals (first
    | (have := h.mp hn; obtain ⟨s, hs, hs'⟩ := this
       exact ⟨s, hs, by rcases hs' with rfl | rfl <;> simp⟩)
    | (intro s hs
       have hne : ¬ ∃ s ∈ steps, s = Step.autoderef ∨ s = Step.desliceByPointer := by
         intro hex; have := h.mpr hex; simp [hn] at this
       exact ⟨fun he => hne ⟨s, hs, Or.inl he⟩, fun he => hne ⟨s, hs, Or.inr he⟩⟩))

/-! ### the frame property of calls -/

/-- the cells a function may legitimately change: its own mutable locals and the targets of its pointers -/
def Writable (env : List Bind) (a : Addr) : Prop := ∃ b ∈ env, b = .own a true ∨ b = .ptr a

theorem getD_set_ne (σ : Store) (t a : Nat) (v : Int) (h : a ≠ t) : (σ.set t v).getD a 0 = σ.getD a 0 := by
  simp [List.getD_eq_getElem?_getD, List.getElem?_set, Ne.symm h]

theorem getD_append_lt (σ τ : Store) (a : Nat) (h : a < σ.length) : (σ ++ τ).getD a 0 = σ.getD a 0 := by
  simp [List.getD_eq_getElem?_getD, List.getElem?_append_left h]

def argKind : Arg → Kind
  | .copy _ => .byValue
  | .addr _ => .pointer

/-- what `bindArgs` does to the store and which bindings it creates -/
theorem bindArgs_spec (env : List Bind) (args : List Arg) (σ σ1 : Store) (env' : List Bind)
    (h : bindArgs env σ args = some (σ1, env')) :
    σ.length ≤ σ1.length ∧ (∀ a, a < σ.length → σ1.getD a 0 = σ.getD a 0) ∧
    env'.map kindOf = args.map argKind ∧
    (∀ a, Writable env' a → ∃ b bd, Arg.addr b ∈ args ∧ env[b]? = some bd ∧ a = target bd) := by
  induction args generalizing σ σ1 env' with
  | nil =>
    simp only [bindArgs, Option.some.injEq, Prod.mk.injEq] at h
    obtain ⟨rfl, rfl⟩ := h
    refine ⟨Nat.le_refl _, fun _ _ => rfl, rfl, ?_⟩
    intro a ⟨b, hb, _⟩; simp at hb
  | cons arg args ih =>
    cases arg with
    | copy b =>
      simp only [bindArgs] at h
      cases hb : env[b]? with
      | none => simp [hb] at h
      | some bd =>
        simp only [hb] at h
        split at h
        · next σ' bs hr =>
          simp only [Option.some.injEq, Prod.mk.injEq] at h
          obtain ⟨rfl, rfl⟩ := h
          obtain ⟨h1, h2, h3, h4⟩ := ih _ _ _ hr
          simp only [List.length_append, List.length_singleton] at h1 h2
          refine ⟨by omega, ?_, ?_, ?_⟩
          · intro a ha
            rw [h2 a (by omega), getD_append_lt _ _ _ ha]
          · simp [kindOf, argKind, h3]
          · intro a ⟨bd', hbd', hw⟩
            simp only [List.mem_cons] at hbd'
            rcases hbd' with rfl | hbd'
            · rcases hw with hw | hw <;> simp at hw
            · obtain ⟨b', bd0, hm, he, ht⟩ := h4 a ⟨bd', hbd', hw⟩
              exact ⟨b', bd0, List.mem_cons_of_mem _ hm, he, ht⟩
        · simp at h
    | addr b =>
      simp only [bindArgs] at h
      cases hb : env[b]? with
      | none => simp [hb] at h
      | some bd =>
        simp only [hb] at h
        split at h
        · next σ' bs hr =>
          simp only [Option.some.injEq, Prod.mk.injEq] at h
          obtain ⟨rfl, rfl⟩ := h
          obtain ⟨h1, h2, h3, h4⟩ := ih _ _ _ hr
          refine ⟨h1, h2, ?_, ?_⟩
          · simp [kindOf, argKind, h3]
          · intro a ⟨bd', hbd', hw⟩
            simp only [List.mem_cons] at hbd'
            rcases hbd' with rfl | hbd'
            · rcases hw with hw | hw
              · simp at hw
              · simp only [Bind.ptr.injEq] at hw
                exact ⟨b, bd, List.mem_cons_self, hb, hw.symm⟩
            · obtain ⟨b', bd0, hm, he, ht⟩ := h4 a ⟨bd', hbd', hw⟩
              exact ⟨b', bd0, List.mem_cons_of_mem _ hm, he, ht⟩
        · simp at h

theorem writable_of_kind (env : List Bind) (kinds : List Kind) (hk : env.map kindOf = kinds) (b : Nat) (bd : Bind)
    (he : env[b]? = some bd) (hok : kinds[b]? = some .local ∨ kinds[b]? = some .pointer) : Writable env (target bd) := by
  have hmem : bd ∈ env := List.mem_of_getElem? he
  have hkb : kinds[b]? = some (kindOf bd) := by
    rw [← hk, List.getElem?_map, he]; rfl
  refine ⟨bd, hmem, ?_⟩
  cases bd with
  | own a m =>
    cases m
    · rcases hok with h | h <;> rw [hkb] at h <;> simp [kindOf] at h
    · exact Or.inl rfl
  | ptr a => exact Or.inr rfl

theorem args_kinds (kinds : List Kind) (args : List Arg) (ks : List Kind) (hl : args.length = ks.length)
    (hall : (args.zip ks).all (argOk kinds) = true) :
    args.map argKind = ks ∧
    ∀ b, Arg.addr b ∈ args → (kinds[b]? = some .local ∨ kinds[b]? = some .pointer) := by
  induction args generalizing ks with
  | nil => cases ks <;> simp_all
  | cons a as ih =>
    cases ks with
    | nil => simp at hl
    | cons k ks =>
      simp only [List.zip_cons_cons, List.all_cons, Bool.and_eq_true] at hall
      have := ih ks (by simpa using hl) hall.2
      have ha := hall.1
      cases a with
      | copy b =>
        cases k <;> simp [argOk] at ha
        refine ⟨by simp [argKind, this.1], ?_⟩
        intro b' hb'
        simp only [List.mem_cons] at hb'
        rcases hb' with h | h
        · cases h
        · exact this.2 b' h
      | addr b =>
        cases k <;> simp [argOk] at ha
        refine ⟨by simp [argKind, this.1], ?_⟩
        intro b' hb'
        simp only [List.mem_cons, Arg.addr.injEq] at hb'
        rcases hb' with rfl | h
        · split at ha <;> simp_all
        · exact this.2 b' h

theorem body_of_program (p : Program) (hp : programOk p = true) (f : Nat) (ks : List Kind) (body : List Stmt)
    (h1 : p.params[f]? = some ks) (h2 : p.bodies[f]? = some body) : bodyOk p ks body = true := by
  simp only [programOk, Bool.and_eq_true, List.all_eq_true] at hp
  have : (ks, body) ∈ p.params.zip p.bodies := by
    apply List.mem_of_getElem? (i := f)
    rw [List.getElem?_zip_eq_some]
    exact ⟨h1, h2⟩
  exact hp.2 _ this

/-- **frame property**: a function of a statically accepted program changes, among the cells that existed when it
    started, only its own mutable locals and the targets of its pointers — for every program, every nesting of calls,
    every fuel -/
theorem frame (p : Program) (hp : programOk p = true) :
    ∀ (fuel : Nat) (env : List Bind) (σ : Store) (ss : List Stmt) (σ' : Store) (kinds : List Kind),
      env.map kindOf = kinds → bodyOk p kinds ss = true → exec p fuel env σ ss = some σ' →
      σ.length ≤ σ'.length ∧ ∀ a, a < σ.length → ¬ Writable env a → σ'.getD a 0 = σ.getD a 0 := by
  intro fuel
  induction fuel with
  | zero => intro env σ ss σ' kinds _ _ h; simp [exec] at h
  | succ fuel ih =>
    intro env σ ss σ' kinds hk hok h
    cases ss with
    | nil =>
      simp only [exec, Option.some.injEq] at h
      subst h
      exact ⟨Nat.le_refl _, fun _ _ _ => rfl⟩
    | cons s ss =>
      simp only [bodyOk, Bool.and_eq_true] at hok
      cases s with
      | write b v =>
        simp only [exec] at h
        cases he : env[b]? with
        | none => simp [he] at h
        | some bd =>
          simp only [he] at h
          have hsok := hok.1
          simp only [stmtOk] at hsok
          have hw : Writable env (target bd) := by
            apply writable_of_kind env kinds hk b bd he
            split at hsok <;> simp_all
          obtain ⟨h1, h2⟩ := ih env (σ.set (target bd) v) ss σ' kinds hk hok.2 h
          simp only [List.length_set] at h1 h2
          refine ⟨h1, fun a ha hna => ?_⟩
          rw [h2 a ha hna]
          apply getD_set_ne
          intro heq; subst heq; exact hna hw
      | newLocal v =>
        simp only [exec] at h
        obtain ⟨h1, h2⟩ := ih (env ++ [.own σ.length true]) (σ ++ [v]) ss σ' (kinds ++ [.local])
          (by simp [hk, kindOf]) hok.2 h
        simp only [List.length_append, List.length_singleton] at h1 h2
        refine ⟨by omega, fun a ha hna => ?_⟩
        have hlt : a < σ.length + 1 := by omega
        have hnw : ¬ Writable (env ++ [.own σ.length true]) a := by
          intro ⟨bd, hbd, hw⟩
          simp only [List.mem_append, List.mem_singleton] at hbd
          rcases hbd with hbd | rfl
          · exact hna ⟨bd, hbd, hw⟩
          · rcases hw with hw | hw
            · injection hw with h1 _; exact absurd h1.symm (Nat.ne_of_lt ha)
            · simp at hw
        rw [h2 a hlt hnw, getD_append_lt _ _ _ ha]
      | call f args =>
        simp only [exec] at h
        have hsok := hok.1
        simp only [stmtOk] at hsok
        cases hks : p.params[f]? with
        | none => simp [hks] at hsok
        | some ks =>
          simp only [hks, Bool.and_eq_true, beq_iff_eq] at hsok
          cases hbody : p.bodies[f]? with
          | none => simp [hbody] at h
          | some body =>
            cases hba : bindArgs env σ args with
            | none => simp [hbody, hba] at h
            | some r =>
              obtain ⟨σ1, env'⟩ := r
              simp only [hbody, hba] at h
              cases hcal : exec p fuel env' σ1 body with
              | none => simp [hcal] at h
              | some σ2 =>
                simp only [hcal] at h
                obtain ⟨b1, b2, b3, b4⟩ := bindArgs_spec env args σ σ1 env' hba
                obtain ⟨k1, k2⟩ := args_kinds kinds args ks hsok.1 hsok.2
                have hbok := body_of_program p hp f ks body hks hbody
                obtain ⟨c1, c2⟩ := ih env' σ1 body σ2 ks (by rw [b3, k1]) hbok hcal
                obtain ⟨d1, d2⟩ := ih env σ2 ss σ' kinds hk hok.2 h
                refine ⟨by omega, fun a ha hna => ?_⟩
                have hl1 : a < σ1.length := by omega
                have hl2 : a < σ2.length := by omega
                have hnw : ¬ Writable env' a := by
                  intro hw'
                  obtain ⟨b, bd, hmem, hbe, hta⟩ := b4 a hw'
                  subst hta
                  exact hna (writable_of_kind env kinds hk b bd hbe (k2 b hmem))
                rw [d2 a hl2 hna, c2 a hl1 hnw, b2 a ha]

/-- **a call changes a caller's variable only if the caller wrote `&` on that argument**: after
    `call f args` every cell that existed before the call and is not the target of an `addr` argument keeps its value -/
theorem call_changes_only_addressed (p : Program) (hp : programOk p = true) (fuel : Nat) (env : List Bind) (σ σ' : Store)
    (kinds : List Kind) (f : Nat) (args : List Arg) (hk : env.map kindOf = kinds)
    (hok : stmtOk p kinds (.call f args) = true) (h : exec p fuel env σ [.call f args] = some σ')
    (a : Nat) (ha : a < σ.length)
    (hnot : ∀ b bd, Arg.addr b ∈ args → env[b]? = some bd → a ≠ target bd) : σ'.getD a 0 = σ.getD a 0 := by
  cases fuel with
  | zero => simp [exec] at h
  | succ fuel =>
    simp only [exec] at h
    simp only [stmtOk] at hok
    cases hks : p.params[f]? with
    | none => simp [hks] at hok
    | some ks =>
      simp only [hks, Bool.and_eq_true, beq_iff_eq] at hok
      cases hbody : p.bodies[f]? with
      | none => simp [hbody] at h
      | some body =>
        cases hba : bindArgs env σ args with
        | none => simp [hbody, hba] at h
        | some r =>
          obtain ⟨σ1, env'⟩ := r
          simp only [hbody, hba] at h
          cases hcal : exec p fuel env' σ1 body with
          | none => simp [hcal] at h
          | some σ2 =>
            simp only [hcal] at h
            have hσ : σ' = σ2 := by
              cases fuel with
              | zero => simp [exec] at hcal
              | succ n => simp [exec] at h; exact h.symm
            subst hσ
            obtain ⟨b1, b2, b3, b4⟩ := bindArgs_spec env args σ σ1 env' hba
            obtain ⟨k1, _⟩ := args_kinds kinds args ks hok.1 hok.2
            have hbok := body_of_program p hp f ks body hks hbody
            obtain ⟨_, c2⟩ := frame p hp fuel env' σ1 body σ' ks (by rw [b3, k1]) hbok hcal
            have hl1 : a < σ1.length := by omega
            have hnw : ¬ Writable env' a := by
              intro hw'
              obtain ⟨b, bd, hmem, hbe, hta⟩ := b4 a hw'
              exact hnot b bd hmem hbe hta
            rw [c2 a hl1 hnw, b2 a ha]

/-! non-vacuity: `f0(p: &T, v: T) { p = 7; v = 9 (rejected) }` — a caller with two locals passing `&x0, x1` -/
example :
    let p : Program := { params := [[.pointer, .byValue], []], bodies := [[.write 0 7], [.newLocal 1, .newLocal 2, .call 0 [.addr 0, .copy 1]]] }
    programOk p = true ∧ exec p 10 [] [] (p.bodies.getD 1 []) = some [7, 2, 2] := by decide

example : programOk { params := [[.byValue]], bodies := [[.write 0 7]] } = false := by decide

end Mut
