/-
  C20 — rebuilt source parses back to the same tree (and the parser half of C16).

  The rebuilder is modelled at token level (`Syn.printModule` …: one arm per node kind of
  src/alpha/rebuilder.rs, layout and the `#` markers left out), the parser by the reference parser
  `Syn.parseModule` … (the grammar of src/delta/parser.rs / src/alpha/parser.rs, tied to both real
  parsers by checks/c16.py on every run).

  `parse_print_module`: for every module whose declarations the parser can produce (`Decl.ok`: any
  number of declarations, statements, nesting depth, expression size), and any sufficient fuel,

      parseModule (printModule m) = m.map norm

  where `norm` only re-spells literals (a suffixed or character literal becomes a plain decimal or
  hexadecimal one, adjacent string pieces one literal).  So the reparsed tree is the original up to the
  spelling and suffix of literals, and `print_norm_module`: printing it again gives the same tokens (the
  second rebuild is identical).  The expression core (`Syn.parse_print_expr`, Syn/ExprRT.lean) holds at
  every precedence level with any continuation.

  partial: the pointer-advance operator `&x .. n` is excluded from `Expr.lvl` (covered by the
  correspondence runs only); layout (indentation, line breaks) is not modelled.
-/
import PenneModel.Syn.DeclRT

namespace Syn
open Flat (Kind)

/-- **modules round-trip**, any size -/
theorem parse_print_module (ds : List Decl) (hok : ∀ d ∈ ds, d.ok = true) (fuel : Nat)
    (hf : 16 * declsSize ds + 16 ≤ fuel) : parseModule fuel (printModule ds) = some (ds.map Decl.norm) :=
  module_rt ds hok fuel hf

/-- statements round-trip; an `if` without `else` must not be followed by `else` -/
theorem parse_print_stmt (s : Stmt) (hok : s.ok = true) (rest : List Tok) (fuel : Nat) (hf : s.need ≤ fuel)
    (hfollow : s.isOpen = true → kindOf rest ≠ .Else) : parseStmt fuel (printStmt s ++ rest) = some (s.norm, rest) :=
  stmt_rt s hok fuel rest hf hfollow

theorem optPrint_norm (val : Option Expr) :
    (match optNorm val with | some e => tk .Assignment :: printExpr e | none => []) =
    (match val with | some e => tk .Assignment :: printExpr e | none => []) := by
  cases val <;> simp [optNorm, print_norm]

mutual
theorem printStmt_norm : ∀ s : Stmt, printStmt s.norm = printStmt s
  | .var name ty val => by cases val <;> simp [Stmt.norm, printStmt, optNorm, print_norm]
  | .assign _ _ st e => by simp [Stmt.norm, printStmt, print_norm, printSteps_norm]
  | .mcall _ _ args => by simp [Stmt.norm, printStmt, printArgs_norm]
  | .loop => rfl
  | .goto _ => rfl
  | .label _ => rfl
  | .ifThen _ l r th => by simp [Stmt.norm, printStmt, print_norm, printStmt_norm th]
  | .ifElse _ l r th el => by simp [Stmt.norm, printStmt, print_norm, printStmt_norm th, printStmt_norm el]
  | .block ss => by simp [Stmt.norm, printStmt, printStmts_norm ss]
theorem printStmts_norm : ∀ ss : Stmts, printStmts ss.norm = printStmts ss
  | .nil => rfl
  | .cons s ss => by simp [Stmts.norm, printStmts, printStmt_norm s, printStmts_norm ss]
end

theorem printDecl_norm (d : Decl) : printDecl d.norm = printDecl d := by
  cases d with
  | imp _ => rfl
  | const _ _ _ e => simp [Decl.norm, printDecl, print_norm]
  | struct _ _ _ _ => rfl
  | fn fl name params ret body =>
    cases body with
    | none => rfl
    | some b =>
      obtain ⟨ss, rv⟩ := b
      cases rv <;> simp [Decl.norm, bodyNorm, optNorm, printDecl, printStmts_norm, print_norm]

/-- **the second rebuild is identical**: the reparsed module prints to the same tokens -/
theorem print_norm_module (ds : List Decl) : printModule (ds.map Decl.norm) = printModule ds := by
  simp [printModule, List.flatMap_map, printDecl_norm]

theorem second_rebuild_identical_module (ds : List Decl) (hok : ∀ d ∈ ds, d.ok = true) (fuel : Nat)
    (hf : 16 * declsSize ds + 16 ≤ fuel) :
    ∃ ds', parseModule fuel (printModule ds) = some ds' ∧ printModule ds' = printModule ds :=
  ⟨ds.map Decl.norm, parse_print_module ds hok fuel hf, print_norm_module ds⟩

/-- the hypotheses are satisfiable by a non-trivial module:
    `pub extern fn f(a: &[]u8) -> i32 { var x = 1u8; if a[0] == x { goto done; } else x = -2 * (x + 3); done: return: x as i32 }`
    and an opaque structure -/
example :
    (∀ d ∈ [Decl.fn { pub := true, ext := true } "f" [("a", .ptr (.arraylike (.simple "u8")))] (.simple "i32")
        (some (.cons (.var "x" none (some (.int (.suffixed "u8") 1)))
                (.cons (.ifElse .Equals (.deref 0 "a" (.elem (.int .naked 0) .nil)) (.deref 0 "x" .nil)
                          (.block (.cons (.goto "done") .nil))
                          (.assign 0 "x" .nil (.bin .Multiply (.un .Negative (.int .naked 2))
                            (.paren (.bin .Add (.deref 0 "x" .nil) (.int .naked 3))))))
                  (.cons (.label "done") .nil)),
               some (.typecast (.deref 0 "x" .nil) (.simple "i32")))),
      Decl.struct { isOpaque := true } "S" none []], d.ok = true) := by
  decide

end Syn
