import PenneModel.Flat.Header
/-
  C17 — the extracted header is exactly the public interface.  Property theorems.
-/
namespace Flat

theorem convert_abs (p skipped : Nat) (h : skipped ≤ p) (n : RNode) :
    convert skipped (n.abs p) = n.head (p - skipped) := by
  cases n <;> simp [convert, RNode.abs, RNode.head]
  omega

/-- a run of public nodes is copied one by one, each converted with the current number of skipped nodes -/
theorem headerFrom_pub (p skipped : Nat) (h : skipped ≤ p) (ns : List RNode) (tail : List Node) :
    ∀ (fuel i : Nat), ns.length + tail.length ≤ fuel →
      headerFrom fuel i skipped (ns.map (RNode.abs p) ++ tail) =
        ns.map (RNode.head (p - skipped)) ++ headerFrom (fuel - ns.length) (i + ns.length) skipped tail := by
  induction ns with
  | nil => intro fuel i _; simp
  | cons n ns ih =>
    intro fuel i hf
    cases fuel with
    | zero => simp at hf
    | succ fuel =>
      simp only [List.map_cons, List.cons_append, List.length_cons] at hf ⊢
      have hstep : headerFrom (fuel + 1) i skipped (n.abs p :: (ns.map (RNode.abs p) ++ tail)) =
          convert skipped (n.abs p) :: headerFrom fuel (i + 1) skipped (ns.map (RNode.abs p) ++ tail) := by
        cases n <;> simp [headerFrom, RNode.abs]
      rw [hstep, convert_abs p skipped h, ih fuel (i + 1) (by omega)]
      have e1 : fuel + 1 - (ns.length + 1) = fuel - ns.length := by omega
      have e2 : i + 1 + ns.length = i + (ns.length + 1) := by omega
      rw [e1, e2]

theorem encode_length_pub (p : Nat) (ns : List RNode) (rest : List Seg) :
    (encode p (.pub ns :: rest)).length = ns.length + (encode (p + ns.length) rest).length := by
  simp [encode]

/-- **header refinement**: running the header builder over the node array the parser lays out — any interleaving of
    public segments and private zones (private declarations, bodies of public functions), including a trailing
    endless zone — yields exactly the public segments, re-based by the number of skipped nodes, with every `pub`
    flag cleared and every function-implementation slot emptied -/
theorem header_refines (segs : List Seg) :
    ∀ (p skipped fuel : Nat), skipped ≤ p → (encode p segs).length ≤ fuel →
      headerFrom fuel p skipped (encode p segs) = encodeHead (p - skipped) segs := by
  induction segs with
  | nil => intro p skipped fuel _ _; cases fuel <;> simp [encode, encodeHead, headerFrom]
  | cons seg rest ih =>
    intro p skipped fuel hs hf
    cases seg with
    | pub ns =>
      simp only [encode, encodeHead, List.length_append, List.length_map] at hf ⊢
      rw [headerFrom_pub p skipped hs ns _ fuel p (by omega)]
      rw [ih (p + ns.length) skipped (fuel - ns.length) (by omega) (by omega)]
      have : p + ns.length - skipped = p - skipped + ns.length := by omega
      rw [this]
    | priv content =>
      cases rest with
      | nil =>
        cases fuel with
        | zero => simp [encode] at hf
        | succ fuel => simp [encode, encodeHead, headerFrom]
      | cons seg' rest' =>
        cases fuel with
        | zero => simp [encode] at hf
        | succ fuel =>
          simp only [encode, encodeHead] at hf ⊢
          show headerFrom fuel (p + 1 + content.length + 1) (skipped + (p + 1 + content.length + 1 - p))
              ((content ++ [Node.endPriv p] ++ encode (p + content.length + 2) (seg' :: rest')).drop
                (p + 1 + content.length - p)) = encodeHead (p - skipped) (seg' :: rest')
          have hd : (content ++ [Node.endPriv p] ++ encode (p + content.length + 2) (seg' :: rest')).drop
              (p + 1 + content.length - p) = encode (p + content.length + 2) (seg' :: rest') := by
            have : p + 1 + content.length - p = (content ++ [Node.endPriv p]).length := by simp; omega
            rw [this, List.drop_left']
            rfl
          rw [hd]
          have e1 : p + 1 + content.length + 1 = p + content.length + 2 := by omega
          rw [e1]
          have := ih (p + content.length + 2) (skipped + (p + content.length + 2 - p)) fuel (by omega)
            (by simp only [List.length_cons, List.length_append, List.length_singleton] at hf; omega)
          rw [this]
          congr 1
          omega

/-- the statement for a whole module: node array starting at index 0, nothing skipped yet -/
theorem header_of_module (segs : List Seg) : buildHeader (encode 0 segs) = encodeHead 0 segs := by
  unfold buildHeader
  simpa using header_refines segs 0 0 (encode 0 segs).length (Nat.le_refl _) (Nat.le_refl _)

theorem head_mem_pub (segs : List Seg) (n : Node) :
    ∀ p, n ∈ encodeHead p segs → ∃ q ns, Seg.pub ns ∈ segs ∧ ∃ r ∈ ns, n = r.head q := by
  induction segs with
  | nil => intro p h; simp [encodeHead] at h
  | cons seg rest ih =>
    intro p h
    cases seg with
    | pub ns =>
      simp only [encodeHead, List.mem_append, List.mem_map] at h
      rcases h with ⟨r, hr, rfl⟩ | h
      · exact ⟨p, ns, List.mem_cons_self, r, hr, rfl⟩
      · obtain ⟨q, ns', hm, r, hr, e⟩ := ih _ h
        exact ⟨q, ns', List.mem_cons_of_mem _ hm, r, hr, e⟩
    | priv c =>
      simp only [encodeHead] at h
      obtain ⟨q, ns', hm, r, hr, e⟩ := ih _ h
      exact ⟨q, ns', List.mem_cons_of_mem _ hm, r, hr, e⟩

/-- nothing private survives: the header consists of nodes of public segments only, so no node of a private zone
    (private declaration or body of a public function) appears in it -/
theorem header_no_private (segs : List Seg) (n : Node) (h : n ∈ buildHeader (encode 0 segs)) :
    ∃ p ns, Seg.pub ns ∈ segs ∧ ∃ r ∈ ns, n = r.head p := by
  rw [header_of_module] at h
  exact head_mem_pub segs n 0 h

/-- in the header no `pub` flag is left and no function has an implementation -/
theorem header_flags_cleared (segs : List Seg) (p : Nat) (n : Node) (h : n ∈ encodeHead p segs) :
    (∀ r, n ≠ .flags true r) ∧ (∀ b, n ≠ .funImpl b) := by
  induction segs generalizing p with
  | nil => simp [encodeHead] at h
  | cons seg rest ih =>
    cases seg with
    | pub ns =>
      simp only [encodeHead, List.mem_append, List.mem_map] at h
      rcases h with ⟨r, _, rfl⟩ | h
      · cases r <;> simp [RNode.head]
      · exact ih _ h
    | priv c => exact ih _ (by simpa [encodeHead] using h)

/-! non-vacuity: padding, a public function signature, its body zone, a private declaration, a public constant -/
example :
    buildHeader (encode 0 [.pub [.plain "pad", .funImpl 5, .ref "Item" 0, .flags true "", .plain "FunctionDeclaration"],
                           .priv [.plain "body1", .plain "body2"], .priv [.plain "privdecl"],
                           .pub [.plain "lit", .ref "Item" 0, .flags true "", .plain "ConstantDeclaration"]])
      = [.plain "pad", .plain "NoMoreItems", .ref "Item" 0, .flags false "", .plain "FunctionDeclaration",
         .plain "lit", .ref "Item" 5, .flags false "", .plain "ConstantDeclaration"] := by decide

end Flat
