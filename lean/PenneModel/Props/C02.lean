import PenneModel.Poison.Tree
import PenneModel.Lex.Model
/-
  C02 — the compiler never crashes and never fails silently.  Property theorems (the logic part; crashes, aborts,
  stack depth and hangs of the real process are exercised by the correspondence run, not modelled).
-/
namespace Poison

mutual
theorem collect_facts (t : PTree) :
    ((collect t).1 = false → (collect t).2 = []) ∧
    ((collect t).2 ≠ [] → hasError t = true) ∧
    ((collect t).1 = true → (collect t).2 = [] → hasPoisoned t = true) := by
  cases t with
  | ok => simp [collect]
  | error c => simp [collect, hasError]
  | poisoned => simp [collect, hasPoisoned]
  | all cs => simpa [collect, hasError, hasPoisoned] using collectAll_facts cs
  | seq cs => simpa [collect, hasError, hasPoisoned] using collectSeq_facts cs
theorem collectAll_facts (cs : PTrees) :
    ((collectAll cs).1 = false → (collectAll cs).2 = []) ∧
    ((collectAll cs).2 ≠ [] → hasErrorS cs = true) ∧
    ((collectAll cs).1 = true → (collectAll cs).2 = [] → hasPoisonedS cs = true) := by
  cases cs with
  | nil => simp [collectAll]
  | cons t ts =>
    have h1 := collect_facts t
    have h2 := collectAll_facts ts
    simp only [collectAll, hasErrorS, hasPoisonedS]
    refine ⟨?_, ?_, ?_⟩
    · intro h
      simp only [Bool.or_eq_false_iff] at h
      simp [h1.1 h.1, h2.1 h.2]
    · intro h
      simp only [ne_eq, List.append_eq_nil_iff] at h
      by_cases ha : (collect t).2 = []
      · have hb : (collectAll ts).2 ≠ [] := fun hb => h ⟨ha, hb⟩
        simp [h2.2.1 hb]
      · simp [h1.2.1 ha]
    · intro hf he
      simp only [List.append_eq_nil_iff] at he
      simp only [Bool.or_eq_true] at hf ⊢
      rcases hf with hf | hf
      · exact Or.inl (h1.2.2 hf he.1)
      · exact Or.inr (h2.2.2 hf he.2)
theorem collectSeq_facts (cs : PTrees) :
    ((collectSeq cs).1 = false → (collectSeq cs).2 = []) ∧
    ((collectSeq cs).2 ≠ [] → hasErrorS cs = true) ∧
    ((collectSeq cs).1 = true → (collectSeq cs).2 = [] → hasPoisonedS cs = true) := by
  cases cs with
  | nil => simp [collectSeq]
  | cons t ts =>
    have h1 := collect_facts t
    have h2 := collectSeq_facts ts
    simp only [collectSeq, hasErrorS, hasPoisonedS]
    cases hc : (collect t).1
    · simp only [Bool.false_eq_true, if_false]
      refine ⟨h2.1, fun h => by simp [h2.2.1 h], fun hf he => by simp [h2.2.2 hf he]⟩
    · simp only [if_true]
      refine ⟨fun h => by simp [hc] at h, fun h => by simp [h1.2.1 h], fun _ he => by simp [h1.2.2 hc he]⟩
end

/-- **a silent failure always stems from a `Poisoned` leaf**: whenever resolution fails with an empty error list,
    the tree contains `Poison::Poisoned` — never from a tree made of `ok` and `error` leaves only -/
theorem no_silent_failure (t : PTree) (hf : (collect t).1 = true) (he : (collect t).2 = []) : hasPoisoned t = true :=
  (collect_facts t).2.2 hf he

/-- every reported code comes from an `Error` leaf, and success reports nothing -/
theorem collect_nonempty_of_error (t : PTree) :
    ((collect t).2 ≠ [] → hasError t = true) ∧ ((collect t).1 = false → (collect t).2 = []) :=
  ⟨(collect_facts t).2.1, (collect_facts t).1⟩

mutual
theorem all_error_visible (t : PTree) (h : allOnly t = true) (he : hasError t = true) : (collect t).2 ≠ [] := by
  cases t with
  | ok => simp [hasError] at he
  | error c => simp [collect]
  | poisoned => simp [hasError] at he
  | all cs => simpa [collect] using allS_error_visible cs (by simpa [allOnly] using h) (by simpa [hasError] using he)
  | seq cs => simp [allOnly] at h
theorem allS_error_visible (cs : PTrees) (h : allOnlyS cs = true) (he : hasErrorS cs = true) : (collectAll cs).2 ≠ [] := by
  cases cs with
  | nil => simp [hasErrorS] at he
  | cons t ts =>
    simp only [allOnlyS, Bool.and_eq_true] at h
    simp only [hasErrorS, Bool.or_eq_true] at he
    simp only [collectAll, ne_eq, List.append_eq_nil_iff]
    rcases he with he | he
    · exact fun hh => all_error_visible t h.1 he hh.1
    · exact fun hh => allS_error_visible ts h.2 he hh.2
end

/-- **when errors are combined rather than short-circuited, failing silently is exactly "poisoned without an
    error"**: the invariant every stage must keep — no `Poisoned` without an accompanying `Error` — is then
    necessary and sufficient for "failure comes with at least one diagnostic" -/
theorem silent_failure_iff (t : PTree) (h : allOnly t = true) :
    ((collect t).1 = true ∧ (collect t).2 = []) → (hasPoisoned t = true ∧ hasError t = false) := by
  intro ⟨hf, he⟩
  refine ⟨no_silent_failure t hf he, ?_⟩
  cases hh : hasError t
  · rfl
  · exact absurd he (all_error_visible t h hh)

/-- the defect found on the pinned tree (F20) has exactly this shape: a poisoned type next to elements without a
    surviving error -/
example : collect (.all (.cons .poisoned (.cons .ok .nil))) = (true, []) := by decide

end Poison
