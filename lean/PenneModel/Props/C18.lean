import PenneModel.Cli.Decide
/-
  C18 — the command line tool reports outcomes faithfully.  Property theorems about the decision logic.
-/
namespace Cli

/-- **backend precedence**: flag, else environment, else config file, else default -/
theorem backend_precedence (arg env cfg : Option String) (dflt : String) :
    getBackend arg env cfg dflt = (arg <|> env <|> cfg).getD dflt := by
  cases arg <;> cases env <;> cases cfg <;> rfl

theorem backend_flag_wins (a : String) (env cfg : Option String) (d : String) : getBackend (some a) env cfg d = a := rfl
theorem backend_env_over_config (e : String) (cfg : Option String) (d : String) : getBackend none (some e) cfg d = e := rfl
theorem backend_config_over_default (c d : String) : getBackend none none (some c) d = c := rfl
theorem backend_default (d : String) : getBackend none none none d = d := rfl

/-- **exit status 0 exactly when compilation and the invoked backend succeeded** (for `run`, "succeeded" = the
    interpreter exited normally: the program's own status is shown as `Output: n`) -/
theorem exit_zero_iff (i : Invocation) :
    exitZero i = true ↔
      i.compileOk = true ∧
      (i.sub = .emit ∨ (i.sub = .run ∧ ∃ n, i.backend = .exited n) ∨ (i.sub = .build ∧ i.backend = .exited 0)) := by
  rcases i with ⟨sub, f, e, c, ok, b, s, v⟩
  cases sub <;> cases ok <;> cases b <;> simp [exitZero]
  all_goals (rename_i n; cases n <;> simp)

/-- a failed compilation never runs a backend and never exits 0 -/
theorem compile_failure (i : Invocation) (h : i.compileOk = false) :
    exitZero i = false ∧ backendInvoked i = false ∧ shownOutput i = none := by
  simp [exitZero, backendInvoked, shownOutput, h]

/-- `run` shows exactly the program's exit status, unless silenced -/
theorem run_shows_status (i : Invocation) (n : Nat) (h1 : i.sub = .run) (h2 : i.compileOk = true)
    (h3 : i.backend = .exited n) (h4 : i.silent = false) : shownOutput i = some n ∧ exitZero i = true := by
  simp [shownOutput, exitZero, h1, h2, h3, h4]

/-- `--silent` suppresses everything, `--verbose` needs not-silent -/
theorem verbosity_gating (i : Invocation) :
    (i.silent = true → shownOutput i = none ∧ diagnosticsShown i = false ∧ isVerbose i = false) ∧
    (isVerbose i = true ↔ i.verbose = true ∧ i.silent = false) := by
  constructor
  · intro h; simp [shownOutput, diagnosticsShown, isVerbose, h]
  · simp [isVerbose]

end Cli
