import PenneModel.Props.C14
import PenneModel.Lit.Model
/-
  C09 — literals mean exactly what they say.  Property theorems (lexical part).

  `Lex.valueOf` is the value the lexer model computes from the digits it kept.  The theorems below pin it to
  the number the spelling denotes: for every natural number `n`, the standard base-`b` numeral of `n`
  (`Nat.toDigits b n`, b ∈ {2, 10, 16}) has value `n`; together with the C14 theorems
  (`lexStep_decimal`, `lexStep_hex`, `lexStep_bin`, their `_suffix` and `_overflow` variants, which hold for every
  placement of `_` separators) a literal below 2^128 is lexed to exactly its value and a literal of 129 bits or
  more is rejected with E140.
-/
namespace Lex

theorem hexVal_digitChar : ∀ d, d < 16 → hexVal (Nat.digitChar d) = d := by decide

theorem isHex_digitChar : ∀ d, d < 16 → isHex (Nat.digitChar d) = true := by decide
theorem isDigit_digitChar : ∀ d, d < 10 → isDigit (Nat.digitChar d) = true := by decide
theorem isBin_digitChar : ∀ d, d < 2 → isBin (Nat.digitChar d) = true := by decide

/-- the value of the standard numeral of `n` is `n`, in every base the language has -/
theorem valueOf_toDigits (b : Nat) (hb : 1 < b) (hb16 : b ≤ 16) (n : Nat) : valueOf b (Nat.toDigits b n) = n := by
  induction n using Nat.strongRecOn with
  | _ n ih =>
    rw [Nat.toDigits_eq_if hb]
    split
    · next h => simp [valueOf, hexVal_digitChar n (by omega)]
    · next h =>
      have hlt : n / b < n := Nat.div_lt_self (by omega) hb
      rw [valueOf_append, ih _ hlt]
      simp only [List.foldl_cons, List.foldl_nil]
      rw [hexVal_digitChar _ (by have := Nat.mod_lt n (show 0 < b by omega); omega)]
      have := Nat.div_add_mod n b
      rw [Nat.mul_comm]; omega

/-- every character of the standard numeral belongs to the digit class of its base -/
theorem toDigits_class (b : Nat) (hb : 1 < b) (p : Char → Bool) (hp : ∀ d, d < b → p (Nat.digitChar d) = true) (n : Nat) :
    ∀ c ∈ Nat.toDigits b n, p c = true := by
  induction n using Nat.strongRecOn with
  | _ n ih =>
    rw [Nat.toDigits_eq_if hb]
    split
    · next h => intro c hc; simp at hc; subst hc; exact hp n h
    · next h =>
      intro c hc
      simp only [List.mem_append, List.mem_singleton] at hc
      rcases hc with hc | hc
      · exact ih _ (Nat.div_lt_self (by omega) hb) c hc
      · subst hc; exact hp _ (Nat.mod_lt n (by omega))

/-- the leading digit of a positive number's decimal numeral is not `0` -/
theorem toDigits_head (n : Nat) (hn : 0 < n) :
    ∃ c ds, Nat.toDigits 10 n = c :: ds ∧ c ∈ ['1','2','3','4','5','6','7','8','9'] := by
  induction n using Nat.strongRecOn with
  | _ n ih =>
    rw [Nat.toDigits_eq_if (by decide)]
    split
    · next h =>
      refine ⟨Nat.digitChar n, [], rfl, ?_⟩
      have : n = 1 ∨ n = 2 ∨ n = 3 ∨ n = 4 ∨ n = 5 ∨ n = 6 ∨ n = 7 ∨ n = 8 ∨ n = 9 := by omega
      rcases this with rfl | rfl | rfl | rfl | rfl | rfl | rfl | rfl | rfl <;> decide
    · next h =>
      obtain ⟨c, ds, e, hc⟩ := ih (n / 10) (Nat.div_lt_self hn (by decide)) (Nat.div_pos (by omega) (by decide))
      exact ⟨c, ds ++ [Nat.digitChar (n % 10)], by rw [e]; rfl, hc⟩

theorem withSep_refl (ds : List Char) : WithSep ds ds := by
  induction ds with
  | nil => exact .nil
  | cons d ds ih => exact .digit d ih

/-- **decimal round trip**: the decimal numeral of any `0 < n < 2^128`, followed by anything that cannot extend it,
    is lexed as exactly the value `n`, spanning exactly its digits -/
theorem decimal_roundtrip (ln col off n : Nat) (hn : 0 < n) (hlt : n < 2 ^ 128) (tail : List Char) (ht : Stops tail) :
    lexStep ln col off (Nat.toDigits 10 n ++ tail) =
      some ([{ tok := .dec n, start := off, stop := off + (Nat.toDigits 10 n).length, line := ln, col := col }], tail) := by
  obtain ⟨c, ds, e, hc⟩ := toDigits_head n hn
  have hcls := toDigits_class 10 (by decide) isDigit (fun d hd => isDigit_digitChar d hd) n
  have hv := valueOf_toDigits 10 (by decide) (by decide) n
  rw [e] at hcls hv ⊢
  have hds : ∀ d ∈ ds, isDigit d = true := fun d hd => hcls d (List.mem_cons_of_mem _ hd)
  have := lexStep_decimal ln col off c ds ds tail hc (withSep_refl ds) hds ht (by rw [hv]; exact hlt)
  rw [hv] at this
  simpa [Nat.add_comm] using this

/-- **hexadecimal round trip** -/
theorem hex_roundtrip (ln col off n : Nat) (hlt : n < 2 ^ 128) (tail : List Char) (ht : Stops tail) :
    lexStep ln col off ('0' :: 'x' :: (Nat.toDigits 16 n ++ tail)) =
      some ([{ tok := .bit n, start := off, stop := off + (1 + (1 + (Nat.toDigits 16 n).length)), line := ln, col := col }], tail) := by
  have hcls := toDigits_class 16 (by decide) isHex (fun d hd => isHex_digitChar d hd) n
  have hv := valueOf_toDigits 16 (by decide) (by decide) n
  have := lexStep_hex ln col off _ _ tail (withSep_refl (Nat.toDigits 16 n)) Nat.toDigits_ne_nil hcls ht
    (by rw [hv]; exact hlt)
  rw [hv] at this
  exact this

/-- **binary round trip** -/
theorem bin_roundtrip (ln col off n : Nat) (hlt : n < 2 ^ 128) (tail : List Char) (ht : Stops tail) :
    lexStep ln col off ('0' :: 'b' :: (Nat.toDigits 2 n ++ tail)) =
      some ([{ tok := .bit n, start := off, stop := off + (1 + (1 + (Nat.toDigits 2 n).length)), line := ln, col := col }], tail) := by
  have hcls := toDigits_class 2 (by decide) isBin (fun d hd => isBin_digitChar d hd) n
  have hv := valueOf_toDigits 2 (by decide) (by decide) n
  have := lexStep_bin ln col off _ _ tail (withSep_refl (Nat.toDigits 2 n)) Nat.toDigits_ne_nil hcls ht
    (by rw [hv]; exact hlt)
  rw [hv] at this
  exact this

/-- **never silently altered**: the decimal numeral of any `n ≥ 2^128` is E140 -/
theorem decimal_too_big (ln col off n : Nat) (hge : 2 ^ 128 ≤ n) (tail : List Char) (ht : Stops tail) :
    ∃ k rest, lexStep ln col off (Nat.toDigits 10 n ++ tail) =
      some ([{ tok := .err 140, start := off, stop := off + k, line := ln, col := col }], rest) := by
  obtain ⟨c, ds, e, hc⟩ := toDigits_head n (by have : 0 < 2 ^ 128 := Nat.two_pow_pos 128; omega)
  have hcls := toDigits_class 10 (by decide) isDigit (fun d hd => isDigit_digitChar d hd) n
  have hv := valueOf_toDigits 10 (by decide) (by decide) n
  rw [e] at hcls hv ⊢
  have hds : ∀ d ∈ ds, isDigit d = true := fun d hd => hcls d (List.mem_cons_of_mem _ hd)
  exact lexStep_decimal_overflow ln col off c ds ds tail hc (withSep_refl ds) hds ht (by rw [hv]; exact hge)

end Lex

/-! ### After the lexer: folding, range lint, materialisation (Lit/Model.lean) -/
namespace Lit
open Lex

/-- the integer types a literal can have -/
def isIntTy : Ty → Bool
  | .void | .bool => false
  | _ => true

/-- **the lint fires exactly on out-of-range values**: for a literal node that carries its own sign
    (a decimal literal, possibly folded with a unary minus) the linter's two-branch test is the
    documented range test -/
theorem lint_iff_out_of_range (t : Ty) (ht : isIntTy t = true) (v : Int) (ty : Option Ty) :
    lintNode t (.signed v ty) = !inRange t v := by
  cases t <;> simp [isIntTy] at ht <;>
    simp only [lintNode, inRange, minOf, maxOf, isSigned, width] <;>
    by_cases h : v < 0 <;> simp [h] <;> rw [Bool.eq_iff_iff] <;> simp <;> omega
/-- the same for hexadecimal/binary (bit) literals, which are never negative -/
theorem lint_iff_out_of_range_bit (t : Ty) (ht : isIntTy t = true) (v : Nat) (ty : Option Ty) :
    lintNode t (.bit v ty) = !inRange t (v : Int) := by
  cases t <;> simp [isIntTy] at ht <;>
    simp only [lintNode, inRange, minOf, maxOf, isSigned, width] <;>
    simp <;> rw [Bool.eq_iff_iff] <;> simp <;> omega
/-- **in-range literals are materialised exactly** (generator constant read back in the literal's type), for
    every integer type; `usize` needs the full 64-bit mask, which is what the repaired generator uses -/
theorem materialise_exact (t : Ty) (ht : isIntTy t = true) (v : Int) (ty : Option Ty)
    (hr : inRange t v = true) : materialise (2 ^ 64) t (.signed v ty) = v := by
  cases t <;> simp [isIntTy] at ht <;>
    simp [inRange, minOf, maxOf, isSigned, width] at hr <;>
    simp only [materialise, wrap, isSigned, width] <;> simp <;> omega
theorem materialise_exact_bit (t : Ty) (ht : isIntTy t = true) (v : Nat) (ty : Option Ty)
    (hr : inRange t (v : Int) = true) : materialise (2 ^ 64) t (.bit v ty) = v := by
  cases t <;> simp [isIntTy] at ht <;>
    simp [inRange, minOf, maxOf, isSigned, width] at hr <;>
    simp only [materialise, wrap, isSigned, width] <;> simp <;> omega

/-- **on either target**: the lint fires exactly when the literal is outside the range its type has on that target
    (`usize` is `0 .. 2^32 - 1` on wasm32), and in-range literals are materialised exactly -/
def inRangeOn (ptr32 : Bool) (t : Ty) (v : Int) : Bool := inRange (targetTy ptr32 t) v

theorem targetTy_int (ptr32 : Bool) (t : Ty) (ht : isIntTy t = true) : isIntTy (targetTy ptr32 t) = true := by
  cases t <;> cases ptr32 <;> simp_all [targetTy, isIntTy]

theorem lint_iff_out_of_range_on (ptr32 : Bool) (t : Ty) (ht : isIntTy t = true) (v : Int) (ty : Option Ty) :
    lintNode (targetTy ptr32 t) (.signed v ty) = !inRangeOn ptr32 t v :=
  lint_iff_out_of_range _ (targetTy_int ptr32 t ht) v ty

theorem lint_iff_out_of_range_bit_on (ptr32 : Bool) (t : Ty) (ht : isIntTy t = true) (v : Nat) (ty : Option Ty) :
    lintNode (targetTy ptr32 t) (.bit v ty) = !inRangeOn ptr32 t (v : Int) :=
  lint_iff_out_of_range_bit _ (targetTy_int ptr32 t ht) v ty

theorem materialise_exact_on (ptr32 : Bool) (t : Ty) (ht : isIntTy t = true) (v : Int) (ty : Option Ty)
    (hr : inRangeOn ptr32 t v = true) : materialise (2 ^ 64) (targetTy ptr32 t) (.signed v ty) = v :=
  materialise_exact _ (targetTy_int ptr32 t ht) v ty hr

/-- the range of `usize` on wasm32, and what the linter did before it knew the target: `0x1_0000_0001` passed unlinted
    and was stored as `i32 1` -/
example : inRangeOn true .usize 4294967295 = true ∧ inRangeOn true .usize 4294967296 = false ∧
    lintNode (targetTy true .usize) (.bit 4294967297 none) = true ∧ lintNode .usize (.bit 4294967297 none) = false ∧
    materialise (2 ^ 64) (targetTy true .usize) (.bit 4294967297 none) = 1 := by decide
theorem outcomeOn_host (m : Nat) (t : Ty) (neg : Bool) (sp : List Char) : outcomeOn false m t neg sp = outcome m t neg sp := by
  have : targetTy false t = t := by cases t <;> rfl
  simp [outcomeOn, outcome, this]

/-- with the pinned 32-bit mask the statement is false: the witness that was replayed on the real compiler -/
theorem materialise_pinned_mask_counterexample :
    inRange .usize 4294967296 = true ∧ materialise (2 ^ 32) .usize (.bit 4294967296 none) = 0 := by decide

/-- **minus folding**: `-` in front of a decimal literal `k` with `1 ≤ k ≤ 2^127 - 1` denotes `-k` and is a single
    signed literal node -/
theorem minus_fold (k : Nat) (h1 : 1 ≤ k) (h2 : k ≤ i128Max) (ty : Option Ty) :
    (primary (.dec k)).map negate = some (.signed (-(k : Int)) none) ∧
    denotes (.signed (-(k : Int)) ty) = -(k : Int) := by
  have h3 : ((k : Int) > 0) := by omega
  have h4 : ¬ ((k : Int) ≤ 0) := by omega
  simp [primary, h2, negate, denotes]
  omega

def isSignedTy : Ty → Bool
  | .i8 | .i16 | .i32 | .i64 | .i128 => true
  | _ => false

/-- **a negated hexadecimal / binary literal is linted exactly when the negated value is out of range** of a signed type
    (the least value, whose magnitude alone does not fit, included: F2 / F2b were the linter looking at the magnitude only) -/
theorem lint_iff_out_of_range_negated_bit (t : Ty) (ht : isSignedTy t = true) (v : Nat) (ty : Option Ty) :
    lintNode t (.negOf (.bit v ty)) = !inRange t (-(v : Int)) := by
  cases t <;> simp [isSignedTy] at ht <;>
    simp only [lintNode, inRange, minOf, maxOf, isSigned, width] <;>
    simp <;> rw [Bool.eq_iff_iff] <;> simp <;> omega

/-- the one decimal literal the folding cannot represent: `-2^127` stays a negated bit literal; its value is in range and
    it is not linted (F2, repaired: the linter used to look at `2^127` on its own) -/
theorem minus_fold_i128_min :
    let node := negate ((primary (.dec (2 ^ 127))).getD (.bit 0 none))
    inRange .i128 (denotes node) = true ∧ lintNode .i128 node = false := by decide

end Lit
