/-
  C16 — the second-generation parser builds a faithful parse tree.  The theorems about the
  reference parser are shared with C20 (Props/C20.lean).
-/
import PenneModel.Props.C20
