/-
  C16 — the second-generation parser builds a faithful parse tree.

  Two layers.  (1) The grammar: the theorems about the reference parser are shared with C20
  (Props/C20.lean); checks/c16.py ties the reference parser to both real parsers on every run.
  (2) The flat layout (`src/delta/parser/parse_node.rs`, the `push_*` helpers of parse_tree.rs) and its
  consumer (`print_xml`, parse_tree_xml.rs): `Layout.encModuleR` lays a module out exactly as the parser
  pushes it — node variants, the absolute node ids stored in `Item`, `List`, `ListItem`, `ThenElse`,
  `If`, `Block`, `FunctionImpl`, the private-zone markers and their in-place patching — and
  checks/c16.py compares it with the real node array of every generated module on every run;
  `Layout.readDecl` … follow `print_xml` (the node, the five-node context window before it, the ids it
  stores) and return the tree.  `flat_tree_faithful`: for every module, of any size and nesting, reading
  the buffer at the entries of the declaration list gives exactly the module's declarations back.
  So the flat encoding loses nothing (declarations, flags, names, types, statements in order, operands
  in order, nesting, literal values), and what the consumer pattern-matches is what the producer pushed.

  Not modelled in layer 2: token ids (the model's nodes carry the text / value the real node reaches
  through its token id), and `MAX_PARSE_NODE_CONTEXT` padding is the five `NoMoreItems` nodes in front.
-/
import PenneModel.Props.C20
import PenneModel.Flat.LayoutModule

namespace Layout
open Syn

/-- **the flat tree encodes the abstract syntax faithfully** -/
theorem flat_tree_faithful (ds : List Decl) :
    (encModuleR ds).2.length = ds.length ∧
    ∀ p ∈ (encModuleR ds).2.zip ds, ∀ fuel, 2 * p.2.size + 2 ≤ fuel → readDecl fuel (encModuleR ds).1 p.1 = some p.2 :=
  read_encModule ds

/-- in particular two different modules never have the same flat tree -/
theorem flat_tree_injective (ds ds' : List Decl) (h : encModuleR ds = encModuleR ds') : ds = ds' := by
  obtain ⟨hl, hr⟩ := read_encModule ds
  obtain ⟨hl', hr'⟩ := read_encModule ds'
  rw [← h] at hl' hr'
  have hlen : ds.length = ds'.length := by omega
  apply List.ext_getElem hlen
  intro k hk hk'
  have hkr : k < (encModuleR ds).2.length := by omega
  have m1 : ((encModuleR ds).2[k], ds[k]) ∈ (encModuleR ds).2.zip ds := by
    rw [List.mem_iff_getElem]
    exact ⟨k, by simp [List.length_zip]; omega, by simp⟩
  have m2 : ((encModuleR ds).2[k], ds'[k]) ∈ (encModuleR ds).2.zip ds' := by
    rw [List.mem_iff_getElem]
    exact ⟨k, by simp [List.length_zip]; omega, by simp⟩
  have r1 := hr _ m1 (2 * ds[k].size + 2 + (2 * ds'[k].size + 2)) (by simp only; omega)
  have r2 := hr' _ m2 (2 * ds[k].size + 2 + (2 * ds'[k].size + 2)) (by simp only; omega)
  simp only at r1 r2
  rw [r1] at r2
  exact Option.some.inj r2

end Layout
