import PenneModel.Lex.Model
/-
  C09 — what an integer literal denotes, stage by stage: lexer token → parser literal node (signed/bit split,
  folding of a unary minus into a decimal literal: parser.rs `parse_unary_expression`/`parse_primary_expression`)
  → range lint (linter.rs) → materialised constant (generator.rs literal arms).
-/
namespace Lit
open Lex

def isSigned : Ty → Bool
  | .i8 | .i16 | .i32 | .i64 | .i128 => true
  | _ => false

/-- bit width of the integer types (usize: 64, the host/target of the sandbox; char8: 8) -/
def width : Ty → Nat
  | .i8 | .u8 | .char8 => 8
  | .i16 | .u16 => 16
  | .i32 | .u32 => 32
  | .i64 | .u64 | .usize => 64
  | .i128 | .u128 => 128
  | .bool => 1
  | .void => 0

/-- `ValueType::min_i128` / `max_u128` -/
def minOf (t : Ty) : Int := if isSigned t then -(2 ^ (width t - 1) : Int) else 0
def maxOf (t : Ty) : Int := if isSigned t then (2 ^ (width t - 1) : Int) - 1 else (2 ^ width t : Int) - 1

/-- the documented range of a type -/
def inRange (t : Ty) (v : Int) : Bool := decide (minOf t ≤ v) && decide (v ≤ maxOf t)

/-- parser literal nodes -/
inductive Node where
  | signed (v : Int) (ty : Option Ty)       -- SignedIntegerLiteral
  | bit (v : Nat) (ty : Option Ty)          -- BitIntegerLiteral
  | negOf (n : Node)                        -- Unary { op: Negative, .. } applied to a literal
  deriving Repr

def i128Max : Nat := 2 ^ 127 - 1

/-- `parse_primary_expression` on an integer token -/
def primary : Tok → Option Node
  | .dec n => some (if n ≤ i128Max then .signed n none else .bit n none)
  | .bit n => some (.bit n none)
  | .suf n t => some (if isSigned t && decide (n ≤ i128Max) then .signed n (some t) else .bit n (some t))
  | _ => none

/-- the `Token::Minus` arm of `parse_unary_expression` -/
def negate : Node → Node
  | .signed v ty => if v > 0 then .signed (-v) ty else .negOf (.signed v ty)
  | n => .negOf n

/-- the linter's truncation test for a literal that has been given type `t` -/
def lintNode (t : Ty) : Node → Bool
  | .signed v _ => if v < 0 then decide (v < minOf t) else decide (v > maxOf t)
  | .bit v _ => decide ((v : Int) > maxOf t)
  -- `is_magnitude_of_minimum`: the least value of a signed type as a negated bit literal (-0x80i8, the i128 minimum)
  | .negOf (.bit v ty) => if isSigned t && decide ((v : Int) = -(minOf t)) then false else lintNode t (.bit v ty)
  | .negOf n => lintNode t n

/-- wrap an integer into the value range of `t` (two's complement) -/
def wrap (t : Ty) (v : Int) : Int :=
  let m : Int := 2 ^ width t
  let r := v % m
  if isSigned t && decide (r ≥ m / 2) then r - m else r

/-- the constant the generator materialises for a literal of type `t`, read back as a value of `t`.
    `usizeMask`: the mask applied to `usize`/pointer bit literals (generator.rs; 2^32 on the pinned tree). -/
def materialise (usizeMask : Nat) (t : Ty) : Node → Int
  | .signed v _ => wrap t v          -- LLVMConstInt(inttype, low 64 bits, sign-extend) or 128-bit words
  | .bit v _ => if t == .usize then wrap t ((v % usizeMask : Nat) : Int) else wrap t v
  | .negOf n => wrap t (-(materialise usizeMask t n))

/-- what the documentation says the literal denotes -/
def denotes : Node → Int
  | .signed v _ => v
  | .bit v _ => v
  | .negOf n => -(denotes n)

inductive Outcome where
  | error (code : Nat)
  | value (printed : Int) (lint : Bool)
  | typeMismatch
  deriving Repr

/-- `var x: t = [-]<spelling>; print!(x)` -/
def outcome (usizeMask : Nat) (t : Ty) (neg : Bool) (spelling : List Char) : Outcome :=
  match Lex.lex spelling with
  | [lt] =>
    match lt.tok with
    | .err c => .error c
    | tok =>
      match primary tok with
      | none => .error 0
      | some node =>
        let sufOk := match tok with | .suf _ t' => t' == t | _ => true
        if !sufOk then .typeMismatch
        else
          let node := if neg then negate node else node
          .value (materialise usizeMask t node) (lintNode t node)
  | _ => .error 0

/-! ### the target: `usize` is 32 bits wide on wasm32 (`penne --wasm`)

  In every respect that concerns a literal — range, lint, constant — `usize` on a 32-bit target is `u32`
  (linter.rs `Linter::max_u128`, generator.rs `type_of_usize`). -/
def targetTy (ptr32 : Bool) : Ty → Ty
  | .usize => if ptr32 then .u32 else .usize
  | t => t

/-- `var x: t = [-]<spelling>;` compiled for the target -/
def outcomeOn (ptr32 : Bool) (usizeMask : Nat) (t : Ty) (neg : Bool) (spelling : List Char) : Outcome :=
  match Lex.lex spelling with
  | [lt] =>
    match lt.tok with
    | .err c => .error c
    | tok =>
      match primary tok with
      | none => .error 0
      | some node =>
        let sufOk := match tok with | .suf _ t' => t' == t | _ => true
        if !sufOk then .typeMismatch
        else
          let node := if neg then negate node else node
          .value (materialise usizeMask (targetTy ptr32 t) node) (lintNode (targetTy ptr32 t) node)
  | _ => .error 0

end Lit
