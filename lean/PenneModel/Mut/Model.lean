/-
  C08 — model of `src/alpha/analyzer/mutability.rs`: which bindings may be written or have their address taken,
  and a core calculus of calls with by-value and pointer parameters for the frame property.
-/
namespace Mut

/-- `ReferenceStep` as the mutability analysis sees it -/
inductive Step where
  | element | member | desliceByView | desliceByPointer | desliceLength | autoderef | autoview
  deriving DecidableEq, Repr

/-- `needs_outer_mutability`: a write (or address-of) needs a mutable base unless it passes through a pointer -/
def needsOuterMutability : List Step → Bool
  | [] => true
  | .autoderef :: _ => false
  | .desliceByPointer :: _ => false
  | _ :: rest => needsOuterMutability rest

/-- how a name was introduced -/
inductive Base where
  | variable            -- `var x` of a non-view type
  | viewVariable        -- `var x: []T` / slice / view typed variable
  | constant
  | parameter           -- every parameter binding: by value, view, or the pointer itself
  deriving DecidableEq, Repr

def isMutable : Base → Bool
  | .variable => true
  | _ => false

/-- E530 or acceptance for `reference = value` and for `&reference` -/
def writeVerdict (b : Base) (steps : List Step) : Nat :=
  if needsOuterMutability steps && !isMutable b then 530 else 0

/-! ### core calculus: calls with by-value and pointer parameters -/

abbrev Addr := Nat
abbrev Store := List Int

/-- a binding of the current function: its own cell (a mutable local, or an immutable by-value parameter), or a
    pointer to somebody's cell -/
inductive Bind where
  | own (a : Addr) (mutable : Bool)
  | ptr (a : Addr)
  deriving DecidableEq, Repr

inductive Kind where
  | local | byValue | pointer
  deriving DecidableEq, Repr

def kindOf : Bind → Kind
  | .own _ true => .local
  | .own _ false => .byValue
  | .ptr _ => .pointer

def target : Bind → Addr
  | .own a _ => a
  | .ptr a => a

inductive Arg where
  | copy (b : Nat)       -- pass the value of binding b
  | addr (b : Nat)       -- pass `&b` (for a pointer binding: the pointer itself)
  deriving Repr

inductive Stmt where
  | write (b : Nat) (v : Int)        -- `b = v` (through the pointer when b is one)
  | newLocal (v : Int)               -- `var x = v`
  | call (f : Nat) (args : List Arg)
  deriving Repr

/-- parameter kinds of every function, and the bodies -/
structure Program where
  params : List (List Kind)
  bodies : List (List Stmt)

/-- static rules (E530 for writes to / addresses of immutable bindings, E513/E512 argument shape) -/
def argOk (kinds : List Kind) : Arg × Kind → Bool
  | (.copy b, .byValue) => b < kinds.length
  | (.addr b, .pointer) => (match kinds[b]? with | some .local => true | some .pointer => true | _ => false)
  | _ => false

def stmtOk (p : Program) (kinds : List Kind) : Stmt → Bool
  | .write b _ => (match kinds[b]? with | some .local => true | some .pointer => true | _ => false)
  | .newLocal _ => true
  | .call f args =>
    match p.params[f]? with
    | some ks => args.length == ks.length && (args.zip ks).all (argOk kinds)
    | none => false

def bodyOk (p : Program) : List Kind → List Stmt → Bool
  | _, [] => true
  | kinds, s :: ss => stmtOk p kinds s && bodyOk p (match s with | .newLocal _ => kinds ++ [.local] | _ => kinds) ss

def programOk (p : Program) : Bool :=
  p.params.length == p.bodies.length &&
  (p.params.zip p.bodies).all (fun kb => bodyOk p kb.1 kb.2)

/-- evaluate the arguments: copies get fresh immutable cells, addresses are passed on -/
def bindArgs (env : List Bind) : Store → List Arg → Option (Store × List Bind)
  | σ, [] => some (σ, [])
  | σ, .copy b :: as =>
    match env[b]? with
    | some bd =>
      (match bindArgs env (σ ++ [σ.getD (target bd) 0]) as with
       | some (σ', bs) => some (σ', .own σ.length false :: bs)
       | none => none)
    | none => none
  | σ, .addr b :: as =>
    match env[b]? with
    | some bd =>
      (match bindArgs env σ as with
       | some (σ', bs) => some (σ', .ptr (target bd) :: bs)
       | none => none)
    | none => none

def exec (p : Program) : Nat → List Bind → Store → List Stmt → Option Store
  | 0, _, _, _ => none
  | _, _, σ, [] => some σ
  | fuel + 1, env, σ, s :: ss =>
    match s with
    | .write b v =>
      (match env[b]? with
       | some bd => exec p fuel env (σ.set (target bd) v) ss
       | none => none)
    | .newLocal v => exec p fuel (env ++ [.own σ.length true]) (σ ++ [v]) ss
    | .call f args =>
      match p.bodies[f]?, bindArgs env σ args with
      | some body, some (σ1, env') =>
        (match exec p fuel env' σ1 body with
         | some σ2 => exec p fuel env σ2 ss
         | none => none)
      | _, _ => none

end Mut
