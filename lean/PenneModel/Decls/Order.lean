/-
  C11 — model of the container bookkeeping in `src/alpha/scoper/variable_references.rs`
  (`found_container_1`): constants and structures are "containers"; using a constant in a constant's initialiser or
  array length, taking `|:S|`, or having a structure by value as a member is an edge container → containee; pointers
  do not create edges.  `contained_ids` of every container is kept transitively closed while edges arrive one by one.

  The `Vec<Container>` searched by resolution id is modelled as a function from ids to `contained_ids`
  (resolution ids are unique by construction).
-/
namespace Order

/-- `container.contained_ids`, per container id -/
abbrev State := Nat → List Nat

inductive Outcome where
  | ok | poisoned | cycle
  deriving DecidableEq, Repr

/-- `found_container_1(container = a, containee = b)` -/
def foundContainer (σ : State) (a b : Nat) : State × Outcome :=
  let trans := b :: σ b                         -- transitive reflexive closure of the containee
  if (σ a).contains a then (σ, .poisoned)       -- "if the container already contains itself, we would have reported it"
  else
    let σ1 : State := fun x => if x = a then σ a ++ trans else σ x
    if (σ1 a).contains a then (σ1, .cycle)      -- the container contains itself only after adding `trans`
    else (fun x => if (σ1 x).contains a then σ1 x ++ trans else σ1 x, .ok)   -- keep everybody transitive

/-- all edges in analysis order; returns the containers for which a cycle error is raised -/
def run (σ : State) : List (Nat × Nat) → List Nat
  | [] => []
  | (a, b) :: es =>
    let r := foundContainer σ a b
    (if r.2 = .cycle then [a] else []) ++ run r.1 es

/-- verdict of the scoper for a dependency graph: the containers reported as cyclical -/
def cyclical (edges : List (Nat × Nat)) : List Nat := run (fun _ => []) edges

/-! executable cross-check: fuel-bounded transitive closure -/

def step (edges : List (Nat × Nat)) (r : List (Nat × Nat)) : List (Nat × Nat) :=
  r ++ (r.flatMap (fun p => (edges.filter (fun e => e.1 == p.2)).map (fun e => (p.1, e.2)))).filter (fun q => !r.contains q)

def closure (edges : List (Nat × Nat)) : Nat → List (Nat × Nat) → List (Nat × Nat)
  | 0, r => r
  | k + 1, r => closure edges k (step edges r)

def hasCycle (edges : List (Nat × Nat)) : Bool :=
  (closure edges edges.length edges).any (fun p => p.1 == p.2)

end Order
