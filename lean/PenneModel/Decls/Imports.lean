/-
  C12 — model of import expansion (`src/alpha/expander.rs`): every (includer, includee) pair splices the
  includee's exported declarations in front of the includer's declarations; the pairs come out of a `HashSet`,
  i.e. in an arbitrary order.
-/
namespace Imports

inductive Kind where
  | function | functionHead | constant | structure
  deriving DecidableEq, Repr

structure Decl where
  name : Nat
  kind : Kind
  pub : Bool
  deriving DecidableEq, Repr

/-- `exportDecl`: public declarations only, with the flag cleared; a function is exported as its head (no body) -/
def exportDecl (d : Decl) : Option Decl :=
  if d.pub then
    some { d with pub := false, kind := if d.kind = .function then .functionHead else d.kind }
  else none

/-- the state: declarations of every module, by module index -/
abbrev Mods := Nat → List Decl

/-- one iteration of the splice loop for the pair (includer, includee) -/
def splice (σ : Mods) (p : Nat × Nat) : Mods :=
  fun k => if k = p.1 then (σ p.2).filterMap exportDecl ++ σ k else σ k

/-- the whole loop, for one processing order of the import pairs -/
def expand (own : Mods) (order : List (Nat × Nat)) : Mods := order.foldl splice own

end Imports
