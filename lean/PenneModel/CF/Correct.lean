/-
  The lowering of structured control flow is correct: whenever the source semantics runs a function body to its end,
  the flow graph produced by the lowering, run from its entry with the same condition outcomes, produces exactly the
  same trace and halts (`lowering_correct`).  The only hypothesis on the program is that the named blocks of the graph
  have distinct names (labels and looped blocks are identified by their resolution ids).
-/
import PenneModel.CF.Defs

namespace CF

/-! ### more fuel never hurts -/

theorem run_mono (ds : List (Name × Code)) : ∀ (f : Nat) (c : Code) (o : List Bool) (r : List Ev × List Bool),
    run ds f c o = some r → ∀ d, run ds (f + d) c o = some r
  | 0, _, _, _, h, _ => by simp [run] at h
  | f + 1, .act a k, o, r, h, d => by
    rw [Nat.add_right_comm]
    simp only [run] at h ⊢
    cases hk : run ds f k o with
    | none => rw [hk] at h; simp at h
    | some r' => rw [hk] at h; rw [run_mono ds f k o r' hk d]; exact h
  | f + 1, .cond c t e, o, r, h, d => by
    rw [Nat.add_right_comm]
    cases o with
    | nil => simp [run] at h
    | cons b o' =>
      simp only [run] at h ⊢
      cases hk : run ds f (if b then t else e) o' with
      | none => rw [hk] at h; simp at h
      | some r' => rw [hk] at h; rw [run_mono ds f _ o' r' hk d]; exact h
  | f + 1, .jmp n, o, r, h, d => by
    rw [Nat.add_right_comm]
    simp only [run] at h ⊢
    cases hl : lookup ds n with
    | none => rw [hl] at h; simp at h
    | some k => rw [hl] at h; simp only at h ⊢; exact run_mono ds f k o r h d
  | f + 1, .halt, o, r, h, d => by
    rw [Nat.add_right_comm]
    simpa [run] using h

theorem run_mono_le (ds : List (Name × Code)) {f f' : Nat} {c : Code} {o : List Bool} {r : List Ev × List Bool}
    (h : run ds f c o = some r) (hle : f ≤ f') : run ds f' c o = some r := by
  obtain ⟨d, rfl⟩ := Nat.exists_eq_add_of_le hle
  exact run_mono ds f c o r h d

/-- the table answers for everything in `part` -/
def Covers (D part : List (Name × Code)) : Prop := ∀ p ∈ part, lookup D p.1 = some p.2

theorem Covers.left {D a b : List (Name × Code)} (h : Covers D (a ++ b)) : Covers D a :=
  fun p hp => h p (List.mem_append_left _ hp)
theorem Covers.right {D a b : List (Name × Code)} (h : Covers D (a ++ b)) : Covers D b :=
  fun p hp => h p (List.mem_append_right _ hp)
theorem Covers.tail {D : List (Name × Code)} {x : Name × Code} {b : List (Name × Code)} (h : Covers D (x :: b)) : Covers D b :=
  fun p hp => h p (List.mem_cons_of_mem _ hp)
theorem Covers.head {D : List (Name × Code)} {x : Name × Code} {b : List (Name × Code)} (h : Covers D (x :: b)) :
    lookup D x.1 = some x.2 := h x List.mem_cons_self

/-- the block of a label that the forward search finds is in the table of the list -/
theorem defsL_label (l : Nat) : ∀ (rest rest' : Stmts) (K : Code), dropToLabel l rest = some rest' →
    (Name.lbl l, compL rest' K) ∈ defsL rest K
  | .nil, _, _, h => by simp [dropToLabel] at h
  | .cons s rest, rest', K, h => by
    cases s with
    | label l' =>
      simp only [dropToLabel] at h
      by_cases hl : l' = l
      · simp only [hl, if_true, Option.some.injEq] at h
        subst h; subst hl
        simp [defsL]
      · simp only [hl, if_false] at h
        simp only [defsL]
        exact List.mem_cons_of_mem _ (defsL_label l rest rest' K h)
    | act a => simp only [dropToLabel] at h; simp only [defsL]; exact List.mem_append_right _ (defsL_label l rest rest' K h)
    | goto g => simp only [dropToLabel] at h; simp only [defsL]; exact List.mem_append_right _ (defsL_label l rest rest' K h)
    | ifThen c t => simp only [dropToLabel] at h; simp only [defsL]; exact List.mem_append_right _ (defsL_label l rest rest' K h)
    | ifElse c t e => simp only [dropToLabel] at h; simp only [defsL]; exact List.mem_append_right _ (defsL_label l rest rest' K h)
    | block id ss lp => simp only [dropToLabel] at h; simp only [defsL]; exact List.mem_append_right _ (defsL_label l rest rest' K h)

/-- the table of what follows a label is part of the table of the list -/
theorem defsL_suffix (l : Nat) : ∀ (rest rest' : Stmts) (K : Code), dropToLabel l rest = some rest' →
    ∀ p ∈ defsL rest' K, p ∈ defsL rest K
  | .nil, _, _, h => by simp [dropToLabel] at h
  | .cons s rest, rest', K, h => by
    cases s with
    | label l' =>
      simp only [dropToLabel] at h
      by_cases hl : l' = l
      · simp only [hl, if_true, Option.some.injEq] at h
        subst h
        intro p hp
        simp only [defsL]
        exact List.mem_cons_of_mem _ hp
      · simp only [hl, if_false] at h
        intro p hp
        simp only [defsL]
        exact List.mem_cons_of_mem _ (defsL_suffix l rest rest' K h p hp)
    | act a => simp only [dropToLabel] at h; intro p hp; simp only [defsL]; exact List.mem_append_right _ (defsL_suffix l rest rest' K h p hp)
    | goto g => simp only [dropToLabel] at h; intro p hp; simp only [defsL]; exact List.mem_append_right _ (defsL_suffix l rest rest' K h p hp)
    | ifThen c t => simp only [dropToLabel] at h; intro p hp; simp only [defsL]; exact List.mem_append_right _ (defsL_suffix l rest rest' K h p hp)
    | ifElse c t e => simp only [dropToLabel] at h; intro p hp; simp only [defsL]; exact List.mem_append_right _ (defsL_suffix l rest rest' K h p hp)
    | block id ss lp => simp only [dropToLabel] at h; intro p hp; simp only [defsL]; exact List.mem_append_right _ (defsL_suffix l rest rest' K h p hp)

/-- the table of a list splits into the table of its head (in front of the rest) and the table of the rest -/
theorem covers_cons {D : List (Name × Code)} {s : Stmt} {rest : Stmts} {K : Code} (h : Covers D (defsL (.cons s rest) K)) :
    Covers D (defsS s (compL rest K)) ∧ Covers D (defsL rest K) := by
  cases s with
  | label l => simp only [defsL] at h; exact ⟨by intro p hp; simp [defsS] at hp, h.tail⟩
  | act a => simp only [defsL] at h; exact ⟨h.left, h.right⟩
  | goto g => simp only [defsL] at h; exact ⟨h.left, h.right⟩
  | ifThen c t => simp only [defsL] at h; exact ⟨h.left, h.right⟩
  | ifElse c t e => simp only [defsL] at h; exact ⟨h.left, h.right⟩
  | block id ss lp => simp only [defsL] at h; exact ⟨h.left, h.right⟩

/-- what the flow graph does after a piece of code that the source semantics leaves with `fl`: continue with `k`, or
    with the block of the label jumped to -/
def Continues (D : List (Name × Code)) (code : Code) (o : List Bool) (tr : List Ev) (o' : List Bool) (fl : Flow) (k : Code) : Prop :=
  match fl with
  | .next => ∀ f2 r, run D f2 k o' = some r → ∃ f3, run D f3 code o = some (tr ++ r.1, r.2)
  | .jump l => ∀ f2 r kl, lookup D (.lbl l) = some kl → run D f2 kl o' = some r → ∃ f3, run D f3 code o = some (tr ++ r.1, r.2)

theorem run_act (D : List (Name × Code)) (a : Nat) (k : Code) (o : List Bool) (f : Nat) (r : List Ev × List Bool)
    (h : run D f k o = some r) : run D (f + 1) (.act a k) o = some (Ev.act a :: r.1, r.2) := by
  simp [run, h]

theorem run_cond (D : List (Name × Code)) (c : Nat) (t e : Code) (b : Bool) (o : List Bool) (f : Nat) (r : List Ev × List Bool)
    (h : run D f (if b then t else e) o = some r) : run D (f + 1) (.cond c t e) (b :: o) = some (Ev.cond c b :: r.1, r.2) := by
  simp [run, h]

theorem run_jmp (D : List (Name × Code)) (n : Name) (k : Code) (o : List Bool) (f : Nat) (r : List Ev × List Bool)
    (hl : lookup D n = some k) (h : run D f k o = some r) : run D (f + 1) (.jmp n) o = some r := by
  simp [run, hl, h]

/-- the simulation, for statements and for statement lists, by induction on the fuel of the source run -/
theorem sim (D : List (Name × Code)) : ∀ (f : Nat),
    (∀ (s : Stmt) (o : List Bool) (tr : List Ev) (o' : List Bool) (fl : Flow) (k : Code),
      execS f s o = some (tr, o', fl) → Covers D (defsS s k) → Continues D (compS s k) o tr o' fl k) ∧
    (∀ (whole rest : Stmts) (looped : Bool) (id : Nat) (o : List Bool) (tr : List Ev) (o' : List Bool) (fl : Flow) (k : Code),
      execL f whole rest looped o = some (tr, o', fl) →
      Covers D (defsL rest (if looped then .jmp (.loop id) else k)) →
      (looped = true → lookup D (.loop id) = some (compL whole (.jmp (.loop id))) ∧ Covers D (defsL whole (.jmp (.loop id)))) →
      Continues D (compL rest (if looped then .jmp (.loop id) else k)) o tr o' fl k)
  | 0 => by
    constructor
    · intro s o tr o' fl k h; simp [execS] at h
    · intro whole rest looped id o tr o' fl k h; simp [execL] at h
  | f + 1 => by
    obtain ⟨ihS, ihL⟩ := sim D f
    constructor
    · intro s o tr o' fl k h hc
      cases s with
      | act a =>
        simp only [execS, Option.some.injEq, Prod.mk.injEq] at h
        obtain ⟨rfl, rfl, rfl⟩ := h
        intro f2 r hr
        exact ⟨f2 + 1, by simpa [compS] using run_act D a k o f2 r hr⟩
      | goto l =>
        simp only [execS, Option.some.injEq, Prod.mk.injEq] at h
        obtain ⟨rfl, rfl, rfl⟩ := h
        intro f2 r kl hl hr
        exact ⟨f2 + 1, by simpa [compS] using run_jmp D (.lbl l) kl o f2 r hl hr⟩
      | label l =>
        simp only [execS, Option.some.injEq, Prod.mk.injEq] at h
        obtain ⟨rfl, rfl, rfl⟩ := h
        intro f2 r hr
        exact ⟨f2, by simpa [compS] using hr⟩
      | ifThen c t =>
        cases o with
        | nil => simp [execS] at h
        | cons b o1 =>
          cases b with
          | true =>
            simp only [execS, if_true] at h
            cases ht : execS f t o1 with
            | none => rw [ht] at h; simp at h
            | some rt =>
              obtain ⟨tr1, o2, fl1⟩ := rt
              rw [ht] at h
              simp only [Option.map_some, Option.some.injEq, Prod.mk.injEq] at h
              obtain ⟨rfl, rfl, rfl⟩ := h
              have := ihS t o1 tr1 o2 fl1 k ht (by simpa [defsS] using hc)
              cases fl1 with
              | next =>
                intro f2 r hr
                obtain ⟨f3, h3⟩ := this f2 r hr
                exact ⟨f3 + 1, by simpa [compS] using run_cond D c (compS t k) k true o1 f3 _ (by simpa using h3)⟩
              | jump l =>
                intro f2 r kl hl hr
                obtain ⟨f3, h3⟩ := this f2 r kl hl hr
                exact ⟨f3 + 1, by simpa [compS] using run_cond D c (compS t k) k true o1 f3 _ (by simpa using h3)⟩
          | false =>
            simp only [execS, Bool.false_eq_true, if_false, Option.some.injEq, Prod.mk.injEq] at h
            obtain ⟨rfl, rfl, rfl⟩ := h
            intro f2 r hr
            exact ⟨f2 + 1, by simpa [compS] using run_cond D c (compS t k) k false o1 f2 r (by simpa using hr)⟩
      | ifElse c t e =>
        cases o with
        | nil => simp [execS] at h
        | cons b o1 =>
          simp only [execS] at h
          cases ht : execS f (if b then t else e) o1 with
          | none => rw [ht] at h; simp at h
          | some rt =>
            obtain ⟨tr1, o2, fl1⟩ := rt
            rw [ht] at h
            simp only [Option.map_some, Option.some.injEq, Prod.mk.injEq] at h
            obtain ⟨rfl, rfl, rfl⟩ := h
            have hcov : Covers D (defsS (if b then t else e) k) := by
              simp only [defsS] at hc
              cases b
              · simpa using hc.right
              · simpa using hc.left
            have := ihS (if b then t else e) o1 tr1 o2 fl1 k ht hcov
            have hcomp : (if b then compS t k else compS e k) = compS (if b then t else e) k := by cases b <;> rfl
            cases fl1 with
            | next =>
              intro f2 r hr
              obtain ⟨f3, h3⟩ := this f2 r hr
              exact ⟨f3 + 1, by simpa [compS] using run_cond D c (compS t k) (compS e k) b o1 f3 _ (by rw [hcomp]; exact h3)⟩
            | jump l =>
              intro f2 r kl hl hr
              obtain ⟨f3, h3⟩ := this f2 r kl hl hr
              exact ⟨f3 + 1, by simpa [compS] using run_cond D c (compS t k) (compS e k) b o1 f3 _ (by rw [hcomp]; exact h3)⟩
      | block id ss looped =>
        simp only [execS] at h
        cases looped with
        | false =>
          have hc' : Covers D (defsL ss (if false = true then Code.jmp (.loop id) else k)) := by simpa [defsS] using hc
          have := ihL ss ss false id o tr o' fl k h hc' (by intro hh; cases hh)
          simpa [compS] using this
        | true =>
          simp only [defsS, if_true] at hc
          have hc' : Covers D (defsL ss (if true = true then Code.jmp (.loop id) else k)) := by simpa using hc.tail
          have hloop : lookup D (.loop id) = some (compL ss (.jmp (.loop id))) := hc.head
          have := ihL ss ss true id o tr o' fl k h hc' (fun _ => ⟨hloop, hc.tail⟩)
          simp only [if_true] at this
          cases fl with
          | next =>
            intro f2 r hr
            obtain ⟨f3, h3⟩ := this f2 r hr
            exact ⟨f3 + 1, by simpa [compS] using run_jmp D (.loop id) _ o f3 _ hloop h3⟩
          | jump l =>
            intro f2 r kl hl hr
            obtain ⟨f3, h3⟩ := this f2 r kl hl hr
            exact ⟨f3 + 1, by simpa [compS] using run_jmp D (.loop id) _ o f3 _ hloop h3⟩
    · intro whole rest looped id o tr o' fl k h hc hloop
      cases rest with
      | nil =>
        cases looped with
        | false =>
          simp only [execL, Bool.false_eq_true, if_false, Option.some.injEq, Prod.mk.injEq] at h
          obtain ⟨rfl, rfl, rfl⟩ := h
          intro f2 r hr
          exact ⟨f2, by simpa [compL] using hr⟩
        | true =>
          simp only [execL, if_true] at h
          obtain ⟨hl, hcw⟩ := hloop rfl
          have := ihL whole whole true id o tr o' fl k h (by simpa using hcw) (fun _ => ⟨hl, hcw⟩)
          simp only [if_true, compL] at this ⊢
          cases fl with
          | next =>
            intro f2 r hr
            obtain ⟨f3, h3⟩ := this f2 r hr
            exact ⟨f3 + 1, run_jmp D (.loop id) _ o f3 _ hl h3⟩
          | jump l =>
            intro f2 r kl hkl hr
            obtain ⟨f3, h3⟩ := this f2 r kl hkl hr
            exact ⟨f3 + 1, run_jmp D (.loop id) _ o f3 _ hl h3⟩
      | cons s rest' =>
        simp only [execL] at h
        obtain ⟨hcs, hcr⟩ := covers_cons hc
        cases hs : execS f s o with
        | none => rw [hs] at h; simp at h
        | some rs =>
          obtain ⟨tr1, o1, fl1⟩ := rs
          rw [hs] at h
          have hS := ihS s o tr1 o1 fl1 (compL rest' (if looped then .jmp (.loop id) else k)) hs hcs
          cases fl1 with
          | next =>
            simp only at h
            cases hr : execL f whole rest' looped o1 with
            | none => rw [hr] at h; simp at h
            | some rr =>
              obtain ⟨tr2, o2, fl2⟩ := rr
              rw [hr] at h
              simp only [Option.map_some, Option.some.injEq, Prod.mk.injEq] at h
              obtain ⟨rfl, rfl, rfl⟩ := h
              have hL := ihL whole rest' looped id o1 tr2 o2 fl2 k hr hcr hloop
              simp only [compL]
              cases fl2 with
              | next =>
                intro f2 r hrun
                obtain ⟨f3, h3⟩ := hL f2 r hrun
                obtain ⟨f4, h4⟩ := hS f3 _ h3
                exact ⟨f4, by simpa [List.append_assoc] using h4⟩
              | jump l =>
                intro f2 r kl hkl hrun
                obtain ⟨f3, h3⟩ := hL f2 r kl hkl hrun
                obtain ⟨f4, h4⟩ := hS f3 _ h3
                exact ⟨f4, by simpa [List.append_assoc] using h4⟩
          | jump l =>
            simp only at h
            cases hd : dropToLabel l rest' with
            | none =>
              rw [hd] at h
              simp only [Option.some.injEq, Prod.mk.injEq] at h
              obtain ⟨rfl, rfl, rfl⟩ := h
              simp only [compL]
              intro f2 r kl hkl hrun
              exact hS f2 r kl hkl hrun
            | some rest'' =>
              rw [hd] at h
              simp only at h
              cases hr : execL f whole rest'' looped o1 with
              | none => rw [hr] at h; simp at h
              | some rr =>
                obtain ⟨tr2, o2, fl2⟩ := rr
                rw [hr] at h
                simp only [Option.map_some, Option.some.injEq, Prod.mk.injEq] at h
                obtain ⟨rfl, rfl, rfl⟩ := h
                -- the block of `l` is the code of what follows the label in this list
                have hmem := defsL_label l rest' rest'' (if looped then .jmp (.loop id) else k) hd
                have hlk : lookup D (.lbl l) = some (compL rest'' (if looped then .jmp (.loop id) else k)) := hcr _ hmem
                have hcr'' : Covers D (defsL rest'' (if looped then .jmp (.loop id) else k)) :=
                  fun p hp => hcr p (defsL_suffix l rest' rest'' _ hd p hp)
                have hL := ihL whole rest'' looped id o1 tr2 o2 fl2 k hr hcr'' hloop
                simp only [compL]
                cases fl2 with
                | next =>
                  intro f2 r hrun
                  obtain ⟨f3, h3⟩ := hL f2 r hrun
                  obtain ⟨f4, h4⟩ := hS f3 _ _ hlk h3
                  exact ⟨f4, by simpa [List.append_assoc] using h4⟩
                | jump l2 =>
                  intro f2 r kl hkl hrun
                  obtain ⟨f3, h3⟩ := hL f2 r kl hkl hrun
                  obtain ⟨f4, h4⟩ := hS f3 _ _ hlk h3
                  exact ⟨f4, by simpa [List.append_assoc] using h4⟩

theorem lookup_of_nodup : ∀ (D : List (Name × Code)), (D.map (·.1)).Nodup → ∀ p ∈ D, lookup D p.1 = some p.2
  | [], _, p, hp => by simp at hp
  | q :: D, hnd, p, hp => by
    simp only [List.map_cons, List.nodup_cons] at hnd
    simp only [List.mem_cons] at hp
    unfold lookup
    rcases hp with rfl | hp
    · simp
    · have hne : (q.1 == p.1) = false := by
        cases hq : (q.1 == p.1) with
        | false => rfl
        | true =>
          simp only [beq_iff_eq] at hq
          exact absurd (List.mem_map.2 ⟨p, hp, hq.symm⟩) hnd.1
      simp only [List.find?_cons, hne]
      exact lookup_of_nodup D hnd.2 p hp

/-- **the lowering of control flow is correct**: if the source semantics runs the body of a function to its end, the flow
    graph the body is lowered to produces the same trace from the same condition outcomes, and halts — for every body
    whose labels and looped blocks have distinct ids (the resolution ids of the compiler), any nesting, any number of
    jumps and loop iterations -/
theorem lowering_correct (ss : Stmts) (hnd : ((compBody ss).2.map (·.1)).Nodup) (f : Nat) (o : List Bool) (tr : List Ev)
    (o' : List Bool) (h : execL f ss ss false o = some (tr, o', .next)) :
    ∃ f', run (compBody ss).2 f' (compBody ss).1 o = some (tr, o') := by
  have hcov : Covers (compBody ss).2 (defsL ss .halt) := lookup_of_nodup _ hnd
  have := (sim (compBody ss).2 f).2 ss ss false 0 o tr o' .next .halt h (by simpa using hcov) (by intro hh; cases hh)
  obtain ⟨f3, h3⟩ := this 1 ([], o') (by simp [run])
  exact ⟨f3, by simpa [compBody] using h3⟩

end CF
