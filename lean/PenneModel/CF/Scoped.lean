/-
  C04 meets C01: in a body the label scoper accepts, every `goto` that is executed finds its label.  The source semantics
  resolves a jump dynamically (search the rest of the current block, else leave the block); the scoper decides statically
  (the label must be located later in the same or an enclosing block).  `accepted_never_stuck`: for every body whose
  skeleton the scoper model accepts without E400, a run of the source semantics never ends with a pending jump.
-/
import PenneModel.CF.Defs
import PenneModel.Props.C04

namespace CF
open Labels (visible addLast declared declaredS specStmt specBlock)

mutual
/-- the statement skeleton the label scoper sees -/
def toSkel : Stmt → _root_.Stmt
  | .act _ => .use []
  | .goto l => .goto l
  | .label l => .label l
  | .ifThen _ t => .ifThen [] (toSkel t)
  | .ifElse _ t e => .ifElse [] (toSkel t) (toSkel e)
  | .block _ ss looped => .block (toSkelL ss looped)
def toSkelL : Stmts → Bool → _root_.Stmts
  | .nil, looped => if looped then .cons .loop .nil else .nil
  | .cons s rest, looped => .cons (toSkel s) (toSkelL rest looped)
end

mutual
/-- no label stands as the branch of an `if` (E840 rejects that; a jump could not find it) -/
def branchesOK : Stmt → Bool
  | .ifThen _ t => (match t with | .label _ => false | _ => true) && branchesOK t
  | .ifElse _ t e => (match t with | .label _ => false | _ => true) && (match e with | .label _ => false | _ => true) &&
      branchesOK t && branchesOK e
  | .block _ ss _ => branchesOKL ss
  | _ => true
def branchesOKL : Stmts → Bool
  | .nil => true
  | .cons s rest => branchesOK s && branchesOKL rest
end

/-- no E400 among the codes -/
def NoE400 (cs : List _root_.Code) : Prop := (400 : Nat) ∉ cs

theorem visible_addLast (ctx : Labels.Stack) (hne : ctx ≠ []) (ns : List _root_.Name) (l : _root_.Name) :
    visible (addLast ctx ns) l = (visible ctx l || ns.contains l) := by
  induction ctx with
  | nil => exact absurd rfl hne
  | cons sc rest ih =>
    cases rest with
    | nil => simp [addLast, visible]
    | cons sc' rest' =>
      have := ih (by simp)
      simp only [addLast, visible, List.any_cons] at this ⊢
      rw [this]
      simp only [Bool.or_assoc]

theorem noE400_append {a b : List _root_.Code} (h : NoE400 (a ++ b)) : NoE400 a ∧ NoE400 b := by
  unfold NoE400 at *
  simp only [List.mem_append, not_or] at h
  exact h

theorem visible_snoc_nil (ctx : Labels.Stack) (l : _root_.Name) : visible (ctx ++ [[]]) l = visible ctx l := by
  simp [visible]

/-- with proper branches only a label statement contributes a label to its block -/
theorem declared_toSkel : ∀ (s : Stmt), branchesOK s = true →
    declared (toSkel s) = (match s with | .label l => [l] | _ => [])
  | .act _, _ => rfl
  | .goto _, _ => rfl
  | .label _, _ => rfl
  | .block _ _ _, _ => rfl
  | .ifThen c t, h => by
    simp only [branchesOK, Bool.and_eq_true] at h
    have := declared_toSkel t h.2
    cases t <;> simp_all [toSkel, declared]
  | .ifElse c t e, h => by
    simp only [branchesOK, Bool.and_eq_true] at h
    have h1 := declared_toSkel t h.1.2
    have h2 := declared_toSkel e h.2
    cases t <;> cases e <;> simp_all [toSkel, declared]

/-- a label the scoper sees later in the block is found by the forward search -/
theorem dropToLabel_of_declared (l : Nat) (lp : Bool) : ∀ (rest : Stmts), branchesOKL rest = true →
    l ∈ declaredS (toSkelL rest lp) → ∃ rest', dropToLabel l rest = some rest'
  | .nil, _, h => by cases lp <;> simp [toSkelL, declaredS, declared] at h
  | .cons s rest, hb, h => by
    simp only [branchesOKL, Bool.and_eq_true] at hb
    simp only [toSkelL, declaredS, List.mem_append] at h
    have hd := declared_toSkel s hb.1
    rcases h with h | h
    · obtain ⟨rest', hr⟩ := dropToLabel_of_declared l lp rest hb.2 h
      cases s with
      | label l' =>
        by_cases hl : l' = l
        · exact ⟨rest, by simp [dropToLabel, hl]⟩
        · exact ⟨rest', by simp [dropToLabel, hl, hr]⟩
      | act a => exact ⟨rest', by simp [dropToLabel, hr]⟩
      | goto g => exact ⟨rest', by simp [dropToLabel, hr]⟩
      | ifThen c t => exact ⟨rest', by simp [dropToLabel, hr]⟩
      | ifElse c t e => exact ⟨rest', by simp [dropToLabel, hr]⟩
      | block id ss b => exact ⟨rest', by simp [dropToLabel, hr]⟩
    · rw [hd] at h
      cases s with
      | label l' =>
        simp only [List.mem_singleton] at h
        exact ⟨rest, by simp [dropToLabel, h]⟩
      | act a => simp at h
      | goto g => simp at h
      | ifThen c t => simp at h
      | ifElse c t e => simp at h
      | block id ss b => simp at h

/-- what follows a label is checked by the scoper as part of the list -/
theorem noE400_suffix (l : Nat) (lp : Bool) (ctx : Labels.Stack) : ∀ (rest rest' : Stmts), dropToLabel l rest = some rest' →
    NoE400 (specBlock ctx (toSkelL rest lp)) → NoE400 (specBlock ctx (toSkelL rest' lp)) ∧
      (branchesOKL rest = true → branchesOKL rest' = true)
  | .nil, _, h, _ => by simp [dropToLabel] at h
  | .cons s rest, rest', h, hn => by
    simp only [toSkelL, specBlock] at hn
    obtain ⟨_, hn2⟩ := noE400_append hn
    have step : dropToLabel l rest = some rest' → NoE400 (specBlock ctx (toSkelL rest' lp)) ∧
        (branchesOKL (.cons s rest) = true → branchesOKL rest' = true) := by
      intro hr
      obtain ⟨a, b⟩ := noE400_suffix l lp ctx rest rest' hr hn2
      exact ⟨a, fun hb => b (by simp only [branchesOKL, Bool.and_eq_true] at hb; exact hb.2)⟩
    cases s with
    | label l' =>
      simp only [dropToLabel] at h
      by_cases hl : l' = l
      · simp only [hl, if_true, Option.some.injEq] at h
        subst h
        exact ⟨hn2, fun hb => by simp only [branchesOKL, Bool.and_eq_true] at hb; exact hb.2⟩
      · simp only [hl, if_false] at h
        exact step h
    | act a => exact step (by simpa [dropToLabel] using h)
    | goto g => exact step (by simpa [dropToLabel] using h)
    | ifThen c t => exact step (by simpa [dropToLabel] using h)
    | ifElse c t e => exact step (by simpa [dropToLabel] using h)
    | block id ss b => exact step (by simpa [dropToLabel] using h)

/-- a jump that leaves a statement (list) goes to a label the scoper considers visible there -/
theorem jump_visible : ∀ (f : Nat),
    (∀ (s : Stmt) (o : List Bool) (tr : List Ev) (o' : List Bool) (l : Nat) (ctx : Labels.Stack), ctx ≠ [] →
      branchesOK s = true → NoE400 (specStmt ctx (toSkel s)) → execS f s o = some (tr, o', .jump l) → visible ctx l = true) ∧
    (∀ (whole rest : Stmts) (lp : Bool) (o : List Bool) (tr : List Ev) (o' : List Bool) (l : Nat) (ctx : Labels.Stack), ctx ≠ [] →
      branchesOKL whole = true → branchesOKL rest = true → NoE400 (specBlock ctx (toSkelL whole lp)) →
      NoE400 (specBlock ctx (toSkelL rest lp)) → execL f whole rest lp o = some (tr, o', .jump l) → visible ctx l = true)
  | 0 => by
    constructor
    · intro s o tr o' l ctx _ _ _ h; simp [execS] at h
    · intro whole rest lp o tr o' l ctx _ _ _ _ _ h; simp [execL] at h
  | f + 1 => by
    obtain ⟨ihS, ihL⟩ := jump_visible f
    constructor
    · intro s o tr o' l ctx hctx hb hn h
      cases s with
      | act a => simp [execS] at h
      | label l' => simp [execS] at h
      | goto g =>
        simp only [execS, Option.some.injEq, Prod.mk.injEq, Flow.jump.injEq] at h
        obtain ⟨_, _, rfl⟩ := h
        simp only [toSkel, specStmt, NoE400] at hn
        cases hv : visible ctx g with
        | true => rfl
        | false => rw [hv] at hn; simp at hn
      | ifThen c t =>
        simp only [branchesOK, Bool.and_eq_true] at hb
        cases o with
        | nil => simp [execS] at h
        | cons b o1 =>
          cases b with
          | false => simp [execS] at h
          | true =>
            simp only [execS, if_true] at h
            cases ht : execS f t o1 with
            | none => rw [ht] at h; simp at h
            | some rt =>
              obtain ⟨tr1, o2, fl1⟩ := rt
              rw [ht] at h
              simp only [Option.map_some, Option.some.injEq, Prod.mk.injEq] at h
              obtain ⟨_, _, rfl⟩ := h
              exact ihS t o1 tr1 o2 l ctx hctx hb.2 (by simpa [toSkel, specStmt] using hn) ht
      | ifElse c t e =>
        simp only [branchesOK, Bool.and_eq_true] at hb
        cases o with
        | nil => simp [execS] at h
        | cons b o1 =>
          simp only [execS] at h
          simp only [toSkel, specStmt] at hn
          obtain ⟨hn1, hn2⟩ := noE400_append hn
          have hdt : declared (toSkel t) = [] := by
            have := declared_toSkel t hb.1.2
            cases t <;> simp_all
          rw [hdt, Labels.addLast_nil ctx hctx] at hn2
          cases ht : execS f (if b then t else e) o1 with
          | none => rw [ht] at h; simp at h
          | some rt =>
            obtain ⟨tr1, o2, fl1⟩ := rt
            rw [ht] at h
            simp only [Option.map_some, Option.some.injEq, Prod.mk.injEq] at h
            obtain ⟨_, _, rfl⟩ := h
            cases b with
            | true => exact ihS t o1 tr1 o2 l ctx hctx hb.1.2 hn1 (by simpa using ht)
            | false => exact ihS e o1 tr1 o2 l ctx hctx hb.2 hn2 (by simpa using ht)
      | block id ss lp =>
        simp only [execS] at h
        simp only [branchesOK] at hb
        simp only [toSkel, specStmt] at hn
        have := ihL ss ss lp o tr o' l (ctx ++ [[]]) (by simp) hb hb hn hn h
        rwa [visible_snoc_nil] at this
    · intro whole rest lp o tr o' l ctx hctx hbw hbr hnw hnr h
      cases rest with
      | nil =>
        cases lp with
        | false => simp [execL] at h
        | true =>
          simp only [execL, if_true] at h
          exact ihL whole whole true o tr o' l ctx hctx hbw hbw hnw hnw h
      | cons s rest' =>
        simp only [execL] at h
        simp only [branchesOKL, Bool.and_eq_true] at hbr
        simp only [toSkelL, specBlock] at hnr
        obtain ⟨hn1, hn2⟩ := noE400_append hnr
        cases hs : execS f s o with
        | none => rw [hs] at h; simp at h
        | some rs =>
          obtain ⟨tr1, o1, fl1⟩ := rs
          rw [hs] at h
          cases fl1 with
          | next =>
            simp only at h
            cases hr : execL f whole rest' lp o1 with
            | none => rw [hr] at h; simp at h
            | some rr =>
              obtain ⟨tr2, o2, fl2⟩ := rr
              rw [hr] at h
              simp only [Option.map_some, Option.some.injEq, Prod.mk.injEq] at h
              obtain ⟨_, _, rfl⟩ := h
              exact ihL whole rest' lp o1 tr2 o2 l ctx hctx hbw hbr.2 hnw hn2 hr
          | jump l1 =>
            simp only at h
            have hvis := ihS s o tr1 o1 l1 (addLast ctx (declaredS (toSkelL rest' lp))) (Labels.addLast_ne_nil _ _) hbr.1 hn1 hs
            rw [visible_addLast ctx hctx] at hvis
            cases hd : dropToLabel l1 rest' with
            | none =>
              rw [hd] at h
              simp only [Option.some.injEq, Prod.mk.injEq, Flow.jump.injEq] at h
              obtain ⟨_, _, rfl⟩ := h
              simp only [Bool.or_eq_true] at hvis
              rcases hvis with hv | hv
              · exact hv
              · have hmem : l1 ∈ declaredS (toSkelL rest' lp) := by simpa using hv
                obtain ⟨r', hr'⟩ := dropToLabel_of_declared l1 lp rest' hbr.2 hmem
                rw [hd] at hr'; cases hr'
            | some rest'' =>
              rw [hd] at h
              simp only at h
              obtain ⟨hn3, hb3⟩ := noE400_suffix l1 lp ctx rest' rest'' hd hn2
              cases hr : execL f whole rest'' lp o1 with
              | none => rw [hr] at h; simp at h
              | some rr =>
                obtain ⟨tr2, o2, fl2⟩ := rr
                rw [hr] at h
                simp only [Option.map_some, Option.some.injEq, Prod.mk.injEq] at h
                obtain ⟨_, _, rfl⟩ := h
                exact ihL whole rest'' lp o1 tr2 o2 l ctx hctx hbw (hb3 hbr.2) hnw hn3 hr

/-- **an accepted body never gets stuck on a jump**: if the label scoper raises no E400 for the body (`Labels.goBody`, the
    model of label_references.rs, C04), every run of the source semantics that ends, ends normally — each `goto` that was
    executed found its label by the forward search -/
theorem accepted_never_stuck (ss : Stmts) (hb : branchesOKL ss = true) (hacc : NoE400 (Labels.goBody (toSkelL ss false)))
    (f : Nat) (o : List Bool) (tr : List Ev) (o' : List Bool) (fl : Flow) (h : execL f ss ss false o = some (tr, o', fl)) :
    fl = .next := by
  rw [Labels.labels_scope_iff] at hacc
  cases fl with
  | next => rfl
  | jump l =>
    have := (jump_visible f).2 ss ss false o tr o' l [[]] (by simp) hb hb hacc hacc h
    simp [visible] at this

end CF
