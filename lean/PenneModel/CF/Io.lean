/-
  S-expression interface of the control-flow model for the correspondence run (checks/c01.py): skeleton programs in,
  the source trace, the trace of the lowered flow graph and the graph itself out.
-/
import PenneModel.CF.Correct
import PenneModel.Sexp

namespace CF
open Sexp

mutual
def stmtOfSexp : Sexp → Option Stmt
  | .list [.atom "act", a] => do some (.act (← a.toNat?))
  | .list [.atom "goto", l] => do some (.goto (← l.toNat?))
  | .list [.atom "label", l] => do some (.label (← l.toNat?))
  | .list [.atom "if", c, t] => do some (.ifThen (← c.toNat?) (← stmtOfSexp t))
  | .list [.atom "ife", c, t, e] => do some (.ifElse (← c.toNat?) (← stmtOfSexp t) (← stmtOfSexp e))
  | .list (.atom "block" :: id :: lp :: ss) => do some (.block (← id.toNat?) (← stmtsOfSexp ss) ((← lp.toNat?) == 1))
  | _ => none
def stmtsOfSexp : List Sexp → Option Stmts
  | [] => some .nil
  | s :: ss => do some (.cons (← stmtOfSexp s) (← stmtsOfSexp ss))
end

def showName : Name → String
  | .lbl l => s!"L{l}"
  | .loop id => s!"P{id}"

def showCode : Code → String
  | .act a k => s!"(act {a} {showCode k})"
  | .cond c t e => s!"(cond {c} {showCode t} {showCode e})"
  | .jmp n => s!"(jmp {showName n})"
  | .halt => "(halt)"

def showEv : Ev → String
  | .act a => s!"a{a}"
  | .cond c b => s!"c{c}:{if b then 1 else 0}"

def showTrace (t : Option (List Ev × List Bool)) : String :=
  match t with
  | none => "none"
  | some (tr, _) => ",".intercalate (tr.map showEv)

/-- `(cf (oracle b…) (body stmt…))` -/
def answer (payload : String) : String :=
  match Sexp.parse payload with
  | some (.list [.atom "cf", .list (.atom "oracle" :: bs), .list (.atom "body" :: ss)]) =>
    match bs.mapM Sexp.toNat?, stmtsOfSexp ss with
    | some bits, some body =>
      -- the oracle given, then `true` for ever after (10000 times)
      let o := bits.map (· == 1) ++ List.replicate 10000 true
      let g := compBody body
      let src := match execL 100000 body body false o with
        | some (tr, o', .next) => some (tr, o')
        | _ => none
      let cfg := run g.2 100000 g.1 o
      let nodup := decide ((g.2.map (·.1)).Nodup)
      s!"nodup={if nodup then 1 else 0} src={showTrace src} cfg={showTrace cfg} main={showCode g.1} defs=" ++
        ";".intercalate (g.2.map (fun p => showName p.1 ++ "=" ++ showCode p.2))
    | _, _ => "bad-request"
  | _ => "bad-request"

end CF
