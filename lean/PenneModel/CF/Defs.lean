/-
  C01, control flow: the structured control constructs of Penne (blocks, `if`/`else`, forward `goto`, labels, a block
  ending in `loop`) and their lowering to a flow graph of named code blocks, as the generator lowers them to LLVM
  basic blocks (src/alpha/generator.rs: `impl Generatable for Block`, `Statement::{Goto, Label, If}`).

  Statements that are not control flow are opaque actions `act a`; conditions are opaque `c` whose outcomes come from an
  oracle, so both semantics produce a trace of events.  `execS`/`execL` is the control part of the source interpreter
  (Sem/Interp.lean `exec`/`execList`: `jump l` searches the rest of the current block for `l:` and otherwise leaves the
  block, a block ending in `loop` starts over).  `comp`/`defs` is the lowering; `run` executes the flow graph.
  `CF/Correct.lean` proves that they produce the same trace.
-/
namespace CF

mutual
inductive Stmt where
  | act (a : Nat)
  | goto (l : Nat)
  | label (l : Nat)
  | ifThen (c : Nat) (t : Stmt)
  | ifElse (c : Nat) (t e : Stmt)
  /-- `looped`: the block ends in `loop`; `id` names the block (the generator's `looped-block`) -/
  | block (id : Nat) (ss : Stmts) (looped : Bool)
inductive Stmts where
  | nil
  | cons (s : Stmt) (ss : Stmts)
end

inductive Ev where
  | act (a : Nat)
  | cond (c : Nat) (b : Bool)
  deriving DecidableEq, Repr

inductive Flow where
  | next
  | jump (l : Nat)
  deriving DecidableEq, Repr

/-- the statements after the label `l` in this list (a label nested in an `if` branch or an inner block is not a target
    at this level) -/
def dropToLabel (l : Nat) : Stmts → Option Stmts
  | .nil => none
  | .cons (.label l') rest => if l' = l then some rest else dropToLabel l rest
  | .cons _ rest => dropToLabel l rest

/-! ### the source semantics (fuel-indexed, as in Sem/Interp.lean) -/

mutual
def execS : Nat → Stmt → List Bool → Option (List Ev × List Bool × Flow)
  | 0, _, _ => none
  | _ + 1, .act a, o => some ([.act a], o, .next)
  | _ + 1, .goto l, o => some ([], o, .jump l)
  | _ + 1, .label _, o => some ([], o, .next)
  | f + 1, .ifThen c t, o =>
    match o with
    | [] => none
    | b :: o' =>
      if b then (execS f t o').map (fun r => (.cond c b :: r.1, r.2))
      else some ([.cond c b], o', .next)
  | f + 1, .ifElse c t e, o =>
    match o with
    | [] => none
    | b :: o' => (execS f (if b then t else e) o').map (fun r => (.cond c b :: r.1, r.2))
  | f + 1, .block _ ss looped, o => execL f ss ss looped o
/-- `whole`: the block (for `loop`), `rest`: what is left of it -/
def execL : Nat → Stmts → Stmts → Bool → List Bool → Option (List Ev × List Bool × Flow)
  | 0, _, _, _, _ => none
  | f + 1, whole, .nil, looped, o =>
    if looped then execL f whole whole looped o else some ([], o, .next)
  | f + 1, whole, .cons s rest, looped, o =>
    match execS f s o with
    | none => none
    | some (tr, o1, .next) => (execL f whole rest looped o1).map (fun r => (tr ++ r.1, r.2))
    | some (tr, o1, .jump l) =>
      match dropToLabel l rest with
      | some rest' => (execL f whole rest' looped o1).map (fun r => (tr ++ r.1, r.2))
      | none => some (tr, o1, .jump l)
end

/-! ### the target: named code blocks -/

inductive Name where
  | lbl (l : Nat)
  | loop (id : Nat)
  deriving DecidableEq, Repr

inductive Code where
  | act (a : Nat) (k : Code)
  | cond (c : Nat) (t e : Code)
  | jmp (n : Name)
  | halt
  deriving Repr

mutual
/-- the code of a statement followed by the continuation `k` -/
def compS : Stmt → Code → Code
  | .act a, k => .act a k
  | .goto l, _ => .jmp (.lbl l)
  | .label _, k => k
  | .ifThen c t, k => .cond c (compS t k) k
  | .ifElse c t e, k => .cond c (compS t k) (compS e k)
  | .block id ss looped, k => if looped then .jmp (.loop id) else compL ss k
def compL : Stmts → Code → Code
  | .nil, k => k
  | .cons s rest, k => compS s (compL rest k)
end

mutual
/-- the named blocks a statement defines when followed by `k`: one per label (the code after it), one per looped block -/
def defsS : Stmt → Code → List (Name × Code)
  | .act _, _ => []
  | .goto _, _ => []
  | .label _, _ => []
  | .ifThen _ t, k => defsS t k
  | .ifElse _ t e, k => defsS t k ++ defsS e k
  | .block id ss looped, k =>
    if looped then (.loop id, compL ss (.jmp (.loop id))) :: defsL ss (.jmp (.loop id)) else defsL ss k
def defsL : Stmts → Code → List (Name × Code)
  | .nil, _ => []
  | .cons (.label l) rest, k => (.lbl l, compL rest k) :: defsL rest k
  | .cons s rest, k => defsS s (compL rest k) ++ defsL rest k
end

def lookup (ds : List (Name × Code)) (n : Name) : Option Code := (ds.find? (fun p => p.1 == n)).map (·.2)

/-- running the flow graph: the trace up to `halt` -/
def run (ds : List (Name × Code)) : Nat → Code → List Bool → Option (List Ev × List Bool)
  | 0, _, _ => none
  | f + 1, .act a k, o => (run ds f k o).map (fun r => (.act a :: r.1, r.2))
  | f + 1, .cond c t e, o =>
    match o with
    | [] => none
    | b :: o' => (run ds f (if b then t else e) o').map (fun r => (.cond c b :: r.1, r.2))
  | f + 1, .jmp n, o =>
    match lookup ds n with
    | some k => run ds f k o
    | none => none
  | _ + 1, .halt, o => some ([], o)

/-- a function body: the statements, then `halt` -/
def compBody (ss : Stmts) : Code × List (Name × Code) := (compL ss .halt, defsL ss .halt)

end CF
