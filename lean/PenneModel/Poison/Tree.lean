/-
  C02 — how errors travel: a failed sub-tree is replaced by `Poison::Error(e)`, anything that merely depends on a
  failed thing becomes `Poison::Poisoned`, and `resolver::resolve` turns the tree into either a resolved tree or
  the collection of errors.  `Poisoned` contributes no error (src/alpha/error.rs `impl From<Poison> for Errors`),
  so a tree with a `Poisoned` leaf and no `Error` leaf fails with an EMPTY list — the silent failure C02 forbids.
  Tuples/vectors combine the errors of all children; `?` stops at the first failing child.
-/
namespace Poison

mutual
inductive PTree where
  | ok
  | error (code : Nat)
  | poisoned
  | all (cs : PTrees)      -- `(a, b, c).resolve()` / `Vec::resolve`: every child is resolved, errors are combined
  | seq (cs : PTrees)      -- `a.resolve()?; b.resolve()?`: stops at the first failure
inductive PTrees where
  | nil
  | cons (t : PTree) (ts : PTrees)
end

mutual
/-- (failed, errors) -/
def collect : PTree → Bool × List Nat
  | .ok => (false, [])
  | .error c => (true, [c])
  | .poisoned => (true, [])
  | .all cs => collectAll cs
  | .seq cs => collectSeq cs
def collectAll : PTrees → Bool × List Nat
  | .nil => (false, [])
  | .cons t ts =>
    let a := collect t
    let b := collectAll ts
    (a.1 || b.1, a.2 ++ b.2)
def collectSeq : PTrees → Bool × List Nat
  | .nil => (false, [])
  | .cons t ts =>
    let a := collect t
    if a.1 then a else collectSeq ts
end

mutual
def hasPoisoned : PTree → Bool
  | .poisoned => true
  | .all cs | .seq cs => hasPoisonedS cs
  | _ => false
def hasPoisonedS : PTrees → Bool
  | .nil => false
  | .cons t ts => hasPoisoned t || hasPoisonedS ts
end

mutual
def hasError : PTree → Bool
  | .error _ => true
  | .all cs | .seq cs => hasErrorS cs
  | _ => false
def hasErrorS : PTrees → Bool
  | .nil => false
  | .cons t ts => hasError t || hasErrorS ts
end

mutual
def allOnly : PTree → Bool
  | .seq _ => false
  | .all cs => allOnlyS cs
  | _ => true
def allOnlyS : PTrees → Bool
  | .nil => true
  | .cons t ts => allOnly t && allOnlyS ts
end

end Poison
