import PenneModel.Sexp
/-
  Statement skeleton shared by the scoping / placement models (C04, C05, C06).
  It is `common::Statement` (src/alpha/common.rs) with expressions abstracted to
  the list of variable names they mention.  `Stmts` is a separate mutual type so
  that every function over it is structurally recursive.
-/

abbrev Name := Nat
abbrev Code := Nat

mutual
inductive Stmt where
  | label (n : Name)
  | goto (n : Name)
  | loop
  | decl (v : Name) (uses : List Name)     -- `var v: i32 = <expr over uses>;`
  | use (vs : List Name)                   -- assignment / call mentioning vs
  | ifThen (c : List Name) (t : Stmt)      -- `if <cond over c> t`
  | ifElse (c : List Name) (t e : Stmt)    -- `if <cond over c> t else e`
  | block (ss : Stmts)
inductive Stmts where
  | nil
  | cons (s : Stmt) (ss : Stmts)
end

namespace Stmts
def toList : Stmts → List Stmt
  | .nil => []
  | .cons s ss => s :: toList ss
def ofList : List Stmt → Stmts
  | [] => .nil
  | s :: ss => .cons s (ofList ss)
end Stmts

namespace Skel
open Sexp

def names (xs : List Sexp) : Option (List Name) := xs.mapM Sexp.toNat?

mutual
def stmtOfSexp : Sexp → Option Stmt
  | .list [.atom "label", n] => do some (.label (← n.toNat?))
  | .list [.atom "goto", n] => do some (.goto (← n.toNat?))
  | .list [.atom "loop"] => some .loop
  | .list [.atom "decl", v, .list us] => do some (.decl (← v.toNat?) (← names us))
  | .list [.atom "use", .list us] => do some (.use (← names us))
  | .list [.atom "if", .list c, t] => do some (.ifThen (← names c) (← stmtOfSexp t))
  | .list [.atom "ife", .list c, t, e] => do
      some (.ifElse (← names c) (← stmtOfSexp t) (← stmtOfSexp e))
  | .list (.atom "block" :: ss) => do some (.block (← stmtsOfSexp ss))
  | _ => none
def stmtsOfSexp : List Sexp → Option Stmts
  | [] => some .nil
  | s :: ss => do some (.cons (← stmtOfSexp s) (← stmtsOfSexp ss))
end

end Skel
