/-
  C18 — decision logic of the command line tool (src/main.rs: `MainArgs::try_from`, `get_backend`, `do_main`,
  `generate_output`; src/alpha/stdout.rs gating).  Process spawning, clap and ariadne are outside the model: the
  outcome of compilation and of the backend are inputs.
-/
namespace Cli

inductive Sub where
  | build | run | emit
  deriving DecidableEq, Repr

/-- what the spawned backend did -/
inductive BackendResult where
  | exited (code : Nat)     -- normal exit with a status
  | signalled               -- killed by a signal (no exit code)
  | spawnFailed
  deriving DecidableEq, Repr

structure Invocation where
  sub : Sub
  flagBackend : Option String := none      -- `--backend`
  envBackend : Option String := none       -- PENNE_BACKEND (build) / PENNE_LLI (run)
  cfgBackend : Option String := none       -- `backend = ..` in the `--config` file (build only)
  compileOk : Bool
  backend : BackendResult := .exited 0
  silent : Bool := false
  verbose : Bool := false
  deriving Repr

/-- `get_backend`: flag, else environment variable, else config file, else default -/
def getBackend (arg env cfg : Option String) (dflt : String) : String :=
  match arg with
  | some a => a
  | none => match env with
    | some e => e
    | none => match cfg with
      | some c => c
      | none => dflt

/-- the executable `MainArgs::try_from` selects; `none` when no backend is run (`emit`) -/
def chosenBackend (i : Invocation) : Option String :=
  match i.sub with
  | .build => some (getBackend i.flagBackend i.envBackend i.cfgBackend "clang")
  | .run => some (getBackend i.flagBackend i.envBackend none "lli")
  | .emit => none

/-- is the backend spawned at all -/
def backendInvoked (i : Invocation) : Bool := i.compileOk && i.sub != .emit

/-- `do_main` returns `Ok` (process exit status 0) -/
def exitZero (i : Invocation) : Bool :=
  i.compileOk &&
  (match i.sub with
   | .emit => true
   | .run => (match i.backend with | .exited _ => true | _ => false)       -- any exit code is *shown*, not propagated
   | .build => (match i.backend with | .exited 0 => true | _ => false))

/-- `Output: n` is printed -/
def shownOutput (i : Invocation) : Option Nat :=
  if i.compileOk && i.sub == .run && !i.silent then
    match i.backend with
    | .exited n => some n
    | _ => none
  else none

/-- `StdOut::new`: verbose output only when not silent; nothing at all when silent -/
def isVerbose (i : Invocation) : Bool := i.verbose && !i.silent
def diagnosticsShown (i : Invocation) : Bool := !i.compileOk && !i.silent

end Cli
