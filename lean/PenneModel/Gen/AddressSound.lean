import PenneModel.Gen.Address
/-
  Proofs about `Gen.Addr.run`: the address of every elaborated access path has the type `pointer to the lowering of the
  accessed type`.
-/
namespace Gen
namespace Addr
open Types Types.Ty

theorem walk_append (fs : Fields) : ∀ (a b : List Idx) (t : LTy),
    walk fs t (a ++ b) = (walk fs t a).bind (fun u => walk fs u b)
  | [], b, t => by simp [walk]
  | i :: a, b, t => by
    have ih := walk_append fs a b
    cases t with
    | arr n e => simp [walk, ih]
    | zarr e => simp [walk, ih]
    | struct s =>
      cases i with
      | none => simp [walk]
      | some m =>
        cases hf : fs s m with
        | none => simp [walk, hf]
        | some ft => simp [walk, hf, ih]
    | slice e =>
      cases i with
      | none => simp [walk]
      | some m =>
        by_cases h0 : m = 0
        · simp [walk, h0, ih]
        · by_cases h1 : m = 1
          · simp [walk, h1, ih]
          · simp [walk, h0, h1]
    | int b => simp [walk]
    | ptr p => simp [walk]
    | bad => simp [walk]

theorem flushT_snd (fs : Fields) (ty : LTy) (idx : List Idx) : (flushT fs ty idx).map (·.2) = flush fs ty idx := by
  unfold flushT flush
  split
  · rfl
  · cases gepTy fs ty idx <;> rfl

theorem flushT_loadT_snd (fs : Fields) (ty : LTy) (idx : List Idx) :
    ((flushT fs ty idx).bind loadT).map (·.2) = (flush fs ty idx).bind load := by
  rw [← flushT_snd]
  cases flushT fs ty idx with
  | none => rfl
  | some x => obtain ⟨ops, a⟩ := x; cases a <;> simp [loadT, load]

/-- the recording loop computes the same types as `run` -/
theorem runT_snd (fs : Fields) : ∀ (steps : List GStep) (ty : LTy) (idx : List Idx) (imm : Bool),
    (runT fs ty idx imm steps).map (·.2) = run fs ty idx imm steps
  | [], ty, idx, imm => by simp only [runT, run]; exact flushT_snd fs ty idx
  | .elem _ :: r, ty, idx, imm => by simp only [runT, run]; exact runT_snd fs r _ _ _
  | .member _ :: r, ty, idx, imm => by simp only [runT, run]; exact runT_snd fs r _ _ _
  | .deslice1 :: r, ty, idx, imm => by simp only [runT, run]; exact runT_snd fs r _ _ _
  | .deslice0 :: r, ty, idx, imm => by
    simp only [runT, run]
    by_cases he : idx.isEmpty = true
    · simp only [he, if_true]
      cases extract0 ty with
      | none => rfl
      | some a => simp only [Option.map_some, Option.map_map]; exact runT_snd fs r a [some 0] false
    · simp only [he, Bool.false_eq_true, if_false]
      have hl := flushT_loadT_snd fs ty (idx ++ [some 0])
      have hf : flush fs ty (idx ++ [some 0]) = gepTy fs ty (idx ++ [some 0]) := by simp [flush]
      rw [hf] at hl
      cases hx : (flushT fs ty (idx ++ [some 0])).bind loadT with
      | none => rw [hx] at hl; simp only [Option.map_none] at hl; rw [← hl]; rfl
      | some x =>
        obtain ⟨ops, a⟩ := x
        rw [hx] at hl
        simp only [Option.map_some] at hl
        rw [← hl]
        simp only [Option.map_map]
        exact runT_snd fs r a [some 0] false
  | .auto _ :: r, ty, idx, imm => by
    simp only [runT, run]
    split
    · exact runT_snd fs r _ _ _
    · have hl := flushT_loadT_snd fs ty (peek imm idx r.head?).idx
      cases hx : (flushT fs ty (peek imm idx r.head?).idx).bind loadT with
      | none => rw [hx] at hl; simp only [Option.map_none] at hl; rw [← hl]; rfl
      | some x =>
        obtain ⟨ops, a⟩ := x
        rw [hx] at hl
        simp only [Option.map_some] at hl
        rw [← hl]
        simp only [Option.map_map]
        exact runT_snd fs r a _ false

/-- pushing one more index onto a non-empty index list -/
theorem flush_snoc (fs : Fields) (ty : LTy) (idx : List Idx) (i : Idx) (A B : LTy) (hne : idx ≠ [])
    (h : flush fs ty idx = some (.ptr A)) (hw : walk fs A [i] = some B) :
    flush fs ty (idx ++ [i]) = some (.ptr B) := by
  cases idx with
  | nil => exact absurd rfl hne
  | cons j r =>
    cases ty with
    | ptr a =>
      simp only [flush, List.isEmpty_cons, Bool.false_eq_true, if_false, gepTy, Option.map_eq_some_iff] at h
      obtain ⟨A', hA, heq⟩ := h
      simp only [LTy.ptr.injEq] at heq
      subst heq
      simp [flush, gepTy, walk_append, hA, hw]
    | int b => simp [flush, gepTy] at h
    | arr n e => simp [flush, gepTy] at h
    | zarr e => simp [flush, gepTy] at h
    | slice e => simp [flush, gepTy] at h
    | struct s => simp [flush, gepTy] at h
    | bad => simp [flush, gepTy] at h

/-! ### peeling pointers and views -/

def needs0 : GStep → Bool
  | .elem e => !e
  | .member _ => true
  | _ => false

def isAccess : GStep → Bool
  | .elem _ => true
  | .member _ => true
  | _ => false

theorem peelG_nil_or_auto : ∀ (t : Ty), ((peelG t).1 = [] ∧ (peelG t).2 = t) ∨ ∃ v r, (peelG t).1 = .auto v :: r
  | .pointer t => Or.inr ⟨false, (peelG t).1, rfl⟩
  | .view t => Or.inr ⟨true, (peelG t).1, rfl⟩
  | .void => Or.inl ⟨rfl, rfl⟩
  | .prim _ => Or.inl ⟨rfl, rfl⟩
  | .array _ _ => Or.inl ⟨rfl, rfl⟩
  | .arrayNamed _ _ => Or.inl ⟨rfl, rfl⟩
  | .slice _ => Or.inl ⟨rfl, rfl⟩
  | .slicePtr _ => Or.inl ⟨rfl, rfl⟩
  | .endless _ => Or.inl ⟨rfl, rfl⟩
  | .arraylike _ => Or.inl ⟨rfl, rfl⟩
  | .struct _ => Or.inl ⟨rfl, rfl⟩
  | .word _ _ => Or.inl ⟨rfl, rfl⟩
  | .unresolved _ => Or.inl ⟨rfl, rfl⟩

/-- one Autoderef / Autoview outside the immediate-parameter case: flush, load, and a leading zero if an access follows -/
theorem auto_step (fs : Fields) (ty : LTy) (idx : List Idx) (A : LTy) (v : Bool) (r : List GStep)
    (h : flush fs ty idx = some (.ptr (.ptr A))) (hd : r.head? ≠ some .deslice1) :
    run fs ty idx false (.auto v :: r)
      = run fs (.ptr A) (if (peek false idx r.head?).followed then [some 0] else []) false r := by
  have hidx : (peek false idx r.head?).idx = idx ∧ (peek false idx r.head?).imm = false := by
    cases hh : r.head? with
    | none => simp [peek]
    | some g =>
      cases g with
      | deslice1 => exact absurd hh hd
      | elem e => simp [peek]
      | member m => simp [peek]
      | auto v' => simp [peek]
      | deslice0 => simp [peek]
  rw [run]
  simp only [hidx.1, hidx.2, Bool.false_eq_true, if_false, h, Option.bind_some, load]

/-- running the peeled pointers and views of `t`, when an element or member access follows -/
theorem peel_run (fs : Fields) (next : GStep) (more : List GStep) (hn : isAccess next = true) :
    ∀ (t : Ty) (ty : LTy) (idx : List Idx), flush fs ty idx = some (.ptr (lower t)) →
      run fs ty idx false ((peelG t).1 ++ next :: more) =
        if (peelG t).1 = [] then run fs ty idx false (next :: more)
        else run fs (.ptr (lower (peelG t).2)) (if needs0 next then [some 0] else []) false (next :: more) := by
  have one : ∀ (d : Ty) (v : Bool) (ty : LTy) (idx : List Idx),
      (∀ (ty : LTy) (idx : List Idx), flush fs ty idx = some (.ptr (lower d)) →
        run fs ty idx false ((peelG d).1 ++ next :: more) =
          if (peelG d).1 = [] then run fs ty idx false (next :: more)
          else run fs (.ptr (lower (peelG d).2)) (if needs0 next then [some 0] else []) false (next :: more)) →
      flush fs ty idx = some (.ptr (.ptr (lower d))) →
      run fs ty idx false (.auto v :: ((peelG d).1 ++ next :: more))
        = run fs (.ptr (lower (peelG d).2)) (if needs0 next then [some 0] else []) false (next :: more) := by
    intro d v ty idx ih h
    rcases peelG_nil_or_auto d with ⟨hnil, hbase⟩ | ⟨v', r', hr⟩
    · rw [hnil, hbase, List.nil_append]
      rw [auto_step fs ty idx (lower d) v _ h (by cases next <;> simp [isAccess] at hn ⊢)]
      cases next <;> simp [isAccess] at hn <;> simp [peek, needs0]
    · have hhead : ((peelG d).1 ++ next :: more).head? = some (.auto v') := by rw [hr]; rfl
      rw [auto_step fs ty idx (lower d) v _ h (by rw [hhead]; simp)]
      rw [hhead]
      simp only [peek, Bool.false_eq_true, if_false]
      rw [ih (.ptr (lower d)) [] (by simp [flush])]
      simp [hr]
  intro t
  induction t with
  | pointer d ih =>
    intro ty idx h
    simp only [peelG, List.cons_append, reduceCtorEq, if_false]
    exact one d false ty idx ih (by simpa [lower] using h)
  | view d ih =>
    intro ty idx h
    simp only [peelG, List.cons_append, reduceCtorEq, if_false]
    exact one d true ty idx ih (by simpa [lower] using h)
  | void => intro ty idx _; simp [peelG]
  | prim _ => intro ty idx _; simp [peelG]
  | array _ _ => intro ty idx _; simp [peelG]
  | arrayNamed _ _ => intro ty idx _; simp [peelG]
  | slice _ => intro ty idx _; simp [peelG]
  | slicePtr _ => intro ty idx _; simp [peelG]
  | endless _ => intro ty idx _; simp [peelG]
  | arraylike _ => intro ty idx _; simp [peelG]
  | struct _ => intro ty idx _; simp [peelG]
  | word _ _ => intro ty idx _; simp [peelG]
  | unresolved _ => intro ty idx _; simp [peelG]

/-! ### well-formedness along a path -/

theorem wf_mono : ∀ (t : Ty), WF false t = true → WF true t = true := by
  intro t h
  cases t <;> simp_all [WF]

theorem wf_peel : ∀ (t : Ty) (u : Bool), WF u t = true → WF true (peelG t).2 = true
  | .pointer d, u, h => by simp only [peelG]; exact wf_peel d true (by simpa [WF] using h)
  | .view d, u, h => by simp [WF] at h
  | .void, u, h => by simp [WF] at h
  | .prim _, u, h => by simp [peelG, WF]
  | .array e n, u, h => by simpa [peelG, WF] using h
  | .arrayNamed e n, u, h => by simpa [peelG, WF] using h
  | .slice _, u, h => by simp [WF] at h
  | .slicePtr _, u, h => by simp [WF] at h
  | .endless e, u, h => by simp only [peelG]; simp [WF] at h ⊢; exact h.2
  | .arraylike e, u, h => by simpa [peelG, WF] using h
  | .struct _, u, h => by simp [peelG, WF]
  | .word _ _, u, h => by simp [peelG, WF]
  | .unresolved _, u, h => by simp [peelG, WF]

/-- the state in which an access step can be taken: a non-empty index list that leads to storage of type `t` -/
def Canon (fs : Fields) (t : Ty) (ty : LTy) (idx : List Idx) : Prop :=
  idx ≠ [] ∧ flush fs ty idx = some (.ptr (lower t))

theorem canon_after_peel_array (fs : Fields) (le : LTy) (n : Nat) :
    flush fs (.ptr (.arr n le)) ([some 0] ++ [none]) = some (.ptr le) := by
  simp [flush, gepTy, walk]

/-- **inside storage**: from any state that addresses storage of a well-formed type `t` — with a non-empty index list
    unless `t` is a pointer — the steps of any path on `t` end at a pointer to the lowering of the accessed type -/
theorem stored_path (ms : Members) (hms : ∀ i m mt, ms i m = some mt → WF false mt = true) :
    ∀ (p : List UStep) (t : Ty) (ty : LTy) (idx : List Idx) (steps : List GStep) (leaf : Ty),
      WF false t = true → flush (lowerFields ms) ty idx = some (.ptr (lower t)) → (idx = [] → (peelG t).1 ≠ []) →
      elaborateG ms t p = some (steps, leaf) →
      run (lowerFields ms) ty idx false steps = some (.ptr (lower leaf))
  | [], t, ty, idx, steps, leaf, _, hf, _, h => by
    simp only [elaborateG, Option.some.injEq, Prod.mk.injEq] at h
    obtain ⟨rfl, rfl⟩ := h
    simpa [run] using hf
  | .elem :: rest, t, ty, idx, steps, leaf, hwf, hf, hidx, h => by
    simp only [elaborateG] at h
    cases hi : indexableG (peelG t).2 with
    | none => simp [hi] at h
    | some de =>
      obtain ⟨ds, en, e⟩ := de
      simp only [hi, Option.map_eq_some_iff] at h
      obtain ⟨⟨s', l'⟩, hr, heq⟩ := h
      simp only [Prod.mk.injEq] at heq
      obtain ⟨rfl, rfl⟩ := heq
      have hbase := wf_peel t false hwf
      have hpr := peel_run (lowerFields ms) (.elem en) s' rfl t ty idx hf
      -- what the peeled type can be
      cases hpt : (peelG t).2 with
      | array e' n =>
        rw [hpt] at hi hbase hpr
        simp only [indexableG, Option.some.injEq, Prod.mk.injEq] at hi
        obtain ⟨rfl, rfl, rfl⟩ := hi
        have hwe : WF false e' = true := by simpa [WF] using hbase
        simp only [List.append_nil, List.append_assoc, List.singleton_append]
        rw [hpr]
        by_cases hnil : (peelG t).1 = []
        · have hne : idx ≠ [] := fun h0 => hidx h0 hnil
          have htt : t = .array e' n := by
            rcases peelG_nil_or_auto t with ⟨_, hb⟩ | ⟨v, r, hr'⟩
            · rw [← hb, hpt]
            · rw [hr'] at hnil; simp at hnil
          subst htt
          simp only [hnil, if_true, run]
          exact stored_path ms hms rest e' ty (idx ++ [none]) s' l' hwe
            (flush_snoc _ ty idx none (.arr n (lower e')) (lower e') hne (by simpa [lower] using hf) (by simp [walk]))
            (by simp) hr
        · simp only [hnil, if_false, needs0, Bool.not_false, if_true, run]
          exact stored_path ms hms rest e' _ _ s' l' hwe (by simp [lower, flush, gepTy, walk]) (by simp) hr
      | arrayNamed e' n =>
        rw [hpt] at hi hbase hpr
        simp only [indexableG, Option.some.injEq, Prod.mk.injEq] at hi
        obtain ⟨rfl, rfl, rfl⟩ := hi
        have hwe : WF false e' = true := by simpa [WF] using hbase
        simp only [List.append_nil, List.append_assoc, List.singleton_append]
        rw [hpr]
        by_cases hnil : (peelG t).1 = []
        · have hne : idx ≠ [] := fun h0 => hidx h0 hnil
          have htt : t = .arrayNamed e' n := by
            rcases peelG_nil_or_auto t with ⟨_, hb⟩ | ⟨v, r, hr'⟩
            · rw [← hb, hpt]
            · rw [hr'] at hnil; simp at hnil
          subst htt
          simp only [hnil, if_true, run]
          exact stored_path ms hms rest e' ty (idx ++ [none]) s' l' hwe
            (flush_snoc _ ty idx none (.arr n (lower e')) (lower e') hne (by simpa [lower] using hf) (by simp [walk]))
            (by simp) hr
        · simp only [hnil, if_false, needs0, Bool.not_false, if_true, run]
          exact stored_path ms hms rest e' _ _ s' l' hwe (by simp [lower, flush, gepTy, walk]) (by simp) hr
      | endless e' =>
        rw [hpt] at hi hbase hpr
        simp only [indexableG, Option.some.injEq, Prod.mk.injEq] at hi
        obtain ⟨rfl, rfl, rfl⟩ := hi
        have hwe : WF false e' = true := by simpa [WF] using hbase
        simp only [List.append_nil, List.append_assoc, List.singleton_append]
        rw [hpr]
        by_cases hnil : (peelG t).1 = []
        · -- an endless array is never stored: `t` itself would be one
          have htt : t = .endless e' := by
            rcases peelG_nil_or_auto t with ⟨_, hb⟩ | ⟨v, r, hr'⟩
            · rw [← hb, hpt]
            · rw [hr'] at hnil; simp at hnil
          subst htt
          simp [WF] at hwf
        · simp only [hnil, if_false, needs0, Bool.not_true, Bool.false_eq_true, run, List.nil_append]
          exact stored_path ms hms rest e' _ _ s' l' hwe (by simp [lower, flush, gepTy, walk]) (by simp) hr
      | slice _ => rw [hpt] at hbase; simp [WF] at hbase
      | slicePtr _ => rw [hpt] at hbase; simp [WF] at hbase
      | void => rw [hpt] at hi; simp [indexableG] at hi
      | prim _ => rw [hpt] at hi; simp [indexableG] at hi
      | arraylike _ => rw [hpt] at hi; simp [indexableG] at hi
      | struct _ => rw [hpt] at hi; simp [indexableG] at hi
      | word _ _ => rw [hpt] at hi; simp [indexableG] at hi
      | unresolved _ => rw [hpt] at hi; simp [indexableG] at hi
      | pointer _ => rw [hpt] at hi; simp [indexableG] at hi
      | view _ => rw [hpt] at hi; simp [indexableG] at hi
  | .member m :: rest, t, ty, idx, steps, leaf, hwf, hf, hidx, h => by
    simp only [elaborateG] at h
    have viaMember : ∀ i, lower (peelG t).2 = .struct i →
        ((peelG t).1 = [] → (peelG t).2 = t) →
        (match ms i m with
          | some mt => (elaborateG ms mt rest).map (fun r => ((peelG t).1 ++ [GStep.member m] ++ r.1, r.2))
          | none => none) = some (steps, leaf) →
        run (lowerFields ms) ty idx false steps = some (.ptr (lower leaf)) := by
      intro i hlow hsame hh
      cases hm : ms i m with
      | none => simp [hm] at hh
      | some mt =>
        simp only [hm, Option.map_eq_some_iff] at hh
        obtain ⟨⟨s', l'⟩, hr, heq⟩ := hh
        simp only [Prod.mk.injEq] at heq
        obtain ⟨rfl, rfl⟩ := heq
        have hwm := hms i m mt hm
        have hfield : walk (lowerFields ms) (.struct i) [some m] = some (lower mt) := by
          simp [walk, lowerFields, hm]
        have hpr := peel_run (lowerFields ms) (.member m) s' rfl t ty idx hf
        simp only [List.append_assoc, List.singleton_append]
        rw [hpr]
        by_cases hnil : (peelG t).1 = []
        · have hne : idx ≠ [] := fun h0 => hidx h0 hnil
          have htt := hsame hnil
          simp only [hnil, if_true, run]
          exact stored_path ms hms rest mt ty (idx ++ [some m]) s' l' hwm
            (flush_snoc _ ty idx (some m) (.struct i) (lower mt) hne (by rw [← hlow, htt]; exact hf) hfield)
            (by simp) hr
        · simp only [hnil, if_false, needs0, if_true, run, hlow]
          exact stored_path ms hms rest mt _ _ s' l' hwm
            (by simp [flush, gepTy, walk, lowerFields, hm]) (by simp) hr
    have hsame : (peelG t).1 = [] → (peelG t).2 = t := by
      intro hnil
      rcases peelG_nil_or_auto t with ⟨_, hb⟩ | ⟨v, r, hr'⟩
      · exact hb
      · rw [hr'] at hnil; simp at hnil
    cases hpt : (peelG t).2 with
    | struct i => rw [hpt] at h; exact viaMember i (by rw [hpt]; rfl) hsame h
    | word i sz => rw [hpt] at h; exact viaMember i (by rw [hpt]; rfl) hsame h
    | void => rw [hpt] at h; simp at h
    | prim _ => rw [hpt] at h; simp at h
    | array _ _ => rw [hpt] at h; simp at h
    | arrayNamed _ _ => rw [hpt] at h; simp at h
    | slice _ => rw [hpt] at h; simp at h
    | slicePtr _ => rw [hpt] at h; simp at h
    | endless _ => rw [hpt] at h; simp at h
    | arraylike _ => rw [hpt] at h; simp at h
    | unresolved _ => rw [hpt] at h; simp at h
    | pointer _ => rw [hpt] at h; simp at h
    | view _ => rw [hpt] at h; simp at h

/-! ### variables, globals and immediate parameters -/

/-- the type of a variable or global (`can_be_variable`): something stored, or a slice of stored elements -/
def VarTy : Ty → Bool
  | .slice e => WF false e
  | t => WF false t

/-- the type of a parameter that is passed as an address or a slice value, and is accessed without a copy -/
def ParamTy : Ty → Bool
  | .pointer d => WF true d
  | .view d => WF true d
  | .slice e => WF false e
  | .slicePtr e => WF false e
  | _ => false

theorem run_slice_elem (ms : Members) (hms : ∀ i m mt, ms i m = some mt → WF false mt = true)
    (e : Ty) (he : WF false e = true) (rest : List UStep) (s' : List GStep) (leaf : Ty)
    (hr : elaborateG ms e rest = some (s', leaf)) :
    run (lowerFields ms) (.ptr (.zarr (lower e))) [some 0] false (.elem false :: s') = some (.ptr (lower leaf)) := by
  rw [run]
  exact stored_path ms hms rest e _ _ s' leaf he (by simp [flush, gepTy, walk]) (by simp) hr

/-- **a variable or global**: `alloca` / global address, indices `[0]` -/
theorem local_address_typed (ms : Members) (hms : ∀ i m mt, ms i m = some mt → WF false mt = true)
    (t : Ty) (ht : VarTy t = true) (p : List UStep) (steps : List GStep) (leaf : Ty)
    (h : elaborateG ms t p = some (steps, leaf)) :
    run (lowerFields ms) (.ptr (lower t)) [some 0] false steps = some (.ptr (lower leaf)) := by
  have stored : WF false t = true →
      run (lowerFields ms) (.ptr (lower t)) [some 0] false steps = some (.ptr (lower leaf)) := fun hw =>
    stored_path ms hms p t _ _ steps leaf hw (by simp [flush, gepTy, walk]) (by simp) h
  cases t with
  | slice e =>
    have he : WF false e = true := by simpa [VarTy] using ht
    cases p with
    | nil =>
      simp only [elaborateG, Option.some.injEq, Prod.mk.injEq] at h
      obtain ⟨rfl, rfl⟩ := h
      simp [run, flush, gepTy, walk]
    | cons u rest =>
      cases u with
      | member m => simp [elaborateG, peelG] at h
      | elem =>
        simp only [elaborateG, peelG, indexableG, Option.map_eq_some_iff] at h
        obtain ⟨⟨s', l'⟩, hr, heq⟩ := h
        simp only [Prod.mk.injEq] at heq
        obtain ⟨rfl, rfl⟩ := heq
        simp only [List.nil_append, List.singleton_append, List.cons_append]
        rw [run]
        simp only [lower, List.isEmpty_cons, Bool.false_eq_true, if_false, List.cons_append, List.nil_append, gepTy, walk,
          if_true, Option.map_some, Option.bind_some, load]
        exact run_slice_elem ms hms e he rest s' l' hr
  | void => exact stored (by simpa [VarTy] using ht)
  | prim _ => exact stored (by simpa [VarTy] using ht)
  | array _ _ => exact stored (by simpa [VarTy] using ht)
  | arrayNamed _ _ => exact stored (by simpa [VarTy] using ht)
  | slicePtr _ => exact stored (by simpa [VarTy] using ht)
  | endless _ => exact stored (by simpa [VarTy] using ht)
  | arraylike _ => exact stored (by simpa [VarTy] using ht)
  | struct _ => exact stored (by simpa [VarTy] using ht)
  | word _ _ => exact stored (by simpa [VarTy] using ht)
  | unresolved _ => exact stored (by simpa [VarTy] using ht)
  | pointer _ => exact stored (by simpa [VarTy] using ht)
  | view _ => exact stored (by simpa [VarTy] using ht)

/-- the generator does not distinguish Autoderef from Autoview -/
theorem run_auto_flag (fs : Fields) (ty : LTy) (idx : List Idx) (imm v v' : Bool) (r : List GStep) :
    run fs ty idx imm (.auto v :: r) = run fs ty idx imm (.auto v' :: r) := by
  rw [run, run]

/-- an immediate pointer parameter behaves like a variable holding that pointer -/
theorem imm_as_local (fs : Fields) (A : LTy) (v : Bool) (S : List GStep)
    (h0 : S.head? ≠ some .deslice0) (h1 : S.head? ≠ some .deslice1) :
    run fs (.ptr A) [] true (.auto v :: S) = run fs (.ptr (.ptr A)) [some 0] false (.auto v :: S) := by
  rw [run, run]
  cases hh : S.head? with
  | none => simp [peek, flush, gepTy, walk, load]
  | some g =>
    cases g with
    | deslice0 => exact absurd hh h0
    | deslice1 => exact absurd hh h1
    | elem e => cases e <;> simp [peek, flush, gepTy, walk, load]
    | member m => simp [peek, flush, gepTy, walk, load]
    | auto v' => simp [peek, flush, gepTy, walk, load]

theorem elaborateG_auto (ms : Members) (v : Bool) (t d : Ty) (hp : peelG t = (.auto v :: (peelG d).1, (peelG d).2))
    (u : UStep) (rest : List UStep) :
    elaborateG ms t (u :: rest) = (elaborateG ms d (u :: rest)).map (fun r => (.auto v :: r.1, r.2)) := by
  cases u with
  | elem =>
    simp only [elaborateG, hp]
    cases hi : indexableG (peelG d).2 with
    | none => rfl
    | some de => simp [Option.map_map, Function.comp_def]
  | member m =>
    simp only [elaborateG, hp]
    cases hpt : (peelG d).2 with
    | struct i => cases hm : ms i m <;> simp [hm, Option.map_map, Function.comp_def]
    | word i sz => cases hm : ms i m <;> simp [hm, Option.map_map, Function.comp_def]
    | void => rfl
    | prim _ => rfl
    | array _ _ => rfl
    | arrayNamed _ _ => rfl
    | slice _ => rfl
    | slicePtr _ => rfl
    | endless _ => rfl
    | arraylike _ => rfl
    | unresolved _ => rfl
    | pointer _ => rfl
    | view _ => rfl

theorem elaborateG_pointer (ms : Members) (d : Ty) (u : UStep) (rest : List UStep) :
    elaborateG ms (.pointer d) (u :: rest) = (elaborateG ms d (u :: rest)).map (fun r => (.auto false :: r.1, r.2)) :=
  elaborateG_auto ms false (.pointer d) d rfl u rest

theorem elaborateG_view (ms : Members) (d : Ty) (u : UStep) (rest : List UStep) :
    elaborateG ms (.view d) (u :: rest) = (elaborateG ms d (u :: rest)).map (fun r => (.auto true :: r.1, r.2)) :=
  elaborateG_auto ms true (.view d) d rfl u rest

/-- below a pointer or view no slice is opened first -/
theorem head_not_deslice (ms : Members) (d : Ty) (hd : WF true d = true) (u : UStep) (rest : List UStep)
    (S : List GStep) (leaf : Ty) (h : elaborateG ms d (u :: rest) = some (S, leaf)) :
    S.head? ≠ some .deslice0 ∧ S.head? ≠ some .deslice1 := by
  rcases peelG_nil_or_auto d with ⟨hnil, hbase⟩ | ⟨v, r, hr⟩
  · cases u with
    | elem =>
      simp only [elaborateG, hnil, hbase] at h
      cases d with
      | array e n =>
        simp only [indexableG, Option.map_eq_some_iff] at h
        obtain ⟨⟨s', l'⟩, _, heq⟩ := h
        simp only [Prod.mk.injEq] at heq
        obtain ⟨rfl, _⟩ := heq
        simp
      | arrayNamed e n =>
        simp only [indexableG, Option.map_eq_some_iff] at h
        obtain ⟨⟨s', l'⟩, _, heq⟩ := h
        simp only [Prod.mk.injEq] at heq
        obtain ⟨rfl, _⟩ := heq
        simp
      | endless e =>
        simp only [indexableG, Option.map_eq_some_iff] at h
        obtain ⟨⟨s', l'⟩, _, heq⟩ := h
        simp only [Prod.mk.injEq] at heq
        obtain ⟨rfl, _⟩ := heq
        simp
      | slice _ => simp [WF] at hd
      | slicePtr _ => simp [WF] at hd
      | void => simp [indexableG] at h
      | prim _ => simp [indexableG] at h
      | arraylike _ => simp [indexableG] at h
      | struct _ => simp [indexableG] at h
      | word _ _ => simp [indexableG] at h
      | unresolved _ => simp [indexableG] at h
      | pointer _ => simp [indexableG] at h
      | view _ => simp [indexableG] at h
    | member m =>
      simp only [elaborateG, hnil, hbase] at h
      have viaMember : ∀ i, (match ms i m with
            | some mt => (elaborateG ms mt rest).map (fun r => ([] ++ [GStep.member m] ++ r.1, r.2))
            | none => none) = some (S, leaf) → S.head? ≠ some .deslice0 ∧ S.head? ≠ some .deslice1 := by
        intro i hh
        cases hm : ms i m with
        | none => simp [hm] at hh
        | some mt =>
          simp only [hm, Option.map_eq_some_iff] at hh
          obtain ⟨⟨s', l'⟩, _, heq⟩ := hh
          simp only [Prod.mk.injEq] at heq
          obtain ⟨rfl, _⟩ := heq
          simp
      cases d with
      | struct i => exact viaMember i h
      | word i sz => exact viaMember i h
      | void => simp at h
      | prim _ => simp at h
      | array _ _ => simp at h
      | arrayNamed _ _ => simp at h
      | slice _ => simp at h
      | slicePtr _ => simp at h
      | endless _ => simp at h
      | arraylike _ => simp at h
      | unresolved _ => simp at h
      | pointer _ => simp at h
      | view _ => simp at h
  · -- the steps start with the peeled Autoderef / Autoview
    have : ∃ s', S = .auto v :: s' := by
      cases u with
      | elem =>
        simp only [elaborateG, hr] at h
        cases hi : indexableG (peelG d).2 with
        | none => simp [hi] at h
        | some de =>
          simp only [hi, Option.map_eq_some_iff] at h
          obtain ⟨⟨s', l'⟩, _, heq⟩ := h
          simp only [Prod.mk.injEq] at heq
          obtain ⟨rfl, _⟩ := heq
          exact ⟨_, rfl⟩
      | member m =>
        simp only [elaborateG, hr] at h
        have viaMember : ∀ i, (match ms i m with
              | some mt => (elaborateG ms mt rest).map (fun r' => (GStep.auto v :: r ++ [GStep.member m] ++ r'.1, r'.2))
              | none => none) = some (S, leaf) → ∃ s', S = .auto v :: s' := by
          intro i hh
          cases hm : ms i m with
          | none => simp [hm] at hh
          | some mt =>
            simp only [hm, Option.map_eq_some_iff] at hh
            obtain ⟨⟨s', l'⟩, _, heq⟩ := hh
            simp only [Prod.mk.injEq] at heq
            obtain ⟨rfl, _⟩ := heq
            exact ⟨_, rfl⟩
        cases hpt : (peelG d).2 with
        | struct i => rw [hpt] at h; exact viaMember i h
        | word i sz => rw [hpt] at h; exact viaMember i h
        | void => rw [hpt] at h; simp at h
        | prim _ => rw [hpt] at h; simp at h
        | array _ _ => rw [hpt] at h; simp at h
        | arrayNamed _ _ => rw [hpt] at h; simp at h
        | slice _ => rw [hpt] at h; simp at h
        | slicePtr _ => rw [hpt] at h; simp at h
        | endless _ => rw [hpt] at h; simp at h
        | arraylike _ => rw [hpt] at h; simp at h
        | unresolved _ => rw [hpt] at h; simp at h
        | pointer _ => rw [hpt] at h; simp at h
        | view _ => rw [hpt] at h; simp at h
    obtain ⟨s', rfl⟩ := this
    simp

/-- **an immediate parameter** (`local_parameters`: the LLVM parameter itself is the base, no indices, the immediate flag
    set): a pointer, a view, a slice or a slice pointer, with a non-empty path -/
theorem param_address_typed (ms : Members) (hms : ∀ i m mt, ms i m = some mt → WF false mt = true)
    (t : Ty) (ht : ParamTy t = true) (u : UStep) (rest : List UStep) (steps : List GStep) (leaf : Ty)
    (h : elaborateG ms t (u :: rest) = some (steps, leaf)) :
    run (lowerFields ms) (lower t) [] true steps = some (.ptr (lower leaf)) := by
  have viaPointer : ∀ (d : Ty) (v : Bool) (S : List GStep), WF true d = true →
      elaborateG ms d (u :: rest) = some (S, leaf) →
      run (lowerFields ms) (.ptr (lower d)) [] true (.auto v :: S) = some (.ptr (lower leaf)) := by
    intro d v S hd hS
    obtain ⟨h0, h1⟩ := head_not_deslice ms d hd u rest S leaf hS
    rw [imm_as_local _ _ v S h0 h1, run_auto_flag _ _ _ _ v false]
    have hp : elaborateG ms (.pointer d) (u :: rest) = some (.auto false :: S, leaf) := by
      rw [elaborateG_pointer, hS]; rfl
    exact local_address_typed ms hms (.pointer d) (by simpa [VarTy, WF] using hd) (u :: rest) _ leaf hp
  have viaSlice : ∀ (e : Ty), WF false e = true →
      elaborateG ms e rest = some (steps.drop 2, leaf) → steps = .deslice0 :: .elem false :: steps.drop 2 →
      run (lowerFields ms) (.slice (lower e)) [] true steps = some (.ptr (lower leaf)) := by
    intro e he hr hst
    rw [hst, run]
    simp only [List.isEmpty_nil, if_true, extract0]
    exact run_slice_elem ms hms e he rest _ leaf hr
  cases t with
  | pointer d =>
    rw [elaborateG_pointer] at h
    simp only [Option.map_eq_some_iff] at h
    obtain ⟨⟨S, l'⟩, hS, heq⟩ := h
    simp only [Prod.mk.injEq] at heq
    obtain ⟨rfl, rfl⟩ := heq
    exact viaPointer d false S (by simpa [ParamTy] using ht) hS
  | view d =>
    rw [elaborateG_view] at h
    simp only [Option.map_eq_some_iff] at h
    obtain ⟨⟨S, l'⟩, hS, heq⟩ := h
    simp only [Prod.mk.injEq] at heq
    obtain ⟨rfl, rfl⟩ := heq
    exact viaPointer d true S (by simpa [ParamTy] using ht) hS
  | slice e =>
    cases u with
    | member m => simp [elaborateG, peelG] at h
    | elem =>
      simp only [elaborateG, peelG, indexableG, Option.map_eq_some_iff] at h
      obtain ⟨⟨s', l'⟩, hr, heq⟩ := h
      simp only [Prod.mk.injEq] at heq
      obtain ⟨rfl, rfl⟩ := heq
      exact viaSlice e (by simpa [ParamTy] using ht) (by simpa using hr) (by simp)
  | slicePtr e =>
    cases u with
    | member m => simp [elaborateG, peelG] at h
    | elem =>
      simp only [elaborateG, peelG, indexableG, Option.map_eq_some_iff] at h
      obtain ⟨⟨s', l'⟩, hr, heq⟩ := h
      simp only [Prod.mk.injEq] at heq
      obtain ⟨rfl, rfl⟩ := heq
      exact viaSlice e (by simpa [ParamTy] using ht) (by simpa using hr) (by simp)
  | void => simp [ParamTy] at ht
  | prim _ => simp [ParamTy] at ht
  | array _ _ => simp [ParamTy] at ht
  | arrayNamed _ _ => simp [ParamTy] at ht
  | endless _ => simp [ParamTy] at ht
  | arraylike _ => simp [ParamTy] at ht
  | struct _ => simp [ParamTy] at ht
  | word _ _ => simp [ParamTy] at ht
  | unresolved _ => simp [ParamTy] at ht

/-! ### the steps are those of the typer's elaboration (`Types.Ty.elaborate`, the subject of the C01 access-path theorem) -/

theorem peelG_erase : ∀ (t : Ty), (peelG t).1.map erase = (peel t).1 ∧ (peelG t).2 = (peel t).2
  | .pointer t => by simp [peelG, peel, erase, peelG_erase t]
  | .view t => by simp [peelG, peel, erase, peelG_erase t]
  | .void => by simp [peelG, peel]
  | .prim _ => by simp [peelG, peel]
  | .array _ _ => by simp [peelG, peel]
  | .arrayNamed _ _ => by simp [peelG, peel]
  | .slice _ => by simp [peelG, peel]
  | .slicePtr _ => by simp [peelG, peel]
  | .endless _ => by simp [peelG, peel]
  | .arraylike _ => by simp [peelG, peel]
  | .struct _ => by simp [peelG, peel]
  | .word _ _ => by simp [peelG, peel]
  | .unresolved _ => by simp [peelG, peel]

theorem indexableG_erase (t : Ty) :
    (indexableG t).map (fun x => (x.1.map erase, x.2.2)) = indexable t := by
  cases t <;> simp [indexableG, indexable, erase]

theorem elaborateG_erase (ms : Members) : ∀ (p : List UStep) (t : Ty),
    (elaborateG ms t p).map (fun r => (r.1.map erase, r.2)) = elaborate ms t p
  | [], t => by simp [elaborateG, elaborate]
  | .elem :: rest, t => by
    simp only [elaborateG, elaborate]
    obtain ⟨h1, h2⟩ := peelG_erase t
    rw [← h1, ← h2, ← indexableG_erase]
    cases hi : indexableG (peelG t).2 with
    | none => rfl
    | some de =>
      obtain ⟨ds, en, e⟩ := de
      simp only [Option.map_some, Option.map_map]
      rw [← elaborateG_erase ms rest e]
      simp only [Option.map_map]
      congr 1
      funext r
      simp [erase]
  | .member m :: rest, t => by
    simp only [elaborateG, elaborate]
    obtain ⟨h1, h2⟩ := peelG_erase t
    rw [← h1, ← h2]
    cases hpt : (peelG t).2 with
    | struct i =>
      cases hm : ms i m with
      | none => simp [hm]
      | some mt =>
        simp only [hm, Option.map_map]
        rw [← elaborateG_erase ms rest mt]
        simp only [Option.map_map]
        congr 1
        funext r
        simp [erase]
    | word i sz =>
      cases hm : ms i m with
      | none => simp [hm]
      | some mt =>
        simp only [hm, Option.map_map]
        rw [← elaborateG_erase ms rest mt]
        simp only [Option.map_map]
        congr 1
        funext r
        simp [erase]
    | void => rfl
    | prim _ => rfl
    | array _ _ => rfl
    | arrayNamed _ _ => rfl
    | slice _ => rfl
    | slicePtr _ => rfl
    | endless _ => rfl
    | arraylike _ => rfl
    | unresolved _ => rfl
    | pointer _ => rfl
    | view _ => rfl

/-! ### the theorems are about real accesses -/

def exMs : Members := fun i m =>
  if i = 0 ∧ m = 0 then some (.array (.prim .i32) 4)
  else if i = 0 ∧ m = 1 then some (.pointer (.array (.prim .u8) 3))
  else none

-- `x[1].items[2]` on `x: &[2]S` (F49: the leading zero), `x[0].p[1]` (a load in the middle), `z[1].items[0]` on `z: &[]S`
-- (F70: the slice pointer), `e[5]` on `e: &[..]u8`, `w.items[1]` on a view
example : (elaborateG exMs (.pointer (.array (.struct 0) 2)) [.elem, .member 0, .elem]).map
    (fun r => runT (lowerFields exMs) (lower (.pointer (.array (.struct 0) 2))) [] true r.1)
    = some (some ([.gep (.ptr (.arr 2 (.struct 0))) [some 0, none, some 0, none]], .ptr (.int 32))) := by decide
example : (elaborateG exMs (.pointer (.array (.struct 0) 2)) [.elem, .member 1, .elem]).map
    (fun r => runT (lowerFields exMs) (lower (.pointer (.array (.struct 0) 2))) [] true r.1)
    = some (some ([.gep (.ptr (.arr 2 (.struct 0))) [some 0, none, some 1], .load (.ptr (.ptr (.arr 3 (.int 8)))),
        .gep (.ptr (.arr 3 (.int 8))) [some 0, none]], .ptr (.int 8))) := by decide
example : (elaborateG exMs (.slicePtr (.struct 0)) [.elem, .member 0, .elem]).map
    (fun r => runT (lowerFields exMs) (lower (.slicePtr (.struct 0))) [] true r.1)
    = some (some ([.ext0 (.slice (.struct 0)), .gep (.ptr (.zarr (.struct 0))) [some 0, none, some 0, none]],
        .ptr (.int 32))) := by decide
example : (elaborateG exMs (.pointer (.endless (.prim .u8))) [.elem]).map
    (fun r => runT (lowerFields exMs) (lower (.pointer (.endless (.prim .u8)))) [] true r.1)
    = some (some ([.gep (.ptr (.int 8)) [none]], .ptr (.int 8))) := by decide
example : ParamTy (.pointer (.array (.struct 0) 2)) = true ∧ ParamTy (.slicePtr (.struct 0)) = true
    ∧ VarTy (.array (.pointer (.struct 0)) 2) = true ∧ (∀ i m mt, exMs i m = some mt → WF false mt = true) := by
  refine ⟨by decide, by decide, by decide, ?_⟩
  intro i m mt h
  unfold exMs at h
  split at h
  · cases h; decide
  · split at h
    · cases h; decide
    · cases h
-- the machine is not trivially satisfied: without the leading zero (the state F49 produced) the GEP ends somewhere else
example : run (lowerFields exMs) (.ptr (.arr 2 (.struct 0))) [] false [.elem false, .member 0, .elem false] = none := by decide
-- and with the immediate flag still set at the Autoderef after a slice (F70) the load is skipped: not a pointer to `u8`
example : run (lowerFields exMs) (.ptr (.zarr (.struct 0))) [some 0] true [.elem false, .member 1, .auto false, .elem false]
    ≠ some (.ptr (.int 8)) := by decide

end Addr
end Gen
