/-
  C03 / C12 — structure types across the modules of one compilation.

  All modules of a compilation share one LLVM context, and named structure types live in the context.  The generator
  used to look a structure's type up BY NAME in that context before creating it (`LLVMGetTypeByName`), so a later module
  could find the type object of an earlier module and set its body again: two modules with their own private `struct S`
  (F32 / F33), but also an ordinary chain of imports (F90).  It now keeps a table per module
  (`Generator::get_structure_type`: name ↦ type object, cleared by `add_module`).

  The model: a context is the list of type objects created so far (name, body); a module is a list of structure
  declarations with distinct names.  `declareOld` is the former discipline, `declareNew` the present one.
-/
namespace Gen
namespace StructTypes

structure Decl where
  name : Nat
  body : List Nat          -- the member types, abstractly
  deriving DecidableEq, Repr

/-- a type object of the context -/
structure TyObj where
  name : Nat
  body : List Nat
  deriving DecidableEq, Repr

abbrev Ctx := List TyObj

/-- the present discipline: every declaration of a module gets a fresh type object -/
def declareNew (ctx : Ctx) : List Decl → Ctx
  | [] => ctx
  | d :: ds => declareNew (ctx ++ [{ name := d.name, body := d.body }]) ds

def setBody (i : Nat) (b : List Nat) : Ctx → Ctx
  | [] => []
  | o :: os => match i with
    | 0 => { o with body := b } :: os
    | i + 1 => o :: setBody i b os

def findName (n : Nat) : Ctx → Option Nat
  | [] => none
  | o :: os => if o.name = n then some 0 else (findName n os).map (· + 1)

/-- the former discipline: look the name up in the shared context first, and set the body of whatever is found -/
def declareOld (ctx : Ctx) : List Decl → Ctx
  | [] => ctx
  | d :: ds =>
    match findName d.name ctx with
    | some i => declareOld (setBody i d.body ctx) ds
    | none => declareOld (ctx ++ [{ name := d.name, body := d.body }]) ds

def compileNew : Ctx → List (List Decl) → Ctx
  | ctx, [] => ctx
  | ctx, m :: ms => compileNew (declareNew ctx m) ms

def compileOld : Ctx → List (List Decl) → Ctx
  | ctx, [] => ctx
  | ctx, m :: ms => compileOld (declareOld ctx m) ms

theorem declareNew_eq (ctx : Ctx) : ∀ (ds : List Decl),
    declareNew ctx ds = ctx ++ ds.map (fun d => ({ name := d.name, body := d.body } : TyObj))
  | [] => by simp [declareNew]
  | d :: ds => by simp [declareNew, declareNew_eq _ ds, List.append_assoc]

theorem compileNew_eq : ∀ (ms : List (List Decl)) (ctx : Ctx),
    compileNew ctx ms = ctx ++ (ms.flatten).map (fun d => ({ name := d.name, body := d.body } : TyObj))
  | [], ctx => by simp [compileNew]
  | m :: ms, ctx => by
    simp [compileNew, compileNew_eq ms, declareNew_eq, List.append_assoc]

/-- **no module touches another module's types**: with a table per module, the type objects of a compilation are, in
    order, exactly the declarations of its modules with the bodies they were declared with — whatever names they share,
    and in whatever order the modules come.  In particular the type objects that exist before a module is compiled are
    unchanged afterwards (`prefix_unchanged`). -/
theorem types_are_the_declarations (ms : List (List Decl)) :
    compileNew [] ms = (ms.flatten).map (fun d => ({ name := d.name, body := d.body } : TyObj)) := by
  simpa using compileNew_eq ms []

theorem prefix_unchanged (ctx : Ctx) (ms : List (List Decl)) (i : Nat) (h : i < ctx.length) :
    (compileNew ctx ms)[i]? = ctx[i]? := by
  rw [compileNew_eq, List.getElem?_append_left h]

/-- the former discipline did not have this property: two modules with their own `struct 7` of different bodies — the
    first module's type object ends up with the second module's body (F32), and there is only one object -/
example : compileOld [] [[{ name := 7, body := [1, 2] }], [{ name := 7, body := [3] }]] = [{ name := 7, body := [3] }] := by
  decide
example : compileNew [] [[{ name := 7, body := [1, 2] }], [{ name := 7, body := [3] }]]
    = [{ name := 7, body := [1, 2] }, { name := 7, body := [3] }] := by decide

end StructTypes
end Gen
