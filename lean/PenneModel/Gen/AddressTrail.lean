import PenneModel.Gen.AddressSound
/-
  The address theorem in continuation form (the state after the steps of a path is again a state that addresses storage
  of the accessed value), and with it the trailing dereferences of an assignment through a pointer (`x.p = 5` with
  `p: &i32`: `analyze_assignment_steps` appends one Autoderef per pointer level of the leaf).
-/
namespace Gen
namespace Addr
open Types Types.Ty

theorem stored_path_k (ms : Members) (hms : ∀ i m mt, ms i m = some mt → WF false mt = true) (k : List GStep) :
    ∀ (p : List UStep) (t : Ty) (ty : LTy) (idx : List Idx) (steps : List GStep) (leaf : Ty),
      WF false t = true → flush (lowerFields ms) ty idx = some (.ptr (lower t)) → (idx = [] → (peelG t).1 ≠ []) →
      elaborateG ms t p = some (steps, leaf) →
      ∃ ty' idx', flush (lowerFields ms) ty' idx' = some (.ptr (lower leaf)) ∧ (idx' = [] → (peelG leaf).1 ≠ []) ∧
        WF false leaf = true ∧
        run (lowerFields ms) ty idx false (steps ++ k) = run (lowerFields ms) ty' idx' false k
  | [], t, ty, idx, steps, leaf, hwf, hf, hidx, h => by
    simp only [elaborateG, Option.some.injEq, Prod.mk.injEq] at h
    obtain ⟨rfl, rfl⟩ := h
    exact ⟨ty, idx, hf, hidx, hwf, rfl⟩
  | .elem :: rest, t, ty, idx, steps, leaf, hwf, hf, hidx, h => by
    simp only [elaborateG] at h
    cases hi : indexableG (peelG t).2 with
    | none => simp [hi] at h
    | some de =>
      obtain ⟨ds, en, e⟩ := de
      simp only [hi, Option.map_eq_some_iff] at h
      obtain ⟨⟨s', l'⟩, hr, heq⟩ := h
      simp only [Prod.mk.injEq] at heq
      obtain ⟨rfl, rfl⟩ := heq
      have hbase := wf_peel t false hwf
      have hpr := peel_run (lowerFields ms) (.elem en) (s' ++ k) rfl t ty idx hf
      -- what the peeled type can be
      cases hpt : (peelG t).2 with
      | array e' n =>
        rw [hpt] at hi hbase hpr
        simp only [indexableG, Option.some.injEq, Prod.mk.injEq] at hi
        obtain ⟨rfl, rfl, rfl⟩ := hi
        have hwe : WF false e' = true := by simpa [WF] using hbase
        simp only [List.append_nil, List.nil_append, List.append_assoc, List.singleton_append, List.cons_append]
        rw [hpr]
        by_cases hnil : (peelG t).1 = []
        · have hne : idx ≠ [] := fun h0 => hidx h0 hnil
          have htt : t = .array e' n := by
            rcases peelG_nil_or_auto t with ⟨_, hb⟩ | ⟨v, r, hr'⟩
            · rw [← hb, hpt]
            · rw [hr'] at hnil; simp at hnil
          subst htt
          simp only [hnil, if_true, run]
          exact stored_path_k ms hms k rest e' ty (idx ++ [none]) s' l' hwe
            (flush_snoc _ ty idx none (.arr n (lower e')) (lower e') hne (by simpa [lower] using hf) (by simp [walk]))
            (by simp) hr
        · simp only [hnil, if_false, needs0, Bool.not_false, if_true, run]
          exact stored_path_k ms hms k rest e' _ _ s' l' hwe (by simp [lower, flush, gepTy, walk]) (by simp) hr
      | arrayNamed e' n =>
        rw [hpt] at hi hbase hpr
        simp only [indexableG, Option.some.injEq, Prod.mk.injEq] at hi
        obtain ⟨rfl, rfl, rfl⟩ := hi
        have hwe : WF false e' = true := by simpa [WF] using hbase
        simp only [List.append_nil, List.nil_append, List.append_assoc, List.singleton_append, List.cons_append]
        rw [hpr]
        by_cases hnil : (peelG t).1 = []
        · have hne : idx ≠ [] := fun h0 => hidx h0 hnil
          have htt : t = .arrayNamed e' n := by
            rcases peelG_nil_or_auto t with ⟨_, hb⟩ | ⟨v, r, hr'⟩
            · rw [← hb, hpt]
            · rw [hr'] at hnil; simp at hnil
          subst htt
          simp only [hnil, if_true, run]
          exact stored_path_k ms hms k rest e' ty (idx ++ [none]) s' l' hwe
            (flush_snoc _ ty idx none (.arr n (lower e')) (lower e') hne (by simpa [lower] using hf) (by simp [walk]))
            (by simp) hr
        · simp only [hnil, if_false, needs0, Bool.not_false, if_true, run]
          exact stored_path_k ms hms k rest e' _ _ s' l' hwe (by simp [lower, flush, gepTy, walk]) (by simp) hr
      | endless e' =>
        rw [hpt] at hi hbase hpr
        simp only [indexableG, Option.some.injEq, Prod.mk.injEq] at hi
        obtain ⟨rfl, rfl, rfl⟩ := hi
        have hwe : WF false e' = true := by simpa [WF] using hbase
        simp only [List.append_nil, List.nil_append, List.append_assoc, List.singleton_append, List.cons_append]
        rw [hpr]
        by_cases hnil : (peelG t).1 = []
        · -- an endless array is never stored: `t` itself would be one
          have htt : t = .endless e' := by
            rcases peelG_nil_or_auto t with ⟨_, hb⟩ | ⟨v, r, hr'⟩
            · rw [← hb, hpt]
            · rw [hr'] at hnil; simp at hnil
          subst htt
          simp [WF] at hwf
        · simp only [hnil, if_false, needs0, Bool.not_true, Bool.false_eq_true, run, List.nil_append]
          exact stored_path_k ms hms k rest e' _ _ s' l' hwe (by simp [lower, flush, gepTy, walk]) (by simp) hr
      | slice _ => rw [hpt] at hbase; simp [WF] at hbase
      | slicePtr _ => rw [hpt] at hbase; simp [WF] at hbase
      | void => rw [hpt] at hi; simp [indexableG] at hi
      | prim _ => rw [hpt] at hi; simp [indexableG] at hi
      | arraylike _ => rw [hpt] at hi; simp [indexableG] at hi
      | struct _ => rw [hpt] at hi; simp [indexableG] at hi
      | word _ _ => rw [hpt] at hi; simp [indexableG] at hi
      | unresolved _ => rw [hpt] at hi; simp [indexableG] at hi
      | pointer _ => rw [hpt] at hi; simp [indexableG] at hi
      | view _ => rw [hpt] at hi; simp [indexableG] at hi
  | .member m :: rest, t, ty, idx, steps, leaf, hwf, hf, hidx, h => by
    simp only [elaborateG] at h
    have viaMember : ∀ i, lower (peelG t).2 = .struct i →
        ((peelG t).1 = [] → (peelG t).2 = t) →
        (match ms i m with
          | some mt => (elaborateG ms mt rest).map (fun r => ((peelG t).1 ++ [GStep.member m] ++ r.1, r.2))
          | none => none) = some (steps, leaf) →
        ∃ ty' idx', flush (lowerFields ms) ty' idx' = some (.ptr (lower leaf)) ∧ (idx' = [] → (peelG leaf).1 ≠ []) ∧
          WF false leaf = true ∧
          run (lowerFields ms) ty idx false (steps ++ k) = run (lowerFields ms) ty' idx' false k := by
      intro i hlow hsame hh
      cases hm : ms i m with
      | none => simp [hm] at hh
      | some mt =>
        simp only [hm, Option.map_eq_some_iff] at hh
        obtain ⟨⟨s', l'⟩, hr, heq⟩ := hh
        simp only [Prod.mk.injEq] at heq
        obtain ⟨rfl, rfl⟩ := heq
        have hwm := hms i m mt hm
        have hfield : walk (lowerFields ms) (.struct i) [some m] = some (lower mt) := by
          simp [walk, lowerFields, hm]
        have hpr := peel_run (lowerFields ms) (.member m) (s' ++ k) rfl t ty idx hf
        simp only [List.nil_append, List.append_assoc, List.singleton_append, List.cons_append]
        rw [hpr]
        by_cases hnil : (peelG t).1 = []
        · have hne : idx ≠ [] := fun h0 => hidx h0 hnil
          have htt := hsame hnil
          simp only [hnil, if_true, run]
          exact stored_path_k ms hms k rest mt ty (idx ++ [some m]) s' l' hwm
            (flush_snoc _ ty idx (some m) (.struct i) (lower mt) hne (by rw [← hlow, htt]; exact hf) hfield)
            (by simp) hr
        · simp only [hnil, if_false, needs0, if_true, run, hlow]
          exact stored_path_k ms hms k rest mt _ _ s' l' hwm
            (by simp [flush, gepTy, walk, lowerFields, hm]) (by simp) hr
    have hsame : (peelG t).1 = [] → (peelG t).2 = t := by
      intro hnil
      rcases peelG_nil_or_auto t with ⟨_, hb⟩ | ⟨v, r, hr'⟩
      · exact hb
      · rw [hr'] at hnil; simp at hnil
    cases hpt : (peelG t).2 with
    | struct i => rw [hpt] at h; exact viaMember i (by rw [hpt]; rfl) hsame h
    | word i sz => rw [hpt] at h; exact viaMember i (by rw [hpt]; rfl) hsame h
    | void => rw [hpt] at h; simp at h
    | prim _ => rw [hpt] at h; simp at h
    | array _ _ => rw [hpt] at h; simp at h
    | arrayNamed _ _ => rw [hpt] at h; simp at h
    | slice _ => rw [hpt] at h; simp at h
    | slicePtr _ => rw [hpt] at h; simp at h
    | endless _ => rw [hpt] at h; simp at h
    | arraylike _ => rw [hpt] at h; simp at h
    | unresolved _ => rw [hpt] at h; simp at h
    | pointer _ => rw [hpt] at h; simp at h
    | view _ => rw [hpt] at h; simp at h


/-! ### trailing dereferences -/

/-- the type `j` pointer levels below -/
def unptrN : Nat → Ty → Option Ty
  | 0, t => some t
  | j + 1, .pointer d => unptrN j d
  | _ + 1, _ => none

theorem trailing_run (fs : Fields) : ∀ (j : Nat) (t t' : Ty) (ty : LTy) (idx : List Idx),
    flush fs ty idx = some (.ptr (lower t)) → unptrN j t = some t' →
    run fs ty idx false (List.replicate j (.auto false)) = some (.ptr (lower t'))
  | 0, t, t', ty, idx, hf, hu => by
    simp only [unptrN, Option.some.injEq] at hu
    subst hu
    simpa [run] using hf
  | j + 1, t, t', ty, idx, hf, hu => by
    cases t with
    | pointer d =>
      simp only [unptrN] at hu
      have hh : (List.replicate j (GStep.auto false)).head? ≠ some .deslice1 := by
        cases j <;> simp [List.replicate]
      rw [List.replicate_succ, auto_step fs ty idx (lower d) false _ (by simpa [lower] using hf) hh]
      have hfol : (peek false idx (List.replicate j (GStep.auto false)).head?).followed = false := by
        cases j <;> simp [List.replicate, peek]
      rw [hfol]
      exact trailing_run fs j d t' (.ptr (lower d)) [] (by simp [flush]) hu
    | void => simp [unptrN] at hu
    | prim _ => simp [unptrN] at hu
    | array _ _ => simp [unptrN] at hu
    | arrayNamed _ _ => simp [unptrN] at hu
    | slice _ => simp [unptrN] at hu
    | slicePtr _ => simp [unptrN] at hu
    | endless _ => simp [unptrN] at hu
    | arraylike _ => simp [unptrN] at hu
    | struct _ => simp [unptrN] at hu
    | word _ _ => simp [unptrN] at hu
    | unresolved _ => simp [unptrN] at hu
    | view _ => simp [unptrN] at hu

/-- **an assignment through a pointer, on a variable**: the steps of the path followed by `j` trailing Autoderefs (one
    per pointer level that the assigned value lies below the leaf of the path) end at a pointer to that value -/
theorem local_assign_typed (ms : Members) (hms : ∀ i m mt, ms i m = some mt → WF false mt = true)
    (t : Ty) (ht : WF false t = true) (p : List UStep) (steps : List GStep) (leaf leaf' : Ty) (j : Nat)
    (h : elaborateG ms t p = some (steps, leaf)) (hu : unptrN j leaf = some leaf') :
    run (lowerFields ms) (.ptr (lower t)) [some 0] false (steps ++ List.replicate j (.auto false))
      = some (.ptr (lower leaf')) := by
  obtain ⟨ty', idx', hf, _, _, hrun⟩ := stored_path_k ms hms (List.replicate j (.auto false)) p t
    (.ptr (lower t)) [some 0] steps leaf ht (by simp [flush, gepTy, walk]) (by simp) h
  rw [hrun]
  exact trailing_run _ j leaf leaf' ty' idx' hf hu

/-- **and on a pointer parameter** (`p = 5`, `p.m[i] = &q` … with `p: &T`) -/
theorem param_assign_typed (ms : Members) (hms : ∀ i m mt, ms i m = some mt → WF false mt = true)
    (d : Ty) (hd : WF true d = true) (p : List UStep) (steps : List GStep) (leaf leaf' : Ty) (j : Nat)
    (h : elaborateG ms (.pointer d) p = some (steps, leaf)) (hu : unptrN j leaf = some leaf') (hne : p ≠ [] ∨ 0 < j) :
    run (lowerFields ms) (.ptr (lower d)) [] true (steps ++ List.replicate j (.auto false))
      = some (.ptr (lower leaf')) := by
  have hloc := local_assign_typed ms hms (.pointer d) (by simpa [WF] using hd) p steps leaf leaf' j h hu
  cases p with
  | nil =>
    simp only [elaborateG, Option.some.injEq, Prod.mk.injEq] at h
    obtain ⟨rfl, rfl⟩ := h
    cases j with
    | zero => simp at hne
    | succ j' =>
      simp only [List.nil_append, List.replicate_succ] at hloc ⊢
      rw [imm_as_local _ _ false _ (by cases j' <;> simp [List.replicate]) (by cases j' <;> simp [List.replicate])]
      simpa [lower] using hloc
  | cons u rest =>
    rw [elaborateG_pointer] at h
    simp only [Option.map_eq_some_iff] at h
    obtain ⟨⟨S, l'⟩, hS, heq⟩ := h
    simp only [Prod.mk.injEq] at heq
    obtain ⟨rfl, rfl⟩ := heq
    obtain ⟨h0, h1⟩ := head_not_deslice ms d hd u rest S l' hS
    have hS' : ∃ g s', S = g :: s' := by
      cases S with
      | nil =>
        -- a non-empty path has steps
        exfalso
        cases u with
        | elem =>
          simp only [elaborateG] at hS
          cases hi : indexableG (peelG d).2 with
          | none => simp [hi] at hS
          | some de =>
            simp only [hi, Option.map_eq_some_iff] at hS
            obtain ⟨⟨s', l''⟩, _, heq⟩ := hS
            simp at heq
        | member m =>
          simp only [elaborateG] at hS
          cases hpt : (peelG d).2 with
          | struct i =>
            rw [hpt] at hS
            cases hm : ms i m with
            | none => simp [hm] at hS
            | some mt =>
              simp only [hm, Option.map_eq_some_iff] at hS
              obtain ⟨⟨s', l''⟩, _, heq⟩ := hS
              simp at heq
          | word i sz =>
            rw [hpt] at hS
            cases hm : ms i m with
            | none => simp [hm] at hS
            | some mt =>
              simp only [hm, Option.map_eq_some_iff] at hS
              obtain ⟨⟨s', l''⟩, _, heq⟩ := hS
              simp at heq
          | void => rw [hpt] at hS; simp at hS
          | prim _ => rw [hpt] at hS; simp at hS
          | array _ _ => rw [hpt] at hS; simp at hS
          | arrayNamed _ _ => rw [hpt] at hS; simp at hS
          | slice _ => rw [hpt] at hS; simp at hS
          | slicePtr _ => rw [hpt] at hS; simp at hS
          | endless _ => rw [hpt] at hS; simp at hS
          | arraylike _ => rw [hpt] at hS; simp at hS
          | unresolved _ => rw [hpt] at hS; simp at hS
          | pointer _ => rw [hpt] at hS; simp at hS
          | view _ => rw [hpt] at hS; simp at hS
      | cons g s' => exact ⟨g, s', rfl⟩
    obtain ⟨g, s', rfl⟩ := hS'
    simp only [List.cons_append] at hloc ⊢
    rw [imm_as_local _ _ false _ (by simpa using h0) (by simpa using h1)]
    simpa [lower] using hloc

-- `x.p = 5` with `x: &S`, `S { p: &i32 }`: the member, then one load, and the stored-through pointer
example : (elaborateG (fun i m => if i = 0 ∧ m = 0 then some (.pointer (.prim .i32)) else none) (.pointer (.struct 0)) [.member 0]).map
    (fun r => runT (lowerFields (fun i m => if i = 0 ∧ m = 0 then some (.pointer (.prim .i32)) else none))
      (lower (.pointer (.struct 0))) [] true (r.1 ++ [.auto false]))
    = some (some ([.gep (.ptr (.struct 0)) [some 0, some 0], .load (.ptr (.ptr (.int 32)))], .ptr (.int 32))) := by decide

end Addr
end Gen
