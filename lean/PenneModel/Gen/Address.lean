import PenneModel.Types.Paths
/-
  C03 / C01 — the address computation of the generator is well typed, for every access path.

  Model of `generator.rs: Reference::generate_storage_address` — the loop that turns the elaborated steps of an access
  path (`x[i].m[j]`, through pointers, views and slices) into `getelementptr` / `load` / `extractvalue` instructions —
  together with the part of LLVM's type system those three instructions are checked against, and of the lowering of
  Penne types to LLVM types (`impl Generatable for ValueType`).

  The machine `run` is the loop, instruction for instruction, over LLVM *types* instead of LLVM values; it answers `none`
  where LLVM's verifier would reject the instruction (a GEP through a non-aggregate, a load from a non-pointer, an
  `extractvalue` from something that is not a slice).  The theorems say that for every well-formed type and every path
  the typer elaborates, the machine ends with exactly `pointer to (the lowering of the accessed type)`: for a local
  variable, a global, and for an immediate parameter (a pointer, view or slice passed by value).  F49 (a pointer-to-array
  parameter indexed without the leading zero) and F70 (the immediate flag surviving an `Autodeslice`) were both failures
  of exactly this statement.
-/
namespace Gen
namespace Addr
open Types Types.Ty

/-- LLVM first-class types, as far as addresses are concerned -/
inductive LTy where
  | int (bits : Nat)
  | arr (n : Nat) (e : LTy)     -- `[n x e]`
  | zarr (e : LTy)              -- `[0 x e]`: what the pointer inside a slice points to
  | ptr (t : LTy)
  | slice (e : LTy)             -- `{ [0 x e]*, i64 }`
  | struct (id : Nat)           -- a named structure type
  | bad
  deriving DecidableEq, Repr

/-- a GEP index: a constant or a run-time value -/
abbrev Idx := Option Nat

/-- LLVM field types of the named structure types -/
abbrev Fields := Nat → Nat → Option LTy

/-- the type reached inside an aggregate by the GEP indices after the first -/
def walk (fs : Fields) : LTy → List Idx → Option LTy
  | t, [] => some t
  | t, i :: r =>
    match t, i with
    | .arr _ e, _ => walk fs e r
    | .zarr e, _ => walk fs e r
    | .struct s, some m => (match fs s m with | some ft => walk fs ft r | none => none)
    | .slice e, some m =>
      if m = 0 then walk fs (.ptr (.zarr e)) r else if m = 1 then walk fs (.int 64) r else none
    | _, _ => none

/-- `getelementptr`: the first index steps over the pointer itself -/
def gepTy (fs : Fields) : LTy → List Idx → Option LTy
  | .ptr a, _ :: r => (walk fs a r).map .ptr
  | _, _ => none

def load : LTy → Option LTy
  | .ptr a => some a
  | _ => none

/-- `extractvalue %slice, 0` -/
def extract0 : LTy → Option LTy
  | .slice e => some (.ptr (.zarr e))
  | _ => none

/-- `if !indices.is_empty() { addr = GEP(addr, indices) }` -/
def flush (fs : Fields) (ty : LTy) (idx : List Idx) : Option LTy :=
  if idx.isEmpty then some ty else gepTy fs ty idx

/-- the resolved steps (resolved.rs `ReferenceStep`) -/
inductive GStep where
  | elem (endless : Bool)
  | member (m : Nat)
  | auto (view : Bool)      -- Autoderef / Autoview: one arm in the generator
  | deslice0                -- Autodeslice { offset: 0 }
  | deslice1                -- Autodeslice { offset: 1 }
  deriving DecidableEq, Repr

structure Peek where
  idx : List Idx
  followed : Bool
  imm : Bool

/-- the `match steps.peek()` of the Autoderef / Autoview arm -/
def peek (imm : Bool) (idx : List Idx) : Option GStep → Peek
  | some (.elem e) => ⟨if imm && !e then idx ++ [some 0] else idx, !e, imm⟩
  | some (.member _) => ⟨if imm then idx ++ [some 0] else idx, true, imm⟩
  | some (.auto _) => ⟨idx, false, imm⟩
  | some .deslice0 => if imm then ⟨idx, false, false⟩ else ⟨idx, true, imm⟩
  | some .deslice1 => ⟨idx ++ [some 0], false, imm⟩
  | none => ⟨idx, false, imm⟩

/-- `generate_storage_address`: the loop over the steps and the final GEP, over the LLVM type of `addr` -/
def run (fs : Fields) : LTy → List Idx → Bool → List GStep → Option LTy
  | ty, idx, _, [] => flush fs ty idx
  | ty, idx, imm, .elem _ :: r => run fs ty (idx ++ [none]) imm r
  | ty, idx, imm, .member m :: r => run fs ty (idx ++ [some m]) imm r
  | ty, idx, imm, .deslice1 :: r => run fs ty (idx ++ [some 1]) imm r
  | ty, idx, _, .deslice0 :: r =>
    match (if idx.isEmpty then extract0 ty else (gepTy fs ty (idx ++ [some 0])).bind load) with
    | some a => run fs a [some 0] false r
    | none => none
  | ty, idx, imm, .auto _ :: r =>
    if (peek imm idx r.head?).imm then run fs ty (peek imm idx r.head?).idx false r
    else
      match (flush fs ty (peek imm idx r.head?).idx).bind load with
      | some a => run fs a (if (peek imm idx r.head?).followed then [some 0] else []) false r
      | none => none

/-! ### the same loop, recording the instructions it builds (what the correspondence check compares with the real IR) -/

inductive Op where
  | gep (ty : LTy) (idx : List Idx)
  | load (ty : LTy)
  | ext0 (ty : LTy)
  deriving DecidableEq, Repr

def flushT (fs : Fields) (ty : LTy) (idx : List Idx) : Option (List Op × LTy) :=
  if idx.isEmpty then some ([], ty) else (gepTy fs ty idx).map (fun a => ([.gep ty idx], a))

def loadT (x : List Op × LTy) : Option (List Op × LTy) :=
  (load x.2).map (fun a => (x.1 ++ [.load x.2], a))

def runT (fs : Fields) : LTy → List Idx → Bool → List GStep → Option (List Op × LTy)
  | ty, idx, _, [] => flushT fs ty idx
  | ty, idx, imm, .elem _ :: r => runT fs ty (idx ++ [none]) imm r
  | ty, idx, imm, .member m :: r => runT fs ty (idx ++ [some m]) imm r
  | ty, idx, imm, .deslice1 :: r => runT fs ty (idx ++ [some 1]) imm r
  | ty, idx, _, .deslice0 :: r =>
    match (if idx.isEmpty then (extract0 ty).map (fun a => ([Op.ext0 ty], a))
           else (flushT fs ty (idx ++ [some 0])).bind loadT) with
    | some (ops, a) => (runT fs a [some 0] false r).map (fun x => (ops ++ x.1, x.2))
    | none => none
  | ty, idx, imm, .auto _ :: r =>
    if (peek imm idx r.head?).imm then runT fs ty (peek imm idx r.head?).idx false r
    else
      match (flushT fs ty (peek imm idx r.head?).idx).bind loadT with
      | some (ops, a) =>
        (runT fs a (if (peek imm idx r.head?).followed then [some 0] else []) false r).map (fun x => (ops ++ x.1, x.2))
      | none => none

/-! ### the lowering of types -/

def primBits : Prim → Nat
  | .i8 | .u8 | .char8 => 8
  | .i16 | .u16 => 16
  | .i32 | .u32 => 32
  | .i64 | .u64 | .usize => 64
  | .i128 | .u128 => 128
  | .bool => 1

/-- `impl Generatable for ValueType` (a named length stands for its value; placeholders do not reach the generator) -/
def lower : Ty → LTy
  | .void => .bad
  | .prim p => .int (primBits p)
  | .array e n => .arr n (lower e)
  | .arrayNamed e x => .arr x (lower e)
  | .slice e => .slice (lower e)
  | .slicePtr e => .slice (lower e)
  | .endless e => lower e
  | .arraylike e => lower e
  | .struct i => .struct i
  | .word i _ => .struct i
  | .unresolved _ => .bad
  | .pointer d => .ptr (lower d)
  | .view d => .ptr (lower d)

def lowerFields (ms : Members) : Fields := fun i m => (ms i m).map lower

/-! ### the elaboration, with what the generator is told about each step -/

def erase : GStep → Step
  | .elem _ => .elem
  | .member m => .member m
  | .auto false => .deref
  | .auto true => .view
  | .deslice0 => .deslice
  | .deslice1 => .deslice

def peelG : Ty → List GStep × Ty
  | .pointer t => let r := peelG t; (.auto false :: r.1, r.2)
  | .view t => let r := peelG t; (.auto true :: r.1, r.2)
  | t => ([], t)

def indexableG : Ty → Option (List GStep × Bool × Ty)
  | .array e _ => some ([], false, e)
  | .arrayNamed e _ => some ([], false, e)
  | .endless e => some ([], true, e)
  | .slice e => some ([.deslice0], false, e)
  | .slicePtr e => some ([.deslice0], false, e)
  | _ => none

/-- `analyze_assignment_steps` followed by the resolver: `Types.Ty.elaborate` with `is_endless` and the deslice offset -/
def elaborateG (ms : Members) : Ty → List UStep → Option (List GStep × Ty)
  | t, [] => some ([], t)
  | t, .elem :: rest =>
    let p := peelG t
    match indexableG p.2 with
    | some (ds, en, e) => (elaborateG ms e rest).map (fun r => (p.1 ++ ds ++ [.elem en] ++ r.1, r.2))
    | none => none
  | t, .member m :: rest =>
    let p := peelG t
    match p.2 with
    | .struct i => (match ms i m with
        | some mt => (elaborateG ms mt rest).map (fun r => (p.1 ++ [.member m] ++ r.1, r.2))
        | none => none)
    | .word i _ => (match ms i m with
        | some mt => (elaborateG ms mt rest).map (fun r => (p.1 ++ [.member m] ++ r.1, r.2))
        | none => none)
    | _ => none

/-- what may be stored (`under = false`: `is_wellformed_element`) and what may be pointed to or viewed
    (`under = true`: `is_wellformed_inner`, where an endless array may stand) -/
def WF : Bool → Ty → Bool
  | _, .void => false
  | _, .slice _ => false
  | _, .slicePtr _ => false
  | _, .view _ => false
  | u, .endless e => u && WF false e
  | _, .array e _ => WF false e
  | _, .arrayNamed e _ => WF false e
  | _, .arraylike e => WF false e
  | _, .pointer d => WF true d
  | _, .prim _ => true
  | _, .struct _ => true
  | _, .word _ _ => true
  | _, .unresolved _ => true

end Addr
end Gen
