/-
  C03 — the decisions `generator.rs: declare` takes for a function symbol.
-/
namespace Gen

structure Flags where
  pub : Bool := false       -- DeclarationFlag::Public
  main : Bool := false      -- DeclarationFlag::Main (the function is called `main`)
  forward : Bool := false   -- DeclarationFlag::Forward (declared by a head, defined later or elsewhere)
  ext : Bool := false       -- DeclarationFlag::External (`extern`)
  deriving DecidableEq, Repr

inductive Linkage where
  | external | privateL
  deriving DecidableEq, Repr

inductive CallConv where
  | c | fast
  deriving DecidableEq, Repr

def linkage (f : Flags) : Linkage := if f.pub || f.main || f.forward then .external else .privateL
/-- `extern` functions and the entry point (both are called from outside) use the C convention -/
def callconv (f : Flags) : CallConv := if f.ext || f.main then .c else .fast

end Gen
