import PenneModel.Types.ValueType
/-
  C07 — when do two types agree?  Model of the relations of `src/alpha/value_type.rs` that the typer uses to unify the
  type a declaration, parameter or member is known to have with the type of the value it receives
  (`typer.rs: do_update_symbol`): `equals`, `is_like`, `can_be_declared_as`, `can_be_concretization_of`,
  `can_coerce_into`, `can_coerce_address_into`.

  Unlike `Types.VT` (C11: which types may stand where) this type keeps what agreement depends on: array lengths, the
  names of named lengths, structure / word identities, and the placeholders of inference (`[]T` as written,
  a structure literal whose name is not resolved yet).
-/
namespace Types

inductive Ty where
  | void
  | prim (p : Prim)
  | array (t : Ty) (n : Nat)            -- `[n]T`
  | arrayNamed (t : Ty) (name : Nat)    -- `[NAME]T`
  | slice (t : Ty)
  | slicePtr (t : Ty)
  | endless (t : Ty)
  | arraylike (t : Ty)                  -- `[]T` before it is fixed: a placeholder for array / slice / endless array
  | struct (id : Nat)
  | word (id : Nat) (size : Nat)
  | unresolved (id : Option Nat)        -- a structure or word that is not resolved yet
  | pointer (t : Ty)
  | view (t : Ty)
  deriving DecidableEq, Repr

namespace Ty

/-- `is_alias_of` -/
def isAliasOf : Ty → Ty → Bool
  | .prim .char8, .prim .u8 => true
  | _, _ => false

/-- `equals` (private): identity up to the alias char8 / u8 -/
def equals : Ty → Ty → Bool
  | .array a la, o => (match o with | .array b lb => la == lb && equals a b | _ => false)
  | .arrayNamed a x, o => (match o with | .arrayNamed b y => x == y && equals a b | _ => false)
  | .slice a, o => (match o with | .slice b => equals a b | _ => false)
  | .slicePtr a, o => (match o with | .slicePtr b => equals a b | _ => false)
  | .endless a, o => (match o with | .endless b => equals a b | _ => false)
  | .arraylike a, o => (match o with | .arraylike b => equals a b | _ => false)
  | .struct i, o => o == .struct i
  | .word i s, o => o == .word i s
  | .view a, o => (match o with | .view b => equals a b | _ => false)
  | .pointer a, o => (match o with | .pointer b => equals a b | _ => false)
  | s, o => s == o || isAliasOf s o || isAliasOf o s

/-- `is_like` (private) -/
def isLike : Ty → Ty → Bool
  | .array a n, o => (match o with | .arraylike b => isLike a b | _ => o == .array a n)
  | .arrayNamed a x, o => (match o with | .arraylike b => isLike a b | _ => o == .arrayNamed a x)
  | .endless a, o => (match o with | .arraylike b => isLike a b | _ => o == .endless a)
  | .pointer a, o => (match o with | .pointer b => isLike a b | _ => o == .pointer a)
  | .view a, o => (match o with | .view b => isLike a b | _ => o == .view a)
  | .struct i, o =>
    (match o with
     | .unresolved none => true
     | .unresolved (some j) => i == j
     | _ => o == .struct i)
  | .word i s, o =>
    (match o with
     | .unresolved none => true
     | .unresolved (some j) => i == j
     | _ => o == .word i s)
  | s, o => s == o

/-- `can_be_declared_as` -/
def canBeDeclaredAs : Ty → Ty → Bool
  | .array a n, o => (match o with | .arraylike b => a == b | _ => o == .array a n)
  | .arrayNamed a x, o => (match o with | .arraylike b => a == b | _ => o == .arrayNamed a x)
  | .slice a, o => (match o with | .arraylike b => a == b | _ => o == .slice a)
  | .slicePtr a, o =>
    (match o with
     | .pointer d => (match d with | .arraylike b => a == b | _ => false)
     | _ => o == .slicePtr a)
  | s, o => s == o

/-- `can_be_concretization_of`: `self` is what `other` (possibly holding placeholders) may turn out to be -/
def conc : Ty → Ty → Bool
  | .array a la, o => (match o with | .array b lb => la == lb && conc a b | _ => isLike (.array a la) o)
  | .arrayNamed a x, o => (match o with | .arrayNamed b y => x == y && conc a b | _ => isLike (.arrayNamed a x) o)
  | .slice a, o =>
    (match o with
     | .slice b => conc a b
     | .arraylike b => isLike a b
     | _ => o == .slice a)
  | .slicePtr a, o =>
    (match o with
     | .slicePtr b => conc a b
     | .arraylike b => isLike a b
     | .pointer d => (match d with | .arraylike b => isLike a b | _ => o == .slicePtr a)
     | _ => o == .slicePtr a)
  | .endless a, o => (match o with | .endless b => conc a b | _ => isLike (.endless a) o)
  | .arraylike a, o => (match o with | .arraylike b => conc a b | _ => o == .arraylike a)
  | .struct i, o =>
    (match o with
     | .unresolved none => true
     | .unresolved (some j) => i == j
     | _ => o == .struct i)
  | .word i s, o =>
    (match o with
     | .unresolved none => true
     | .unresolved (some j) => i == j
     | _ => o == .word i s)
  | .view a, o => (match o with | .view b => conc a b | _ => o == .view a)
  | .pointer a, o => (match o with | .pointer b => conc a b | _ => o == .pointer a)
  | s, o => s == o

/-- `can_coerce_into` -/
def coerceInto : Ty → Ty → Bool
  | .array a _, o =>
    (match o with
     | .slice b => equals a b
     | .view d => (match d with | .endless b => equals a b | _ => false)
     | _ => false)
  | .arrayNamed a _, o =>
    (match o with
     | .slice b => equals a b
     | .view d => (match d with | .endless b => equals a b | _ => false)
     | _ => false)
  | .slice a, o =>
    (match o with
     | .view d => (match d with | .endless b => equals a b | _ => false)
     | _ => false)
  | .slicePtr a, o =>
    (match o with
     | .pointer d => (match d with | .endless b => equals a b | _ => false)
     | _ => false)
  | .struct i, o => (match o with | .view d => d == .struct i | _ => false)
  | _, _ => false

/-- `can_coerce_address_into` -/
def coerceAddressInto : Ty → Ty → Bool
  | .array a _, o =>
    (match o with
     | .slicePtr b => equals a b
     | .pointer d => (match d with | .endless b => equals a b | _ => false)
     | _ => false)
  | .arrayNamed a _, o =>
    (match o with
     | .slicePtr b => equals a b
     | .pointer d => (match d with | .endless b => equals a b | _ => false)
     | _ => false)
  | _, _ => false

/-- `can_subautoderef_into` (private): what can be reached by following pointers and views below the first one -/
def subAutoderef : Ty → Ty → Bool
  | .view d, o => equals d o || subAutoderef d o || (match o with | .view t => subAutoderef d t | _ => false)
  | .pointer d, o => equals d o || subAutoderef d o || (match o with | .pointer t => subAutoderef d t | _ => false)
  | _, _ => false

/-- `can_autoderef_into`: the type a reference of type `self` may be read as where `other` is expected -/
def autoderef : Ty → Ty → Bool
  | .array a n, o => equals (.array a n) o || coerceInto (.array a n) o
  | .arrayNamed a x, o => equals (.arrayNamed a x) o || coerceInto (.arrayNamed a x) o
  | .slice a, o => equals (.slice a) o || coerceInto (.slice a) o
  | .slicePtr a, o => equals (.slicePtr a) o || coerceInto (.slicePtr a) o
  | .endless a, o => equals (.endless a) o || coerceInto (.endless a) o
  | .struct i, o => equals (.struct i) o || coerceInto (.struct i) o
  | .view d, o =>
    equals (.view d) o || equals d o || subAutoderef d o || (match o with | .view t => subAutoderef d t | _ => false)
  | .pointer d, o =>
    equals (.pointer d) o || equals d o || coerceAddressInto d o || subAutoderef d o
      || (match o with | .pointer t => subAutoderef d t | _ => false)
  | _, _ => false

/-- does the type hold an address anywhere (a pointer or a slice pointer)? -/
def holdsAddress : Ty → Bool
  | .pointer _ => true
  | .slicePtr _ => true
  | .array t _ | .arrayNamed t _ | .slice t | .endless t | .arraylike t | .view t => holdsAddress t
  | _ => false

/-- `do_update_symbol` (typer.rs): `ot` is the type the symbol has, `vt` the type it now receives; `symAuth`: the symbol's
    type was written by the programmer, `newAuth`: the new type was.  `none` is E500 / E504 / E512 (conflicting types). -/
def update (ot vt : Ty) (symAuth newAuth : Bool) : Option Ty :=
  if ot == vt || conc ot vt then some ot
  else if symAuth && canBeDeclaredAs vt ot then some vt
  else if newAuth && (conc vt ot || coerceInto vt ot) then some vt
  else none

/-- fully known: no `[]T` placeholder and no unresolved structure anywhere -/
def Concrete : Ty → Bool
  | .arraylike _ => false
  | .unresolved _ => false
  | .array t _ | .arrayNamed t _ | .slice t | .slicePtr t | .endless t | .pointer t | .view t => Concrete t
  | _ => true

/-- char8 read as its alias u8, everywhere -/
def unalias : Ty → Ty
  | .prim .char8 => .prim .u8
  | .array t n => .array (unalias t) n
  | .arrayNamed t x => .arrayNamed (unalias t) x
  | .slice t => .slice (unalias t)
  | .slicePtr t => .slicePtr (unalias t)
  | .endless t => .endless (unalias t)
  | .arraylike t => .arraylike (unalias t)
  | .pointer t => .pointer (unalias t)
  | .view t => .view (unalias t)
  | t => t

end Ty

open Sexp in
def tyOfSexp : Nat → Sexp → Option Ty
  | 0, _ => none
  | k + 1, s =>
    match s with
    | .atom "void" => some .void
    | .atom "i8" => some (.prim .i8) | .atom "i16" => some (.prim .i16) | .atom "i32" => some (.prim .i32)
    | .atom "i64" => some (.prim .i64) | .atom "i128" => some (.prim .i128) | .atom "u8" => some (.prim .u8)
    | .atom "u16" => some (.prim .u16) | .atom "u32" => some (.prim .u32) | .atom "u64" => some (.prim .u64)
    | .atom "u128" => some (.prim .u128) | .atom "usize" => some (.prim .usize) | .atom "char8" => some (.prim .char8)
    | .atom "bool" => some (.prim .bool)
    | .atom "unresolved" => some (.unresolved none)
    | .list [.atom "array", n, t] => do some (.array (← tyOfSexp k t) (← n.toNat?))
    | .list [.atom "named", x, t] => do some (.arrayNamed (← tyOfSexp k t) (← x.toNat?))
    | .list [.atom "slice", t] => (tyOfSexp k t).map .slice
    | .list [.atom "sliceptr", t] => (tyOfSexp k t).map .slicePtr
    | .list [.atom "endless", t] => (tyOfSexp k t).map .endless
    | .list [.atom "arraylike", t] => (tyOfSexp k t).map .arraylike
    | .list [.atom "struct", i] => do some (.struct (← i.toNat?))
    | .list [.atom "word", i, sz] => do some (.word (← i.toNat?) (← sz.toNat?))
    | .list [.atom "unresolved", i] => do some (.unresolved (some (← i.toNat?)))
    | .list [.atom "pointer", t] => (tyOfSexp k t).map .pointer
    | .list [.atom "view", t] => (tyOfSexp k t).map .view
    | _ => none

end Types
