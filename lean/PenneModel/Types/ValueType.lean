import PenneModel.Sexp
/-
  C11 — which types may stand where.  Model of the legality predicates of `src/alpha/value_type.rs`
  (`is_wellformed`, `can_be_*`), of `typer.rs: fix_type_for_flags / externalize_type`, and of the order in which the
  stages apply them (parser: E350; typer: E351, E353, E354, E356, E358; function_calls analyzer: E352).
-/
namespace Types

inductive Prim where
  | i8 | i16 | i32 | i64 | i128 | u8 | u16 | u32 | u64 | u128 | usize | char8 | bool
  deriving DecidableEq, Repr

inductive VT where
  | void
  | prim (p : Prim)
  | array (t : VT)          -- `[N]T` and `[NAME]T`
  | slice (t : VT)          -- `[:]T`
  | slicePtr (t : VT)       -- `&[]T` after fixing
  | endless (t : VT)        -- `[..]T`
  | arraylike (t : VT)      -- `[]T` as written
  | struct
  | word
  | pointer (t : VT)        -- `&T`
  | view (t : VT)           -- `(T)`
  deriving DecidableEq, Repr

def canBeElement : VT → Bool
  | .void | .slice _ | .slicePtr _ | .endless _ | .view _ => false
  | _ => true

/-- `is_wellformed_sized_element`: the elements of an array with a length have a size, which `[]T` lacks (F60) -/
def canBeSizedElement : VT → Bool
  | .arraylike _ => false
  | t => canBeElement t

mutual
def isWellformed : VT → Bool
  | .array t => canBeSizedElement t && isWellformedInner t
  | .slice t | .slicePtr t | .endless t | .arraylike t => canBeElement t && isWellformedInner t
  | .pointer t | .view t => isWellformedInner t
  | _ => true
def isWellformedInner : VT → Bool
  | .void => false
  | .array t => canBeSizedElement t && isWellformedInner t
  | .endless t | .arraylike t => canBeElement t && isWellformedInner t
  | .slice _ | .slicePtr _ | .view _ => false
  | .pointer t => isWellformedInner t
  | _ => true
end

def canBeStructMember (t : VT) : Bool :=
  match t with
  | .void | .slice _ | .slicePtr _ | .endless _ | .arraylike _ | .view _ => false
  | _ => isWellformed t

/-- `known_size_in_bytes_as_word_member().is_some()` -/
def hasWordSize : VT → Bool
  | .prim .usize => false
  | .prim _ => true
  | .word => true
  | _ => false

def canBeWordMember (t : VT) : Bool := canBeStructMember t && hasWordSize t

def canBeConstant (t : VT) : Bool :=
  match t with
  | .void | .slice _ | .slicePtr _ | .endless _ | .arraylike _ => false
  | _ => isWellformed t

def canBeVariable (t : VT) : Bool :=
  match t with
  | .void | .slicePtr _ | .endless _ | .arraylike _ | .view _ => false
  | _ => isWellformed t

def canBeParameter (t : VT) : Bool :=
  match t with
  | .void | .array _ | .endless _ | .arraylike _ | .struct => false
  | _ => isWellformed t

def canBeReturned (t : VT) : Bool :=
  match t with
  | .array _ | .slice _ | .slicePtr _ | .endless _ | .arraylike _ | .struct | .view _ => false
  | _ => isWellformed t

inductive Ctx where
  | const | member | parameter | returned
  deriving DecidableEq, Repr

/-- `externalize_type`: `none` = E358 -/
def externalize : VT → Option VT
  | .arraylike t => (externalize t).map .endless
  | .pointer t => (externalize t).map .pointer
  | .view t => (externalize t).map .view
  | .prim p => match p with
    | .i128 | .u128 | .bool => none
    | _ => some (.prim p)
  | _ => none

/-- `fix_type_for_flags`: the fixed type, or the code of the error it raises -/
def fixType (ext : Bool) (ctx : Ctx) (t : VT) : Except Nat VT :=
  if ext then
    let r := match t with
      | .arraylike e => (externalize e).map (fun e' => VT.view (.endless e'))
      | t => externalize t
    match r with
    | none => .error 358
    | some t' => if isWellformed t' then .ok t' else .error 350   -- e.g. an endless array of endless arrays
  else
    match t with
    | .arraylike e => .ok (.slice e)
    | .struct => (match ctx with
        | .parameter | .returned => .ok (.view .struct)
        | _ => .ok .struct)
    | .pointer (.arraylike e) => .ok (.slicePtr e)
    | t => .ok t

inductive Position where
  | variable | constant | parameter | returned | structMember | wordMember | externParameter | externReturned
  deriving DecidableEq, Repr

def checkWith (r : Except Nat VT) (ok : VT → Bool) (code : Nat) : Nat :=
  match r with
  | .error c => c
  | .ok t' => if ok t' then 0 else code

/-- the first diagnostic the compiler raises for a type written in a declaration position; 0 = accepted -/
def legality (pos : Position) (t : VT) : Nat :=
  if !isWellformed t then 350
  else match pos with
    | .variable => if canBeVariable t then 0 else 352
    | .constant => checkWith (fixType false .const t) canBeConstant 353
    | .parameter => checkWith (fixType false .parameter t) canBeParameter 354
    | .returned => if t == .void then 0 else checkWith (fixType false .returned t) canBeReturned 351
    | .structMember => checkWith (fixType false .member t) canBeStructMember 356
    | .wordMember => checkWith (fixType false .member t) canBeWordMember 356
    | .externParameter => checkWith (fixType true .parameter t) canBeParameter 354
    | .externReturned => if t == .void then 0 else checkWith (fixType true .returned t) canBeReturned 351

open Sexp in
def vtOfSexp : Nat → Sexp → Option VT
  | 0, _ => none
  | k + 1, s =>
    match s with
    | .atom "void" => some .void
    | .atom "struct" => some .struct
    | .atom "word" => some .word
    | .atom "i8" => some (.prim .i8) | .atom "i16" => some (.prim .i16) | .atom "i32" => some (.prim .i32)
    | .atom "i64" => some (.prim .i64) | .atom "i128" => some (.prim .i128) | .atom "u8" => some (.prim .u8)
    | .atom "u16" => some (.prim .u16) | .atom "u32" => some (.prim .u32) | .atom "u64" => some (.prim .u64)
    | .atom "u128" => some (.prim .u128) | .atom "usize" => some (.prim .usize) | .atom "char8" => some (.prim .char8)
    | .atom "bool" => some (.prim .bool)
    | .list [.atom "array", t] => (vtOfSexp k t).map .array
    | .list [.atom "slice", t] => (vtOfSexp k t).map .slice
    | .list [.atom "endless", t] => (vtOfSexp k t).map .endless
    | .list [.atom "arraylike", t] => (vtOfSexp k t).map .arraylike
    | .list [.atom "pointer", t] => (vtOfSexp k t).map .pointer
    | .list [.atom "view", t] => (vtOfSexp k t).map .view
    | _ => none

def positionOf (s : String) : Option Position :=
  match s with
  | "variable" => some .variable | "constant" => some .constant | "parameter" => some .parameter
  | "returned" => some .returned | "structMember" => some .structMember | "wordMember" => some .wordMember
  | "externParameter" => some .externParameter | "externReturned" => some .externReturned
  | _ => none

end Types
